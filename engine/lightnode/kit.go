package lightnode

import (
	"bytes"
	"crypto/sha256"
	"fmt"

	"github.com/elastos/Elastos.ELA/auxpow"
	"github.com/elastos/Elastos.ELA/blockchain"
	"github.com/elastos/Elastos.ELA/common"
	"github.com/elastos/Elastos.ELA/core"
	"github.com/elastos/Elastos.ELA/core/contract"
	"github.com/elastos/Elastos.ELA/core/contract/program"
	"github.com/elastos/Elastos.ELA/core/transaction"
	"github.com/elastos/Elastos.ELA/core/types"
	common2 "github.com/elastos/Elastos.ELA/core/types/common"
	"github.com/elastos/Elastos.ELA/core/types/interfaces"
	"github.com/elastos/Elastos.ELA/core/types/outputpayload"
	"github.com/elastos/Elastos.ELA/core/types/payload"
	"github.com/elastos/Elastos.ELA/crypto"
)

// Key is a harness-owned key pair derived from a fixed label (no randomness).
type Key struct {
	Priv []byte
	Pub  *crypto.PublicKey
	// Compressed is the 33-byte encoding used for arbiter node public keys.
	Compressed []byte
}

// FixedKey derives key number i of a namespace deterministically.
func FixedKey(namespace string, i int) Key {
	for ctr := 0; ; ctr++ {
		d := sha256.Sum256([]byte(fmt.Sprintf("verif-lightnode-key|%s|%d|%d", namespace, i, ctr)))
		if d[0] == 0 { // keep the scalar full length and well below the group order
			continue
		}
		d[0] &= 0x7f
		priv := append([]byte{}, d[:]...)
		pub := crypto.NewPubKey(priv)
		if pub == nil || pub.X == nil {
			continue
		}
		enc, err := pub.EncodePoint(true)
		if err != nil {
			continue
		}
		return Key{Priv: priv, Pub: pub, Compressed: enc}
	}
}

// StandardCode / StandardHash of a key.
func (k Key) StandardCode() []byte {
	c, err := contract.CreateStandardRedeemScript(k.Pub)
	if err != nil {
		panic(err)
	}
	return c
}

func (k Key) StandardHash() common.Uint168 {
	return *common.ToProgramHash(byte(contract.PrefixStandard), k.StandardCode())
}

// CrossChainCode builds the arbiter-style cross-chain script "m <keys…> n CROSSCHAIN"
// (keys in the given order — callers decide about sorting).
func CrossChainCode(m int, keys [][]byte, nOverride int) []byte {
	const push1 = 0x51
	const crossChainOp = 0xAF
	n := len(keys)
	if nOverride >= 0 {
		n = nOverride
	}
	buf := new(bytes.Buffer)
	buf.WriteByte(byte(push1 + m - 1))
	for _, k := range keys {
		buf.WriteByte(byte(len(k)))
		buf.Write(k)
	}
	buf.WriteByte(byte(push1 + n - 1))
	buf.WriteByte(crossChainOp)
	return buf.Bytes()
}

// Output builds a plain ELA output.
func Output(ph common.Uint168, v common.Fixed64) *common2.Output {
	return &common2.Output{AssetID: core.ELAAssetID, Value: v, ProgramHash: ph,
		Type: common2.OTNone, Payload: &outputpayload.DefaultOutput{}}
}

// Fund persists a block holding one synthetic TransferAsset transaction with the given outputs
// (no inputs: the store seam needs none) and returns that transaction; its outputs are real
// unspent outputs of the node afterwards.
func (n *Node) Fund(nonce string, outs ...*common2.Output) (interfaces.Transaction, error) {
	attr := common2.NewAttribute(common2.Nonce, []byte(nonce))
	tx := transaction.CreateTransaction(common2.TxVersion09, common2.TransferAsset, 0,
		&payload.TransferAsset{}, []*common2.Attribute{&attr}, nil, outs, 0, nil)
	if _, err := n.SaveBlock(tx); err != nil {
		return nil, err
	}
	return tx, nil
}

// Input spending output idx of tx.
func Input(tx interfaces.Transaction, idx int) *common2.Input {
	return &common2.Input{Previous: common2.OutPoint{TxID: tx.Hash(), Index: uint16(idx)}, Sequence: 0}
}

// Unsigned is the signed part of a transaction (SerializeUnsigned).
func Unsigned(tx interfaces.Transaction) []byte {
	buf := new(bytes.Buffer)
	tx.SerializeUnsigned(buf)
	return buf.Bytes()
}

// SignStandard returns the program that spends a standard address of k for tx.
func SignStandard(tx interfaces.Transaction, k Key) (*program.Program, error) {
	sig, err := crypto.Sign(k.Priv, Unsigned(tx))
	if err != nil {
		return nil, err
	}
	return &program.Program{Code: k.StandardCode(), Parameter: append([]byte{byte(len(sig))}, sig...)}, nil
}

// SignCrossChain returns a program with the given cross-chain script signed by signers.
func SignCrossChain(tx interfaces.Transaction, code []byte, signers []Key) (*program.Program, error) {
	var param []byte
	data := Unsigned(tx)
	for _, k := range signers {
		sig, err := crypto.Sign(k.Priv, data)
		if err != nil {
			return nil, err
		}
		param = append(param, byte(len(sig)))
		param = append(param, sig...)
	}
	return &program.Program{Code: code, Parameter: param}, nil
}

// Coinbase builds a coinbase transaction for a block at the given height paying reward to the
// foundation / CR-assets address and the miner address in a 30/70 split.
func (n *Node) Coinbase(height uint32, miner common.Uint168, reward common.Fixed64, nonce uint64) interfaces.Transaction {
	first := *n.Params.FoundationProgramHash
	if height >= n.Params.CRConfiguration.CRCommitteeStartHeight {
		first = *n.Params.CRConfiguration.CRAssetsProgramHash
	}
	nb := make([]byte, 8)
	for i := 0; i < 8; i++ {
		nb[i] = byte(nonce >> (8 * uint(i)))
	}
	attr := common2.NewAttribute(common2.Nonce, nb)
	f := common.Fixed64(float64(reward) * 0.3)
	f++ // never below 30% after float truncation
	return transaction.CreateTransaction(common2.TxVersion09, common2.CoinBase, payload.CoinBaseVersion,
		&payload.CoinBase{Content: []byte("verif")}, []*common2.Attribute{&attr},
		[]*common2.Input{{Previous: common2.OutPoint{TxID: common.EmptyHash, Index: 0xffff}, Sequence: 0xffffffff}},
		[]*common2.Output{Output(first, f), Output(miner, reward-f)}, height, []*program.Program{})
}

// MakeBlock assembles a block on the node's chain tip (BlockChain.BestChain): coinbase first,
// merkle root, easiest difficulty bits and a solved merged-mining proof, so that
// BlockChain.CheckBlockSanity judges its contents. Timestamps are tip + 2 (no clock).
func (n *Node) MakeBlock(txs ...interfaces.Transaction) (*types.Block, error) {
	tip := n.Chain.BestChain
	height := tip.Height + 1
	all := append([]interfaces.Transaction{n.Coinbase(height, FixedKey("miner", 0).StandardHash(), 1000000, uint64(height))}, txs...)
	var ids []common.Uint256
	for _, t := range all {
		ids = append(ids, t.Hash())
	}
	root, err := crypto.ComputeRoot(ids)
	if err != nil {
		return nil, err
	}
	b := &types.Block{
		Header: common2.Header{
			Version:    0,
			Previous:   *tip.Hash,
			MerkleRoot: root,
			Timestamp:  tip.Timestamp + 2,
			Bits:       0x207fffff,
			Height:     height,
			Nonce:      0,
		},
		Transactions: all,
	}
	ap := auxpow.GenerateAuxPow(b.Header.Hash())
	ap.ParBlockHeader.Timestamp = b.Header.Timestamp
	target := blockchain.CompactToBig(b.Header.Bits)
	for nonce := uint32(0); ; nonce++ {
		ap.ParBlockHeader.Nonce = nonce
		h := ap.ParBlockHeader.Hash()
		if blockchain.HashToBig(&h).Cmp(target) <= 0 {
			break
		}
		if nonce > 1<<20 {
			return nil, fmt.Errorf("no proof of work found")
		}
	}
	b.Header.AuxPow = *ap
	return b, nil
}
