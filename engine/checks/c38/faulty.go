package main

// Third environment family of C38: FAULTY secure sources as environment answers.
//
// crypto/rand.Reader is replaced, for every entry point, by
//
//	err        a reader that always fails
//	short:n    a healthy reader that returns at most n bytes per call (n = 1, 16, 31), nil error
//	good:k     a reader that serves k good bytes and then fails for good
//
// each with two different good-byte values (0x11, 0x22). Oracle: the entry point either fails
// cleanly (error, no panic) or returns a secret that was really drawn from the stream: good
// bytes delivered >= secret bytes, and the secret depends on the stream (directly observed
// secrets: at every byte position; secrets observed through a public image: as a whole). A
// secret returned although the source could not supply it is
// `C38|secret-despite-source-failure|<entry point>`.

import (
	crand "crypto/rand"
	"encoding/hex"
	"encoding/json"
	"errors"
	"fmt"
	mrand "math/rand"
	"os"
	"path/filepath"
	"runtime/debug"
	"strconv"
	"strings"
	"time"

	"verif/evid"
	"verif/hx"
	"verif/par"
)

const readHorizon = 100000

type faultyReader struct {
	good      byte
	chunk     int // > 0: at most chunk bytes per call
	budget    int // >= 0: good bytes left before the reader fails; -1 = unlimited
	delivered int64
	failed    bool
	calls     int
}

var errSource = errors.New("verif: secure random source unavailable")

func (r *faultyReader) Read(p []byte) (int, error) {
	r.calls++
	if r.calls > readHorizon {
		panic("verif-horizon: more than 100000 reads of the secure source in one call")
	}
	n := len(p)
	if r.chunk > 0 && n > r.chunk {
		n = r.chunk
	}
	if r.budget >= 0 {
		if r.budget == 0 {
			r.failed = true
			return 0, errSource
		}
		if n > r.budget {
			n = r.budget
		}
		r.budget -= n
	}
	for i := 0; i < n; i++ {
		p[i] = r.good
	}
	r.delivered += int64(n)
	return n, nil
}

func newFaulty(spec string, good byte) *faultyReader {
	r := &faultyReader{good: good, budget: -1}
	kind, arg, _ := strings.Cut(spec, ":")
	v, _ := strconv.Atoi(arg)
	switch kind {
	case "err":
		r.budget = 0
	case "short":
		r.chunk = v
	case "good":
		r.budget = v
	default:
		panic("fault spec " + spec)
	}
	return r
}

func faultSpecs(thorough bool) []string {
	specs := []string{"err", "short:1", "short:16", "short:31"}
	ks := []int{0, 1, 16, 31, 32, 33, 48, 64, 80, 96}
	if thorough {
		ks = nil
		for k := 0; k <= 130; k++ {
			ks = append(ks, k)
		}
	}
	for _, k := range ks {
		specs = append(specs, fmt.Sprintf("good:%d", k))
	}
	return specs
}

type faultRun struct {
	Good      int    `json:"good_byte"`
	Outcome   string `json:"outcome"` // ok | error | panic
	Detail    string `json:"detail,omitempty"`
	Secret    string `json:"secret_hex,omitempty"`
	Delivered int64  `json:"good_bytes_delivered"`
	Failed    bool   `json:"source_failed"`
}

type faultOut struct {
	Entry   string     `json:"entry"`
	Spec    string     `json:"fault"`
	Runs    []faultRun `json:"runs"`
	Horizon bool       `json:"horizon,omitempty"`
}

var goodBytes = []byte{0x11, 0x22}

// faultWorker runs one entry point under one fault, once per good-byte value.
func faultWorker(idx int, spec string) {
	scr := evid.Scratch("c38w")
	defer os.RemoveAll(scr)
	hx.QuietLogs(scr)
	e := entries()[idx]
	mrand.Seed(1)
	null, _ := os.OpenFile(os.DevNull, os.O_WRONLY, 0)
	saved := os.Stdout
	out := faultOut{Entry: e.Name, Spec: spec}
	for gi, g := range goodBytes {
		fr := newFaulty(spec, g)
		crand.Reader = fr
		d := filepath.Join(scr, fmt.Sprintf("g%d", gi))
		os.MkdirAll(d, 0o755)
		run := faultRun{Good: int(g)}
		os.Stdout = null
		func() {
			defer func() {
				if x := recover(); x != nil {
					run.Outcome = "panic"
					run.Detail = fmt.Sprint(x)
					if strings.HasPrefix(run.Detail, "verif-horizon") {
						out.Horizon = true
					} else {
						run.Detail += " @ " + evid.PanicSite(debug.Stack())
					}
				}
			}()
			secret, err := e.Run(d)
			if err != nil {
				run.Outcome, run.Detail = "error", err.Error()
			} else {
				run.Outcome, run.Secret = "ok", hex.EncodeToString(secret)
			}
		}()
		os.Stdout = saved
		run.Delivered, run.Failed = fr.delivered, fr.failed
		out.Runs = append(out.Runs, run)
	}
	par.Emit(out)
}

func runFaults(idx int, specs []string, scr string) []faultOut {
	var jobs []string
	for _, s := range specs {
		jobs = append(jobs, fmt.Sprintf("f|%d|%s", idx, s))
	}
	rs := par.Procs(jobs, scr, par.Opts{Timeout: 3 * time.Minute, Parallel: 4})
	var outs []faultOut
	for _, r := range rs {
		var o faultOut
		if r.Died || r.Out == nil {
			evid.Fatalf("faulty-source worker %s died: %s", r.Job, r.Stderr)
		}
		if err := json.Unmarshal(r.Out, &o); err != nil {
			evid.Fatalf("worker output: %v", err)
		}
		if o.Horizon {
			evid.Fatalf("%s under fault %s read the secure source more than %d times in one call (horizon)", o.Entry, o.Spec, readHorizon)
		}
		outs = append(outs, o)
	}
	return outs
}

type faultStats struct {
	runs, ok, failedCleanly, pairsCompared int
}

// directSecret: the observed value is the secret itself (not a public image of it).
func directSecret(e entry) bool {
	return !strings.Contains(e.What, "observed through")
}

func judgeFaults(r *evid.Run, e entry, outs []faultOut, st *faultStats) {
	violate := func(o faultOut, why string) {
		r.Violate("C38|secret-despite-source-failure|"+e.Name,
			fmt.Sprintf("%s returns %s although the secure source could not supply it (%s)", e.Name, e.What, why),
			map[string]interface{}{"entry": e.Name, "kind": "fault", "fault": o.Spec, "runs": o.Runs})
	}
	for _, o := range outs {
		var oks []faultRun
		for _, run := range o.Runs {
			st.runs++
			switch run.Outcome {
			case "panic":
				r.Violate("C38|panic-on-source-failure|"+e.Name, fmt.Sprintf("%s panics when the secure source fails", e.Name),
					map[string]interface{}{"entry": e.Name, "kind": "fault", "fault": o.Spec, "runs": o.Runs})
			case "error":
				st.failedCleanly++
			case "ok":
				st.ok++
				oks = append(oks, run)
				if run.Delivered < int64(e.SecretBytes) {
					violate(o, "fewer good bytes were delivered than the secret is long")
				}
			}
		}
		if len(oks) == 2 && len(oks[0].Secret) == len(oks[1].Secret) {
			st.pairsCompared++
			a, _ := hex.DecodeString(oks[0].Secret)
			b, _ := hex.DecodeString(oks[1].Secret)
			if directSecret(e) {
				for i := range a {
					if a[i] == b[i] {
						violate(o, "part of the secret does not depend on the bytes of the secure stream")
						break
					}
				}
			} else if oks[0].Secret == oks[1].Secret {
				violate(o, "the secret does not depend on the bytes of the secure stream")
			}
		}
	}
}
