package dposkit

import (
	"bytes"
	"encoding/binary"
	"errors"
	"fmt"
	"math"
	"sort"
	"strconv"
	"strings"
	"sync"

	"github.com/elastos/Elastos.ELA/common"
	"github.com/elastos/Elastos.ELA/common/config"
	"github.com/elastos/Elastos.ELA/core/checkpoint"
	"github.com/elastos/Elastos.ELA/core/contract/program"
	"github.com/elastos/Elastos.ELA/core/transaction"
	"github.com/elastos/Elastos.ELA/core/types"
	common2 "github.com/elastos/Elastos.ELA/core/types/common"
	"github.com/elastos/Elastos.ELA/core/types/functions"
	"github.com/elastos/Elastos.ELA/core/types/interfaces"
	"github.com/elastos/Elastos.ELA/core/types/outputpayload"
	"github.com/elastos/Elastos.ELA/core/types/payload"
	crstate "github.com/elastos/Elastos.ELA/cr/state"
	"github.com/elastos/Elastos.ELA/dpos/state"
	"github.com/elastos/Elastos.ELA/events"
)

var initOnce sync.Once

// InitFunctions installs the transaction constructors (as every entry point of the repository
// does).
func InitFunctions() {
	initOnce.Do(func() {
		functions.GetTransactionByTxType = transaction.GetTransaction
		functions.GetTransactionByBytes = transaction.GetTransactionByBytes
		functions.CreateTransaction = transaction.CreateTransaction
		functions.GetTransactionParameters = transaction.GetTransactionparameters
	})
}

// Heights of the compressed parameter regime (main-net order of activation kept).
const (
	HVoteStart     = 1  // producers may register and be voted for
	HCRCOnly       = 8  // H1
	HPublicDPOS    = 10 // H2
	HCRVoting      = 11
	HCRCommittee   = 12
	HCRClaimNode   = 13
	HNewCR         = 14 // ChangeCommitteeNewCRHeight = RevertToPOWStartHeight = NoCRCDPOSNodeHeight
	HDPoSV2Start   = 15
	PreConnect     = 1
	NProducers     = 4
	NVoters        = 2
	NCRCSeats      = 2
	NNormalSeats   = 2
	LockupBlocks   = 3 // DepositLockupBlocks
	MinDepositSela = 5000 * 100000000
	V2Votes        = 200     // DPoS v2 votes cast per vote transaction (above DPoSV2EffectiveVotes = 100)
	ClaimAmount    = 300     // DPoS v2 reward claimed per claim transaction
	V2VotesLow     = 99      // one below the threshold; v2one adds a single vote
	V2Lock         = 7200    // lock duration of a DPoS v2 vote (weight log10(7200/720) = 1)
	V2StakeUntil   = 1000000 // StakeUntil of producers upgraded to DPoS v1+v2
)

// World is the fixed cast of a DPoS history: parameters, producers, voters.
type World struct {
	Params  *config.Configuration
	Owner   []*Key // producer owner keys
	Node    []*Key // producer node keys
	NewNode []*Key // node keys used by "update node key"
	Voter   []*Key
	CRCSeat []*Key
	sigMu   sync.Mutex
	sigs    map[string][]byte
}

// NewWorld builds the parameters (shared read-only by every instance of the process).
func NewWorld() *World {
	InitFunctions()
	w := &World{
		Owner: Keys("owner", NProducers), Node: Keys("node", NProducers), NewNode: Keys("node2-", NProducers),
		Voter: Keys("voter", NVoters), CRCSeat: Keys("crcseat", NCRCSeats),
	}
	p := config.GetDefaultParams()
	p.VoteStartHeight = HVoteStart
	p.CRCOnlyDPOSHeight = HCRCOnly
	p.PublicDPOSHeight = HPublicDPOS
	p.EnableActivateIllegalHeight = HPublicDPOS
	p.VoteStatisticsHeight = 0
	p.CRConfiguration.CRVotingStartHeight = HCRVoting
	p.CRConfiguration.CRCommitteeStartHeight = HCRCommittee
	p.CRConfiguration.CRClaimDPOSNodeStartHeight = HCRClaimNode
	p.CRConfiguration.ChangeCommitteeNewCRHeight = HNewCR
	p.CRConfiguration.DepositLockupBlocks = LockupBlocks
	p.CRConfiguration.MemberCount = NCRCSeats
	p.DPoSConfiguration.RevertToPOWStartHeight = HNewCR
	p.DPoSConfiguration.NoCRCDPOSNodeHeight = HNewCR
	p.DPoSConfiguration.PreConnectOffset = PreConnect
	p.DPoSConfiguration.NormalArbitratorsCount = NNormalSeats
	p.DPoSConfiguration.CandidatesCount = 2
	p.DPoSConfiguration.CRCArbiters = []string{w.CRCSeat[0].Hex(), w.CRCSeat[1].Hex()}
	p.DPoSConfiguration.OriginArbiters = []string{w.CRCSeat[0].Hex(), w.CRCSeat[1].Hex()}
	p.DPoSConfiguration.RandomCandidatePeriod = 4
	p.DPoSConfiguration.MaxInactiveRoundsOfRandomNode = 4
	p.DPoSConfiguration.MaxInactiveRounds = 4
	p.DPoSV2StartHeight = HDPoSV2Start
	p.DPoSV2EffectiveVotes = 100
	// lock times are NOT compressed: the vote weight is log10(lock duration/720), which only
	// makes sense for the real durations; votes of the harness lock for exactly 7200 blocks
	p.DPoSConfiguration.DPoSV2DepositCoinMinLockTime = 7200
	p.DPoSConfiguration.DPoSV2MinVotesLockTime = 7200
	p.DPoSConfiguration.SponsorsFilePath = "/nonexistent/verif-sponsors"
	w.Params = p
	return w
}

// signOnce signs data with key k once per process: crypto.Sign is randomised, and the payload
// hash of the evidence (recorded in SpecialTxHashes) covers the signatures, so every instance
// of a run must see the same bytes.
func (w *World) signOnce(k *Key, data []byte) []byte {
	id := k.Label + "/" + string(data)
	w.sigMu.Lock()
	defer w.sigMu.Unlock()
	if s, ok := w.sigs[id]; ok {
		return s
	}
	if w.sigs == nil {
		w.sigs = map[string][]byte{}
	}
	s := k.Sign(data)
	w.sigs[id] = s
	return s
}

// Inst is one fresh DPoS state machine plus the harness-side chain it is fed from.
type Inst struct {
	W      *World
	A      *state.Arbiters
	CR     *crstate.Committee
	Ckp    *checkpoint.Manager
	Height uint32 // height of the last processed block
	Blocks map[uint32]*types.Block
	// confirmation each block was processed with (nil in PoW eras / POW consensus)
	Confirms map[uint32]*payload.Confirm
	// outputs of harness transactions by refer key (the node's UTXO set, for GetTxReference)
	outs map[string]common2.Output
	// vote outpoint currently held by each voter (nil: none)
	voteOut []*common2.OutPoint
	// deposit outpoints of each producer (unspent)
	deposits [][]*common2.OutPoint
	seq      uint32
	// two-transaction blocks: while batching, Process collects transactions instead of
	// building the block
	batching bool
	batch    []interfaces.Transaction
	batchOff uint32
}

// NewInst builds a fresh instance at height 0 (nothing processed).
func (w *World) NewInst() *Inst {
	in := &Inst{W: w, Blocks: map[uint32]*types.Block{}, Confirms: map[uint32]*payload.Confirm{}, outs: map[string]common2.Output{},
		voteOut: make([]*common2.OutPoint, NVoters), deposits: make([][]*common2.OutPoint, NProducers)}
	in.Ckp = checkpoint.NewManager(w.Params)
	in.CR = crstate.NewCommittee(w.Params, in.Ckp)
	a, err := state.NewArbitrators(w.Params, in.CR, nil, nil, nil, nil, nil, nil, nil, in.Ckp)
	if err != nil {
		panic(err)
	}
	in.A = a
	in.wire()
	// NewState subscribes a handler to the process-global event bus and nothing ever
	// unsubscribes; the handler only reacts to CR committee changes, which this seam never
	// emits, so the subscriptions are dropped to keep the bus short.
	events.VerifTruncateSubscribers(0)
	return in
}

// Close stops the checkpoint manager's file goroutines of the instance.
func (in *Inst) Close() { in.Ckp.Close() }

func (in *Inst) wire() {
	in.A.RegisterFunction(
		func() uint32 { return in.Height },
		func() *common.Uint256 {
			if b, ok := in.Blocks[in.Height]; ok {
				h := b.Hash()
				return &h
			}
			return &common.Uint256{}
		},
		func(h uint32) (*types.Block, error) {
			if b, ok := in.Blocks[h]; ok {
				return b, nil
			}
			return nil, errors.New("no such block")
		},
		func(tx interfaces.Transaction) (map[*common2.Input]common2.Output, error) {
			res := map[*common2.Input]common2.Output{}
			for _, input := range tx.Inputs() {
				o, ok := in.outs[input.ReferKey()]
				if !ok {
					return nil, errors.New("unknown reference")
				}
				res[input] = o
			}
			return res, nil
		})
}

// ---- transactions ---------------------------------------------------------------------------

func (in *Inst) nonce(h uint32) []*common2.Attribute {
	in.seq++
	b := make([]byte, 8)
	binary.LittleEndian.PutUint32(b, h)
	binary.LittleEndian.PutUint32(b[4:], in.seq)
	return []*common2.Attribute{{Usage: common2.Nonce, Data: b}}
}

func (in *Inst) record(tx interfaces.Transaction) {
	for i, o := range tx.Outputs() {
		op := common2.NewOutPoint(tx.Hash(), uint16(i))
		in.outs[op.ReferKey()] = *o
	}
}

func (in *Inst) producerInfo(i int, nick string, node *Key, stakeUntil uint32) *payload.ProducerInfo {
	return &payload.ProducerInfo{OwnerKey: in.W.Owner[i].PK, NodePublicKey: node.PK, NickName: nick,
		Url: "u", Location: 1, NetAddress: "127.0.0.1", StakeUntil: stakeUntil}
}

// TxRegister: register producer i (deposit output of 5000 ELA to its deposit address).
func (in *Inst) TxRegister(h uint32, i int, stakeUntil uint32) interfaces.Transaction {
	dep := in.W.Owner[i].DepositHash()
	amount := common.Fixed64(MinDepositSela)
	ver := byte(payload.ProducerInfoVersion)
	if stakeUntil != 0 {
		amount = common.Fixed64(2000 * 100000000)
		ver = payload.ProducerInfoDposV2Version
	}
	tx := functions.CreateTransaction(common2.TxVersion09, common2.RegisterProducer, ver,
		in.producerInfo(i, fmt.Sprintf("p%d", i), in.W.Node[i], stakeUntil),
		in.nonce(h), []*common2.Input{},
		[]*common2.Output{{ProgramHash: dep, Value: amount, Type: common2.OTNone, Payload: &outputpayload.DefaultOutput{}}},
		0, []*program.Program{})
	in.record(tx)
	in.deposits[i] = append(in.deposits[i], common2.NewOutPoint(tx.Hash(), 0))
	return tx
}

// TxUpdate: update producer i to a new nickname and node key.
func (in *Inst) TxUpdate(h uint32, i int, nick string, node *Key, stakeUntil uint32) interfaces.Transaction {
	ver := byte(payload.ProducerInfoVersion)
	if stakeUntil != 0 {
		ver = payload.ProducerInfoDposV2Version
	}
	return functions.CreateTransaction(common2.TxVersion09, common2.UpdateProducer, ver,
		in.producerInfo(i, nick, node, stakeUntil), in.nonce(h), []*common2.Input{}, []*common2.Output{}, 0, []*program.Program{})
}

func (in *Inst) TxCancel(h uint32, i int) interfaces.Transaction {
	return functions.CreateTransaction(common2.TxVersion09, common2.CancelProducer, 0,
		&payload.ProcessProducer{OwnerKey: in.W.Owner[i].PK}, in.nonce(h), []*common2.Input{}, []*common2.Output{}, 0, []*program.Program{})
}

func (in *Inst) TxActivate(h uint32, node []byte) interfaces.Transaction {
	return functions.CreateTransaction(common2.TxVersion09, common2.ActivateProducer, 0,
		&payload.ActivateProducer{NodePublicKey: node}, in.nonce(h), []*common2.Input{}, []*common2.Output{}, 0, []*program.Program{})
}

// TxVote: voter v votes `votes` for each producer in cands with one vote output (the previous
// vote output of the voter, if any, is spent by the same transaction, as a wallet does).
func (in *Inst) TxVote(h uint32, v int, cands []int, votes common.Fixed64) interfaces.Transaction {
	var cv []outputpayload.CandidateVotes
	for _, c := range cands {
		cv = append(cv, outputpayload.CandidateVotes{Candidate: in.W.Owner[c].PK, Votes: votes})
	}
	var inputs []*common2.Input
	if in.voteOut[v] != nil {
		inputs = append(inputs, &common2.Input{Previous: *in.voteOut[v], Sequence: 0})
	}
	out := &common2.Output{Value: votes, ProgramHash: in.W.Voter[v].ProgramHash(), Type: common2.OTVote,
		Payload: &outputpayload.VoteOutput{Version: outputpayload.VoteProducerAndCRVersion,
			Contents: []outputpayload.VoteContent{{VoteType: outputpayload.Delegate, CandidateVotes: cv}}}}
	tx := functions.CreateTransaction(common2.TxVersion09, common2.TransferAsset, 0, &payload.TransferAsset{},
		in.nonce(h), inputs, []*common2.Output{out}, 0, []*program.Program{})
	in.record(tx)
	in.voteOut[v] = common2.NewOutPoint(tx.Hash(), 0)
	return tx
}

// TxUnvote: voter v spends its vote output into a plain output.
func (in *Inst) TxUnvote(h uint32, v int) interfaces.Transaction {
	prev := in.voteOut[v]
	val := in.outs[(&common2.Input{Previous: *prev}).ReferKey()].Value
	out := &common2.Output{Value: val, ProgramHash: in.W.Voter[v].ProgramHash(), Type: common2.OTNone, Payload: &outputpayload.DefaultOutput{}}
	tx := functions.CreateTransaction(common2.TxVersion09, common2.TransferAsset, 0, &payload.TransferAsset{},
		in.nonce(h), []*common2.Input{{Previous: *prev}}, []*common2.Output{out}, 0, []*program.Program{})
	in.record(tx)
	in.voteOut[v] = nil
	return tx
}

// TxTopUp: a plain transfer with an output to the deposit address of producer i.
func (in *Inst) TxTopUp(h uint32, i int, amount common.Fixed64) interfaces.Transaction {
	out := &common2.Output{Value: amount, ProgramHash: in.W.Owner[i].DepositHash(), Type: common2.OTNone, Payload: &outputpayload.DefaultOutput{}}
	tx := functions.CreateTransaction(common2.TxVersion09, common2.TransferAsset, 0, &payload.TransferAsset{},
		in.nonce(h), []*common2.Input{}, []*common2.Output{out}, 0, []*program.Program{})
	in.record(tx)
	in.deposits[i] = append(in.deposits[i], common2.NewOutPoint(tx.Hash(), 0))
	return tx
}

// TxReturnDeposit: producer i spends all its deposit outputs to a plain address.
func (in *Inst) TxReturnDeposit(h uint32, i int) interfaces.Transaction {
	var inputs []*common2.Input
	var total common.Fixed64
	for _, op := range in.deposits[i] {
		inputs = append(inputs, &common2.Input{Previous: *op})
		total += in.outs[(&common2.Input{Previous: *op}).ReferKey()].Value
	}
	out := &common2.Output{Value: total - 100, ProgramHash: in.W.Owner[i].ProgramHash(), Type: common2.OTNone, Payload: &outputpayload.DefaultOutput{}}
	tx := functions.CreateTransaction(common2.TxVersion09, common2.ReturnDepositCoin, 0, &payload.ReturnDepositCoin{},
		in.nonce(h), inputs, []*common2.Output{out}, 0, []*program.Program{{Code: in.W.Owner[i].Code()}})
	in.record(tx)
	in.deposits[i] = nil
	return tx
}

// TxStake: voter v exchanges amount for DPoS v2 vote rights (ExchangeVotes).
func (in *Inst) TxStake(h uint32, v int, amount common.Fixed64) interfaces.Transaction {
	out := &common2.Output{Value: amount, ProgramHash: *in.W.Params.StakePoolProgramHash, Type: common2.OTStake,
		Payload: &outputpayload.ExchangeVotesOutput{Version: 0, StakeAddress: in.W.Voter[v].StakeHash()}}
	tx := functions.CreateTransaction(common2.TxVersion09, common2.ExchangeVotes, 0, &payload.ExchangeVotes{},
		in.nonce(h), []*common2.Input{}, []*common2.Output{out}, 0, []*program.Program{{Code: in.W.Voter[v].Code()}})
	in.record(tx)
	return tx
}

// TxV2Vote: voter v casts DPoS v2 votes for producer i, locked until lock.
func (in *Inst) TxV2Vote(h uint32, v, i int, votes common.Fixed64, lock uint32) interfaces.Transaction {
	pl := &payload.Voting{Contents: []payload.VotesContent{{VoteType: outputpayload.DposV2,
		VotesInfo: []payload.VotesWithLockTime{{Candidate: in.W.Owner[i].PK, Votes: votes, LockTime: lock}}}}}
	return functions.CreateTransaction(common2.TxVersion09, common2.Voting, payload.VoteVersion, pl,
		in.nonce(h), []*common2.Input{}, []*common2.Output{}, 0, []*program.Program{{Code: in.W.Voter[v].Code()}})
}

// TxRenew: voter v extends the lock time of one of its DPoS v2 votes.
func (in *Inst) TxRenew(h uint32, v int, d payload.DetailedVoteInfo, lock uint32) interfaces.Transaction {
	vi := d.Info[0]
	vi.LockTime = lock
	pl := &payload.Voting{RenewalContents: []payload.RenewalVotesContent{{ReferKey: d.ReferKey(), VotesInfo: vi}}}
	return functions.CreateTransaction(common2.TxVersion09, common2.Voting, payload.RenewalVoteVersion, pl,
		in.nonce(h), []*common2.Input{}, []*common2.Output{}, 0, []*program.Program{{Code: in.W.Voter[v].Code()}})
}

// TxIllegalProposal: evidence that the arbiter with node key nodeKey signed two different
// proposals for the same height and view.
func (in *Inst) TxIllegalProposal(h uint32, node *Key) interfaces.Transaction {
	mk := func(tag byte) payload.ProposalEvidence {
		hdr := common2.Header{Version: 1, Height: h - 1, Timestamp: 1600000000 + 120*(h-1) + uint32(tag), Bits: 0x207fffff}
		buf := new(bytes.Buffer)
		hdr.Serialize(buf)
		p := payload.DPOSProposal{Sponsor: node.PK, BlockHash: hdr.Hash(), ViewOffset: 0}
		p.Sign = in.W.signOnce(node, p.Data())
		return payload.ProposalEvidence{Proposal: p, BlockHeader: buf.Bytes(), BlockHeight: h - 1}
	}
	a, b := mk(1), mk(2)
	if a.Proposal.Hash().Compare(b.Proposal.Hash()) > 0 {
		a, b = b, a
	}
	return functions.CreateTransaction(common2.TxVersion09, common2.IllegalProposalEvidence, payload.IllegalProposalVersion,
		&payload.DPOSIllegalProposals{Evidence: a, CompareEvidence: b}, []*common2.Attribute{}, []*common2.Input{}, []*common2.Output{}, 0, []*program.Program{})
}

// arbiterKeys returns the harness keys of the current arbiters, or nil if one is unknown or not
// normal.
func (in *Inst) arbiterKeys() []*Key {
	var out, seats []*Key
	for _, a := range in.A.GetArbitrators() {
		if !a.IsNormal {
			return nil
		}
		if k := in.nodeKey(a.NodePublicKey); k != nil {
			out = append(out, k) // elected producers first: they are the double signers
			continue
		}
		var seat *Key
		for _, k := range in.W.CRCSeat {
			if bytes.Equal(k.PK, a.NodePublicKey) {
				seat = k
			}
		}
		if seat == nil {
			return nil
		}
		seats = append(seats, seat)
	}
	return append(out, seats...)
}

// TxIllegalBlocks: evidence that two different blocks of height h-1 were both confirmed; each
// confirmation is signed by three of the four arbiters, the two that signed both are the
// illegal ones (the state reads the intersection of the two signer lists).
func (in *Inst) TxIllegalBlocks(h uint32, arb []*Key) interfaces.Transaction {
	mk := func(tag byte, signers []*Key) payload.BlockEvidence {
		hdr := common2.Header{Version: 1, Height: h - 1, Timestamp: 1600000000 + 120*(h-1) + uint32(tag), Bits: 0x207fffff}
		hb := new(bytes.Buffer)
		hdr.Serialize(hb)
		p := payload.DPOSProposal{Sponsor: signers[0].PK, BlockHash: hdr.Hash(), ViewOffset: 0}
		p.Sign = in.W.signOnce(signers[0], p.Data())
		cf := payload.Confirm{Proposal: p}
		ev := payload.BlockEvidence{Header: hb.Bytes()}
		for _, k := range signers {
			v := payload.DPOSProposalVote{ProposalHash: p.Hash(), Signer: k.PK, Accept: true}
			v.Sign = in.W.signOnce(k, v.Data())
			cf.Votes = append(cf.Votes, v)
			ev.Signers = append(ev.Signers, k.PK)
		}
		cb := new(bytes.Buffer)
		cf.Serialize(cb)
		ev.BlockConfirm = cb.Bytes()
		return ev
	}
	a := mk(1, []*Key{arb[0], arb[1], arb[2]})
	b := mk(2, []*Key{arb[0], arb[1], arb[3]})
	if a.BlockHash().Compare(b.BlockHash()) > 0 {
		a, b = b, a
	}
	pl := &payload.DPOSIllegalBlocks{CoinType: payload.ELACoin, BlockHeight: h - 1, Evidence: a, CompareEvidence: b}
	return functions.CreateTransaction(common2.TxVersion09, common2.IllegalBlockEvidence, payload.IllegalBlockVersion, pl,
		[]*common2.Attribute{}, []*common2.Input{}, []*common2.Output{}, 0, []*program.Program{})
}

// rewardAddr is the address under which DPoS v2 rewards of voter v are booked.
func (in *Inst) rewardAddr(v int) string {
	h := in.W.Voter[v].StakeHash()
	a, err := h.ToAddress()
	if err != nil {
		panic(err)
	}
	return a
}

// TxClaimReward: voter v claims amount of its accumulated DPoS v2 reward.
func (in *Inst) TxClaimReward(h uint32, v int, amount common.Fixed64) interfaces.Transaction {
	pl := &payload.DPoSV2ClaimReward{ToAddr: in.W.Voter[v].ProgramHash(), Code: in.W.Voter[v].Code(), Value: amount}
	pl.Signature = in.W.signOnce(in.W.Voter[v], pl.Data(payload.DposV2ClaimRewardVersionV0))
	return functions.CreateTransaction(common2.TxVersion09, common2.DposV2ClaimReward, payload.DposV2ClaimRewardVersionV0, pl,
		in.nonce(h), []*common2.Input{}, []*common2.Output{}, 0, []*program.Program{})
}

// TxRealWithdraw: the node-generated transaction paying out every pending claim.
func (in *Inst) TxRealWithdraw(h uint32) interfaces.Transaction {
	var hashes []common.Uint256
	for k := range in.A.WithdrawableTxInfo {
		hashes = append(hashes, k)
	}
	sort.Slice(hashes, func(a, b int) bool { return hashes[a].Compare(hashes[b]) < 0 })
	var outs []*common2.Output
	for _, k := range hashes {
		info := in.A.WithdrawableTxInfo[k]
		outs = append(outs, &common2.Output{Value: info.Amount, ProgramHash: info.Recipient, Type: common2.OTNone, Payload: &outputpayload.DefaultOutput{}})
	}
	return functions.CreateTransaction(common2.TxVersion09, common2.DposV2ClaimRewardRealWithdraw, 0,
		&payload.DposV2ClaimRewardRealWithdraw{WithdrawTransactionHashes: hashes}, []*common2.Attribute{}, []*common2.Input{}, outs, 0, []*program.Program{})
}

func (in *Inst) TxRevertToPOW(h uint32) interfaces.Transaction {
	return functions.CreateTransaction(common2.TxVersion09, common2.RevertToPOW, payload.RevertToPOWVersion,
		&payload.RevertToPOW{Type: payload.NoBlock, WorkingHeight: h}, []*common2.Attribute{}, []*common2.Input{}, []*common2.Output{}, 0, []*program.Program{})
}

func (in *Inst) TxRevertToDPOS(h uint32) interfaces.Transaction {
	return functions.CreateTransaction(common2.TxVersion09, common2.RevertToDPOS, payload.RevertToDPOSVersion,
		&payload.RevertToDPOS{WorkHeightInterval: payload.WorkHeightInterval, RevertToPOWBlockHeight: in.A.RevertToPOWBlockHeight},
		in.nonce(h), []*common2.Input{}, []*common2.Output{}, 0, []*program.Program{})
}

// TxNextTurnDPOSInfo mirrors createNextTurnDPOSInfoTransactionV0 through public getters.
func (in *Inst) TxNextTurnDPOSInfo(h uint32) interfaces.Transaction {
	pl := &payload.NextTurnDPOSInfo{WorkingHeight: h + NCRCSeats + NNormalSeats, CRPublicKeys: [][]byte{}, DPOSPublicKeys: [][]byte{}}
	for _, ar := range in.A.GetNextArbitrators() {
		if in.A.IsNextCRCArbitrator(ar.NodePublicKey) {
			pl.CRPublicKeys = append(pl.CRPublicKeys, ar.NodePublicKey)
		} else {
			pl.DPOSPublicKeys = append(pl.DPOSPublicKeys, ar.NodePublicKey)
		}
	}
	return functions.CreateTransaction(common2.TxVersion09, common2.NextTurnDPOSInfo, 0, pl,
		[]*common2.Attribute{}, []*common2.Input{}, []*common2.Output{}, 0, []*program.Program{})
}

// ---- blocks ---------------------------------------------------------------------------------

// Process builds the block at the next height carrying txs and processes it; in DPoS consensus
// the block is confirmed by the on-duty arbiter.
func (in *Inst) Process(txs ...interfaces.Transaction) { in.ProcessSponsored(0, txs...) }

// sponsorOf returns the node key of the arbiter `offset` positions after the on-duty one, or
// nil when the next block is a PoW block (before H1, or consensus reverted to POW, or no
// arbiters).
func (in *Inst) sponsorOf(offset uint32) []byte {
	if in.Height+1 < HCRCOnly || in.A.GetConsensusAlgorithm() == state.POW {
		return nil
	}
	pk := in.A.GetNextOnDutyArbitrator(offset)
	if len(pk) == 0 {
		return nil
	}
	return pk
}

// ProcessSponsored is Process with the confirmation sponsored by the arbiter `offset` positions
// after the on-duty one (offset>0: the on-duty arbiter missed its turn, a view change happened).
func (in *Inst) ProcessSponsored(offset uint32, txs ...interfaces.Transaction) {
	if in.batching {
		in.batch = append(in.batch, txs...)
		if offset > in.batchOff {
			in.batchOff = offset
		}
		return
	}
	h := in.Height + 1
	sponsor := in.sponsorOf(offset)
	var prev common.Uint256
	if b, ok := in.Blocks[in.Height]; ok {
		prev = b.Hash()
	}
	// a block must carry exactly one NextTurnDPOSInfo transaction while the state asks for it
	// (blockchain.CheckBlockContext -> Arbiters.CheckNextTurnDPOSInfoTx); the state machine only
	// looks at its presence.
	if in.A.IsNeedNextTurnDPOSInfo() {
		txs = append(txs, in.TxNextTurnDPOSInfo(h))
	}
	b := &types.Block{Header: common2.Header{Version: 1, Previous: prev, Height: h, Timestamp: 1600000000 + 120*h, Bits: 0x207fffff}, Transactions: txs}
	in.Blocks[h] = b
	var cf *payload.Confirm
	if sponsor != nil {
		cf = &payload.Confirm{Proposal: payload.DPOSProposal{Sponsor: sponsor, BlockHash: b.Hash(), ViewOffset: offset}}
	}
	in.Confirms[h] = cf
	in.Height = h
	in.A.ProcessBlock(b, cf)
}

// Reprocess feeds the stored block of height h again (after a rollback).
func (in *Inst) Reprocess(h uint32) {
	in.Height = h
	in.A.ProcessBlock(in.Blocks[h], in.Confirms[h])
}

// Rollback rolls the state machine back to height h (harness bookkeeping such as the voters'
// outpoints is NOT rolled back: after a rollback only Reprocess is meaningful).
func (in *Inst) Rollback(h uint32) error {
	err := in.A.RollbackTo(h)
	in.Height = h
	return err
}

// Consistent checks that every producer sits in exactly the state map that matches its state
// field (a canceled producer additionally in PendingCanceledProducers only if it was canceled
// while pending). The repository executes the changes of a block at Commit, so two changes of
// one block that were each computed from the pre-block state can both run (cancel + activation
// of the same pending producer, cancel + inactivity of the same arbiter) and leave a producer in
// two maps; such states are outside C21 and are not explored further.
func (in *Inst) Consistent() (bool, string) {
	a := in.A
	maps := []struct {
		name string
		m    map[string]*state.Producer
		st   state.ProducerState
	}{
		{"Pending", a.PendingProducers, state.Pending}, {"Active", a.ActivityProducers, state.Active},
		{"Inactive", a.InactiveProducers, state.Inactive}, {"Canceled", a.CanceledProducers, state.Canceled},
		{"Illegal", a.IllegalProducers, state.Illegal},
	}
	seen := map[string]string{}
	for _, mm := range maps {
		keys := make([]string, 0, len(mm.m))
		for k := range mm.m {
			keys = append(keys, k)
		}
		sort.Strings(keys)
		for _, k := range keys {
			p := mm.m[k]
			if other, dup := seen[k]; dup {
				return false, fmt.Sprintf("producer %s.. is in %s and %s", k[:8], other, mm.name)
			}
			seen[k] = mm.name
			st := p.State()
			if st == state.Returned && mm.st == state.Canceled {
				continue
			}
			if st != mm.st {
				return false, fmt.Sprintf("producer %s.. has state %v but sits in %sProducers", k[:8], st, mm.name)
			}
		}
	}
	return true, ""
}

func hashPtr(h common.Uint168) *common.Uint168 { return &h }

// nodeKey finds the harness key of a node public key.
func (in *Inst) nodeKey(pk []byte) *Key {
	for _, ks := range [][]*Key{in.W.Node, in.W.NewNode} {
		for _, k := range ks {
			if bytes.Equal(k.PK, pk) {
				return k
			}
		}
	}
	return nil
}

// Representatives returns two producers that stand for the two roles the four symmetric
// producers can have once all are voted equally: the first by node key (fills a CRC seat after
// ChangeCommitteeNewCRHeight) and the third (fills a normal seat).
func (w *World) Representatives() []int {
	idx := []int{0, 1, 2, 3}
	sort.Slice(idx, func(a, b int) bool { return bytes.Compare(w.Node[idx[a]].PK, w.Node[idx[b]].PK) < 0 })
	return []int{idx[0], idx[2]}
}

// ---- operations -----------------------------------------------------------------------------

func (in *Inst) prod(i int) *state.Producer { return in.A.GetProducer(in.W.Owner[i].PK) }

// Ops lists the block kinds that real validation would admit at the next height, simplest
// first. One block carries one transaction (or none).
func (in *Inst) Ops() []string { return in.OpsFor(nil) }

// OpsFor is Ops restricted to the given producers (nil: all).
func (in *Inst) OpsFor(only []int) []string {
	h := in.Height + 1
	ops := []string{"empty"}
	if h < HVoteStart {
		return ops
	}
	allowed := func(i int) bool {
		if only == nil {
			return true
		}
		for _, x := range only {
			if x == i {
				return true
			}
		}
		return false
	}
	if in.sponsorOf(0) != nil && len(in.A.CurrentArbitrators) >= 2 {
		ops = append(ops, "skip")
	}
	pow := in.A.GetConsensusAlgorithm() == state.POW
	for i := 0; i < NProducers; i++ {
		if !allowed(i) {
			continue
		}
		p := in.prod(i)
		if p == nil {
			if !in.A.ProducerOwnerPublicKeyExists(in.W.Owner[i].PK) {
				ops = append(ops, fmt.Sprintf("reg:%d", i))
			}
			continue
		}
		st := p.State()
		if st == state.Pending || st == state.Active {
			ops = append(ops, fmt.Sprintf("upd:%d", i))
		}
		// not offered in the very block that turns a pending producer active: the repository
		// then executes both changes (changes run at Commit) and leaves the producer Active AND
		// listed as canceled — a defect of its own, outside C21
		activating := st == state.Pending && h-p.RegisterHeight()+1 >= state.ActivateDuration
		if p.Identity() == state.DPoSV1 && (st == state.Pending || st == state.Active || st == state.Inactive) && !activating {
			ops = append(ops, fmt.Sprintf("cancel:%d", i))
		}
		if st != state.Returned {
			ops = append(ops, fmt.Sprintf("topup:%d", i))
		}
		if st == state.Canceled && h-p.CancelHeight() > LockupBlocks && len(in.deposits[i]) > 0 {
			ops = append(ops, fmt.Sprintf("ret:%d", i))
		}
		// ActivateProducer: inactive (or illegal) producer, not requested within the last
		// ActivateDuration blocks, deposit minus penalty still covers the minimum
		if h >= HPublicDPOS && (st == state.Inactive || st == state.Illegal) && p.Identity() == state.DPoSV1 &&
			!(h > p.ActivateRequestHeight() && h-p.ActivateRequestHeight() <= state.ActivateDuration) &&
			p.TotalAmount()-p.Penalty() >= common.Fixed64(MinDepositSela) && h < in.A.DPoSV2ActiveHeight {
			ops = append(ops, fmt.Sprintf("act:%d", i))
		}
	}
	for v := 0; v < NVoters; v++ {
		for i := 0; i < NProducers; i++ {
			if !allowed(i) {
				continue
			}
			if p := in.prod(i); p != nil && (p.State() == state.Active) {
				ops = append(ops, fmt.Sprintf("vote:%d>%d", v, i))
			}
		}
		if in.voteOut[v] != nil {
			ops = append(ops, fmt.Sprintf("unvote:%d", v))
		}
	}
	if h >= HDPoSV2Start {
		for v := 0; v < NVoters; v++ {
			ops = append(ops, fmt.Sprintf("stake:%d", v))
			rights, exist, used := in.A.GetDposV2VoteRights(in.W.Voter[v].StakeHash())
			if !exist {
				continue
			}
			for i := 0; i < NProducers; i++ {
				if !allowed(i) {
					continue
				}
				p := in.prod(i)
				if p == nil || p.State() != state.Active || p.Identity() == state.DPoSV1 {
					continue
				}
				if h+V2Lock <= p.Info().StakeUntil {
					// above, just below, and (after v2lo) exactly at DPoSV2EffectiveVotes (100)
					if rights-used >= V2Votes {
						ops = append(ops, fmt.Sprintf("v2vote:%d>%d", v, i))
					}
					if rights-used >= V2VotesLow {
						ops = append(ops, fmt.Sprintf("v2lo:%d>%d", v, i))
					}
					if rights-used >= 1 {
						ops = append(ops, fmt.Sprintf("v2one:%d>%d", v, i))
					}
				}
			}
			if ds := in.A.GetDetailedDPoSV2Votes(hashPtr(in.W.Voter[v].StakeHash())); len(ds) > 0 {
				d := ds[0]
				if p := in.A.GetProducer(d.Info[0].Candidate); p != nil && d.Info[0].LockTime+100 <= p.Info().StakeUntil {
					ops = append(ops, fmt.Sprintf("renew:%d", v))
				}
			}
		}
		for i := 0; i < NProducers; i++ {
			if !allowed(i) {
				continue
			}
			if p := in.prod(i); p != nil && p.State() == state.Active && p.Identity() == state.DPoSV1 {
				ops = append(ops, fmt.Sprintf("upv2:%d", i))
			}
		}
	}
	// DPoS v2 reward claims (balances seeded by the warm-up op "seedreward") and the
	// node-generated real-withdraw transaction that pays pending claims out
	if h >= HDPoSV2Start {
		for v := 0; v < NVoters; v++ {
			if in.A.DPoSV2RewardInfo[in.rewardAddr(v)] >= ClaimAmount {
				ops = append(ops, fmt.Sprintf("claim:%d", v))
			}
		}
		if len(in.A.WithdrawableTxInfo) > 0 {
			ops = append(ops, "realwd")
			for v := 0; v < NVoters; v++ {
				if in.A.DPoSV2RewardInfo[in.rewardAddr(v)] >= ClaimAmount {
					// one block: a new claim followed by the pay-out of the earlier ones
					ops = append(ops, fmt.Sprintf("claim:%d+realwd", v), fmt.Sprintf("realwd+claim:%d", v))
				}
			}
		}
	}
	// evidence against a current arbiter that is an active or inactive producer
	if h >= HPublicDPOS && !pow {
		for i := 0; i < NProducers; i++ {
			if !allowed(i) {
				continue
			}
			p := in.prod(i)
			if p == nil || (p.State() != state.Active && p.State() != state.Inactive && p.State() != state.Illegal) {
				continue
			}
			if in.A.IsArbitrator(p.NodePublicKey()) && in.nodeKey(p.NodePublicKey()) != nil {
				ops = append(ops, fmt.Sprintf("illegal:%d", i))
			}
		}
	}
	// illegal-block evidence (forces an arbiter change): four normal arbiters with harness keys,
	// DPoS consensus, DPoS v2 not yet running
	if h >= HPublicDPOS && !pow && h < in.A.DPoSV2ActiveHeight {
		if ks := in.arbiterKeys(); len(ks) == 4 {
			ops = append(ops, "illblk")
			// double signers = configured CRC seats (no producer turns illegal, the force change
			// can succeed with the four producers)
			if in.nodeKey(ks[3].PK) == nil && in.nodeKey(ks[2].PK) == nil {
				ops = append(ops, "illblkseat")
			}
		}
	}
	if h >= HNewCR {
		if !pow {
			ops = append(ops, "pow")
		} else if in.A.DPOSWorkHeight <= h {
			ops = append(ops, "dpos")
		}
	}
	return ops
}

// Apply builds and processes the block of op.
func (in *Inst) Apply(op string) {
	if a, b, two := strings.Cut(op, "+"); two {
		// two-transaction block: both transactions are built against the pre-block state
		in.batching, in.batch, in.batchOff = true, nil, 0
		in.Apply(a)
		in.Apply(b)
		in.batching = false
		txs, off := in.batch, in.batchOff
		in.batch = nil
		in.ProcessSponsored(off, txs...)
		return
	}
	h := in.Height + 1
	kind, arg, _ := strings.Cut(op, ":")
	atoi := func(s string) int { n, _ := strconv.Atoi(s); return n }
	switch kind {
	case "empty":
		in.Process()
	case "skip":
		in.ProcessSponsored(1)
	case "regall":
		var txs []interfaces.Transaction
		for i := 0; i < NProducers; i++ {
			txs = append(txs, in.TxRegister(h, i, 0))
		}
		in.Process(txs...)
	case "voteall":
		in.Process(in.TxVote(h, atoi(arg), []int{0, 1, 2, 3}, common.Fixed64(5000)))
	case "reg":
		in.Process(in.TxRegister(h, atoi(arg), 0))
	case "upd":
		i := atoi(arg)
		p := in.prod(i)
		nick := fmt.Sprintf("p%d-renamed", i)
		node := in.W.NewNode[i]
		if p != nil && p.Info().NickName == nick {
			nick = fmt.Sprintf("p%d", i)
			node = in.W.Node[i]
		}
		in.Process(in.TxUpdate(h, i, nick, node, p.Info().StakeUntil))
	case "cancel":
		in.Process(in.TxCancel(h, atoi(arg)))
	case "act":
		p := in.prod(atoi(arg))
		in.Process(in.TxActivate(h, p.NodePublicKey()))
	case "topup":
		in.Process(in.TxTopUp(h, atoi(arg), 7*100000000))
	case "ret":
		in.Process(in.TxReturnDeposit(h, atoi(arg)))
	case "vote":
		v, c, _ := strings.Cut(arg, ">")
		in.Process(in.TxVote(h, atoi(v), []int{atoi(c)}, common.Fixed64(1000+100*atoi(v))))
	case "unvote":
		in.Process(in.TxUnvote(h, atoi(arg)))
	case "stake":
		in.Process(in.TxStake(h, atoi(arg), 1000))
	case "v2vote":
		v, c, _ := strings.Cut(arg, ">")
		in.Process(in.TxV2Vote(h, atoi(v), atoi(c), V2Votes, h+V2Lock))
	case "v2lo":
		v, c, _ := strings.Cut(arg, ">")
		in.Process(in.TxV2Vote(h, atoi(v), atoi(c), V2VotesLow, h+V2Lock))
	case "v2one":
		v, c, _ := strings.Cut(arg, ">")
		in.Process(in.TxV2Vote(h, atoi(v), atoi(c), 1, h+V2Lock))
	case "renew":
		v := atoi(arg)
		d := in.A.GetDetailedDPoSV2Votes(hashPtr(in.W.Voter[v].StakeHash()))[0]
		in.Process(in.TxRenew(h, v, d, d.Info[0].LockTime+100))
	case "upv2":
		i := atoi(arg)
		p := in.prod(i)
		info := p.Info()
		var node *Key
		if node = in.nodeKey(info.NodePublicKey); node == nil {
			panic("unknown node key")
		}
		in.Process(in.TxUpdate(h, i, info.NickName, node, V2StakeUntil))
	case "illegal":
		p := in.prod(atoi(arg))
		in.Process(in.TxIllegalProposal(h, in.nodeKey(p.NodePublicKey())))
	case "seedreward":
		// stands for the reward bookkeeping of a running DPoS v2 round (accumulateReward credits
		// DPoSV2RewardInfo per voter address); the harness cannot elect a v2 arbiter set with four
		// producers, so the balances are written directly, in the warm-up only
		in.Process()
		for v := 0; v < NVoters; v++ {
			in.A.DPoSV2RewardInfo[in.rewardAddr(v)] = 1000
		}
	case "claim":
		in.Process(in.TxClaimReward(h, atoi(arg), ClaimAmount))
	case "realwd":
		in.Process(in.TxRealWithdraw(h))
	case "illblk":
		in.Process(in.TxIllegalBlocks(h, in.arbiterKeys()))
	case "illblkseat":
		ks := in.arbiterKeys()
		in.Process(in.TxIllegalBlocks(h, []*Key{ks[2], ks[3], ks[0], ks[1]}))
	case "pow":
		in.Process(in.TxRevertToPOW(h))
	case "dpos":
		// the block validator only admits a RevertToDPOS transaction while the state asks for
		// one; the flag is raised by the DPoS network layer (environment), not by a block
		in.A.SetNeedRevertToDPOSTX(true)
		in.Process(in.TxRevertToDPOS(h))
	default:
		panic("unknown op " + op)
	}
}

// ---- checkpoints ----------------------------------------------------------------------------

func (in *Inst) registered() checkpoint.ICheckPoint {
	cp, ok := in.Ckp.GetCheckpoint(state.CheckpointKey, math.MaxUint32)
	if !ok || cp == nil {
		panic("dpos checkpoint not registered")
	}
	return cp
}

// SaveCheckpoint produces the bytes the checkpoint manager would write for the DPoS state at
// the current height (Manager.onBlockSaved: SetHeight, Snapshot, Serialize).
func (in *Inst) SaveCheckpoint() ([]byte, error) {
	cp := in.registered()
	cp.SetHeight(in.Height)
	snap := cp.Snapshot()
	if snap == nil {
		return nil, errors.New("Snapshot() returned nil")
	}
	buf := new(bytes.Buffer)
	if err := snap.Serialize(buf); err != nil {
		return nil, err
	}
	return buf.Bytes(), nil
}

// RestoreInst builds a fresh instance and loads data into it the way Manager.Restore does
// (Deserialize into the registered checkpoint, OnInit); the new instance shares the block
// store of src, so that the blocks above the checkpoint can be fed with Reprocess.
func (w *World) RestoreInst(src *Inst, height uint32, data []byte) (*Inst, error) {
	in := w.NewInst()
	cp := in.registered()
	if err := cp.Deserialize(bytes.NewReader(data)); err != nil {
		in.Close()
		return nil, err
	}
	cp.OnInit()
	in.Blocks = src.Blocks
	in.Confirms = src.Confirms
	in.outs = src.outs
	in.Height = height
	return in, nil
}
