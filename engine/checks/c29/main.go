// C29: proposal spending stays within approved budgets.
//
// Seam: crstate.Committee.ProcessBlock fed only with blocks the node would connect: every
// transaction has passed its own HeightVersionCheck, CheckTransactionPayload and
// SpecialContextCheck (core/transaction/crcproposal*.go, crcappropriation…, on the light node
// tier, against the committee state before the block, budgets of earlier proposals of the same
// block counted as used — what BlockChain.checkTxsContext does), and the block has passed the
// block-scoped rules of CheckBlockSanity (no duplicate transaction, no input spent twice, the
// repository's CheckDuplicateTx).
//
// Space: explicit-state search (verif/mc) over operation sequences on two proposals A and B with
// three budget stages each (imprest 10, normal 20, final 30 ELA), from fixed warm-up prefixes.
//
// Oracle: an independent ledger kept from the accepted operations (which tracking transactions
// were accepted, which withdrawal requests were accepted and for how much, what the
// real-withdraw transactions paid), compared after every block with the committee.
package main

import (
	"fmt"
	"os"
	"sort"
	"strings"
	"sync"
	"sync/atomic"
	"time"

	"github.com/elastos/Elastos.ELA/common"
	"github.com/elastos/Elastos.ELA/common/config"
	"github.com/elastos/Elastos.ELA/core/types"
	common2 "github.com/elastos/Elastos.ELA/core/types/common"
	"github.com/elastos/Elastos.ELA/core/types/payload"
	crstate "github.com/elastos/Elastos.ELA/cr/state"

	"verif/crkit"
	"verif/evid"
	"verif/mc"
)

type scenario struct {
	name     string
	warm     []string
	alphabet []string
	extra    []string // thorough tier only
	depth    [2]int   // quick, thorough
	// longReview: crkit.ParamsLongReview instead of crkit.Params
	longReview bool
}

func (sc *scenario) params() *config.Configuration {
	if sc.longReview {
		return crkit.ParamsLongReview()
	}
	return crkit.Params()
}

var electAndFund = []string{"reg:c1+reg:c2+reg:c3", "fund", "e4", "vote:v1:a", "e", "approp"}

var scenarios = []*scenario{
	{
		// committee {c1,c2} in office since 8, appropriation received at 9.
		name: "registration",
		warm: electAndFund,
		alphabet: []string{"e", "e2", "prop:A:c1", "prop:B:c2", "propbig:C:c1", "propneg:C:c1:0", "propneg:C:c1:1", "propneg:C:c1:2",
			"propz:D:c2", "rev2:A:a", "rev2:B:a", "rev:c2:A:r", "rej:vr:A:big", "wd:A"},
		extra: []string{"prop:A:c1+prop:B:c2", "rev:c1:B:s", "rej:vr:B:small", "imp:vi:c1:big"},
		depth: [2]int{5, 7},
	},
	{
		// A and B registered at 10, approved by both members at 11, council-agreed at 12,
		// voter-agreed at 14: the imprest of both is withdrawable.
		name: "execution",
		warm: append(append([]string{}, electAndFund...), "prop:A:c1+prop:B:c2", "rev2:A:a+rev2:B:a", "e3"),
		alphabet: []string{"e", "wd:A", "wd:A+wd:A", "wd:A:over", "wd:B", "realwd", "trk:A:progress", "trk:A:finalized",
			"trk:A:terminated", "trk:A:progress+wd:A"},
		extra: []string{"trk:A:rejected", "trk:A:common", "trk:B:progress", "trk:B:terminated", "wd:A:under", "wd:A+wd:B", "close:E:A:c1", "rev2:E:a"},
		depth: [2]int{5, 7},
	},
	{
		// proposal shapes in which "index in the budget list" and "stage number" differ: A has no
		// imprest (stages 1, 2, 3), B lists its stages out of order (2, 0, 1); both voter-agreed.
		name: "odd-shapes",
		warm: append(append([]string{}, electAndFund...), "propni:A:c1+propoo:B:c2", "rev2:A:a+rev2:B:a", "e3"),
		alphabet: []string{"e", "trk:A:progress", "trk:A:progress:2", "trk:B:progress", "wd:A", "wd:B", "trk:A:finalized",
			"trk:B:finalized", "realwd"},
		extra: []string{"trk:A:terminated", "trk:B:terminated", "trk:A:rejected:2", "wd:A+wd:B"},
		depth: [2]int{4, 6},
	},
	{
		// crossing a committee change with proposals in every withdrawal state (council review of
		// 9 blocks): A and B voter-agreed at 21, B's imprest requested at 22, A's released and
		// not collected, C registered at 19 and decided in the election block 28 (cancelled, or
		// council-agreed with nothing released); candidates registered at 20 and voted at 26.
		name:       "committee-change",
		longReview: true,
		warm: append(append([]string{}, electAndFund...), "prop:A:c1+prop:B:c2", "rev2:A:a+rev2:B:a", "e7", "prop:C:c1",
			"reg:c1+reg:c2+reg:c3", "e", "wd:B", "e3", "vote:v1:a"),
		alphabet: []string{"e", "rev2:C:a", "wd:A", "trk:A:progress", "trk:B:progress", "realwd", "approp", "prop:D:c2"},
		extra:    []string{"e2", "trk:A:terminated", "trk:B:finalized", "imp:vi:c1:big", "wd:B"},
		depth:    [2]int{4, 6},
	},
	{
		// special proposals aimed at running proposals: A and B voter-agreed at 14; at 15 E (close
		// A), F (hand B to a new owner / recipient) and D (new secretary-general) are registered,
		// approved by the council at 16, council-agreed at 17 and decided at 19. Free blocks
		// (17..): the target is finalised, terminated, progressed, paid or left running before the
		// close proposal is decided, or the close proposal is voted down.
		name: "special-proposals",
		warm: append(append([]string{}, electAndFund...), "prop:A:c1+prop:B:c2", "rev2:A:a+rev2:B:a", "e3",
			"close:E:A:c1+chown:F:B:c2+sg:D:c2", "rev2:E:a+rev2:F:a+rev2:D:a"),
		alphabet: []string{"e", "trk:A:finalized", "trk:A:terminated", "trk:A:progress", "wd:A", "wd:B", "rej:vr:E:big",
			"trk:B:progress"},
		extra: []string{"e2", "realwd", "rej:vr:F:big", "trk:B:finalized", "wd:A+wd:B"},
		depth: [2]int{4, 6},
	},
	{
		// as above, then A's imprest requested and paid, stage 1 of A released by tracking.
		name: "late-stages",
		warm: append(append([]string{}, electAndFund...), "prop:A:c1+prop:B:c2", "rev2:A:a+rev2:B:a", "e3", "wd:A", "realwd",
			"trk:A:progress"),
		alphabet: []string{"e", "wd:A", "wd:A+wd:A", "realwd", "trk:A:finalized", "trk:A:terminated", "trk:A:progress", "wd:B",
			"trk:B:terminated", "imp:vi:c1:big"},
		extra: []string{"e5", "trk:A:rejected:2", "wd:B+wd:B", "trk:B:progress", "trk:B:finalized"},
		depth: [2]int{5, 7},
	},
}

// propRef is the reference ledger of one proposal.
type propRef struct {
	label     string
	hash      common.Uint256
	budgets   map[uint8]common.Fixed64
	kinds     map[uint8]payload.InstallmentType
	total     common.Fixed64
	approved  map[uint8]bool // stages released: imprest on voter agreement, others by accepted tracking
	withdrawn map[uint8]bool // stages covered by an accepted withdrawal request
	requested common.Fixed64 // sum of the amounts of accepted withdrawal requests
	paid      common.Fixed64 // sum of what real-withdraw transactions paid for those requests (gross)
	released  bool           // the unapproved part of the budget went back to the committee
	canceled  bool           // cancelled by the council / the voters or aborted: nothing is owed
}

// owed is what the committee still has to keep for the proposal: every stage not yet requested
// of a running proposal; the released and not yet requested stages of a finished / terminated
// one; nothing for a cancelled one.
func (p *propRef) owed() (s common.Fixed64) {
	if p.canceled {
		return 0
	}
	for st, a := range p.budgets {
		if p.withdrawn[st] {
			continue
		}
		if p.released && !p.approved[st] {
			continue
		}
		s += a
	}
	return
}

func (p *propRef) sumApproved() (s common.Fixed64) {
	for st := range p.approved {
		s += p.budgets[st]
	}
	return
}

func (p *propRef) available() (s common.Fixed64) {
	for st := range p.approved {
		if !p.withdrawn[st] {
			s += p.budgets[st]
		}
	}
	return
}

type inst struct {
	sc    *scenario
	w     *crkit.World
	hist  []string
	props map[string]*propRef       // by label
	reqs  map[common.Uint256]string // accepted withdrawal request tx hash -> proposal label
	reqA  map[common.Uint256]common.Fixed64
	// used is the reference for CRCCommitteeUsedAmount in the current term.
	used  common.Fixed64
	warm  bool
	bad   *mc.Fail // found while booking the block's transactions
	dead  bool     // a clause was already violated in the warm-up
	fresh bool     // the step being applied is a new transition of the search (not a replay)
	// lastCommittee: LastCommitteeHeight seen after the previous block
	lastCommittee uint32
	// inert: created after the time budget ran out; does nothing
	inert bool
}

var (
	run          *evid.Run
	blocksJudged int64
	rejected     evid.Distinct
	acceptedOps  evid.Distinct
	statusSeen   evid.Distinct
	withdrawals  int64
	payouts      int64
	// committee changes crossed by new transitions, and those with budget still owed
	committeeChanges int64
	changesWithOwed  int64
)

// scenarioDeadline: end of the running scenario's share of the run's time budget.
var (
	scenarioDeadline time.Time
	expired          int32
	replaying        bool
)

// outOfTime: the scenario's share of the time budget (or the whole budget) is used up.
func outOfTime() bool {
	return run.Expired() || (!scenarioDeadline.IsZero() && time.Now().After(scenarioDeadline))
}

func newInst(sc *scenario) *inst {
	if !replaying && outOfTime() {
		// nothing more is judged or expanded: an inert instance lets the search run out quickly
		// (it only comes to life for the confirmation replays of a failing history)
		atomic.StoreInt32(&expired, 1)
		return &inst{sc: sc, inert: true}
	}
	return newRealInst(sc)
}

// failedKeys: histories whose last step violated a clause (mc replays them to confirm).
var failedKeys sync.Map

func newRealInst(sc *scenario) *inst {
	in := &inst{sc: sc, w: crkit.NewWorld(sc.params()), props: map[string]*propRef{}, reqs: map[common.Uint256]string{},
		reqA: map[common.Uint256]common.Fixed64{}, warm: true}
	in.w.Skip = func(string) bool { return true }
	for _, op := range sc.warm {
		if f := in.step(op); f != nil {
			// the warm-up is part of every history of the scenario: a clause violated there is
			// a violation (artefact: the empty free part), and nothing is explored behind it
			run.Violate(f.Signature, fmt.Sprintf("in the warm-up, at %q: %s", op, f.What),
				map[string]interface{}{"system": sc.name, "history": []string{}})
			in.dead = true
			break
		}
	}
	in.w.Skip = nil
	in.warm = false
	return in
}

func (in *inst) Close() {
	if in.w != nil {
		in.w.Close()
	}
}

func (in *inst) Ops() []string {
	var ops []string
	if in.dead || in.inert || (!replaying && outOfTime()) {
		return nil
	}
	for _, op := range in.sc.alphabet {
		if _, err := in.w.Offer(op); err == nil {
			ops = append(ops, op)
		} else {
			rejected.Add(crkit.Kind(op) + ": " + reason(err))
		}
	}
	return ops
}

// reason shortens a rejection to its stable part.
func reason(err error) string {
	parts := strings.Split(err.Error(), ":")
	for len(parts) > 1 {
		last := strings.TrimSpace(parts[len(parts)-1])
		if last != "" && !isHex(last) {
			break
		}
		parts = parts[:len(parts)-1] // drop empty tails and hashes
	}
	s := strings.TrimSpace(parts[len(parts)-1])
	if len(s) > 60 {
		s = s[:60]
	}
	return s
}

func isHex(s string) bool {
	if len(s) < 32 {
		return false
	}
	for _, c := range s {
		if !strings.ContainsRune("0123456789abcdefABCDEF", c) {
			return false
		}
	}
	return true
}

func (in *inst) Apply(op string) *mc.Fail {
	key := in.sc.name + "|" + strings.Join(in.hist, ",") + "," + op
	if in.inert {
		if _, ok := failedKeys.Load(key); !ok {
			in.hist = append(in.hist, op)
			return nil
		}
		real := newRealInst(in.sc)
		for _, o := range in.hist {
			real.Apply(o)
		}
		*in = *real
	}
	// counters count transitions of the search, not their replays
	_, again := seenTrans.LoadOrStore(key, true)
	in.fresh = !again
	f := in.step(op)
	in.fresh = false
	in.hist = append(in.hist, op)
	if f != nil {
		failedKeys.Store(key, true)
	}
	return f
}

var seenTrans sync.Map

func (in *inst) step(op string) *mc.Fail {
	blocks, err := in.w.Offer(op)
	if err != nil {
		evid.Fatalf("C29 %s: op %q offered after %v was rejected: %v", in.sc.name, op, in.hist, err)
	}
	if in.fresh {
		acceptedOps.Add(crkit.Kind(op))
	}
	for _, b := range blocks {
		if b == nil {
			b = in.w.MakeBlock()
		}
		in.noteBefore(b)
		in.w.Apply([]*types.Block{b})
		if f := in.judge(op, b); f != nil {
			return f
		}
	}
	return nil
}

// noteBefore updates the ledger from the transactions of an accepted block, using only what the
// transactions say. Every transaction of a block is validated against the state before the
// block, so withdrawal requests are booked first, against the stages released before the block
// (a request covers all of them), then the tracking transactions of the block release stages.
func (in *inst) noteBefore(b *types.Block) {
	in.bad = nil
	for _, tx := range b.Transactions {
		switch pl := tx.Payload().(type) {
		case *payload.CRCProposal:
			if len(pl.Budgets) == 0 {
				continue
			}
			label := labelOfDraft(pl.DraftHash)
			p := &propRef{label: label, hash: pl.Hash(tx.PayloadVersion()), budgets: map[uint8]common.Fixed64{},
				kinds: map[uint8]payload.InstallmentType{}, approved: map[uint8]bool{}, withdrawn: map[uint8]bool{}}
			for _, bd := range pl.Budgets {
				if bd.Amount < 0 && in.bad == nil {
					in.bad = mc.Failf("C29|negative-stage-budget-accepted",
						"proposal %s was accepted in block %d with stage %d asking for %s (budgets %v): the committee commits the sum, each positive stage is released in full",
						label, b.Height, bd.Stage, bd.Amount, pl.Budgets)
				}
				p.budgets[bd.Stage] = bd.Amount
				p.kinds[bd.Stage] = bd.Type
				p.total += bd.Amount
			}
			in.props[label] = p
			in.used += p.total
		case *payload.CRCProposalWithdraw:
			p := in.byHash(pl.ProposalHash)
			if p == nil {
				continue
			}
			avail := p.available()
			if pl.Amount != avail && in.bad == nil {
				in.bad = mc.Failf("C29|request-accepted-for-wrong-amount",
					"proposal %s: a withdrawal request for %s was accepted in block %d while %s was released and not yet requested",
					p.label, pl.Amount, b.Height, avail)
			}
			for st := range p.approved {
				p.withdrawn[st] = true
			}
			in.reqs[tx.Hash()] = p.label
			in.reqA[tx.Hash()] = pl.Amount
			p.requested += pl.Amount
			if in.fresh {
				atomic.AddInt64(&withdrawals, 1)
			}
		}
	}
	for _, tx := range b.Transactions {
		switch pl := tx.Payload().(type) {
		case *payload.CRCProposalTracking:
			p := in.byHash(pl.ProposalHash)
			if p == nil {
				continue
			}
			switch pl.ProposalTrackingType {
			case payload.Progress:
				p.approved[pl.Stage] = true
			case payload.Finalized:
				for st, k := range p.kinds {
					if k == payload.FinalPayment {
						p.approved[st] = true
					}
				}
				in.release(p, true)
			case payload.Terminated:
				in.release(p, false)
			}
		case *payload.CRCProposalRealWithdraw:
			for _, h := range pl.WithdrawTransactionHashes {
				if l, ok := in.reqs[h]; ok {
					in.props[l].paid += in.reqA[h]
					if in.fresh {
						atomic.AddInt64(&payouts, 1)
					}
				}
			}
		}
	}
}

// release returns the budget of the stages that will never be paid to the committee's free
// funds (termination: every unapproved stage; finalisation: every unapproved stage but the final).
func (in *inst) release(p *propRef, finalised bool) {
	if p.released {
		return
	}
	p.released = true
	for st, a := range p.budgets {
		if !p.approved[st] {
			in.used -= a
		}
	}
}

func (in *inst) byHash(h common.Uint256) *propRef {
	for _, p := range in.props {
		if p.hash.IsEqual(h) {
			return p
		}
	}
	return nil
}

func labelOfDraft(h common.Uint256) string {
	for _, l := range []string{"A", "B", "C", "D", "E", "F"} {
		if crkit.DraftHash(l).IsEqual(h) {
			return l
		}
	}
	return "?"
}

// judge compares the committee with the ledger after block b of operation op.
func (in *inst) judge(op string, b *types.Block) *mc.Fail {
	if in.fresh {
		atomic.AddInt64(&blocksJudged, 1)
	}
	kind := crkit.Kind(op)
	c := in.w.C
	var labels []string
	for l := range in.props {
		labels = append(labels, l)
	}
	sort.Strings(labels)
	for _, l := range labels {
		p := in.props[l]
		ps := c.GetProposal(p.hash)
		if ps == nil {
			continue // not registered (e.g. sponsor had too many proposals)
		}
		if in.fresh {
			statusSeen.Add(ps.Status.String())
		}
		switch ps.Status {
		case crstate.VoterAgreed, crstate.Finished, crstate.Terminated:
			// the imprest is released when the voters have agreed
			for st, k := range p.kinds {
				if k == payload.Imprest && ps.Status == crstate.VoterAgreed {
					p.approved[st] = true
				}
			}
			if ps.Status != crstate.VoterAgreed {
				in.release(p, ps.Status == crstate.Finished) // closed by a close-proposal, or by tracking (already released)
			}
		case crstate.CRCanceled, crstate.VoterCanceled, crstate.Aborted:
			if !p.canceled && !p.released {
				p.canceled = true
				p.released = true
				in.used -= p.total
			}
		}
		if p.requested > p.sumApproved() {
			var pend common.Fixed64
			n := 0
			for h, info := range c.GetRealWithdrawTransactions() {
				if in.reqs[h] == l {
					pend += info.Amount
					n++
				}
			}
			follow := "no real-withdraw transaction could be built"
			if blocks, err := in.w.Offer("realwd"); err == nil && len(blocks) == 1 {
				var out common.Fixed64
				for _, tx := range blocks[0].Transactions[1:] {
					for _, o := range tx.Outputs() {
						if o.ProgramHash.IsEqual(ps.Recipient) {
							out += o.Value
						}
					}
				}
				follow = fmt.Sprintf("a CRCProposalRealWithdraw transaction paying %s to the recipient passes its SpecialContextCheck", out)
			} else if err != nil {
				follow = "real-withdraw rejected: " + reason(err)
			}
			return mc.Failf("C29|withdrawn-exceeds-approved|via="+kind,
				"proposal %s: accepted withdrawal requests total %s, released stages total %s; the committee now holds %d pending payment(s) for it totalling %s while WithdrawnBudgets records %d stage(s); %s",
				l, p.requested, p.sumApproved(), n, pend, len(ps.WithdrawnBudgets), follow)
		}
		if p.paid > p.sumApproved() {
			return mc.Failf("C29|paid-exceeds-approved|via="+kind, "proposal %s: paid %s > approved %s", l, p.paid, p.sumApproved())
		}
		// implementation bookkeeping against the ledger
		for st, a := range ps.WithdrawableBudgets {
			if !p.approved[st] {
				return mc.Failf("C29|withdrawable-before-approval|via="+kind,
					"proposal %s (status %s): stage %d is withdrawable but no accepted tracking / voter agreement released it", l, ps.Status, st)
			}
			if a != p.budgets[st] {
				return mc.Failf("C29|withdrawable-amount-differs-from-budget|via="+kind,
					"proposal %s: stage %d is withdrawable for %s, its approved budget is %s", l, st, a, p.budgets[st])
			}
		}
		for st, a := range ps.WithdrawnBudgets {
			if !p.withdrawn[st] || a != p.budgets[st] {
				return mc.Failf("C29|withdrawn-budgets-differ-from-ledger|via="+kind,
					"proposal %s: WithdrawnBudgets[%d]=%s, ledger: withdrawn=%v budget=%s", l, st, a, p.withdrawn[st], p.budgets[st])
			}
		}
		for st := range p.withdrawn {
			if _, ok := ps.WithdrawnBudgets[st]; !ok {
				return mc.Failf("C29|withdrawn-budgets-differ-from-ledger|via="+kind,
					"proposal %s: ledger has stage %d requested, WithdrawnBudgets does not", l, st)
			}
		}
		if got, want := c.AvailableWithdrawalAmount(p.hash), p.available(); got != want {
			return mc.Failf("C29|available-amount-differs-from-ledger|via="+kind,
				"proposal %s (status %s): AvailableWithdrawalAmount=%s, ledger (released and not yet requested)=%s", l, ps.Status, got, want)
		}
		var sumW common.Fixed64
		for _, a := range ps.WithdrawnBudgets {
			sumW += a
		}
		if sumW > p.total {
			return mc.Failf("C29|withdrawn-exceeds-budget|via="+kind, "proposal %s: WithdrawnBudgets total %s > budget %s", l, sumW, p.total)
		}
	}
	if in.bad != nil {
		f := *in.bad
		f.Signature += "|via=" + kind
		return &f
	}
	// pending payment obligations must all stem from accepted requests and match them
	var pend common.Fixed64
	for h, info := range c.GetRealWithdrawTransactions() {
		if in.reqA[h] != info.Amount {
			return mc.Failf("C29|pending-payment-differs-from-request|via="+kind, "pending payment %s for a request of %s", info.Amount, in.reqA[h])
		}
		pend += info.Amount
	}
	// committee funds. When a new committee takes office the committed amount starts again from
	// what is still owed to the proposals of earlier terms.
	if c.LastCommitteeHeight != in.lastCommittee {
		in.lastCommittee = c.LastCommitteeHeight
		in.used = 0
		for _, l := range labels {
			in.used += in.props[l].owed()
		}
		if in.fresh {
			atomic.AddInt64(&committeeChanges, 1)
			if in.used > 0 {
				atomic.AddInt64(&changesWithOwed, 1)
			}
		}
	}
	if c.CRCCommitteeUsedAmount > c.CRCCurrentStageAmount {
		return mc.Failf("C29|committee-overcommitted|via="+kind,
			"CRCCommitteeUsedAmount %s > CRCCurrentStageAmount %s", c.CRCCommitteeUsedAmount, c.CRCCurrentStageAmount)
	}
	if c.CRCCommitteeUsedAmount < 0 {
		return mc.Failf("C29|committee-used-negative|via="+kind, "CRCCommitteeUsedAmount %s", c.CRCCommitteeUsedAmount)
	}
	if c.CRCCommitteeUsedAmount != in.used {
		return mc.Failf("C29|used-amount-differs-from-ledger|via="+kind,
			"CRCCommitteeUsedAmount=%s, ledger (owed to earlier proposals at the last committee change + budgets committed since - budgets released since)=%s", c.CRCCommitteeUsedAmount, in.used)
	}
	return nil
}

func (in *inst) Digest() string {
	if in.inert {
		return "inert|" + in.sc.name + "|" + strings.Join(in.hist, ",")
	}
	var sb strings.Builder
	for _, l := range crkit.Canon(in.w.C) {
		sb.WriteString(l)
		sb.WriteByte('\n')
	}
	var labels []string
	for l := range in.props {
		labels = append(labels, l)
	}
	sort.Strings(labels)
	for _, l := range labels {
		p := in.props[l]
		fmt.Fprintf(&sb, "%s a%v w%v r%d p%d rel%v c%v|", l, keys(p.approved), keys(p.withdrawn), p.requested, p.paid, p.released, p.canceled)
	}
	fmt.Fprintf(&sb, "u%d", in.used)
	// the voters' outputs are part of what later operations can do
	for _, v := range crkit.Voters {
		sb.WriteString(in.w.VoteOutKey(v))
	}
	h := common.Hash([]byte(sb.String()))
	return h.String()
}

func keys(m map[uint8]bool) []int {
	var o []int
	for k, v := range m {
		if v {
			o = append(o, int(k))
		}
	}
	sort.Ints(o)
	return o
}

var _ = common2.TransferAsset

func main() {
	r := evid.Start("C29", "model_checking")
	run = r
	scratch := crkit.Init()
	defer os.RemoveAll(scratch)
	if r.Thorough() {
		for _, sc := range scenarios {
			sc.alphabet = append(sc.alphabet, sc.extra...)
		}
	}
	// the warm-ups must be acceptable to the node
	for _, sc := range scenarios {
		w := crkit.NewWorld(sc.params())
		for _, op := range sc.warm {
			blocks, err := w.Offer(op)
			if err != nil {
				evid.Fatalf("C29 %s: warm-up op %q rejected by the node's checks at height %d: %v", sc.name, op, w.Height+1, err)
			}
			w.Apply(blocks)
		}
		w.Close()
	}
	if only := os.Getenv("VERIF_C29_ONLY"); only != "" { // development aid
		var keep []*scenario
		for _, sc := range scenarios {
			if sc.name == only {
				keep = append(keep, sc)
			}
		}
		scenarios = keep
	}
	if r.Replay != "" {
		var a struct {
			System  string   `json:"system"`
			History []string `json:"history"`
		}
		r.LoadReplay(&a)
		replaying = true
		for _, sc := range scenarios {
			if sc.name == a.System {
				sc := sc
				sp := &mc.Spec{Name: sc.name, New: func() mc.Instance { return newInst(sc) }, MaxDepth: len(a.History)}
				mc.Replay(r, sp, a.History)
			}
		}
		os.RemoveAll(scratch)
		r.Finish(evid.Coverage{})
	}
	total := &mc.Result{Exhaustive: true}
	per := map[string]interface{}{}
	start := time.Now()
	// quick: evid's own budget less a margin; thorough: the check ends itself after 25 minutes
	budget := time.Duration(r.Pick(1100, 1500)) * time.Second
	if b := os.Getenv("VERIF_BUDGET_S"); b != "" {
		var n int
		if _, err := fmt.Sscan(b, &n); err == nil && n > 0 {
			if b := time.Duration(n) * time.Second * 9 / 10; b < budget {
				budget = b
			}
		}
	}
	for si, sc := range scenarios {
		sc := sc
		scenarioDeadline = start.Add(budget * time.Duration(si+1) / time.Duration(len(scenarios)))
		depth := sc.depth[0]
		if r.Thorough() {
			depth = sc.depth[1]
		}
		if d := os.Getenv("VERIF_C29_DEPTH"); d != "" {
			fmt.Sscan(d, &depth)
		}
		sp := &mc.Spec{Name: sc.name, New: func() mc.Instance { return newInst(sc) }, MaxDepth: depth, MaxStates: r.Pick(0, 400000)}
		res := mc.Explore(r, sp)
		if atomic.SwapInt32(&expired, 0) != 0 {
			res.Exhaustive = false
			res.Capped = "time budget share reached: the states explored until then are fully judged, nothing was expanded afterwards"
		}
		total.States += res.States
		total.Transitions += res.Transitions
		total.Executions += res.Executions
		if res.DepthDone > total.DepthDone {
			total.DepthDone = res.DepthDone
		}
		total.Exhaustive = total.Exhaustive && res.Exhaustive
		if res.Capped != "" {
			total.Capped = sc.name + ": " + res.Capped
		}
		total.PerDepth = append(total.PerDepth, res.PerDepth...)
		if len(res.Samples) > 0 {
			total.Samples = append(total.Samples, append([]string{"[" + sc.name + "]"}, res.Samples[0]...))
		}
		per[sc.name] = map[string]interface{}{"states": res.States, "transitions": res.Transitions, "per_depth": res.PerDepth,
			"depth": depth, "warmup": sc.warm, "alphabet": sc.alphabet}
		fmt.Printf("C29 %s: %d states, %d transitions, depth %d\n", sc.name, res.States, res.Transitions, res.DepthDone)
	}
	cov := total.Coverage("per scenario (fixed warm-up + alphabet): BFS over all sequences of operations whose every transaction passed the node's HeightVersionCheck/CheckTransactionPayload/SpecialContextCheck and whose block passed the block-scoped rules (duplicate tx / duplicate input / CheckDuplicateTx); states merged on canonical committee state + ledger; failing transitions are not expanded; after every block: per proposal requested<=approved, paid<=approved, WithdrawableBudgets subset of released stages, WithdrawnBudgets == ledger, AvailableWithdrawalAmount == ledger, pending payments == accepted requests; CRCCommitteeUsedAmount within [0, CRCCurrentStageAmount] and == ledger")
	cov["scenarios"] = per
	cov["blocks_judged"] = atomic.LoadInt64(&blocksJudged)
	cov["withdrawal_requests_accepted"] = atomic.LoadInt64(&withdrawals)
	cov["payouts"] = atomic.LoadInt64(&payouts)
	cov["committee_changes_crossed"] = atomic.LoadInt64(&committeeChanges)
	cov["committee_changes_with_budget_still_owed"] = atomic.LoadInt64(&changesWithOwed)
	cov["operations_accepted_by_kind"] = acceptedOps.Map()
	cov["rejections_by_node_checks"] = rejected.Map()
	cov["proposal_statuses_seen"] = statusSeen.Map()
	r.Assume = append(r.Assume,
		"regime: before DPoS v2, withdrawal payload version 01 (request recorded, coins moved by CRCProposalRealWithdraw), proposal payload version 0",
		"UTXO-level validity (input signatures, fees beyond what SpecialContextCheck looks at, double spends across blocks) is outside the seam; each harness transaction spends its own coins",
		"quick depth 5 instead of 6 (measured: see scenarios.*.transitions); warm-ups put the two proposals in front of the phase under study",
	)
	os.RemoveAll(scratch)
	r.Finish(cov)
}
