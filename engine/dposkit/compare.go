package dposkit

import (
	"fmt"
	"sort"
	"strings"
)

// regimes: warm-up scripts (block kinds of heights 1..len).
var regimes = map[string][]string{
	// producers registered at height 1, still pending; the free blocks see them become active
	// and cross H1 (CRC-only DPoS, 8) and H2 (public DPoS, 10)
	"early": {"regall", "empty", "empty", "empty", "empty"},
	// all four producers active and voted, DPoS running with elected arbiters, new-CR era
	// (irreversibility bookkeeping, revert-to-POW) and DPoS v2 start height reached
	"late": {"regall", "empty", "empty", "empty", "empty", "empty", "voteall:0", "empty", "empty", "empty", "empty", "empty", "empty", "empty", "empty"},
	// late + the on-duty arbiter misses its turn twice: one elected producer has just been set
	// inactive (ActivateProducer becomes admissible)
	"inactive": {"regall", "empty", "empty", "empty", "empty", "empty", "voteall:0", "empty", "empty", "empty", "empty", "empty", "empty", "empty", "empty", "skip", "empty", "skip"},
	// late + a producer canceled and its deposit lock-up elapsed (ReturnDepositCoin admissible);
	// filled in by main (the canceled producer is the CRC-seat representative)
	"canceled": nil,
	// late + DPoS v2 under way: voter 0 staked, producers 0..2 upgraded to v1+v2 and holding
	// effective v2 votes; the next block is the round change that fixes DPoSV2ActiveHeight
	"v2": nil,
	// v2 + four blocks: DPoSV2ActiveHeight is fixed and reached by the next block (v1-only
	// producers get canceled, reward clearing of the last v1 round)
	"v2active": nil,
}

// Regimes returns the warm-up scripts by name (the scripts that depend on the representative
// producers are filled in).
func (w *World) Regimes() map[string][]string {
	reps := w.Representatives()
	out := map[string][]string{}
	for k, v := range regimes {
		out[k] = v
	}
	late := regimes["late"]
	out["canceled"] = append(append([]string{}, late...), fmt.Sprintf("cancel:%d", reps[0]), "empty", "empty", "empty")
	out["v2"] = append(append([]string{}, late...), "stake:0", "upv2:0", "upv2:1", "upv2:2", "v2vote:0>0", "v2vote:0>1", "v2vote:0>2", "empty", "empty")
	out["v2active"] = append(append([]string{}, out["v2"]...), "empty", "empty", "empty", "empty")
	// public DPoS just started (height 10): CRC seats are still the configured keys, the two
	// normal seats are elected producers; the free blocks lie in [CRVotingStartHeight, new-CR era)
	// where illegal-block evidence forces an arbiter change under the DPoS 1.0 reward rules
	out["public"] = append([]string{}, late[:10]...)
	// public + illegal-proposal evidence against an elected producer + its ActivateProducer
	// request: the producer is illegal with a pending activation request when the free blocks
	// start (a second evidence against it is admissible)
	{
		probe := w.NewInst()
		for _, op := range out["public"] {
			probe.Apply(op)
		}
		x := -1
		for i := 0; i < NProducers; i++ {
			if p := probe.prod(i); p != nil && probe.A.IsArbitrator(p.NodePublicKey()) {
				x = i
				break
			}
		}
		probe.Close()
		if x >= 0 {
			out["illegalact"] = append(append([]string{}, out["public"]...), fmt.Sprintf("illegal:%d", x), fmt.Sprintf("act:%d", x))
		}
	}
	// late + DPoS v2 reward balances present and one claim of voter 0 pending (its real-withdraw
	// transaction not yet mined): the free blocks claim and pay out, also both in one block
	out["claim"] = append(append([]string{}, late...), "seedreward", "claim:0", "empty", "empty")
	// late + voter 0 staked and the two representative producers upgraded to v1+v2 but without
	// any v2 vote: the free blocks lift them to just below / exactly at / above
	// DPoSV2EffectiveVotes (membership of DposV2EffectedProducers)
	out["v2ready"] = append(append([]string{}, late...), "stake:0", fmt.Sprintf("upv2:%d", reps[0]), fmt.Sprintf("upv2:%d", reps[1]))
	// v2 + illegal-proposal evidence against producer 3 (the only one left with DPoS v1
	// identity, a sitting arbiter) at 26: when the next block reaches DPoSV2ActiveHeight (29) the
	// forced cancellation of v1 producers meets a producer in state Illegal
	out["v2illegal"] = append(append([]string{}, out["v2"]...), "empty", "illegal:3", "empty", "empty")
	// late + the chain reverted to PoW (16), RevertToDPOS accepted at 18 (work height W = 28) and
	// PoW blocks up to W: the next block, W+1, restarts DPOSStartHeight AND performs the regular
	// irreversibility advance (two changes of the same field at one height)
	ret := append(append([]string{}, late...), "pow", "empty", "dpos")
	for len(ret) < 28 {
		ret = append(ret, "empty")
	}
	out["returned"] = ret
	return out
}

// RegimeNames lists the regimes in exploration order.
var RegimeNames = []string{"early", "late", "inactive", "canceled", "v2", "v2active", "returned", "v2ready", "public", "claim", "illegalact", "v2illegal"}

// StateCanonOpts are the canonicalisation options under which two DPoS states are compared.
var StateCanonOpts = &CanonOpts{
	Skip: map[string]bool{
		// back pointer to the Arbiters object, not state
		".arbitrators": true,
		// height label of the checkpoint object (always 0 for Snapshot())
		".Height": true,
		// set by the environment (SetNeedRevertToDPOSTX from the DPoS network layer) outside block
		// processing; the harness sets it just before a block that carries RevertToDPOS
		".StateKeyFrame.NeedRevertToDPOSTX": true,
	},
	// arbiter members embed a by-value copy of the Producer taken at election time; the copy's
	// vote maps are shared by reference with the live producer whenever the live map happened to
	// be allocated already, so what the copy shows of later votes depends on allocation history
	// even in a direct build. The votes are compared on the live producers.
	SkipSuffix: []string{".producer.detailedDPoSV2Votes", ".producer.expiredNFTVotes"},
	AsSet:      map[string]bool{},
	// additive maps: "m[k] -= v" (or deleting the last inner element) on rollback leaves a zero /
	// empty entry where the directly built state has none; both read the same everywhere
	ElideZero: []string{".StateKeyFrame.DposV2VoteRights", ".StateKeyFrame.UsedDposV2Votes", ".StateKeyFrame.UsedDposVotes",
		".StateKeyFrame.DPoSV2RewardInfo", ".StateKeyFrame.DposV2RewardClaimingInfo", ".StateKeyFrame.DposV2RewardClaimedInfo", ".detailedDPoSV2Votes"},
}

type explicit struct {
	ConsensusAlgorithm     string
	LastIrreversibleHeight uint32
	DPOSStartHeight        uint32
}

// liveScalars are the scalar fields of the live StateKeyFrame. Arbiters.Snapshot() goes through
// StateKeyFrame.snapshot(), which copies the maps and DPoSV2ActiveHeight only, so these fields
// are always zero in the snapshot and are read from the live state instead (the three fields
// the property names are rendered through their getters as explicit.*).
type liveScalars struct {
	LastRandomCandidateOwner  string
	VersionStartHeight        uint32
	VersionEndHeight          uint32
	LastRandomCandidateHeight uint32
	DPOSWorkHeight            uint32
	LastBlockTimestamp        uint32
	NeedNextTurnDPOSInfo      bool
	NoProducers               bool
	NoClaimDPOSNode           bool
	RevertToPOWBlockHeight    uint32
	EmergencyInactiveArbiters map[string]struct{}
}

// StateLines is the canonical rendering of the DPoS state of in: Arbiters.Snapshot(), the scalar
// fields of the live StateKeyFrame, and the explicit getters named by the property.
func StateLines(in *Inst) []string {
	lines := Canon(in.A.Snapshot(), StateCanonOpts)
	k := in.A.State.StateKeyFrame
	for _, l := range Canon(liveScalars{k.LastRandomCandidateOwner, k.VersionStartHeight, k.VersionEndHeight, k.LastRandomCandidateHeight,
		k.DPOSWorkHeight, k.LastBlockTimestamp, k.NeedNextTurnDPOSInfo, k.NoProducers, k.NoClaimDPOSNode, k.RevertToPOWBlockHeight,
		k.EmergencyInactiveArbiters}, nil) {
		lines = append(lines, "live"+l)
	}
	ex := explicit{in.A.GetConsensusAlgorithm().String(), in.A.GetLastIrreversibleHeight(), in.A.DPOSStartHeight}
	lines = append(lines, Canon(ex, nil)...)
	for i := len(lines) - 3; i < len(lines); i++ {
		lines[i] = "explicit" + lines[i]
	}
	sort.Strings(lines)
	return lines
}

// producer maps hold the same *Producer under different names depending on its state
var producerMaps = []string{"PendingProducers", "ActivityProducers", "InactiveProducers", "CanceledProducers", "IllegalProducers", "PendingCanceledProducers", "DposV2EffectedProducers"}

// diffFields turns a line diff into stable field names: generic paths (keys replaced by [*]),
// producer maps folded into "Producer", and a whole map element present on one side only
// reported once as <map>[membership].
// DiffFieldNames turns a line diff into stable field names.
func DiffFieldNames(a, b []string) []string {
	prefixes := func(lines []string) map[string]bool {
		m := map[string]bool{}
		for _, l := range lines {
			p := l
			if i := SepIndex(p); i >= 0 {
				p = p[:i]
			}
			depth := 0
			for i, r := range p {
				if r == '[' {
					depth++
				} else if r == ']' {
					depth--
					if depth == 0 {
						m[p[:i+1]] = true
					}
				}
			}
		}
		return m
	}
	pa, pb := prefixes(a), prefixes(b)
	set := map[string]bool{}
	for _, l := range DiffLines(a, b, 0) {
		side, p := l[0], l[2:]
		if i := SepIndex(p); i >= 0 {
			p = p[:i]
		}
		other := pb
		if side == '+' {
			other = pa
		}
		name := ""
		depth := 0
		for i, r := range p {
			if r == '[' {
				depth++
			} else if r == ']' {
				depth--
				if depth == 0 && !other[p[:i+1]] {
					name = Generic(p[:i+1])
					// an element present on one side only: "+" lines belong to the second
					// rendering (the instance under test): extra there, else missing there
					if side == '+' {
						name = name[:len(name)-3] + "[extra]"
					} else {
						name = name[:len(name)-3] + "[missing]"
					}
					break
				}
			}
		}
		if name == "" {
			name = Generic(p)
		}
		name = FoldProducer(name)
		if strings.HasSuffix(name, ".len") {
			name = strings.TrimSuffix(name, ".len") + "[membership]"
		}
		set[name] = true
	}
	// a changed length says nothing more once an extra / missing element of the map is named
	for k := range set {
		if strings.HasSuffix(k, "[membership]") {
			base := strings.TrimSuffix(k, "[membership]")
			if set[base+"[extra]"] || set[base+"[missing]"] {
				delete(set, k)
			}
		}
	}
	var out []string
	for k := range set {
		out = append(out, k)
	}
	sort.Strings(out)
	return out
}

// FoldProducer maps a generic path inside one of the producer maps to Producer.<field>.
func FoldProducer(name string) string {
	for _, pm := range producerMaps {
		if i := strings.Index(name, "."+pm+"[*]."); i >= 0 {
			return "Producer." + name[i+len(pm)+5:]
		}
	}
	return name
}

// Generic replaces map keys and indices of a canonical path by [*].
func Generic(p string) string {
	var sb strings.Builder
	depth := 0
	for _, r := range p {
		switch {
		case r == '[':
			if depth == 0 {
				sb.WriteString("[*")
			}
			depth++
		case r == ']':
			depth--
			if depth == 0 {
				sb.WriteRune(']')
			}
		case depth == 0:
			sb.WriteRune(r)
		}
	}
	return sb.String()
}

func fillRegimes(reps []int) {
	late := regimes["late"]
	regimes["canceled"] = append(append([]string{}, late...), fmt.Sprintf("cancel:%d", reps[0]), "empty", "empty", "empty")
	regimes["v2"] = append(append([]string{}, late...), "stake:0", "upv2:0", "upv2:1", "upv2:2", "v2vote:0>0", "v2vote:0>1", "v2vote:0>2", "empty", "empty")
	regimes["v2active"] = append(append([]string{}, regimes["v2"]...), "empty", "empty", "empty", "empty")
}
