// Side-chain mode (tweak 0xffffffff) of matchTxAndUpdate, enumerated as a table. Documented
// intent of the branch: a transaction matches when its type is one of the filter's TxTypes, or
// when the filter has a bit array and one of its outputs pays to a program hash the filter
// contains; transaction ids and spent outpoints are not looked at and nothing is added.
package main

import (
	"encoding/hex"
	"fmt"
	"math"

	"github.com/elastos/Elastos.ELA/core"
	"github.com/elastos/Elastos.ELA/core/contract/program"
	ctypes "github.com/elastos/Elastos.ELA/core/types/common"
	"github.com/elastos/Elastos.ELA/core/types/functions"
	"github.com/elastos/Elastos.ELA/core/types/interfaces"
	"github.com/elastos/Elastos.ELA/core/types/outputpayload"
	"github.com/elastos/Elastos.ELA/core/types/payload"

	"verif/blockkit"
)

func recordTx(i int) interfaces.Transaction {
	blockkit.Register()
	return functions.CreateTransaction(
		ctypes.TxVersion09, ctypes.Record, 0, &payload.Record{Type: "note", Content: []byte{byte(i)}},
		[]*ctypes.Attribute{{Usage: ctypes.Nonce, Data: []byte{byte(i), 9}}},
		[]*ctypes.Input{{Previous: blockkit.PrevOutOf(300 + i), Sequence: 0}},
		[]*ctypes.Output{
			{AssetID: core.ELAAssetID, Value: 7, ProgramHash: blockkit.ProgramHashOf(300 + i), Type: ctypes.OTNone, Payload: &outputpayload.DefaultOutput{}},
			{AssetID: core.ELAAssetID, Value: 8, ProgramHash: blockkit.ProgramHashOf(1300 + i), Type: ctypes.OTNone, Payload: &outputpayload.DefaultOutput{}},
		},
		0, []*program.Program{{Code: []byte{33, 2, 1, 2, 3, 4, 5, 6, 7, 8, 9, 10, 11, 12, 13, 14, 15, 16, 17, 18, 19, 20, 21, 22, 23, 24, 25, 26, 27, 28, 29, 30, 31, 32, 0xac}, Parameter: make([]byte, 65)}},
	)
}

// sideTable runs every cell (bit array shape x TxTypes x watched item x transaction) through
// the server's load path and through all three presentation entry points.
func (k *checker) sideTable() (cells, mustMatch, matched int64, table map[string]string) {
	table = map[string]string{}
	params := blockkit.Params()
	txs := []interfaces.Transaction{blockkit.Transfer(40), recordTx(1), blockkit.Coinbase(params, 9, 3)}
	typeName := map[ctypes.TxType]string{ctypes.TransferAsset: "transfer", ctypes.Record: "record", ctypes.CoinBase: "coinbase"}
	unpaid := blockkit.ProgramHashOf(7777)
	type shape struct {
		size int
		hf   uint32
	}
	for _, sh := range []shape{{64, 7}, {36000, 50}, {1, 1}, {0, 0}, {0, 3}} {
		for ti, tx := range txs {
			other := txs[(ti+1)%len(txs)].TxType()
			unused := ctypes.TxType(0x7f)
			for _, tt := range []struct {
				tn    string
				types []byte
			}{
				{"none", []byte{}}, {"own", []byte{byte(tx.TxType())}}, {"other", []byte{byte(other)}},
				{"own+other", []byte{byte(other), byte(tx.TxType())}}, {"other+unused", []byte{byte(other), byte(unused)}},
			} {
				tn, types := tt.tn, tt.types
				for _, watched := range []string{"none", "output0", "output1", "unpaid-address", "output1+unpaid"} {
					c := cfg{Origin: "wire", Size: sh.size, HashFuncs: sh.hf, Tweak: math.MaxUint32}
					payloadBytes := filterLoadBytes(make([]byte, sh.size), sh.hf, math.MaxUint32, 0, types)
					art := artefact{Cfg: c, Step: "side-chain table", Tx: ti, Watched: watched, Payload: hex.EncodeToString(payloadBytes), Sequence: "TxTypes=" + tn}
					for _, via := range []string{"MatchConfirmed", "MatchUnconfirmed"} {
						server, err := serverLoad(payloadBytes)
						if err != nil {
							k.violate("C39|side-mode|filter-not-loadable", "a side-chain filterload payload is refused: "+err.Error(), art)
							continue
						}
						var adds [][]byte
						switch watched {
						case "output0":
							ph := tx.Outputs()[0].ProgramHash
							adds = append(adds, ph[:])
						case "output1":
							ph := tx.Outputs()[1].ProgramHash
							adds = append(adds, ph[:])
						case "unpaid-address":
							adds = append(adds, unpaid[:])
						case "output1+unpaid":
							ph := tx.Outputs()[1].ProgramHash
							adds = append(adds, unpaid[:], ph[:])
						}
						var m bool
						site := guarded(func() {
							for _, a := range adds {
								server.Add(a)
							}
							if via == "MatchConfirmed" {
								m = server.MatchConfirmed(tx)
							} else {
								m = server.MatchUnconfirmed(tx)
							}
						})
						if site != "" {
							k.panicked(site, "side-chain table via "+via, art)
							continue
						}
						k.evals++
						cells++
						listed := tn == "own" || tn == "own+other"
						paysWatched := sh.size > 0 && (watched == "output0" || watched == "output1" || watched == "output1+unpaid")
						want := listed || paysWatched
						cell := fmt.Sprintf("size=%d,hashFuncs=%d|tx=%s|TxTypes=%s|watched=%s", sh.size, sh.hf, typeName[tx.TxType()], tn, watched)
						table[cell] = fmt.Sprintf("must_match=%v observed=%v", want, m)
						if m {
							matched++
						}
						if want {
							mustMatch++
							if !m {
								why := "type-listed"
								if !listed {
									why = "pays-watched-address"
									if tn != "none" {
										why = "pays-watched-address-with-other-types-listed"
									}
								}
								k.violate("C39|false-negative|side-mode|"+why+"|"+c.class(), "side-chain filter (tweak 0xffffffff) misses a transaction it must report: "+cell+" via "+via, art)
							}
						}
						k.cases.Add("side/" + cell + "/" + via)
					}
				}
			}
		}
	}
	return
}
