// C08: SPV merkle proofs are sound and complete — bounded-exhaustive enumeration over
// (transaction count, match pattern, filter parameters) of the real producers
// bloom.NewMerkleBlock and elanet/filter.NewMerkleBlock (the one the server calls), the real
// verifiers bloom.CheckMerkleBlock / filter.CheckMerkleBlock, bloom.GetTxMerkleBranch and
// auxpow.GetMerkleRoot, against independent reference implementations (merkle root, BIP37
// partial-tree builder and extractor) written on the standard library only. Every produced
// merkle block is then corrupted in every single bit of every hash and flag byte and in its
// transaction count.
package main

import (
	"bytes"
	"fmt"
	"os"
	"runtime/debug"
	"sort"
	"strings"
	"sync/atomic"

	"github.com/elastos/Elastos.ELA/auxpow"
	"github.com/elastos/Elastos.ELA/common"
	"github.com/elastos/Elastos.ELA/core/types"
	ctypes "github.com/elastos/Elastos.ELA/core/types/common"
	"github.com/elastos/Elastos.ELA/core/types/interfaces"
	"github.com/elastos/Elastos.ELA/elanet/bloom"
	"github.com/elastos/Elastos.ELA/elanet/filter"
	"github.com/elastos/Elastos.ELA/p2p/msg"

	"verif/blockkit"
	"verif/evid"
	"verif/hx"
	"verif/par"
)

// ---- independent BIP37 reference ----------------------------------------------------------

func width(n, h uint32) uint32 { return (n + (1 << h) - 1) >> h }

func heightOf(n uint32) uint32 {
	h := uint32(0)
	for width(n, h) > 1 {
		h++
	}
	return h
}

func refSubtree(ids [][32]byte, h, pos uint32) [32]byte {
	if h == 0 {
		return ids[pos]
	}
	l := refSubtree(ids, h-1, 2*pos)
	r := l
	if 2*pos+1 < width(uint32(len(ids)), h-1) {
		r = refSubtree(ids, h-1, 2*pos+1)
	}
	return blockkit.RefParent(l, r)
}

// refBuild is the canonical BIP37 encoding of (ids, match pattern): depth-first flag bits and
// hashes.
func refBuild(ids [][32]byte, match []bool) (bits []bool, hashes [][32]byte) {
	n := uint32(len(ids))
	var rec func(h, pos uint32)
	rec = func(h, pos uint32) {
		parent := false
		for i := pos << h; i < (pos+1)<<h && i < n; i++ {
			parent = parent || match[i]
		}
		bits = append(bits, parent)
		if h == 0 || !parent {
			hashes = append(hashes, refSubtree(ids, h, pos))
			return
		}
		rec(h-1, 2*pos)
		if 2*pos+1 < width(n, h-1) {
			rec(h-1, 2*pos+1)
		}
	}
	rec(heightOf(n), 0)
	return
}

// refExtract is the reference light client: the recursive BIP37 extractor. ok=false on any
// malformation (running out of bits or hashes, identical left/right children, unused hashes,
// unused flag bytes).
func refExtract(n uint32, hashes [][32]byte, flags []byte) (root [32]byte, matched [][32]byte, ok bool) {
	if n == 0 {
		return root, nil, false
	}
	bitsUsed, hashUsed := 0, 0
	bad := false
	var rec func(h, pos uint32) [32]byte
	rec = func(h, pos uint32) [32]byte {
		if bitsUsed >= len(flags)*8 {
			bad = true
			return [32]byte{}
		}
		parent := flags[bitsUsed/8]>>(uint(bitsUsed)%8)&1 == 1
		bitsUsed++
		if h == 0 || !parent {
			if hashUsed >= len(hashes) {
				bad = true
				return [32]byte{}
			}
			x := hashes[hashUsed]
			hashUsed++
			if h == 0 && parent {
				matched = append(matched, x)
			}
			return x
		}
		l := rec(h-1, 2*pos)
		r := l
		if 2*pos+1 < width(n, h-1) {
			r = rec(h-1, 2*pos+1)
			if r == l {
				bad = true
			}
		}
		return blockkit.RefParent(l, r)
	}
	root = rec(heightOf(n), 0)
	if bad || hashUsed != len(hashes) || (bitsUsed+7)/8 != len(flags) {
		return root, matched, false
	}
	return root, matched, true
}

// ---- filters -----------------------------------------------------------------------------------

type filterCfg struct {
	Elements uint32  `json:"elements"`
	FPRate   float64 `json:"fprate"`
	Tweak    uint32  `json:"tweak"`
	Kind     string  `json:"kind"` // what is added for a chosen tx: txid | output | outpoint
}

type caseT struct {
	N       int       `json:"n"`
	Pattern uint64    `json:"pattern"`
	F       filterCfg `json:"filter"`
}

func (c caseT) String() string {
	return fmt.Sprintf("n=%d pattern=%b filter=%+v", c.N, c.Pattern, c.F)
}

func makeFilter(c caseT, txs []interfaces.Transaction) *bloom.Filter {
	f := bloom.NewFilter(c.F.Elements, c.F.Tweak, c.F.FPRate)
	for i := 0; i < c.N; i++ {
		if c.Pattern>>uint(i)&1 == 0 {
			continue
		}
		switch c.F.Kind {
		case "txid":
			h := txs[i].Hash()
			f.AddHash(&h)
		case "output":
			ph := txs[i].Outputs()[0].ProgramHash
			f.Add(ph[:])
		case "outpoint":
			op := txs[i].Inputs()[0].Previous
			f.AddOutPoint(&op)
		}
	}
	return f
}

// cloneLoad returns a copy of the filter's load message (the producers update the filter).
func cloneLoad(f *bloom.Filter) *msg.FilterLoad {
	m := f.GetFilterLoadMsg()
	return &msg.FilterLoad{Filter: append([]byte{}, m.Filter...), HashFuncs: m.HashFuncs, Tweak: m.Tweak, Flags: m.Flags, TxTypes: append([]ctypes.TxType{}, m.TxTypes...)}
}

// ---- the check ---------------------------------------------------------------------------------

type stats struct {
	cases, proofs, branches, hashFlips, flagFlips, countMuts int64
	flagFlipAccepted, countMutAccepted, mutPanics            int64
	falsePositives, matchAll, matchNone, dupTails            int64
}

type env struct {
	r       *evid.Run
	txs     []interfaces.Transaction
	ids     [][32]byte
	idIndex map[[32]byte]int
	st      stats
	shapes  evid.Distinct // distinct (n, realised pattern)
	encs    evid.Distinct // distinct (n, flags, #hashes) encodings
	samples evid.Samples
	pend    []pending // violations of this case, reported by the parent in job order (deterministic first artefact)
	flips   int       // 0 none, 1 one bit of every hash byte + all flag bits, 2 every bit
}

func u256s(hs []*common.Uint256) [][32]byte {
	out := make([][32]byte, len(hs))
	for i, h := range hs {
		out[i] = [32]byte(*h)
	}
	return out
}

func sameIDs(a [][32]byte, b [][32]byte) bool {
	if len(a) != len(b) {
		return false
	}
	for i := range a {
		if a[i] != b[i] {
			return false
		}
	}
	return true
}

// guarded runs f and converts a panic into (site, true).
func guarded(f func()) (site string, panicked bool) {
	defer func() {
		if x := recover(); x != nil {
			site = evid.PanicSite(debug.Stack())
			panicked = true
		}
	}()
	f()
	return
}

type pending struct {
	sig, what string
	art       map[string]interface{}
}

func (e *env) violate(sig, what string, c caseT, extra map[string]interface{}) {
	a := map[string]interface{}{"n": c.N, "pattern": c.Pattern, "filter": c.F}
	for k, v := range extra {
		a[k] = v
	}
	e.pend = append(e.pend, pending{sig, what + " [" + c.String() + "]", a})
}

func (e *env) runCase(c caseT) {
	atomic.AddInt64(&e.st.cases, 1)
	n := c.N
	txs := e.txs[:n]
	ids := e.ids[:n]
	root := blockkit.RefMerkleRoot(ids)
	blk := &types.Block{Header: ctypes.Header{MerkleRoot: common.Uint256(root), Height: 7}, Transactions: txs}

	f := makeFilter(c, txs)
	load := cloneLoad(f)

	// the pattern the filter realises, derived tx by tx on an identical copy
	ref := bloom.LoadFilter(cloneLoad(f))
	match := make([]bool, n)
	var want [][32]byte
	var realised uint64
	for i, tx := range txs {
		if ref.MatchTxAndUpdate(tx) {
			match[i] = true
			realised |= 1 << uint(i)
			want = append(want, ids[i])
		}
	}
	intended := c.Pattern & (1<<uint(n) - 1)
	sideMode := c.F.Tweak == 0xffffffff
	if !(sideMode && c.F.Kind != "output") && intended&^realised != 0 {
		e.violate("C08|filter-false-negative|kind="+c.F.Kind, "a transaction whose datum was added to the filter did not match", c, map[string]interface{}{"realised": realised})
	}
	if realised != intended {
		atomic.AddInt64(&e.st.falsePositives, 1)
	}
	switch realised {
	case 0:
		atomic.AddInt64(&e.st.matchNone, 1)
	case 1<<uint(n) - 1:
		atomic.AddInt64(&e.st.matchAll, 1)
	}
	e.shapes.Add(fmt.Sprintf("%d/%x", n, realised))

	// producer 1: bloom.NewMerkleBlock
	var mb *msg.MerkleBlock
	var matchedIdx []uint32
	if site, p := guarded(func() { mb, matchedIdx = bloom.NewMerkleBlock(blk, f) }); p {
		e.violate("C08|panic|NewMerkleBlock|"+site, "bloom.NewMerkleBlock panicked", c, nil)
		return
	}
	atomic.AddInt64(&e.st.proofs, 1)
	var idxPattern uint64
	for _, i := range matchedIdx {
		idxPattern |= 1 << i
	}
	if idxPattern != realised {
		e.violate("C08|producer-matched-indexes", "NewMerkleBlock's matched indexes differ from tx-by-tx filter matching", c, map[string]interface{}{"realised": realised, "indexes": matchedIdx})
	}
	// canonical encoding
	wantBits, wantHashes := refBuild(ids, match)
	wantFlags := make([]byte, (len(wantBits)+7)/8)
	for i, b := range wantBits {
		if b {
			wantFlags[i/8] |= 1 << uint(i%8)
		}
	}
	gotHashes := u256s(mb.Hashes)
	if mb.Transactions != uint32(n) || !bytes.Equal(mb.Flags, wantFlags) || !sameIDs(gotHashes, wantHashes) {
		e.violate("C08|producer-encoding|bloom.NewMerkleBlock", "merkle block differs from the canonical BIP37 partial tree for the matched set", c,
			map[string]interface{}{"flags": fmt.Sprintf("%x", mb.Flags), "want_flags": fmt.Sprintf("%x", wantFlags), "hashes": len(gotHashes), "want_hashes": len(wantHashes)})
	}
	e.encs.Add(fmt.Sprintf("%d/%x/%d", n, mb.Flags, len(mb.Hashes)))
	// reference light client on the served data
	if rr, rm, ok := refExtract(mb.Transactions, gotHashes, mb.Flags); !ok || rr != root || !sameIDs(rm, want) {
		e.violate("C08|reference-client-disagrees|bloom.NewMerkleBlock", "an independent BIP37 extractor does not recover exactly the matched transactions under the block's root", c, map[string]interface{}{"ok": ok})
	}

	// producer 2: the one the server calls (elanet/filter.NewMerkleBlock through the peer filter)
	pf := filter.New(func(uint8) filter.TxFilter { return bloom.NewTxFilter() })
	var buf bytes.Buffer
	if err := load.Serialize(&buf); err != nil {
		evid.Fatalf("filterload serialize: %v", err)
	}
	if err := pf.Load(&msg.TxFilterLoad{Type: filter.FTBloom, Data: buf.Bytes()}); err != nil {
		e.violate("C08|server-filter-load", "a filter made by NewFilter cannot be loaded through TxFilterLoad: "+err.Error(), c, nil)
	} else {
		var mb2 *msg.MerkleBlock
		var idx2 []uint32
		if site, p := guarded(func() { mb2, idx2 = filter.NewMerkleBlock(txs, pf) }); p {
			e.violate("C08|panic|filter.NewMerkleBlock|"+site, "filter.NewMerkleBlock panicked", c, nil)
		} else {
			atomic.AddInt64(&e.st.proofs, 1)
			mb2.Header = &blk.Header
			if mb2.Transactions != uint32(n) || !bytes.Equal(mb2.Flags, wantFlags) || !sameIDs(u256s(mb2.Hashes), wantHashes) || fmt.Sprint(idx2) != fmt.Sprint(matchedIdx) {
				e.violate("C08|producer-encoding|filter.NewMerkleBlock", "server-side merkle block differs from the canonical BIP37 partial tree for the matched set", c, nil)
			}
			var got2 []*common.Uint256
			var err2 error
			if site, p := guarded(func() { got2, err2 = filter.CheckMerkleBlock(*mb2) }); p {
				e.violate("C08|panic|filter.CheckMerkleBlock|"+site, "filter.CheckMerkleBlock panicked on a served merkle block", c, nil)
			} else if err2 != nil || !sameIDs(u256s(got2), want) {
				e.violate("C08|verify-served|filter.CheckMerkleBlock", "verification of a served merkle block fails or returns other ids than the matched ones", c, map[string]interface{}{"err": fmt.Sprint(err2)})
			}
		}
	}

	// verifier on the served block
	var got []*common.Uint256
	var err error
	if site, p := guarded(func() { got, err = bloom.CheckMerkleBlock(*mb) }); p {
		e.violate("C08|panic|bloom.CheckMerkleBlock|"+site, "CheckMerkleBlock panicked on a served merkle block", c, nil)
		return
	}
	if err != nil {
		e.violate("C08|verify-served|error", "CheckMerkleBlock rejects the merkle block the node produced: "+err.Error(), c, nil)
		return
	}
	if !sameIDs(u256s(got), want) {
		e.violate("C08|verify-served|ids", "CheckMerkleBlock returns other ids than the matched ones (or another order)", c, map[string]interface{}{"got": len(got), "want": len(want)})
	}

	// single-transaction branches
	for _, id := range want {
		uid := common.Uint256(id)
		var br *bloom.MerkleBranch
		var berr error
		if site, p := guarded(func() { br, berr = bloom.GetTxMerkleBranch(*mb, &uid) }); p {
			e.violate("C08|panic|GetTxMerkleBranch|"+site, "GetTxMerkleBranch panicked for a matched transaction", c, map[string]interface{}{"tx": e.idIndex[id]})
			continue
		}
		atomic.AddInt64(&e.st.branches, 1)
		if berr != nil {
			e.violate("C08|branch|error", "GetTxMerkleBranch fails for a matched transaction: "+berr.Error(), c, map[string]interface{}{"tx": e.idIndex[id]})
			continue
		}
		if r2 := auxpow.GetMerkleRoot(uid, br.Branches, br.Index); [32]byte(r2) != root {
			e.violate("C08|branch|root", "GetTxMerkleBranch + auxpow.GetMerkleRoot does not recompute the block's merkle root", c, map[string]interface{}{"tx": e.idIndex[id], "index": br.Index, "len": len(br.Branches)})
			continue
		}
		bb := make([][32]byte, len(br.Branches))
		for i := range br.Branches {
			bb[i] = [32]byte(br.Branches[i])
		}
		if blockkit.RefBranchRoot(id, bb, uint64(br.Index)) != root || uint32(len(bb)) != heightOf(uint32(n)) {
			e.violate("C08|branch|reference-root", "the branch does not evaluate to the root under the reference branch evaluation, or has the wrong length", c, map[string]interface{}{"tx": e.idIndex[id], "index": br.Index, "len": len(br.Branches)})
		}
	}

	e.samples.Add(map[string]interface{}{"n": n, "intended": fmt.Sprintf("%b", intended), "realised": fmt.Sprintf("%b", realised), "filter": c.F, "flags": fmt.Sprintf("%x", mb.Flags), "hashes": len(mb.Hashes)})

	if e.flips == 0 {
		return
	}
	// corruptions. A light client that accepts must only ever have been given ids of this block.
	check := func(kind string, m msg.MerkleBlock, mustFail bool, a, b int) {
		detail := func() map[string]interface{} {
			return map[string]interface{}{"corruption": kind, "index": a, "bit_or_value": b}
		}
		var ids2 []*common.Uint256
		var err2 error
		if _, p := guarded(func() { ids2, err2 = bloom.CheckMerkleBlock(m) }); p {
			atomic.AddInt64(&e.st.mutPanics, 1)
			return
		}
		if err2 != nil {
			return
		}
		if mustFail {
			e.violate("C08|corruption-accepted|"+kind, "a merkle block with a corrupted hash verifies against the block's merkle root", c, detail())
			return
		}
		last := -1
		for _, h := range ids2 {
			i, ok := e.idIndex[[32]byte(*h)]
			if !ok || i >= n || i <= last {
				e.violate("C08|corruption-forges-id|"+kind, "a corrupted merkle block verifies and yields an id that is not a transaction of the block (or out of order)", c, detail())
				return
			}
			last = i
		}
		if kind == "flag-bit" {
			atomic.AddInt64(&e.st.flagFlipAccepted, 1)
		} else {
			atomic.AddInt64(&e.st.countMutAccepted, 1)
		}
	}
	hs := append([]*common.Uint256{}, mb.Hashes...)
	for hi := range mb.Hashes {
		x := *mb.Hashes[hi]
		hs[hi] = &x
		for bit := 0; bit < 256; bit++ {
			if e.flips == 1 && bit%8 != (bit/8+hi)%8 {
				continue
			}
			x[bit/8] ^= 1 << uint(bit%8)
			e.st.hashFlips++
			check("hash-bit", msg.MerkleBlock{Header: mb.Header, Transactions: mb.Transactions, Hashes: hs, Flags: mb.Flags}, true, hi, bit)
			x[bit/8] ^= 1 << uint(bit%8)
		}
		hs[hi] = mb.Hashes[hi]
	}
	for bit := 0; bit < len(mb.Flags)*8; bit++ {
		fl := append([]byte{}, mb.Flags...)
		fl[bit/8] ^= 1 << uint(bit%8)
		atomic.AddInt64(&e.st.flagFlips, 1)
		check("flag-bit", msg.MerkleBlock{Header: mb.Header, Transactions: mb.Transactions, Hashes: mb.Hashes, Flags: fl}, false, bit/8, bit%8)
	}
	for _, t := range []uint32{0, 1, uint32(n) - 1, uint32(n) + 1, uint32(n) * 2, uint32(n) / 2, uint32(n) ^ 1, 1 << 16} {
		if t == uint32(n) {
			continue
		}
		atomic.AddInt64(&e.st.countMuts, 1)
		check("tx-count", msg.MerkleBlock{Header: mb.Header, Transactions: t, Hashes: mb.Hashes, Flags: mb.Flags}, false, 0, int(t))
	}
}

// dupTail presents, for a block whose tree has an odd width at level k, the CVE-2012-2459 twin:
// the same merkle root claimed for n+2^k transactions whose tail repeats the last 2^k ids, with
// the repeated leaves flagged as matches. A sound verifier must not accept it (it would report
// the same transaction twice / a transaction count the block does not have).
func (e *env) dupTail(n int) {
	ids := e.ids[:n]
	root := blockkit.RefMerkleRoot(ids)
	for k := uint32(0); 1<<k <= n; k++ {
		w := width(uint32(n), k)
		if w%2 == 0 || w == 1 || n%(1<<k) != 0 {
			continue
		}
		twin := append(append([][32]byte{}, ids...), ids[n-(1<<k):]...)
		if blockkit.RefMerkleRoot(twin) != root {
			evid.Fatalf("dupTail: twin root differs (n=%d k=%d)", n, k)
		}
		match := make([]bool, len(twin))
		for i := n - (1 << k); i < len(twin); i++ {
			match[i] = true
		}
		bits, hashes := refBuild(twin, match)
		flags := make([]byte, (len(bits)+7)/8)
		for i, b := range bits {
			if b {
				flags[i/8] |= 1 << uint(i%8)
			}
		}
		hs := make([]*common.Uint256, len(hashes))
		for i := range hashes {
			u := common.Uint256(hashes[i])
			hs[i] = &u
		}
		hdr := &ctypes.Header{MerkleRoot: common.Uint256(root)}
		c := caseT{N: n, Pattern: uint64(k), F: filterCfg{Kind: "dup-tail"}}
		for _, v := range []string{"bloom", "filter"} {
			m := msg.MerkleBlock{Header: hdr, Transactions: uint32(len(twin)), Hashes: hs, Flags: flags}
			var got []*common.Uint256
			var err error
			_, p := guarded(func() {
				if v == "bloom" {
					got, err = bloom.CheckMerkleBlock(m)
				} else {
					got, err = filter.CheckMerkleBlock(m)
				}
			})
			atomic.AddInt64(&e.st.dupTails, 1)
			if p || err != nil {
				continue
			}
			e.violate("C08|dup-tail-accepted|"+v+".CheckMerkleBlock", fmt.Sprintf("a merkle block claiming %d transactions with the last %d ids repeated verifies against the root of the %d-transaction block and reports %d ids", len(twin), 1<<k, n, len(got)), c, nil)
		}
	}
}

func (e *env) flush() {
	for _, p := range e.pend {
		e.r.Violate(p.sig, p.what, p.art)
	}
	e.pend = nil
}

// patterns of weight <= 2, all prefixes and suffixes, alternating patterns.
func sparsePatterns(n int) []uint64 {
	set := map[uint64]bool{0: true}
	full := uint64(1)<<uint(n) - 1
	for i := 0; i < n; i++ {
		set[1<<uint(i)] = true
		for j := i + 1; j < n; j++ {
			set[1<<uint(i)|1<<uint(j)] = true
		}
		set[uint64(1)<<uint(i+1)-1] = true       // prefix
		set[full&^(uint64(1)<<uint(i)-1)] = true // suffix
		set[full&^(1<<uint(i))] = true           // all but one
	}
	set[0x5555555555555555&full] = true
	set[0xaaaaaaaaaaaaaaaa&full] = true
	out := make([]uint64, 0, len(set))
	for p := range set {
		out = append(out, p)
	}
	sort.Slice(out, func(a, b int) bool { return out[a] < out[b] })
	return out
}

var largeOnce struct {
	txs []interfaces.Transaction
	ids [][32]byte
}

func largeTxs() ([]interfaces.Transaction, [][32]byte) {
	if largeOnce.txs == nil {
		for i := 0; i < 1024; i++ {
			largeOnce.txs = append(largeOnce.txs, blockkit.Transfer(2000+i))
		}
		largeOnce.ids = blockkit.TxIDs(largeOnce.txs)
	}
	return largeOnce.txs, largeOnce.ids
}

func main() {
	r := evid.Start("C08", "exploration")
	scr := evid.Scratch("c08")
	hx.QuietLogs(scr)
	blockkit.Register()

	maxN := r.Pick(17, 33)
	allUpTo := r.Pick(12, 16)
	flipAllUpTo := r.Pick(9, 13) // every bit of every hash for all patterns up to this n; beyond: one bit of every hash byte for all patterns, every bit for the sparse patterns
	e := &env{r: r, idIndex: map[[32]byte]int{}}
	e.samples.N = 8
	for i := 0; i < maxN; i++ {
		e.txs = append(e.txs, blockkit.Transfer(i))
	}
	e.ids = blockkit.TxIDs(e.txs)
	for i, id := range e.ids {
		e.idIndex[id] = i
	}

	if r.Replay != "" {
		var c caseT
		sig := r.LoadReplay(&c)
		fmt.Printf("replaying %s: %s\n", sig, c)
		if c.N < 1 || (c.N > maxN && !strings.HasPrefix(c.F.Kind, "large:")) {
			evid.Fatalf("replay: n out of range")
		}
		e.flips = 2
		if strings.HasPrefix(c.F.Kind, "large:") {
			ltx, lids := largeTxs()
			e.runLarge(ltx, lids, c.N, strings.TrimPrefix(c.F.Kind, "large:"))
		} else if c.F.Kind == "dup-tail" {
			e.dupTail(c.N)
		} else {
			e.runCase(c)
		}
		e.flush()
		os.RemoveAll(scr)
		r.Finish(evid.Coverage{})
	}

	exact := filterCfg{Elements: 40, FPRate: 1e-9, Tweak: 5, Kind: "txid"}
	menu := []filterCfg{
		{Elements: 1, FPRate: 1e-9, Tweak: 0, Kind: "txid"},
		{Elements: 10, FPRate: 0.01, Tweak: 1, Kind: "txid"},
		{Elements: 2, FPRate: 0.5, Tweak: 0, Kind: "txid"},
		{Elements: 1, FPRate: 1.0, Tweak: 0, Kind: "txid"}, // zero-size, zero hash funcs: matches everything
		{Elements: 1000, FPRate: 0.01, Tweak: 0xfffffffe, Kind: "txid"},
		{Elements: 40, FPRate: 1e-9, Tweak: 9, Kind: "output"},
		{Elements: 40, FPRate: 1e-9, Tweak: 9, Kind: "outpoint"},
		{Elements: 40, FPRate: 1e-9, Tweak: 0xffffffff, Kind: "output"}, // side-chain mode
		{Elements: 40, FPRate: 1e-9, Tweak: 0xffffffff, Kind: "txid"},
	}

	type job struct {
		c     caseT
		flips int
		large string
	}
	ltx, lids := largeTxs()
	var jobs []job
	for n := 1; n <= maxN; n++ {
		if n <= allUpTo {
			for p := uint64(0); p < 1<<uint(n); p++ {
				fm := 1
				if n <= flipAllUpTo {
					fm = 2
				}
				jobs = append(jobs, job{c: caseT{n, p, exact}, flips: fm})
			}
		}
		sp := sparsePatterns(n)
		for _, p := range sp {
			if n > flipAllUpTo {
				jobs = append(jobs, job{c: caseT{n, p, exact}, flips: 2})
			}
			for _, f := range menu {
				fm := 0
				if n <= 9 {
					fm = 2
				}
				jobs = append(jobs, job{c: caseT{n, p, f}, flips: fm})
			}
		}
	}

	var done int64
	for _, n := range largeNs {
		for _, name := range largePatterns {
			jobs = append(jobs, job{c: caseT{N: n}, large: name})
		}
	}
	var skipped int64
	pends := make([][]pending, len(jobs))
	par.Go(len(jobs), func(i int) {
		if r.Expired() {
			atomic.AddInt64(&skipped, 1)
			return
		}
		j := jobs[i]
		w := &env{r: r, txs: e.txs, ids: e.ids, idIndex: e.idIndex, flips: j.flips}
		w.samples.N = 0
		if j.large != "" {
			w.runLarge(ltx, lids, j.c.N, j.large)
		} else {
			w.runCase(j.c)
		}
		pends[i] = w.pend
		// merge
		atomic.AddInt64(&e.st.cases, w.st.cases)
		atomic.AddInt64(&e.st.proofs, w.st.proofs)
		atomic.AddInt64(&e.st.branches, w.st.branches)
		atomic.AddInt64(&e.st.hashFlips, w.st.hashFlips)
		atomic.AddInt64(&e.st.flagFlips, w.st.flagFlips)
		atomic.AddInt64(&e.st.countMuts, w.st.countMuts)
		atomic.AddInt64(&e.st.flagFlipAccepted, w.st.flagFlipAccepted)
		atomic.AddInt64(&e.st.countMutAccepted, w.st.countMutAccepted)
		atomic.AddInt64(&e.st.mutPanics, w.st.mutPanics)
		atomic.AddInt64(&e.st.falsePositives, w.st.falsePositives)
		atomic.AddInt64(&e.st.matchAll, w.st.matchAll)
		atomic.AddInt64(&e.st.matchNone, w.st.matchNone)
		e.shapes.Merge(w.shapes.Map())
		e.encs.Merge(w.encs.Map())
		atomic.AddInt64(&done, 1)
	})

	for _, ps := range pends {
		for _, p := range ps {
			r.Violate(p.sig, p.what, p.art)
		}
	}
	for n := 1; n <= maxN; n++ {
		e.dupTail(n)
	}
	e.flush()

	// samples: deterministic, from a fixed list of cases (not from scheduling order)
	e.samples.N = 8
	e.flips = 0
	for _, c := range []caseT{{1, 1, exact}, {3, 0b100, exact}, {5, 0b10001, exact}, {7, 0b1000000, menu[1]}, {12, 0b101010101010, exact}, {13, 1 << 12, menu[5]}, {17, 1<<16 | 1, exact}, {9, 0b1, menu[7]}} {
		if c.N <= maxN {
			e.runCase(c)
		}
	}

	e.flush()
	st := &e.st
	r.Assume = append(r.Assume,
		"flag bits are not committed by the merkle root (BIP37): a flipped leaf flag or a changed transaction count may still verify; the oracle for those corruptions is that every id returned by an accepting verification is a transaction of the block, in block order; flipped hash bits must always fail",
		"tweak 0xffffffff is the repository's side-chain filter mode (outputs and tx types only): a tx id or outpoint added to such a filter is not expected to match",
		"GetTxMerkleBranch is only asked for matched transactions (the statement's 'derived from it'); asking for an id that is not in the partial tree is outside the property",
		"trailing unused hashes/flag bytes appended to a merkle block are not a single-bit corruption and are not enumerated")
	os.RemoveAll(scr)
	r.Finish(evid.Coverage{
		"evaluations":                          st.proofs + st.branches + st.hashFlips + st.flagFlips + st.countMuts + st.dupTails,
		"distinct_nontrivial":                  e.shapes.Len(),
		"rule":                                 fmt.Sprintf("tx counts n=1..%d; all 2^n match patterns for n<=%d, patterns of weight<=2/prefixes/suffixes/all-but-one/alternating for every n, each realised through a real bloom filter (exact filter + %d-entry menu of (elements,fprate,tweak,added datum)); every served merkle block: canonical BIP37 encoding, reference extractor, CheckMerkleBlock, GetTxMerkleBranch+GetMerkleRoot per matched tx, then corruptions: every flag bit and 7 transaction-count changes for every block; every bit of every hash for all patterns of n<=%d and for the sparse patterns of every n, one bit of every hash byte (rotating bit position) for the remaining patterns; plus the duplicated-tail twin (CVE-2012-2459 shape) of every n whose tree has an odd level; plus large blocks n in {255,256,257,511,512,513,1024} x 9 patterns (all, all via the match-everything filter, all-but-first/last/middle, first 256, last 256, one aligned 256-subtree, every other) with the same completeness oracles and one flipped bit per served hash. distinct_nontrivial = distinct (n, realised match pattern) pairs", maxN, allUpTo, len(menu), flipAllUpTo),
		"exhaustive":                           skipped == 0,
		"cases":                                st.cases,
		"merkle_blocks":                        st.proofs,
		"branches":                             st.branches,
		"hash_bit_flips":                       st.hashFlips,
		"flag_bit_flips":                       st.flagFlips,
		"tx_count_changes":                     st.countMuts,
		"dup_tail_forgeries":                   st.dupTails,
		"flag_flips_accepted_with_genuine_ids": st.flagFlipAccepted,
		"count_changes_accepted_with_genuine_ids": st.countMutAccepted,
		"corruptions_panicking":                   st.mutPanics,
		"patterns_with_false_positives":           st.falsePositives,
		"match_all_cases":                         st.matchAll,
		"match_none_cases":                        st.matchNone,
		"distinct_encodings":                      e.encs.Len(),
		"samples":                                 e.samples.Out,
	})
}
