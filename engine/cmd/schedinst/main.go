// schedinst generates a `go build -overlay` file that (1) adds the scheduler shims as virtual
// packages github.com/elastos/Elastos.ELA/zzverif/{vsched,vrand,vsync} to the repository module
// and (2) rewrites, per selected repository package, the imports "math/rand" and/or "sync" of
// every non-test file to the shims. Rewriting is textual on the import spec only, so line
// numbers are preserved, and it is regenerated from the CURRENT working tree on every build.
// Optionally (3) inserts a scheduling point before every statement of named functions.
//
// usage: schedinst -repo /repo -out <scratch> -shims <dir> [-pkg dir:rand,sync]... [-stmt dir:Func1,Func2]...
package main

import (
	"bytes"
	"encoding/json"
	"flag"
	"fmt"
	"go/ast"
	"go/parser"
	"go/printer"
	"go/token"
	"os"
	"path/filepath"
	"sort"
	"strings"
)

const root = "github.com/elastos/Elastos.ELA/zzverif/"

type multi []string

func (m *multi) String() string     { return strings.Join(*m, " ") }
func (m *multi) Set(s string) error { *m = append(*m, s); return nil }

func die(format string, a ...interface{}) {
	fmt.Fprintf(os.Stderr, "schedinst: "+format+"\n", a...)
	os.Exit(2)
}

func main() {
	var repo, out, shims string
	var pkgs, stmts multi
	flag.StringVar(&repo, "repo", "/repo", "repository root")
	flag.StringVar(&out, "out", "", "scratch directory for rewritten files")
	flag.StringVar(&shims, "shims", "", "directory holding vsched/ vrand/ vsync/ *.gosrc")
	flag.Var(&pkgs, "pkg", "dir:rand,sync")
	flag.Var(&stmts, "stmt", "dir:Func1,Recv.Method2")
	flag.Parse()
	if out == "" || shims == "" {
		die("-out and -shims are required")
	}
	replace := map[string]string{}
	for _, p := range []string{"vsched", "vrand", "vsync"} {
		src := filepath.Join(shims, p, p+".gosrc")
		if _, err := os.Stat(src); err != nil {
			die("%v", err)
		}
		replace[filepath.Join(repo, "zzverif", p, p+".go")] = src
	}
	stmtFuncs := map[string]map[string]bool{}
	for _, s := range stmts {
		dir, fl, ok := strings.Cut(s, ":")
		if !ok {
			die("bad -stmt %q", s)
		}
		if stmtFuncs[dir] == nil {
			stmtFuncs[dir] = map[string]bool{}
		}
		for _, f := range strings.Split(fl, ",") {
			stmtFuncs[dir][f] = true
		}
	}
	want := map[string]map[string]bool{}
	for _, s := range pkgs {
		dir, what, ok := strings.Cut(s, ":")
		if !ok {
			die("bad -pkg %q", s)
		}
		if want[dir] == nil {
			want[dir] = map[string]bool{}
		}
		for _, w := range strings.Split(what, ",") {
			want[dir][w] = true
		}
	}
	for dir := range stmtFuncs {
		if want[dir] == nil {
			want[dir] = map[string]bool{}
		}
	}
	dirs := make([]string, 0, len(want))
	for d := range want {
		dirs = append(dirs, d)
	}
	sort.Strings(dirs)
	n := 0
	foundFuncs := map[string]bool{}
	for _, dir := range dirs {
		ents, err := os.ReadDir(filepath.Join(repo, dir))
		if err != nil {
			die("%v", err)
		}
		for _, e := range ents {
			name := e.Name()
			if e.IsDir() || !strings.HasSuffix(name, ".go") || strings.HasSuffix(name, "_test.go") {
				continue
			}
			path := filepath.Join(repo, dir, name)
			src, err := os.ReadFile(path)
			if err != nil {
				die("%v", err)
			}
			fset := token.NewFileSet()
			f, err := parser.ParseFile(fset, path, src, parser.ParseComments)
			if err != nil {
				die("%v", err)
			}
			changed := false
			// (3) statement points — AST rewrite + //line directive per function is avoided:
			// we only insert calls, then print; positions in panics may shift by the inserted
			// lines, which is acceptable for scheduling-only instrumentation.
			if fs := stmtFuncs[dir]; fs != nil {
				for _, d := range f.Decls {
					fd, ok := d.(*ast.FuncDecl)
					if !ok || fd.Body == nil {
						continue
					}
					key := fd.Name.Name
					if fd.Recv != nil && len(fd.Recv.List) == 1 {
						t := fd.Recv.List[0].Type
						if st, ok := t.(*ast.StarExpr); ok {
							t = st.X
						}
						if id, ok := t.(*ast.Ident); ok {
							key = id.Name + "." + fd.Name.Name
						}
					}
					if !fs[key] {
						continue
					}
					foundFuncs[dir+":"+key] = true
					instrumentBlock(fset, fd.Body, dir+"/"+name)
					changed = true
				}
				if changed {
					addImport(f, "zzvsched", root+"vsched")
					var buf bytes.Buffer
					if err := printer.Fprint(&buf, fset, f); err != nil {
						die("%v", err)
					}
					src = buf.Bytes()
					fset = token.NewFileSet()
					f, err = parser.ParseFile(fset, path, src, parser.ParseComments)
					if err != nil {
						die("reparse %s: %v", path, err)
					}
				}
			}
			// (2) import rewriting, textual
			type edit struct {
				from, to int
				text     string
			}
			var edits []edit
			for _, im := range f.Imports {
				p := strings.Trim(im.Path.Value, "\"")
				var shim, defName string
				switch {
				case p == "math/rand" && want[dir]["rand"]:
					shim, defName = root+"vrand", "rand"
				case p == "sync" && want[dir]["sync"]:
					shim, defName = root+"vsync", "sync"
				default:
					continue
				}
				text := "\"" + shim + "\""
				if im.Name == nil {
					text = defName + " " + text
				}
				edits = append(edits, edit{fset.Position(im.Path.Pos()).Offset, fset.Position(im.Path.End()).Offset, text})
			}
			if len(edits) == 0 && !changed {
				continue
			}
			sort.Slice(edits, func(i, j int) bool { return edits[i].from > edits[j].from })
			for _, e := range edits {
				src = append(append(append([]byte{}, src[:e.from]...), e.text...), src[e.to:]...)
			}
			dst := filepath.Join(out, fmt.Sprintf("f%03d_%s.txt", n, strings.ReplaceAll(filepath.Join(dir, name), "/", "_")))
			n++
			if err := os.WriteFile(dst, src, 0o644); err != nil {
				die("%v", err)
			}
			replace[path] = dst
		}
	}
	for dir, fs := range stmtFuncs {
		for f := range fs {
			if !foundFuncs[dir+":"+f] {
				die("function %s not found in %s (working tree changed?)", f, dir)
			}
		}
	}
	b, _ := json.MarshalIndent(map[string]interface{}{"Replace": replace}, "", " ")
	if err := os.WriteFile(filepath.Join(out, "overlay.json"), b, 0o644); err != nil {
		die("%v", err)
	}
	fmt.Printf("schedinst: %d files rewritten, overlay at %s\n", n, filepath.Join(out, "overlay.json"))
}

func addImport(f *ast.File, name, path string) {
	spec := &ast.ImportSpec{Name: ast.NewIdent(name), Path: &ast.BasicLit{Kind: token.STRING, Value: "\"" + path + "\""}}
	decl := &ast.GenDecl{Tok: token.IMPORT, Specs: []ast.Spec{spec}}
	f.Decls = append([]ast.Decl{decl}, f.Decls...)
	f.Imports = append(f.Imports, spec)
}

func pointStmt(label string) ast.Stmt {
	return &ast.ExprStmt{X: &ast.CallExpr{
		Fun:  &ast.SelectorExpr{X: ast.NewIdent("zzvsched"), Sel: ast.NewIdent("Point")},
		Args: []ast.Expr{&ast.BasicLit{Kind: token.STRING, Value: fmt.Sprintf("%q", label)}},
	}}
}

// instrumentBlock inserts a point before every statement of b, recursively.
func instrumentBlock(fset *token.FileSet, b *ast.BlockStmt, file string) {
	var out []ast.Stmt
	for _, s := range b.List {
		line := fset.Position(s.Pos()).Line
		out = append(out, pointStmt(fmt.Sprintf("%s:%d", file, line)), s)
		instrumentStmt(fset, s, file)
	}
	b.List = out
}

func instrumentStmt(fset *token.FileSet, s ast.Stmt, file string) {
	switch v := s.(type) {
	case *ast.BlockStmt:
		instrumentBlock(fset, v, file)
	case *ast.IfStmt:
		instrumentBlock(fset, v.Body, file)
		if v.Else != nil {
			instrumentStmt(fset, v.Else, file)
		}
	case *ast.ForStmt:
		instrumentBlock(fset, v.Body, file)
	case *ast.RangeStmt:
		instrumentBlock(fset, v.Body, file)
	case *ast.SwitchStmt:
		for _, c := range v.Body.List {
			cc := c.(*ast.CaseClause)
			blk := &ast.BlockStmt{List: cc.Body}
			instrumentBlock(fset, blk, file)
			cc.Body = blk.List
		}
	case *ast.TypeSwitchStmt:
		for _, c := range v.Body.List {
			cc := c.(*ast.CaseClause)
			blk := &ast.BlockStmt{List: cc.Body}
			instrumentBlock(fset, blk, file)
			cc.Body = blk.List
		}
	case *ast.LabeledStmt:
		instrumentStmt(fset, v.Stmt, file)
	}
}
