// C34: the mempool stays consistent and conflict-free — explicit-state search (engine mc) over
// append / block-connection (+ the node's post-block cleanup) / disconnect sequences on the real
// mempool.TxPool.
//
// Fixture: the one the repository's own mempool tests use — a real BlockChain (genesis only,
// real chain store on scratch) published through blockchain.DefaultLedger, with the UTXO cache
// reading previous transactions from an in-memory transaction DB (the IUTXOCacheStore seam).
// Every pool instance is a fresh mempool.NewTxPool; its byte limit (a package constant in
// production) is shrunk through the verif hook so a handful of transactions reaches it.
//
// Menu transactions are REAL typed transactions built with the repository's constructors
// (transfer, RegisterProducer, UpdateProducer, RegisterCR, UpdateCR, CRCProposal,
// CRCProposalWithdraw, WithdrawFromSideChain, ReturnSideChainDepositCoin) that pairwise collide
// on outpoints and unique keys. A full node (signatures, DPoS/CR state, proposal state) is not
// stood up: each menu transaction handed to the pool is wrapped — the wrapper embeds the real
// transaction (type, payload, inputs, outputs, fee, size, hash all come from it) and overrides
// exactly two methods, SanityCheck (always passes) and ContextCheck (answers from the harness's
// chain model, see model.go). Pool, conflict manager, fee list and cleanup code are the
// production paths.
package main

import (
	"encoding/hex"
	"fmt"
	"os"
	"sort"
	"strings"
	"sync"

	"github.com/elastos/Elastos.ELA/blockchain"
	"github.com/elastos/Elastos.ELA/common"
	"github.com/elastos/Elastos.ELA/common/config"
	"github.com/elastos/Elastos.ELA/core"
	"github.com/elastos/Elastos.ELA/core/checkpoint"
	pg "github.com/elastos/Elastos.ELA/core/contract/program"
	"github.com/elastos/Elastos.ELA/core/types/payload"
	"github.com/elastos/Elastos.ELA/core/transaction"
	"github.com/elastos/Elastos.ELA/core/types"
	ctypes "github.com/elastos/Elastos.ELA/core/types/common"
	"github.com/elastos/Elastos.ELA/core/types/functions"
	"github.com/elastos/Elastos.ELA/core/types/interfaces"
	"github.com/elastos/Elastos.ELA/dpos/state"
	elaerr "github.com/elastos/Elastos.ELA/errors"
	"github.com/elastos/Elastos.ELA/mempool"

	"verif/evid"
	"verif/hx"
	"verif/mc"
)

// ---------------------------------------------------------------------------------------------
// fixture (once per process)

type txDB struct {
	mu  sync.RWMutex
	txs map[common.Uint256]interfaces.Transaction
}

func (d *txDB) GetTransaction(id common.Uint256) (interfaces.Transaction, uint32, error) {
	d.mu.RLock()
	defer d.mu.RUnlock()
	if t, ok := d.txs[id]; ok {
		return t, 0, nil
	}
	return nil, 0, fmt.Errorf("leveldb: not found")
}

var (
	params *config.Configuration
	menu   []*mtx
	fund   [2]interfaces.Transaction // F0, F1: confirmed funding transactions
	limit  uint64
	// allBlocks: single-transaction blocks for every menu transaction (thorough); otherwise
	// only for the "rival" of each colliding pair
	allBlocks bool
)

func setupFixture(scr string, thorough bool) {
	functions.GetTransactionByTxType = transaction.GetTransaction
	functions.GetTransactionByBytes = transaction.GetTransactionByBytes
	functions.CreateTransaction = transaction.CreateTransaction
	functions.GetTransactionParameters = transaction.GetTransactionparameters
	config.DefaultParams = *config.GetDefaultParams()
	params = &config.DefaultParams
	params.GenesisBlock = core.GenesisBlock(*params.FoundationProgramHash)
	blockchain.FoundationAddress = *params.FoundationProgramHash
	store, err := blockchain.NewChainStore(scr+"/chain", params)
	if err != nil {
		evid.Fatalf("chain store: %v", err)
	}
	chain, err := blockchain.New(store, params, state.NewState(params, nil, nil, nil, nil, nil, nil, nil, nil, nil, nil, nil), nil,
		checkpoint.NewManager(params))
	if err != nil {
		evid.Fatalf("blockchain.New: %v", err)
	}
	db := &txDB{txs: map[common.Uint256]interfaces.Transaction{}}
	chain.UTXOCache = blockchain.NewUTXOCache(db, params)
	if err := chain.Init(nil); err != nil {
		evid.Fatalf("chain.Init: %v", err)
	}
	blockchain.DefaultLedger = &blockchain.Ledger{Blockchain: chain, Store: store, Arbitrators: state.NewArbitratorsMock(nil, 0, 3)}
	buildMenu(thorough)
	db.txs[fund[0].Hash()] = fund[0]
	db.txs[fund[1].Hash()] = fund[1]
	fund2 = functions.CreateTransaction(ctypes.TxVersion09, ctypes.TransferAsset, 0, &payload.TransferAsset{},
		[]*ctypes.Attribute{{Usage: ctypes.Nonce, Data: []byte("F2")}}, nil, plainOutputs(256, 1000000), 0, []*pg.Program{})
	db.txs[fund2.Hash()] = fund2
	// resolve every reference once so later lookups are plain cache hits
	for _, m := range menu {
		if _, err := chain.UTXOCache.GetTxReference(m.real); err != nil {
			evid.Fatalf("menu tx %s: %v", m.name, err)
		}
	}
	// pool limit: room for about four average transactions
	total := 0
	for _, m := range menu {
		total += m.size
	}
	limit = uint64(total * 9 / (2 * len(menu)))
}

// ---------------------------------------------------------------------------------------------
// the wrapper handed to the pool

type wtx struct {
	interfaces.Transaction // the real typed transaction
	in                     *inst
	idx                    int
}

// SanityCheck is stubbed: menu transactions carry no signatures / programs.
func (w *wtx) SanityCheck(interfaces.Parameters) elaerr.ELAError { return nil }

// ContextCheck answers from the harness's chain model instead of a full node state.
func (w *wtx) ContextCheck(interfaces.Parameters) (map[*ctypes.Input]ctypes.Output, elaerr.ELAError) {
	if err := w.in.model.valid(w.idx); err != nil {
		return nil, elaerr.Simple(elaerr.ErrTxUnknownReferredTx, err)
	}
	refs, err := blockchain.DefaultLedger.Blockchain.UTXOCache.GetTxReference(w.Transaction)
	if err != nil {
		return nil, elaerr.Simple(elaerr.ErrTxUnknownReferredTx, err)
	}
	return refs, nil
}

// ---------------------------------------------------------------------------------------------
// instance

type inst struct {
	pool  *mempool.TxPool
	ckp   *checkpoint.Manager
	model chainModel
	w     []*wtx
	cnt   *counters
}

type counters struct {
	mu sync.Mutex
	m  map[string]int64
}

func (c *counters) add(k string) {
	c.mu.Lock()
	c.m[k]++
	c.mu.Unlock()
}

var cnt = &counters{m: map[string]int64{}}

func newInst() mc.Instance {
	in := &inst{ckp: checkpoint.NewManager(params), cnt: cnt}
	in.pool = mempool.NewTxPool(params, in.ckp)
	in.pool.VerifSetMaxSize(limit)
	in.model = chainModel{f1: true}
	for i, m := range menu {
		in.w = append(in.w, &wtx{Transaction: m.real, in: in, idx: i})
	}
	return in
}

func (in *inst) Close() {
	// NewTxPool registered a checkpoint whose file channel owns a goroutine
	in.ckp.Unregister("cp_txPool")
}

func (in *inst) Ops() []string {
	var ops []string
	for _, m := range menu {
		ops = append(ops, "app:"+m.name)
	}
	if n := in.pool.GetTransactionCount(); n > 0 {
		ops = append(ops, "blk:pool")
		if n > 1 {
			ops = append(ops, "blk:top")
		}
	}
	for i, m := range menu {
		if (allBlocks || m.rival) && in.model.valid(i) == nil {
			ops = append(ops, "blk:"+m.name)
		}
	}
	if in.model.f1 && !in.model.f1HasConfirmedChild() {
		ops = append(ops, "disc:F1")
	}
	if !in.model.f1 {
		ops = append(ops, "conn:F1")
	}
	return ops
}

func menuIndex(name string) int {
	for i, m := range menu {
		if m.name == name {
			return i
		}
	}
	evid.Fatalf("unknown menu tx %q", name)
	return -1
}

// connect models one block connection followed by the node's post-block sequence
// (netsync: ETBlockConnected → CleanSubmittedTransactions; ETBlockProcessed →
// CheckAndCleanAllTransactions).
func (in *inst) connect(txs []interfaces.Transaction) {
	blk := &types.Block{Header: ctypes.Header{Height: uint32(len(in.model.confirmed) + 1)}, Transactions: txs}
	in.pool.CleanSubmittedTransactions(blk)
	in.pool.CheckAndCleanAllTransactions()
}

func (in *inst) Apply(op string) *mc.Fail {
	kind, arg, _ := strings.Cut(op, ":")
	switch kind {
	case "app":
		i := menuIndex(arg)
		err := in.pool.AppendToTxPoolWithoutEvent(in.w[i])
		switch {
		case err == nil:
			in.cnt.add("append accepted")
		case err.Code() == elaerr.ErrTxPoolOverCapacity:
			in.cnt.add("append rejected: over capacity")
		case err.Code() == elaerr.ErrTxDuplicate:
			in.cnt.add("append rejected: already pooled")
		case err.Code() == elaerr.ErrTxUnknownReferredTx:
			in.cnt.add("append rejected: context (chain model)")
		default:
			in.cnt.add("append rejected: pool conflict")
		}
	case "blk":
		var txs []interfaces.Transaction
		if arg == "pool" || arg == "top" {
			// the miner's view: pooled transactions in fee order (all of them / only the
			// first), each still valid after the ones before it
			snap := in.pool.VerifSnapshot()
			for _, it := range snap.Fees {
				for i, m := range menu {
					if m.hash == it.Hash && in.model.valid(i) == nil && (arg == "pool" || len(txs) == 0) {
						in.model.confirmed = append(in.model.confirmed, i)
						txs = append(txs, m.blk)
					}
				}
			}
			in.cnt.add("block: pooled transactions (" + arg + ")")
		} else {
			i := menuIndex(arg)
			if in.pool.HaveTransaction(menu[i].hash) {
				in.cnt.add("block: one tx, pooled")
			} else {
				in.cnt.add("block: one tx, not pooled")
			}
			in.model.confirmed = append(in.model.confirmed, i)
			txs = []interfaces.Transaction{menu[i].blk}
		}
		in.connect(txs)
	case "disc":
		// the block that confirmed F1 is disconnected: F1 cannot re-enter the pool (its own
		// inputs are not available), so netsync calls RemoveTransaction(F1)
		in.model.f1 = false
		before := in.pool.GetTransactionCount()
		in.pool.RemoveTransaction(fund[1])
		if in.pool.GetTransactionCount() < before {
			in.cnt.add("disconnect removed a pooled child")
		} else {
			in.cnt.add("disconnect, no pooled child")
		}
	case "conn":
		in.model.f1 = true
		in.connect([]interfaces.Transaction{fund[1]})
		in.cnt.add("reconnect F1")
	}
	return in.check(kind)
}

func (in *inst) Digest() string {
	s := in.pool.VerifSnapshot()
	var sb strings.Builder
	for _, it := range s.Fees {
		sb.WriteString(nameOf(it.Hash))
		sb.WriteByte(',')
	}
	sb.WriteByte('|')
	for _, h := range s.TxnList {
		sb.WriteString(nameOf(h))
		sb.WriteByte(',')
	}
	sb.WriteByte('|')
	for _, e := range s.Slots {
		sb.WriteString(e.Slot)
		sb.WriteByte('=')
		sb.WriteString(short(e.Key))
		sb.WriteByte('>')
		sb.WriteString(nameOf(e.Tx))
		sb.WriteByte(',')
	}
	fmt.Fprintf(&sb, "|%d|%d|%s|%v", s.ProposalsUsedAmount, s.FeesTotalSize, in.model.canon(), in.model.f1)
	return sb.String()
}

func nameOf(h common.Uint256) string {
	for _, m := range menu {
		if m.hash == h {
			return m.name
		}
	}
	return hex.EncodeToString(h[:4])
}

// ---------------------------------------------------------------------------------------------

var scratchDir string

// fatal is an engine error that first removes the scratch directory.
func fatal(format string, a ...interface{}) {
	if scratchDir != "" {
		os.RemoveAll(scratchDir)
	}
	evid.Fatalf(format, a...)
}

func main() {
	r := evid.Start("C34", "model_checking")
	scr := evid.Scratch("c34")
	scratchDir = scr
	defer os.RemoveAll(scr)
	hx.QuietLogs(scr)
	setupFixture(scr, r.Thorough() || r.Replay != "")
	// tie the chain model's UpdateProducer rule to the real validation code
	if why := witnessUpdateProducer(); why != "" {
		os.RemoveAll(scr)
		evid.Fatalf("chain model disagrees with the real UpdateProducer check: %s", why)
	}
	// quick: 13-transaction menu, depth 5; thorough: 21-transaction menu, depth 6 (capped).
	// VERIF_C34_ALLBLOCKS=1 additionally allows a single-transaction block for every menu
	// transaction instead of only the rival of each colliding pair.
	allBlocks = os.Getenv("VERIF_C34_ALLBLOCKS") == "1"
	sp := &mc.Spec{Name: "txpool", New: newInst, MaxDepth: r.Pick(5, 6)}
	if r.Thorough() {
		sp.MaxStates = 400000
	}
	if r.Replay != "" {
		var a struct {
			System  string   `json:"system"`
			History []string `json:"history"`
		}
		r.LoadReplay(&a)
		if a.System == "evict" {
			in := newInst().(*inst)
			for _, op := range a.History {
				i := menuIndex(strings.TrimPrefix(op, "ins:"))
				err := in.pool.VerifInsertUnchecked(in.w[i])
				f := in.check("evict")
				fmt.Printf("  %-10s err=%v pooled=%d\n", op, err, in.pool.GetTransactionCount())
				if f != nil {
					fmt.Printf("    -> FAIL %s: %s\n", f.Signature, f.What)
					r.Violate(f.Signature, f.What, a)
				}
			}
			in.Close()
		} else if a.System == "pairs" {
			fmt.Println("replaying the pair stage (all classes)")
			runPairStage(r)
		} else {
			replayVerbose(r, a.History)
		}
		os.RemoveAll(scr)
		r.Finish(evid.Coverage{})
	}
	// stage 2: every (slot, transaction type) pair of the conflict table
	ps := runPairStage(r)
	// stage 3: size-limit eviction through the insertion half of appendToTxPool
	es := runEvictStage(r, r.Pick(5, 6))
	res := mc.Explore(r, sp)
	var names []string
	for _, m := range menu {
		names = append(names, fmt.Sprintf("%s(%s, %dB, fee %d)", m.name, m.kind, m.size, m.fee))
	}
	cov := res.Coverage(fmt.Sprintf("BFS to depth %d over ops {app:<tx> = AppendToTxPoolWithoutEvent, blk:<tx> / blk:pool / blk:top = connect a block with one menu tx (the rival of each colliding pair) / with all pooled txs / with the best-paying pooled tx, then CleanSubmittedTransactions + CheckAndCleanAllTransactions, disc:F1 = RemoveTransaction(funding tx F1), conn:F1} on a fresh mempool.TxPool (byte limit %d) with a menu of %d wrapped real typed transactions; state digest = fee list order, pooled set, slot entries, proposalsUsedAmount, total size, chain-model state; oracle after every op: no shared outpoint/unique key among pooled txs, slot entries == keys of pooled txs (exactly, each mapping to its tx), fee list sorted by fee rate / same hashes as the pool / sizes and rates right / total = sum, proposalsUsedAmount = sum of pooled proposal budgets, total size <= limit", sp.MaxDepth, limit, len(menu)))
	cov["menu"] = names
	cnt.mu.Lock()
	cov["op_outcomes"] = cnt.m
	cnt.mu.Unlock()
	cov["pool_byte_limit"] = limit
	cov["pair_stage"] = map[string]interface{}{"classes": ps.classes, "ordered_pairs": ps.pairs, "histories": ps.histories, "operations": ps.ops,
		"histories_skipped_kind_without_entry": ps.skippedHistories, "second_tx_rejected": ps.rejectedSecond, "second_tx_admitted": ps.admittedSecond, "registered_slot_type_pairs": len(mempool.VerifConflictTable()),
		"rule": "for every conflict slot and every ordered pair of transaction kinds registered for it (kinds of different slots never meet), two real typed transactions sharing only that slot's key: histories A / B / A,B / A,B,blk / A,blk,B / A,B,A on a fresh pool; never both pooled, slot entry present, no dangling entries, fee list/size/budget consistent; registered (slot,type) pairs without a class-table entry = engine error"}
	cov["evict_stage"] = map[string]interface{}{"sequences": es.sequences, "insertions": es.insertions, "insertions_that_evicted": es.evictions, "evictions_of_a_proposal": es.proposalEvictions, "insertions_excluded_by_fee_rate": es.excluded, "sequences_cut_where_the_inserted_tx_would_evict_itself": es.selfEvictionsSkipped,
		"rule": "every sequence without repetition (length <= depth) over two sets of 6 non-conflicting menu transactions with pairwise different fee rates, inserted through VerifInsertUnchecked (AppendTx + doAddTransaction, the steps appendToTxPool performs after its checks) into a pool with the shrunk byte limit; BFS invariants after every insertion"}
	cov["transitions"] = res.Transitions + int64(ps.ops) + int64(es.insertions)
	cov["traces_validated_against_impl"] = res.Executions + int64(ps.histories) + int64(es.sequences)
	cov["real_code_witness"] = "real DPoS State processed RegisterProducer(k0) and the menu's UP2; the real UpdateProducerTransaction.SpecialContextCheck then accepts the menu's UP1 (and UP1 before the update): the model rule 'a further update of a registered producer stays valid' is the repository's"
	r.Assume = append(r.Assume,
		"SanityCheck is stubbed (always passes) and ContextCheck is answered by the harness's chain model (inputs unspent and parent connected; Register*/proposal/withdraw/side-chain hashes: invalid once the key is used on chain; UpdateProducer/UpdateCR: valid while the producer/CR is registered and the new nickname/node key is not taken by another one — the rule of the repository's SpecialContextCheck); everything else (type, payload, inputs, fee, size, hash) is the real transaction's",
		"size-limit eviction (txFeeOrderedList.onPopBack) is not reachable through AppendToTxPool (OverSize is rejected before AddTx); the limit is exercised through rejections",
		"CancelProducer/ActivateProducer/SideChainPow/NextTurnDPOSInfo (which read DPoS state from the ledger) are not in the menu")
	os.RemoveAll(scr)
	r.Finish(cov)
}

// replayVerbose re-executes a history, printing the pool after every step, and keeps going
// after a failing step so the consequences of an inconsistency can be seen.
func replayVerbose(r *evid.Run, hist []string) {
	in := newInst().(*inst)
	defer in.Close()
	for _, op := range hist {
		f := in.Apply(op)
		s := in.pool.VerifSnapshot()
		var pooled []string
		for _, h := range s.TxnList {
			pooled = append(pooled, nameOf(h))
		}
		sort.Strings(pooled)
		fmt.Printf("  %-12s pooled=%v slots=%d bytes=%d/%d", op, pooled, len(s.Slots), s.FeesTotalSize, s.FeesMaxSize)
		if f != nil {
			fmt.Printf("  -> FAIL %s: %s", f.Signature, f.What)
			r.Violate(f.Signature, f.What, map[string]interface{}{"system": "txpool", "history": hist})
		}
		fmt.Println()
	}
}
