#!/bin/bash
# runs every claimed check's thorough command once (each under a hard 45 min timeout); summary per check
cd "$(dirname "$0")"
ids=$(python3 -c "
import json
print(' '.join(c['property_id'] for c in json.load(open('MANIFEST.json'))['checks']))")
[ $# -gt 0 ] && ids="$@"
for id in $ids; do
  s=$(date +%s)
  out=$(timeout 2700 ./run $id thorough 2>&1); rc=$?
  e=$(date +%s)
  ex=$(python3 -c "
import json
try: print(json.load(open('evidence/$id.json'))['coverage'].get('exhaustive'))
except Exception as e: print('?')")
  echo "$id rc=$rc t=$((e-s))s exhaustive=$ex $(echo "$out" | grep -c '^KNOWN-FINDING') known $(echo "$out" | grep -c '^VIOLATION') viol | $(echo "$out" | tail -1)"
  [ $rc -ne 0 ] && echo "$out" | grep -E "VIOLATION|violated|ENGINE" | head -5
done
