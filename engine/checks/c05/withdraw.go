package main

import (
	"fmt"
	"path/filepath"

	"github.com/elastos/Elastos.ELA/common"
	"github.com/elastos/Elastos.ELA/common/config"
	"github.com/elastos/Elastos.ELA/core"
	pg "github.com/elastos/Elastos.ELA/core/contract/program"
	"github.com/elastos/Elastos.ELA/core/transaction"
	ctypes "github.com/elastos/Elastos.ELA/core/types/common"
	"github.com/elastos/Elastos.ELA/core/types/outputpayload"
	"github.com/elastos/Elastos.ELA/core/types/payload"

	"verif/evid"
	"verif/keys"
	"verif/lightnode"
)

// part F: the Schnorr (payload v2) WithdrawFromSideChain signer-index path — the m-of-n rule of
// the cross-chain address. A light node (real BlockChain, mock arbitrators holding harness keys)
// runs the transaction's own SpecialContextCheck and then checkTransactionSignature. The program
// is what colluding holders of the listed keys can really produce: the Schnorr script of the
// aggregated key (sum with multiplicity) and a signature under the summed private scalars, so an
// accepted list is an accepted SPEND, not only an accepted payload.
//
// Oracle (from CrossChainUTXORestrictionHeight on): accepted => the number of DISTINCT signer
// indexes >= the signer count the rule demands at that height (MemberCount*2/3, +1 outside the
// CRClaimDPOSNode..DPOSNodeCrossChain window).

type wdStats struct {
	lists, accepted, rejectedSpecial, rejectedSignature, panicked int64
}

func requiredSigners(cfg *config.Configuration, h uint32) int {
	mc := int(cfg.CRConfiguration.MemberCount)
	if h > cfg.CRConfiguration.CRClaimDPOSNodeStartHeight && h < cfg.DPoSConfiguration.DPOSNodeCrossChainHeight {
		return mc * 2 / 3
	}
	return mc*2/3 + 1
}

func (c *checker) partF(scr string) (st wdStats) {
	const height = 2300000
	type setup struct {
		arbiters    int
		memberCount uint32
	}
	node, err := lightnode.New(filepath.Join(scr, "lightnode"), lightnode.Options{ArbiterKeys: keys.Pubs(0, 1, 2, 3), CRCKeys: keys.Pubs(0, 1, 2, 3), MajorityCount: 3})
	if err != nil {
		evid.Fatalf("lightnode: %v", err)
	}
	defer node.Close()
	if height < node.Params.CrossChainUTXORestrictionHeight {
		evid.Fatalf("part F: height %d is below the restriction height", height)
	}
	xAddr := common.Uint168(keys.ProgramHash(keys.PrefixCrossChain, append(make([]byte, 32), keys.OpCrossChain)))
	to := common.Uint168(keys.ProgramHash(keys.PrefixStandard, keys.StandardCode(keys.Pub(9))))
	for _, su := range []setup{{4, 4}, {4, 6}, {12, 12}} {
		// Count keys exist: arbiter i holds harness key i%10 — 12 arbiters need 12 distinct keys
		var pubs [][]byte
		var ds []int
		for i := 0; i < su.arbiters; i++ {
			ds = append(ds, i)
		}
		if su.arbiters > keys.Count {
			evid.Fatalf("part F needs %d keys", su.arbiters)
		}
		pubs = keys.Pubs(ds...)
		if err := node.SetArbiters(pubs); err != nil {
			evid.Fatalf("SetArbiters: %v", err)
		}
		cfg := node.Config(func(p *config.Configuration) { p.CRConfiguration.MemberCount = su.memberCount })
		need := requiredSigners(cfg, height)
		var lists [][]uint8
		// every list of length 0..6 over 3 indexes: all adjacent / non-adjacent repeat shapes
		var rec func(cur []uint8)
		rec = func(cur []uint8) {
			lists = append(lists, append([]uint8{}, cur...))
			if len(cur) == 6 {
				return
			}
			for v := uint8(0); v < 3; v++ {
				rec(append(cur, v))
			}
		}
		rec(nil)
		// quorum-length lists: all distinct, alternating pairs / triples, one repeat at the ends
		for l := need; l <= need+1 && l <= su.arbiters+2; l++ {
			distinct, alt2, alt3, ends := []uint8{}, []uint8{}, []uint8{}, []uint8{}
			for i := 0; i < l; i++ {
				distinct = append(distinct, uint8(i%su.arbiters))
				alt2 = append(alt2, uint8(i%2))
				alt3 = append(alt3, uint8(i%3))
				ends = append(ends, uint8(i%su.arbiters))
			}
			if l > 1 {
				ends[l-1] = ends[0]
			}
			lists = append(lists, distinct, alt2, alt3, ends)
		}
		for _, l := range lists {
			st.lists++
			idx := make([]int, len(l))
			seen := map[uint8]bool{}
			for i, v := range l {
				idx[i] = int(v)
				seen[v] = true
			}
			code := keys.SchnorrCode(keys.Pub(9))
			aggD := keys.D(9)
			if len(l) > 0 {
				aggD = keys.AggregateD(idx...)
				code = keys.SchnorrCode(keys.AggregatePub(idx...))
			}
			in := &ctypes.Input{Previous: ctypes.OutPoint{TxID: common.Uint256{0xF5, byte(len(l))}, Index: 0}, Sequence: 0}
			var side common.Uint256
			side[0], side[1], side[2] = 0xF5, byte(st.lists), byte(st.lists>>8)
			tx := transaction.CreateTransaction(ctypes.TxVersion09, ctypes.WithdrawFromSideChain, payload.WithdrawFromSideChainVersionV2,
				&payload.WithdrawFromSideChain{Signers: l}, []*ctypes.Attribute{{Usage: ctypes.Nonce, Data: []byte{byte(st.lists)}}},
				[]*ctypes.Input{in},
				[]*ctypes.Output{{AssetID: core.ELAAssetID, Value: 100, ProgramHash: to, Type: ctypes.OTWithdrawFromSideChain,
					Payload: &outputpayload.Withdraw{Version: 0, GenesisBlockAddress: "XKUh4GLhFJiqAMTF6HyWQrV9pK9HcGUdfJ", SideChainTransactionHash: side, TargetData: []byte{}}}},
				0, nil)
			sig := keys.SignSchnorrD(aggD, sha256d(unsigned(tx)), 0)
			tx.SetPrograms([]*pg.Program{{Code: code, Parameter: append([]byte{}, sig[:]...)}})
			refs := map[*ctypes.Input]ctypes.Output{in: {AssetID: core.ELAAssetID, Value: 1000, ProgramHash: xAddr}}
			c.ct.evals++
			v := node.SpecialContextCheck(tx, height, cfg, refs)
			if v.Panicked {
				st.panicked++
				c.classes.Add("withdraw-v2:panic:" + v.Site)
				continue
			}
			if !v.Accepted() {
				st.rejectedSpecial++
				c.classes.Add("withdraw-v2:special-reject:" + tail(v.Err))
				continue
			}
			serr, panicked, site := guard(func() error { return transaction.VerifCheckTransactionSignature(tx, refs) })
			if panicked {
				st.panicked++
				c.classes.Add("withdraw-v2:panic:" + site)
				continue
			}
			if serr != nil {
				st.rejectedSignature++
				c.classes.Add("withdraw-v2:signature-reject:" + tail(serr))
				continue
			}
			st.accepted++
			c.ct.accepted++
			c.classes.Add("withdraw-v2:accept")
			if len(seen) < need {
				c.r.Violate("C05|accept-too-few-signers|withdraw-v2-signer-indexes", "a Schnorr side-chain withdrawal was accepted (SpecialContextCheck + signature check) with fewer distinct signer indexes than the quorum",
					map[string]interface{}{"kind": "withdraw-v2", "arbiters": su.arbiters, "member_count": su.memberCount, "required": need, "signers": fmt.Sprint(l), "distinct": len(seen)})
			} else {
				c.samples.Add(map[string]interface{}{"withdraw_v2_accept": fmt.Sprint(l), "arbiters": su.arbiters, "required": need})
			}
		}
	}
	return
}

func tail(err error) string {
	if err == nil {
		return ""
	}
	m := err.Error()
	if len(m) > 50 {
		m = m[len(m)-50:]
	}
	return m
}
