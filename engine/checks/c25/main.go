// C25: a block confirmation needs a two-thirds quorum of distinct current arbiters.
//
// Real code driven: dpos/state Arbiters.GetArbitersMajorityCount / HasArbitersMajorityCount and
// blockchain.ConfirmSanityCheck + ConfirmContextCheck with blockchain.DefaultLedger.Arbitrators
// set to a real Arbiters (state.NewArbitrators) whose CurrentArbitrators are n harness keys.
// Votes and proposals are signed with crypto.Sign under fixed harness private keys.
//
// (a) arithmetic for every n = 1..1000 (and the empty-set fallback);
// (b) confirmations built from vote atoms, compared with an independent reference predicate that
//
//	is computed from the atom descriptors (never from signatures).
package main

import (
	"fmt"
	"os"
	"sort"
	"strings"
	"sync/atomic"

	"github.com/elastos/Elastos.ELA/blockchain"
	"github.com/elastos/Elastos.ELA/common"
	"github.com/elastos/Elastos.ELA/common/config"
	"github.com/elastos/Elastos.ELA/core/checkpoint"
	"github.com/elastos/Elastos.ELA/core/types/payload"
	crstate "github.com/elastos/Elastos.ELA/cr/state"
	"github.com/elastos/Elastos.ELA/dpos/state"

	"verif/dposkit"
	"verif/evid"
	"verif/hx"
	"verif/par"
)

// ---- vote atoms ---------------------------------------------------------------------------

// atom kinds
const (
	kA = "A" // valid accepting vote of arbiter i for this proposal
	kR = "R" // correctly signed rejecting vote of arbiter i
	kW = "W" // correctly signed accepting vote of arbiter i for another proposal hash
	kB = "B" // accepting vote naming arbiter i as signer, signed with a foreign key
	kF = "F" // valid accepting vote of a key that is not an arbiter
)

type atom struct {
	Kind string `json:"kind"`
	Arb  int    `json:"arbiter"` // index of the arbiter (kF: index of the foreign key)
}

func (a atom) String() string { return fmt.Sprintf("%s%d", a.Kind, a.Arb) }

// sponsor kinds
const (
	spFirst   = "arbiter0"
	spLast    = "arbiterLast"
	spForeign = "foreign"
	spBadSig  = "arbiter0-badsig"
)

// caseT is one confirmation (also the replay artefact).
type caseT struct {
	N         int    `json:"arbiters"`
	NonNormal bool   `json:"last_arbiter_non_normal"`
	Sponsor   string `json:"sponsor"`
	Votes     []atom `json:"votes"`
}

func (c *caseT) String() string {
	var vs []string
	for _, a := range c.Votes {
		vs = append(vs, a.String())
	}
	return fmt.Sprintf("n=%d nonNormalLast=%v sponsor=%s votes=[%s]", c.N, c.NonNormal, c.Sponsor, strings.Join(vs, " "))
}

type world struct {
	arb     []*dposkit.Key
	foreign []*dposkit.Key
	blockH  common.Uint256
	otherH  common.Uint256
	// caches
	proposals map[string]*payload.DPOSProposal    // by sponsor kind + n
	votes     map[string]payload.DPOSProposalVote // by proposal key + atom
}

func newWorld() *world {
	w := &world{arb: dposkit.Keys("arb", 10), foreign: dposkit.Keys("foreign", 3),
		proposals: map[string]*payload.DPOSProposal{}, votes: map[string]payload.DPOSProposalVote{}}
	for i := range w.blockH {
		w.blockH[i] = byte(i + 1)
		w.otherH[i] = byte(0xa0 + i)
	}
	return w
}

func (w *world) sponsorKey(c *caseT) (signer, named *dposkit.Key) {
	switch c.Sponsor {
	case spFirst:
		return w.arb[0], w.arb[0]
	case spLast:
		return w.arb[c.N-1], w.arb[c.N-1]
	case spForeign:
		return w.foreign[0], w.foreign[0]
	case spBadSig:
		return w.foreign[1], w.arb[0]
	}
	evid.Fatalf("bad sponsor %q", c.Sponsor)
	return nil, nil
}

// proposal returns the (cached) signed proposal of the case; not safe for concurrent use —
// everything is pre-built before the parallel phase.
func (w *world) proposal(c *caseT) (*payload.DPOSProposal, string) {
	signer, named := w.sponsorKey(c)
	key := named.Label + "/" + signer.Label
	if p, ok := w.proposals[key]; ok {
		return p, key
	}
	p := &payload.DPOSProposal{Sponsor: named.PK, BlockHash: w.blockH, ViewOffset: 3}
	p.Sign = signer.Sign(p.Data())
	w.proposals[key] = p
	return p, key
}

func (w *world) vote(c *caseT, a atom) payload.DPOSProposalVote {
	p, pkey := w.proposal(c)
	key := pkey + "|" + a.String()
	if v, ok := w.votes[key]; ok {
		return v
	}
	v := payload.DPOSProposalVote{ProposalHash: p.Hash(), Accept: true}
	signer := w.arb[0]
	switch a.Kind {
	case kF:
		signer = w.foreign[a.Arb]
		v.Signer = signer.PK
	default:
		signer = w.arb[a.Arb]
		v.Signer = signer.PK
	}
	switch a.Kind {
	case kR:
		v.Accept = false
	case kW:
		other := &payload.DPOSProposal{Sponsor: p.Sponsor, BlockHash: w.otherH, ViewOffset: p.ViewOffset}
		v.ProposalHash = other.Hash()
	case kB:
		signer = w.foreign[2]
	}
	v.Sign = signer.Sign(v.Data())
	w.votes[key] = v
	return v
}

func (w *world) confirm(c *caseT) *payload.Confirm {
	p, _ := w.proposal(c)
	cf := &payload.Confirm{Proposal: *p}
	for _, a := range c.Votes {
		cf.Votes = append(cf.Votes, w.vote(c, a))
	}
	return cf
}

// ---- arbiter sets -------------------------------------------------------------------------

func newArbiters(w *world, n int, nonNormal bool) *state.Arbiters {
	p := config.GetDefaultParams()
	a, err := state.NewArbitrators(p, nil, nil, nil, nil, nil, nil, nil, nil, checkpoint.NewManager(p))
	if err != nil {
		evid.Fatalf("NewArbitrators: %v", err)
	}
	var ms []state.ArbiterMember
	for i := 0; i < n; i++ {
		if nonNormal && i == n-1 {
			owner := dposkit.NewKey("crowner", i)
			m := &crstate.CRMember{MemberState: crstate.MemberImpeached, DPOSPublicKey: w.arb[i].PK}
			m.Info = payload.CRInfo{Code: owner.Code()}
			ar, err := state.NewCRCArbiter(w.arb[i].PK, owner.PK, m, false)
			if err != nil {
				evid.Fatalf("NewCRCArbiter: %v", err)
			}
			ms = append(ms, ar)
			continue
		}
		ar, err := state.NewOriginArbiter(w.arb[i].PK)
		if err != nil {
			evid.Fatalf("NewOriginArbiter: %v", err)
		}
		ms = append(ms, ar)
	}
	a.CurrentArbitrators = ms
	return a
}

// ---- reference predicate ------------------------------------------------------------------

type verdict struct {
	sound    bool   // necessary condition of the property holds
	complete bool   // every vote is a valid accepting vote of a normal current arbiter, quorum reached, sponsor fine
	reason   string // why sound is false
	kinds    string // deviant vote kinds present
}

func reference(c *caseT) verdict {
	t := 2 * c.N / 3
	normal := func(i int) bool { return !(c.NonNormal && i == c.N-1) }
	var v verdict
	sponsorCurrent, sponsorNormal, sigOK := false, false, true
	switch c.Sponsor {
	case spFirst:
		sponsorCurrent, sponsorNormal = true, normal(0)
	case spLast:
		sponsorCurrent, sponsorNormal = true, normal(c.N-1)
	case spBadSig:
		sponsorCurrent, sponsorNormal, sigOK = true, normal(0), false
	}
	valid := map[int]bool{}
	allValid := true
	count := map[string]int{}
	kinds := map[string]bool{}
	for _, a := range c.Votes {
		count[a.String()]++
		switch a.Kind {
		case kA:
			valid[a.Arb] = true
			if !normal(a.Arb) {
				allValid = false
				kinds["nonnormal"] = true
			}
			if count[a.String()] > 1 {
				kinds["dup"] = true
			}
		case kR:
			allValid = false
			kinds["reject"] = true
		case kW:
			allValid = false
			kinds["wronghash"] = true
		case kB:
			allValid = false
			kinds["badsig"] = true
		case kF:
			allValid = false
			kinds["foreign"] = true
		}
	}
	var ks []string
	for k := range kinds {
		ks = append(ks, k)
	}
	sort.Strings(ks)
	v.kinds = strings.Join(ks, "+")
	if v.kinds == "" {
		v.kinds = "plain"
	}
	quorum := len(valid) > t
	switch {
	case !sigOK:
		v.reason = "proposal-signature-invalid"
	case !sponsorCurrent:
		v.reason = "sponsor-not-arbiter"
	case !quorum:
		v.reason = "distinct-valid-voters<=threshold"
	}
	v.sound = v.reason == ""
	v.complete = sigOK && sponsorNormal && quorum && allValid
	return v
}

// ---- enumeration --------------------------------------------------------------------------

// deviants lists every non-plain atom for n arbiters plus duplicates of members of S.
func deviants(n int, S []int) []atom {
	var out []atom
	for _, i := range S {
		out = append(out, atom{kA, i}) // duplicate
	}
	for i := 0; i < n; i++ {
		out = append(out, atom{kR, i}, atom{kW, i}, atom{kB, i})
	}
	out = append(out, atom{kF, 0}, atom{kF, 1})
	return out
}

func subsets(n int) [][]int {
	var out [][]int
	for m := 0; m < 1<<uint(n); m++ {
		var s []int
		for i := 0; i < n; i++ {
			if m&(1<<uint(i)) != 0 {
				s = append(s, i)
			}
		}
		out = append(out, s)
	}
	return out
}

// multisets of size <= max over atoms (indices non-decreasing).
func multisets(atoms []atom, max int, f func([]atom)) {
	var cur []atom
	var rec func(start int)
	rec = func(start int) {
		f(cur)
		if len(cur) == max {
			return
		}
		for i := start; i < len(atoms); i++ {
			cur = append(cur, atoms[i])
			rec(i)
			cur = cur[:len(cur)-1]
		}
	}
	rec(0)
}

type counters struct {
	confirms, votes, accepted, rejected, nearQuorum int64
}

func evalCase(w *world, sk *dposkit.Sink, c *caseT, cf *payload.Confirm, ct *counters) {
	ref := reference(c)
	err := blockchain.ConfirmSanityCheck(cf)
	stage := "sanity"
	if err == nil {
		err = blockchain.ConfirmContextCheck(cf)
		stage = "context"
	}
	atomic.AddInt64(&ct.confirms, 1)
	atomic.AddInt64(&ct.votes, int64(len(cf.Votes)))
	if err == nil {
		atomic.AddInt64(&ct.accepted, 1)
		if !ref.sound {
			sig := fmt.Sprintf("C25|accepted-without-quorum|%s|votes=%s", ref.reason, ref.kinds)
			if !sk.Seen(sig) {
				sk.Violate(sig, fmt.Sprintf("ConfirmSanityCheck+ConfirmContextCheck accept a confirmation that lacks the quorum conditions (%s): %s", ref.reason, c), c)
			}
		}
		return
	}
	atomic.AddInt64(&ct.rejected, 1)
	if ref.complete {
		sig := "C25|rejected-valid-confirm|" + stage
		if !sk.Seen(sig) {
			sk.Violate(sig, fmt.Sprintf("a confirmation made only of valid accepting votes of more than 2n/3 distinct normal arbiters with a valid sponsor is rejected (%v): %s", err, c), c)
		}
	}
}

func main() {
	r := evid.Start("C25", "exploration")
	scr := evid.Scratch("c25")
	finish := func(c evid.Coverage) { os.RemoveAll(scr); r.Finish(c) }
	hx.QuietLogs(scr)
	w := newWorld()
	saved := blockchain.DefaultLedger
	defer func() { blockchain.DefaultLedger = saved }()

	if r.Replay != "" {
		var c caseT
		sig := r.LoadReplay(&c)
		if c.N == 0 {
			fmt.Println("replay of an arithmetic case: re-running part (a)")
			var sk dposkit.Sink
			arithmetic(w, &sk, 1000)
			sk.MergeInto(r)
			finish(evid.Coverage{})
		}
		a := newArbiters(w, c.N, c.NonNormal)
		blockchain.DefaultLedger = &blockchain.Ledger{Arbitrators: a}
		cf := w.confirm(&c)
		ref := reference(&c)
		e1 := blockchain.ConfirmSanityCheck(cf)
		e2 := blockchain.ConfirmContextCheck(cf)
		fmt.Printf("replay %s\n  %s\n  threshold %d; reference: necessary conditions hold=%v (%s), fully valid=%v\n  ConfirmSanityCheck: %v\n  ConfirmContextCheck: %v\n",
			sig, &c, a.GetArbitersMajorityCount(), ref.sound, ref.reason, ref.complete, e1, e2)
		var ct counters
		var sk dposkit.Sink
		evalCase(w, &sk, &c, cf, &ct)
		sk.MergeInto(r)
		finish(evid.Coverage{})
	}

	// (a) arithmetic
	var skA dposkit.Sink
	nArith := arithmetic(w, &skA, 1000)
	skA.MergeInto(r)

	// (b) confirmations
	fullN := r.Pick(3, 4)  // every multiset of size <= n+2 for n <= fullN
	dev2N := r.Pick(5, 8)  // subsets + <= 2 deviant votes up to this n
	dev1N := r.Pick(7, 10) // subsets + <= 1 deviant vote up to this n
	var ct counters
	var groups int
	perGroup := map[string]int{}
	for n := 1; n <= dev1N; n++ {
		for _, nonNormal := range []bool{false, true} {
			if nonNormal && n < 2 {
				continue
			}
			var cases []caseT
			add := func(sp string, votes []atom) {
				cases = append(cases, caseT{N: n, NonNormal: nonNormal, Sponsor: sp, Votes: append([]atom{}, votes...)})
			}
			if n <= fullN {
				var atoms []atom
				for i := 0; i < n; i++ {
					atoms = append(atoms, atom{kA, i}, atom{kR, i}, atom{kW, i}, atom{kB, i})
				}
				atoms = append(atoms, atom{kF, 0}, atom{kF, 1})
				multisets(atoms, n+2, func(v []atom) {
					add(spFirst, v)
					add(spForeign, v)
				})
			}
			for _, S := range subsets(n) {
				var base []atom
				for _, i := range S {
					base = append(base, atom{kA, i})
				}
				for _, sp := range []string{spFirst, spLast, spForeign, spBadSig} {
					add(sp, base)
				}
				if n <= fullN {
					continue // already covered by the full multisets (sponsor variants above added)
				}
				devs := deviants(n, S)
				for i, d := range devs {
					for _, sp := range []string{spFirst, spForeign} {
						add(sp, append(append([]atom{}, base...), d)) // deviant vote last
						add(sp, append([]atom{d}, base...))           // deviant vote first
					}
					if n <= dev2N {
						for j := i; j < len(devs); j++ {
							add(spFirst, append(append([]atom{}, base...), d, devs[j]))
						}
					}
				}
			}
			// build (sequential: fills the signature caches), then evaluate in parallel
			a := newArbiters(w, n, nonNormal)
			blockchain.DefaultLedger = &blockchain.Ledger{Arbitrators: a}
			cfs := make([]*payload.Confirm, len(cases))
			for i := range cases {
				cfs[i] = w.confirm(&cases[i])
			}
			const shard = 64
			ns := (len(cases) + shard - 1) / shard
			sinks := make([]dposkit.Sink, ns)
			par.Go(ns, func(s int) {
				for i := s * shard; i < (s+1)*shard && i < len(cases); i++ {
					evalCase(w, &sinks[s], &cases[i], cfs[i], &ct)
				}
			})
			for i := range sinks {
				sinks[i].MergeInto(r)
			}
			groups++
			perGroup[fmt.Sprintf("n=%d,nonNormalLast=%v", n, nonNormal)] = len(cases)
			if r.Expired() {
				break
			}
		}
	}
	samples := []interface{}{
		caseT{N: 3, Sponsor: spFirst, Votes: []atom{{kA, 0}, {kA, 1}, {kA, 2}}},
		caseT{N: 3, Sponsor: spFirst, Votes: []atom{{kA, 0}, {kA, 0}, {kA, 1}}},
		caseT{N: 5, NonNormal: true, Sponsor: spForeign, Votes: []atom{{kA, 0}, {kA, 1}, {kA, 2}, {kA, 3}, {kB, 4}}},
	}
	r.Assume = append(r.Assume,
		"vote atoms: A=valid accept, R=signed reject, W=signed accept for another proposal hash, B=accept naming an arbiter but signed by a foreign key, F=valid accept by a non-arbiter; duplicates = the same atom twice",
		"for n above the full-multiset bound only confirmations with at most two (dev-2 bound) / one deviant vote on top of every subset of valid votes are enumerated",
		"the necessary-condition oracle counts a non-normal member of CurrentArbitrators as a current arbiter (the code is stricter and rejects its votes); the completeness oracle requires normal arbiters only")
	finish(evid.Coverage{
		"evaluations":         ct.confirms + nArith,
		"distinct_nontrivial": ct.accepted,
		"rule":                fmt.Sprintf("(a) GetArbitersMajorityCount/HasArbitersMajorityCount for every n=1..1000 and the empty-set fallback: t == floor(2n/3), 3*(2(t+1)-n) > n, HasArbitersMajorityCount(k) <=> k>t for k in {0,t,t+1,n}. (b) for n=1..%d x {all normal, last arbiter a non-normal CRC member}: n<=%d: every multiset of size <= n+2 over {A_i,R_i,W_i,B_i for each arbiter, F_0,F_1} x sponsor {arbiter0, foreign}; all n: every subset of valid votes x sponsor {arbiter0, last arbiter, foreign, arbiter0 with foreign signature}; n>%d: every subset + one deviant vote (placed last and first) x sponsor {arbiter0, foreign}; n<=%d additionally every subset + two deviant votes. Confirmations are distinct by construction; non-trivial = accepted ones (reach every check of both functions)", dev1N, fullN, fullN, dev2N),
		"exhaustive":          !r.Expired(),
		"arithmetic_cases":    nArith,
		"confirmations":       ct.confirms,
		"votes_in_confirms":   ct.votes,
		"accepted":            ct.accepted,
		"rejected":            ct.rejected,
		"confirms_per_group":  perGroup,
		"samples":             samples,
	})
}

// arithmetic checks part (a) on real Arbiters objects; returns the number of evaluations.
func arithmetic(w *world, sk *dposkit.Sink, max int) int64 {
	p := config.GetDefaultParams()
	a, err := state.NewArbitrators(p, nil, nil, nil, nil, nil, nil, nil, nil, checkpoint.NewManager(p))
	if err != nil {
		evid.Fatalf("NewArbitrators: %v", err)
	}
	pool := make([]state.ArbiterMember, 0, 10)
	for i := 0; i < 10; i++ {
		m, err := state.NewOriginArbiter(w.arb[i].PK)
		if err != nil {
			evid.Fatalf("NewOriginArbiter: %v", err)
		}
		pool = append(pool, m)
	}
	var evals int64
	check := func(n int, label string) {
		t := a.GetArbitersMajorityCount()
		evals++
		art := caseT{N: 0, Sponsor: fmt.Sprintf("%s n=%d", label, n)}
		if t != 2*n/3 {
			sk.Violate("C25|majority-count|formula", fmt.Sprintf("%s: GetArbitersMajorityCount()=%d for %d arbiters, floor(2n/3)=%d", label, t, n, 2*n/3), art)
		}
		if !(3*(2*(t+1)-n) > n) {
			sk.Violate("C25|majority-count|intersection", fmt.Sprintf("%s: two signer sets of size %d out of %d need not share more than a third", label, t+1, n), art)
		}
		for _, k := range []int{0, t, t + 1, n} {
			evals++
			if a.HasArbitersMajorityCount(k) != (k > t) {
				sk.Violate("C25|majority-count|has-majority", fmt.Sprintf("%s: HasArbitersMajorityCount(%d) with threshold %d", label, k, t), art)
			}
		}
	}
	a.CurrentArbitrators = nil
	check(p.DPoSConfiguration.NormalArbitratorsCount+len(p.DPoSConfiguration.CRCArbiters), "empty current set (configured seats)")
	for n := 1; n <= max; n++ {
		ms := make([]state.ArbiterMember, n)
		for i := range ms {
			ms[i] = pool[i%len(pool)]
		}
		a.CurrentArbitrators = ms
		check(n, "current set")
	}
	return evals
}
