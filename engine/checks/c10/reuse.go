// Object-reuse family: an AuxPow VALUE that has been checked once is turned into another proof —
// field by field in place, or by AuxPow.Deserialize of other bytes into the same value — and
// checked again. The verdict must not depend on the value's history: oracle = verdict of a
// fresh value decoded from the re-serialised one (and the byte-level statement).
package main

import (
	"bytes"
	"encoding/hex"
	"runtime/debug"

	"github.com/elastos/Elastos.ELA/auxpow"
	"github.com/elastos/Elastos.ELA/common"

	"verif/evid"
)

func wireOf(p *proof) []byte {
	var b bytes.Buffer
	if err := p.toAuxPow().Serialize(&b); err != nil {
		evid.Fatalf("serialize: %v", err)
	}
	return b.Bytes()
}

func checkObj(ap *auxpow.AuxPow, blockHash [32]byte, chainID int) (acc bool, site string) {
	defer func() {
		if x := recover(); x != nil {
			acc = false
			site = evid.PanicSite(debug.Stack())
		}
	}()
	h := common.Uint256(blockHash)
	return ap.Check(&h, chainID), ""
}

// assignInPlace copies src into dst field by field, reusing dst's structs (and its inputs and
// outputs where the counts agree), the way calling code edits a proof it holds.
func assignInPlace(dst, src *auxpow.AuxPow) {
	dst.AuxMerkleBranch = src.AuxMerkleBranch
	dst.AuxMerkleIndex = src.AuxMerkleIndex
	tx, st := &dst.ParCoinbaseTx, &src.ParCoinbaseTx
	tx.Version = st.Version
	tx.LockTime = st.LockTime
	if len(tx.TxIn) == len(st.TxIn) {
		for i := range st.TxIn {
			tx.TxIn[i].PreviousOutPoint = st.TxIn[i].PreviousOutPoint
			tx.TxIn[i].SignatureScript = st.TxIn[i].SignatureScript
			tx.TxIn[i].Sequence = st.TxIn[i].Sequence
		}
	} else {
		tx.TxIn = st.TxIn
	}
	if len(tx.TxOut) == len(st.TxOut) {
		for i := range st.TxOut {
			tx.TxOut[i].Value = st.TxOut[i].Value
			tx.TxOut[i].PkScript = st.TxOut[i].PkScript
		}
	} else {
		tx.TxOut = st.TxOut
	}
	dst.ParCoinBaseMerkle = src.ParCoinBaseMerkle
	dst.ParMerkleIndex = src.ParMerkleIndex
	h, sh := &dst.ParBlockHeader, &src.ParBlockHeader
	h.Version, h.Previous, h.MerkleRoot, h.Timestamp, h.Bits, h.Nonce = sh.Version, sh.Previous, sh.MerkleRoot, sh.Timestamp, sh.Bits, sh.Nonce
	dst.ParentHash = src.ParentHash
}

// reuseOnce: decode first, check it, turn the same value into second (mode "in-place" or
// "deserialize"), check again; compare with a fresh value decoded from the re-serialised one.
// Returns (verdict on the reused value, verdict on the fresh value).
func reuseOnce(firstRaw []byte, firstHash [32]byte, firstChain int, mode string, secondRaw []byte, secondHash [32]byte, secondChain int) (reused, fresh bool, err error) {
	var obj auxpow.AuxPow
	if err = obj.Deserialize(bytes.NewReader(firstRaw)); err != nil {
		return
	}
	checkObj(&obj, firstHash, firstChain)
	switch mode {
	case "in-place":
		var src auxpow.AuxPow
		if err = src.Deserialize(bytes.NewReader(secondRaw)); err != nil {
			return
		}
		assignInPlace(&obj, &src)
	case "deserialize":
		if err = obj.Deserialize(bytes.NewReader(secondRaw)); err != nil {
			return
		}
	case "check-twice":
	}
	reused, _ = checkObj(&obj, secondHash, secondChain)
	var again bytes.Buffer
	if err = obj.Serialize(&again); err != nil {
		return
	}
	var f auxpow.AuxPow
	if err = f.Deserialize(bytes.NewReader(again.Bytes())); err != nil {
		return
	}
	fresh, _ = checkObj(&f, secondHash, secondChain)
	return
}

// reuse enumerates (first, second) pairs around one seed.
func (w *worker) reuse(c seedCfg) {
	a := buildSeed(c)
	// a proof for another block of the same shape
	cb := c
	cb.Nonce ^= 0x40
	b := buildSeed(cb)

	type named struct {
		name string
		p    *proof
	}
	var seconds []named
	add := func(name string, p *proof) { seconds = append(seconds, named{name, p}) }
	// A's parent header and coinbase commitment kept, script switched to B's commitment: a proof
	// "for block B" that a fresh check rejects at the parent merkle step
	{
		q := a.clone()
		q.BlockHash, q.AuxBranch, q.AuxIndex = b.BlockHash, b.AuxBranch, b.AuxIndex
		q.Ins[0].Script = append([]byte{}, b.Ins[0].Script...)
		add("script-switched-to-other-block", q)
	}
	add("valid-proof-of-other-block", b)
	add("same-proof-other-block-hash", func() *proof { q := a.clone(); q.BlockHash = b.BlockHash; return q }())
	add("same-proof", a)
	for i, f := range []func(q *proof){
		func(q *proof) { q.CbVersion++ },
		func(q *proof) { q.LockTime++ },
		func(q *proof) { q.Ins[0].Seq ^= 1 },
		func(q *proof) { q.Outs = append(q.Outs, txOut{Value: 1, Pk: []byte{0x51}}) },
		func(q *proof) { q.Ins[0].Script[len(q.Ins[0].Script)-1] ^= 1 },
	} {
		q := a.clone()
		f(q)
		add("coinbase-changed-"+string(rune('0'+i)), q)
		q = a.clone()
		f(q)
		q.recommit()
		add("coinbase-changed-recommitted-"+string(rune('0'+i)), q)
	}
	{
		q := a.clone()
		q.HdrRoot[0] ^= 1
		add("parent-root-changed", q)
		if len(a.AuxBranch) > 0 {
			q = a.clone()
			q.AuxBranch[0][0] ^= 1
			add("aux-branch-changed", q)
		}
		if len(a.ParBranch) > 0 {
			q = a.clone()
			q.ParBranch[0][0] ^= 1
			add("parent-branch-changed", q)
		}
	}

	run := func(first named, second named, mode string) {
		w.ct.reuseCases++
		fr, sr := wireOf(first.p), wireOf(second.p)
		reused, fresh, err := reuseOnce(fr, first.p.BlockHash, first.p.ChainID, mode, sr, second.p.BlockHash, second.p.ChainID)
		if err != nil {
			evid.Fatalf("reuse: %v", err)
		}
		reason := second.p.oracle()
		if reused == fresh && fresh == (reason == "") {
			return
		}
		art := wire{Class: "reuse/" + first.name + "->" + second.name, AuxPowHex: hex.EncodeToString(sr), BlockHash: hex.EncodeToString(second.p.BlockHash[:]), ChainID: second.p.ChainID,
			Mode: mode, FirstAuxPow: hex.EncodeToString(fr), FirstBlockHash: hex.EncodeToString(first.p.BlockHash[:]), FirstChainID: first.p.ChainID}
		switch {
		case reused && (!fresh || reason != ""):
			if reason == "" {
				reason = "fresh-value-rejects"
			}
			w.pend = append(w.pend, pending{"C10|object-reuse|" + mode + "|accepted|" + reason,
				"an AuxPow value that was checked before and then turned into another proof (" + mode + ") is accepted although the same proof in a fresh value is not (" + first.name + " -> " + second.name + "; violated clause: " + reason + ")", art})
		case !reused && fresh && reason == "":
			// one-directional statement: history-dependent rejection is only counted
			w.ct.reuseStricter++
		case fresh != (reason == ""):
			// fresh value disagrees with the byte-level statement: the single-proof families report
			// that; nothing to add here
		}
	}
	first := named{"valid-proof", a}
	for _, s := range seconds {
		for _, mode := range []string{"in-place", "deserialize"} {
			run(first, s, mode)
			// and the other way round: first the (mostly invalid) variant, then the valid proof
			run(s, first, mode)
		}
	}
	run(first, first, "check-twice")
}
