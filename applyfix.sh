#!/bin/bash
# applyfix.sh <diff> <commit-message-file>   — applies a reviewed fix to /repo as one "fix:" commit
set -eu
export GOFLAGS=-mod=mod GOPROXY=off GOSUMDB=off GOTOOLCHAIN=local
D="$(readlink -f "$1")"; M="$(readlink -f "$2")"
cd /repo
git apply --check "$D"
git apply "$D"
FILES=$(grep '^+++ b/' "$D" | sed 's#^+++ b/##' | sort -u)
go build ./... 
PKGS=$(echo "$FILES" | grep '\.go$' | xargs -n1 dirname | sort -u | sed 's#^#./#')
go test -vet=off -count=1 -timeout 600s $PKGS 2>&1 | tail -5 || true
head -1 "$M" | grep -q '^fix:' || { echo "message must start with fix:"; exit 1; }
git add $FILES
git commit -q -F "$M" -- $FILES
git log --oneline -1
