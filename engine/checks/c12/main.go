// C12 "the node follows the most-work valid chain" — explicit-state search on the node tier.
//
// A scenario is a fixed block tree on the regnet genesis (pure PoW era, constant difficulty,
// CoinbaseMaturity 1): a trunk plus two or three forks of equal or greater work; in some
// scenarios one fork holds a block that passes CheckBlockSanity but fails context validation
// (it spends an outpoint already spent on its own chain, or its coinbase pays one sela too
// much) at position 1, 2 or 3 of the fork. The only operation is d:<label> = hand that block to
// BlockChain.ProcessBlock; every not-yet-delivered block is enabled, so every delivery order is
// explored (children before parents become orphans), pruned by a digest memo. Search =
// chainkit.BFS (fresh node per transition, worker processes).
//
// Oracles after every delivery (reference model: the tree, validity marks set by construction,
// work recomputed from Bits with big.Int):
//
//	valid-chain    the active chain (GetBlockHash 0..height, GetBestChain) is a path of the tree
//	               from genesis and holds no invalid block
//	most-work      no branch whose blocks are all valid and all delivered has strictly more work
//	               than the active chain
//	chain-change   the active chain only ever changes to a chain with strictly more work (first
//	               seen wins ties, as blockchain.connectBestChain documents); in particular a
//	               failed switch towards a branch containing the invalid block leaves the node on
//	               its previous chain
//	indexes        height, best hash, unspent index, transaction index and per-address UTXO index
//	               equal what a fresh node fed only the active chain reports (differential;
//	               reference snapshots are taken once per process from scratch nodes)
package main

import (
	"crypto/sha256"
	"encoding/hex"
	"encoding/json"
	"fmt"
	"math/big"
	"os"
	"sort"
	"strings"
	"time"

	"github.com/elastos/Elastos.ELA/common"
	"github.com/elastos/Elastos.ELA/common/config"
	"github.com/elastos/Elastos.ELA/core/types"
	common2 "github.com/elastos/Elastos.ELA/core/types/common"
	"github.com/elastos/Elastos.ELA/core/types/interfaces"
	"github.com/elastos/Elastos.ELA/dpos/state"

	"verif/chainkit"
	"verif/evid"
	"verif/par"
)

// ---------------------------------------------------------------------------------------------
// scenarios

type bspec struct {
	Label   string
	Parent  string // label or "g"
	Txs     []string
	Delta   int64  // coinbase reward deviation (≠0 = context-invalid)
	Invalid string // "" | "double-spend" | "coinbase-amount" (set by construction)
}

type scenario struct {
	Name   string
	Blocks []bspec
	// Guard: the compressed DPoS regime of C30 (VoteStartHeight 2, CRCOnlyDPOSHeight 3,
	// RevertToPOWStartHeight 7), in which the node records a last irreversible height L and the
	// reorganisation guard is live; Pre = number of leading blocks delivered in order before the
	// search starts.
	Guard bool
	Pre   int
	// Pow: after the prefix the DPoS state is put into what a RevertToPOW transaction leaves
	// behind (consensus POW, L frozen), as in C30's p scenarios.
	Pow bool
}

func T(label, parent string, txs ...string) bspec {
	return bspec{Label: label, Parent: parent, Txs: txs}
}

func scenarios(tier string) []scenario {
	trunk4 := []bspec{T("T1", "g"), T("T2", "T1", "tg"), T("T3", "T2", "u1"), T("T4", "T3")}
	bad := func(b bspec, kind string) bspec { b.Invalid = kind; return b }
	badcb := func(b bspec) bspec { b.Delta = 1; b.Invalid = "coinbase-amount"; return b }
	// live guard (C30's regime): trunk of 9 delivered up front (L=3), then a heavier fork rooted
	// at height 4 (6 blocks, detaches 5: above L and shallower than the depth rule, so the node
	// must switch), delivered in every order; thorough adds a fork rooted at 3 = L (the
	// exception applies: either answer is accepted) and a short one rooted at 8
	guardLive := scenario{Name: "guard-live", Guard: true, Pre: 9, Blocks: []bspec{
		T("T1", "g"), T("T2", "T1"), T("T3", "T2"), T("T4", "T3"), T("T5", "T4"), T("T6", "T5"), T("T7", "T6"), T("T8", "T7"), T("T9", "T8"),
		T("F5", "T4"), T("F6", "F5"), T("F7", "F6"), T("F8", "F7"), T("F9", "F8"), T("F10", "F9")}}
	// the same trunk, consensus reverted to POW with L=3 frozen, a heavier fork rooted at height
	// 2 (below L) whose first five blocks are already known as a side chain: the last three
	// arrive in every order and the node must stay on the trunk
	guardPow := scenario{Name: "guard-live-pow", Guard: true, Pow: true, Pre: 14, Blocks: []bspec{
		T("T1", "g"), T("T2", "T1"), T("T3", "T2"), T("T4", "T3"), T("T5", "T4"), T("T6", "T5"), T("T7", "T6"), T("T8", "T7"), T("T9", "T8"),
		T("E3", "T2"), T("E4", "E3"), T("E5", "E4"), T("E6", "E5"), T("E7", "E6"),
		T("E8", "E7"), T("E9", "E8"), T("E10", "E9")}}
	trunk3 := []bspec{T("T1", "g"), T("T2", "T1", "tg"), T("T3", "T2", "u1")}
	q := []scenario{
		{Name: "valid-heavier-fork", Blocks: append(append([]bspec{}, trunk3...),
			T("A3", "T2", "u2"), T("A4", "A3"), T("B3", "T2"))},
		{Name: "invalid-pos1-double-spend", Blocks: append(append([]bspec{}, trunk3...),
			bad(T("A3", "T2", "tg2"), "double-spend"), T("A4", "A3"), T("B3", "T2", "u2"))},
		{Name: "invalid-pos2-coinbase", Blocks: []bspec{T("T1", "g"), T("T2", "T1"), T("T3", "T2"),
			T("A2", "T1", "tg"), badcb(T("A3", "A2", "u1")), T("A4", "A3")}},
		{Name: "invalid-pos3-double-spend", Blocks: []bspec{T("T1", "g"), T("T2", "T1"), T("T3", "T2"),
			T("A2", "T1", "tg"), T("A3", "A2"), bad(T("A4", "A3", "tg2"), "double-spend")}},
		{Name: "equal-work-ties", Blocks: append(append([]bspec{}, trunk3...),
			T("B3", "T2", "u2"), T("C2", "T1"), T("C3", "C2", "tg"))},
		// two branches overtaking each other in turn: delivered A2, B2 B3, A3 A4 the node
		// switches A -> B -> A (the second reorganisation re-attaches blocks it detached before)
		{Name: "there-and-back", Blocks: []bspec{T("T1", "g"), T("A2", "T1", "tg"), T("B2", "T1", "tg2"), T("B3", "B2"),
			T("A3", "A2", "u1"), T("A4", "A3")}},
		guardLive,
		guardPow,
	}
	if tier != "thorough" {
		return q
	}
	return []scenario{
		{Name: "valid-heavier-fork+", Blocks: append(append([]bspec{}, trunk4...),
			T("A3", "T2", "u2"), T("A4", "A3"), T("A5", "A4"), T("B4", "T3"), T("T5", "T4"), T("A6", "A5"))},
		{Name: "invalid-pos1-double-spend+", Blocks: append(append([]bspec{}, trunk4...),
			bad(T("A3", "T2", "tg2"), "double-spend"), T("A4", "A3"), T("A5", "A4"), T("B4", "T3"), T("C3", "T2", "u2"), T("C4", "C3"))},
		{Name: "invalid-pos2-coinbase+", Blocks: append(append([]bspec{}, trunk4...),
			T("A3", "T2", "u2"), badcb(T("A4", "A3")), T("A5", "A4"), T("B4", "T3"), T("T5", "T4"), T("A6", "A5"))},
		{Name: "invalid-pos3-double-spend+", Blocks: []bspec{T("T1", "g"), T("T2", "T1"), T("T3", "T2"),
			T("A2", "T1", "tg"), T("A3", "A2"), bad(T("A4", "A3", "tg2"), "double-spend"), T("A5", "A4"),
			T("T4", "T3"), T("B3", "T2"), T("A6", "A5")}},
		{Name: "equal-work-ties+", Blocks: []bspec{T("T1", "g"), T("T2", "T1", "tg"), T("T3", "T2"), T("T4", "T3"),
			T("B4", "T3", "u1"), T("C3", "T2", "u2"), T("C4", "C3"), T("C5", "C4"), T("B5", "B4"), T("T5", "T4")}},
		{Name: "invalid-pos2-double-spend", Blocks: append(append([]bspec{}, trunk4...),
			T("A3", "T2", "u2"), bad(T("A4", "A3", "tg2"), "double-spend"), T("A5", "A4"), T("B4", "T3"), T("A6", "A5"))},
		{Name: "there-and-back+", Blocks: []bspec{T("T1", "g"), T("T2", "T1", "tg"), T("A3", "T2", "u1"), T("B3", "T2", "u2"), T("B4", "B3"),
			T("A4", "A3"), T("A5", "A4"), T("B5", "B4"), T("B6", "B5"), T("C3", "T2")}},
		guardLive,
		guardPow,
		{Name: "guard-live-at-L", Guard: true, Pre: 9, Blocks: []bspec{
			T("T1", "g"), T("T2", "T1"), T("T3", "T2"), T("T4", "T3"), T("T5", "T4"), T("T6", "T5"), T("T7", "T6"), T("T8", "T7"), T("T9", "T8"),
			T("E4", "T3"), T("E5", "E4"), T("E6", "E5"), T("E7", "E6"), T("E8", "E7"), T("E9", "E8"), T("E10", "E9"), T("G9", "T8"), T("G10", "G9")}},
		{Name: "invalid-pos1-coinbase", Blocks: append(append([]bspec{}, trunk4...),
			badcb(T("A3", "T2")), T("A4", "A3"), T("A5", "A4"), T("B4", "T3"), T("C3", "T2"))},
	}
}

func findScenario(name string) *scenario {
	for _, t := range []string{"quick", "thorough"} {
		for _, s := range scenarios(t) {
			if s.Name == name {
				c := s
				return &c
			}
		}
	}
	return nil
}

// ---------------------------------------------------------------------------------------------
// reference helpers

// workOf recomputes the work of a block from its compact target (2^256 / (target+1)),
// independently of blockchain.CalcWork.
func workOf(bits uint32) *big.Int {
	mant := int64(bits & 0x007fffff)
	exp := uint(bits >> 24)
	t := big.NewInt(mant)
	if exp <= 3 {
		t.Rsh(t, 8*(3-exp))
	} else {
		t.Lsh(t, 8*(exp-3))
	}
	if bits&0x00800000 != 0 || t.Sign() <= 0 {
		return big.NewInt(0)
	}
	den := new(big.Int).Add(t, big.NewInt(1))
	return new(big.Int).Div(new(big.Int).Lsh(big.NewInt(1), 256), den)
}

type tblock struct {
	spec    bspec
	blk     *types.Block
	parent  *tblock // nil = genesis
	idx     int
	tainted bool     // itself or an ancestor invalid
	work    *big.Int // cumulative incl. genesis
}

type tree struct {
	sc      *scenario
	blocks  []*tblock
	byLabel map[string]*tblock
	byHash  map[common.Uint256]*tblock
	genesis *types.Block
	gwork   *big.Int
}

var txMenu map[string]interfaces.Transaction

func menu(n *chainkit.Node) map[string]interfaces.Transaction {
	if txMenu != nil {
		return txMenu
	}
	A, M, C := chainkit.Key("foundation"), chainkit.Key("miner"), chainkit.Key("carol")
	g := n.Genesis().Transactions[0]
	gv := g.Outputs()[0].Value
	const fee = 1000
	g0 := common2.OutPoint{TxID: g.Hash(), Index: 0}
	tg := chainkit.SignedTransfer(A, []common2.OutPoint{g0}, []chainkit.Out{{To: C, Value: gv - fee}}, 100)
	tg2 := chainkit.SignedTransfer(A, []common2.OutPoint{g0}, []chainkit.Out{{To: M, Value: gv - fee}}, 101)
	c0 := common2.OutPoint{TxID: tg.Hash(), Index: 0}
	u1 := chainkit.SignedTransfer(C, []common2.OutPoint{c0}, []chainkit.Out{{To: A, Value: gv - 2*fee}}, 102)
	u2 := chainkit.SignedTransfer(C, []common2.OutPoint{c0}, []chainkit.Out{{To: M, Value: gv - 2*fee}}, 103)
	txMenu = map[string]interfaces.Transaction{"tg": tg, "tg2": tg2, "u1": u1, "u2": u2}
	return txMenu
}

var trees = map[string]*tree{}

func buildTree(n *chainkit.Node, sc *scenario) *tree {
	if t, ok := trees[sc.Name]; ok {
		return t
	}
	m := menu(n)
	t := &tree{sc: sc, byLabel: map[string]*tblock{}, byHash: map[common.Uint256]*tblock{}, genesis: n.Genesis()}
	t.gwork = workOf(t.genesis.Bits)
	for i, bs := range sc.Blocks {
		tb := &tblock{spec: bs, idx: i}
		parentBlk := t.genesis
		pw := t.gwork
		if bs.Parent != "g" {
			p := t.byLabel[bs.Parent]
			if p == nil {
				evid.Fatalf("C12: scenario %s: parent %s of %s not defined before it", sc.Name, bs.Parent, bs.Label)
			}
			tb.parent = p
			parentBlk = p.blk
			pw = p.work
			tb.tainted = p.tainted
		}
		var txs []interfaces.Transaction
		for _, name := range bs.Txs {
			if m[name] == nil {
				evid.Fatalf("C12: unknown tx %s", name)
			}
			txs = append(txs, m[name])
		}
		// forkID from the label's branch letter keeps siblings distinct
		tb.blk = n.BuildBlockOpts(parentBlk, txs, uint32(bs.Label[0]), chainkit.BuildOpts{RewardDelta: common.Fixed64(bs.Delta)})
		if bs.Invalid != "" {
			tb.tainted = true
		}
		tb.work = new(big.Int).Add(pw, workOf(tb.blk.Bits))
		t.blocks = append(t.blocks, tb)
		t.byLabel[bs.Label] = tb
		t.byHash[tb.blk.Hash()] = tb
	}
	trees[sc.Name] = t
	return t
}

func (t *tree) chainOf(tb *tblock) []*tblock {
	var rev []*tblock
	for x := tb; x != nil; x = x.parent {
		rev = append(rev, x)
	}
	for i, j := 0, len(rev)-1; i < j; i, j = i+1, j-1 {
		rev[i], rev[j] = rev[j], rev[i]
	}
	return rev
}

// snapshot renders every index the differential oracle compares.
func snapshot(n *chainkit.Node) string {
	var sb strings.Builder
	fmt.Fprintf(&sb, "height=%d store=%d best=%s\n", n.Height(), n.Store.GetHeight(), chainkit.Short(n.Tip()))
	for i, h := range n.ActiveChain() {
		fmt.Fprintf(&sb, "chain[%d]=%s\n", i, chainkit.Short(h))
	}
	for _, id := range chainkit.KnownTxs() {
		u, ok := n.Unspent(id)
		_, h, err := n.Store.GetTransaction(id)
		// only transactions the node has something about: the line set must not depend on what
		// else the factory registry of this process happens to hold
		if (ok && len(u) > 0) || err == nil {
			fmt.Fprintf(&sb, "tx %s unspent=%v indexed=%v@%d\n", chainkit.Short(id), u, err == nil, h)
		}
	}
	for _, k := range []string{"foundation", "miner", "carol"} {
		ph := chainkit.Key(k).ProgramHash
		utxos, err := n.Store.GetFFLDB().GetUTXO(&ph)
		var items []string
		for _, u := range utxos {
			items = append(items, fmt.Sprintf("%s:%d=%d", chainkit.Short(u.TxID), u.Index, u.Value))
		}
		sort.Strings(items)
		fmt.Fprintf(&sb, "utxo[%s] err=%v %v\n", k, err != nil, items)
	}
	return sb.String()
}

// reference snapshots: fresh node fed only the chain ending at the label ("g" = genesis only)
var refSnaps = map[string]map[string]string{}

// CheckRewardHeight 0: below that height blockchain.checkTxsContext deliberately ignores a wrong
// coinbase amount (legacy blocks); the scenarios with a coinbase-amount deviation need the rule on.
func cfg(sc *scenario) chainkit.Config {
	guard := sc != nil && sc.Guard
	return chainkit.Config{CoinbaseMaturity: 1, Tweak: func(p *config.Configuration) {
		p.CheckRewardHeight = 0
		if guard {
			p.VoteStartHeight = 2
			p.CRCOnlyDPOSHeight = 3
			p.DPoSConfiguration.RevertToPOWStartHeight = 7
		}
	}}
}

// Workers take the reference snapshots from the file the parent wrote (C12_REFS) instead of
// rebuilding them with ~10 scratch nodes per scenario and process.
func ensureRefs(sc *scenario) map[string]string {
	if r, ok := refSnaps[sc.Name]; ok {
		return r
	}
	if p := os.Getenv("C12_REFS"); p != "" && len(refSnaps) == 0 {
		b, err := os.ReadFile(p)
		if err != nil {
			evid.Fatalf("C12: %v", err)
		}
		if err := json.Unmarshal(b, &refSnaps); err != nil {
			evid.Fatalf("C12: %v", err)
		}
		if r, ok := refSnaps[sc.Name]; ok {
			return r
		}
	}
	refs := map[string]string{}
	// tree first (needs a node for the factory)
	n, err := chainkit.NewNode(cfg(sc))
	if err != nil {
		evid.Fatalf("C12: %v", err)
	}
	t := buildTree(n, sc)
	// every transaction of the menu is known before any snapshot is taken
	refs["g"] = snapshot(n)
	n.Close()
	for _, tb := range t.blocks {
		if tb.tainted {
			continue
		}
		n, err := chainkit.NewNode(cfg(sc))
		if err != nil {
			evid.Fatalf("C12: %v", err)
		}
		for _, x := range t.chainOf(tb) {
			in, orphan, err := n.ProcessBlock(x.blk)
			if err != nil || !in || orphan {
				evid.Fatalf("C12: scenario %s: block %s marked valid is refused when its chain is fed in order: in=%v orphan=%v err=%v", sc.Name, x.spec.Label, in, orphan, err)
			}
		}
		refs[tb.spec.Label] = snapshot(n)
		n.Close()
	}
	// sanity of the construction: an invalid block is refused when it extends the tip
	for _, tb := range t.blocks {
		if tb.spec.Invalid == "" || (tb.parent != nil && tb.parent.tainted) {
			continue
		}
		n, err := chainkit.NewNode(cfg(sc))
		if err != nil {
			evid.Fatalf("C12: %v", err)
		}
		ch := t.chainOf(tb)
		for _, x := range ch[:len(ch)-1] {
			if _, _, err := n.ProcessBlock(x.blk); err != nil {
				evid.Fatalf("C12: scenario %s: %v", sc.Name, err)
			}
		}
		_, _, err = n.ProcessBlock(tb.blk)
		if err == nil {
			evid.Fatalf("C12: scenario %s: block %s was built to be context-invalid (%s) but is accepted on its own chain", sc.Name, tb.spec.Label, tb.spec.Invalid)
		}
		if strings.Contains(err.Error(), "PowCheckBlockSanity") {
			evid.Fatalf("C12: scenario %s: block %s fails sanity (%v); it must be sane and context-invalid", sc.Name, tb.spec.Label, err)
		}
		n.Close()
	}
	refSnaps[sc.Name] = refs
	return refs
}

// ---------------------------------------------------------------------------------------------
// system

type system struct {
	sc        *scenario
	t         *tree
	refs      map[string]string
	n         *chainkit.Node
	delivered []bool
	c         map[string]int
}

func newSystem(name string) chainkit.System {
	sc := findScenario(name)
	if sc == nil {
		evid.Fatalf("C12: unknown scenario %s", name)
	}
	refs := ensureRefs(sc)
	n, err := chainkit.NewNode(cfg(sc))
	if err != nil {
		evid.Fatalf("C12: %v", err)
	}
	s := &system{sc: sc, t: buildTree(n, sc), refs: refs, n: n, delivered: make([]bool, len(sc.Blocks)), c: map[string]int{}}
	for i := 0; i < sc.Pre; i++ {
		if sc.Pow && s.t.blocks[i].spec.Label[0] != 'T' && n.Chain.GetState().GetConsensusAlgorithm() != state.POW {
			// trunk complete: the state a RevertToPOW transaction in the tip block leaves behind
			// (exported fields; a valid RevertToPOW block needs 12 h without blocks)
			st := n.Chain.GetState()
			st.ConsensusAlgorithm = state.POW
			st.DPOSWorkHeight = 0
			st.RevertToPOWBlockHeight = n.Height()
		}
		_, orphan, err := n.ProcessBlock(s.t.blocks[i].blk)
		if err != nil || orphan {
			evid.Fatalf("C12: scenario %s: prefix block %s: orphan=%v err=%v", sc.Name, s.t.blocks[i].spec.Label, orphan, err)
		}
		s.delivered[i] = true
	}
	return s
}

func (s *system) Close()                   { s.n.Close() }
func (s *system) Counters() map[string]int { return s.c }
func (s *system) ResetCounters()           { s.c = map[string]int{} }

func (s *system) Ops() []string {
	var ops []string
	for i, tb := range s.t.blocks {
		if !s.delivered[i] {
			ops = append(ops, "d:"+tb.spec.Label)
		}
	}
	return ops
}

// active returns the active chain as tree blocks (without genesis); nil,fail if it is not a
// path of the tree.
func (s *system) active() ([]*tblock, *chainkit.Fail) {
	hs := s.n.ActiveChain()
	if len(hs) == 0 || hs[0] != s.t.genesis.Hash() {
		return nil, chainkit.Failf("C12|valid-chain|genesis-missing", "active chain does not start at the genesis block")
	}
	var out []*tblock
	var prev *tblock
	for i, h := range hs[1:] {
		tb := s.t.byHash[h]
		if tb == nil {
			return nil, chainkit.Failf("C12|valid-chain|unknown-block", "active chain holds %s at height %d which is not a block of the scenario", chainkit.Short(h), i+1)
		}
		if tb.parent != prev {
			return nil, chainkit.Failf("C12|valid-chain|not-a-path", "active chain block %s at height %d does not follow its predecessor in the tree", tb.spec.Label, i+1)
		}
		out = append(out, tb)
		prev = tb
	}
	if best := s.n.Tip(); best != hs[len(hs)-1] {
		return nil, chainkit.Failf("C12|valid-chain|best-vs-index", "GetBestChain %s differs from GetBlockHash(height) %s", chainkit.Short(best), chainkit.Short(hs[len(hs)-1]))
	}
	return out, nil
}

func labels(ch []*tblock) string {
	if len(ch) == 0 {
		return "g"
	}
	var l []string
	for _, x := range ch {
		l = append(l, x.spec.Label)
	}
	return strings.Join(l, ">")
}

func (s *system) workOfChain(ch []*tblock) *big.Int {
	if len(ch) == 0 {
		return s.t.gwork
	}
	return ch[len(ch)-1].work
}

func (s *system) Apply(op string) *chainkit.Fail {
	label := strings.TrimPrefix(op, "d:")
	tb := s.t.byLabel[label]
	if tb == nil || s.delivered[tb.idx] {
		evid.Fatalf("C12: bad op %s", op)
	}
	prev, f := s.active()
	if f != nil {
		return f
	}
	disc0 := s.n.Disconnected
	lBefore := s.n.Chain.GetState().GetLastIrreversibleHeight()
	inMain, orphan, err := s.n.ProcessBlock(tb.blk)
	s.delivered[tb.idx] = true
	reorg := s.n.Disconnected > disc0
	post, f := s.active()
	if f != nil {
		return f
	}
	changed := labels(prev) != labels(post)
	// counters
	s.c["deliveries"]++
	if orphan && err == nil {
		s.c["orphans_stored"]++
	}
	if err != nil {
		s.c["deliveries_with_error"]++
	}
	if reorg && err == nil {
		s.c["reorganisations_completed"]++
	}
	if reorg && err != nil {
		s.c["reorganisations_with_error"]++
	}
	if tb.spec.Invalid != "" {
		s.c["invalid_blocks_delivered"]++
	}
	_ = inMain

	// irreversible prefix (guard scenarios): nothing at or below the last irreversible height
	// recorded before the delivery may be replaced
	if s.sc.Guard && lBefore > 0 {
		for k := 0; k < int(lBefore) && k < len(prev); k++ {
			if k >= len(post) || post[k] != prev[k] {
				return chainkit.Failf("C12|irreversible|block-at-or-below-L-detached|algo="+s.n.Chain.GetState().GetConsensusAlgorithm().String(),
					"delivering %s moved the node from %s to %s although the last irreversible height was %d: the block at height %d was replaced", label, labels(prev), labels(post), lBefore, k+1)
			}
		}
	}
	// valid-chain
	for i, x := range post {
		if x.tainted {
			return chainkit.Failf("C12|valid-chain|invalid-block-on-active-chain|kind="+firstInvalid(post).spec.Invalid,
				"after %s the active chain %s holds %s at height %d, which is (or descends from) the context-invalid block %s",
				op, labels(post), x.spec.Label, i+1, firstInvalid(post).spec.Label)
		}
	}
	// chain-change: only to strictly more work
	if changed && s.workOfChain(post).Cmp(s.workOfChain(prev)) <= 0 {
		if reorg && err != nil && s.strandedBelowInvalid(post) {
			return chainkit.Failf("C12|failed-switch|node-left-on-prefix-of-invalid-branch",
				"delivering %s started a reorganisation from %s towards a branch containing the invalid block; ProcessBlock returned %q and the node is now on %s (work %s) instead of its previous valid chain (work %s)",
				label, labels(prev), errStr(err), labels(post), s.workOfChain(post), s.workOfChain(prev))
		}
		return chainkit.Failf("C12|chain-change|to-chain-without-more-work|reorg="+fmt.Sprint(reorg)+"|err="+fmt.Sprint(err != nil),
			"delivering %s moved the active chain from %s (work %s) to %s (work %s)", label, labels(prev), s.workOfChain(prev), labels(post), s.workOfChain(post))
	}
	// most-work among valid fully delivered branches
	for _, x := range s.t.blocks {
		if x.tainted || !s.fullyDelivered(x) {
			continue
		}
		if x.work.Cmp(s.workOfChain(post)) > 0 {
			if s.sc.Guard {
				// the property's exception: switching would detach a block at or below the last
				// irreversible height — widened to what State.IsIrreversible documents (fork point
				// at or below L; under DPOS six or more blocks to detach), so that only a refusal
				// outside the guard's own rules counts
				xc := s.t.chainOf(x)
				r := 0
				for r < len(post) && r < len(xc) && post[r] == xc[r] {
					r++
				}
				l := s.n.Chain.GetState().GetLastIrreversibleHeight()
				if l > 0 && uint32(len(post)) > s.n.Params.CRCOnlyDPOSHeight && (uint32(r) <= l || len(post)-r >= 6) {
					s.c["heavier_branch_exempt_by_irreversibility"]++
					continue
				}
			}
			if reorg && err != nil && s.strandedBelowInvalid(post) {
				// same defect as the failed-switch clause, reached while orphans were processed
				return chainkit.Failf("C12|failed-switch|node-left-on-prefix-of-invalid-branch",
					"delivering %s (orphans processed in the same call) started a reorganisation towards a branch containing the invalid block; ProcessBlock returned %q and the node is left on %s (work %s) although the valid, fully delivered branch ending at %s has work %s",
					label, errStr(err), labels(post), s.workOfChain(post), x.spec.Label, x.work)
			}
			if y := s.stuckOrphan(x); y != nil && err != nil {
				return chainkit.Failf("C12|most-work|valid-orphan-left-unconnected-after-failing-sibling",
					"delivering %s connected the parent of the waiting orphans; ProcessBlock returned %q while accepting one of them and stopped: %s (valid, parent %s connected) is still held as an orphan, so the node stays on %s (work %s) although the valid, fully delivered branch ending at %s has work %s",
					label, errStr(err), y.spec.Label, y.spec.Parent, labels(post), s.workOfChain(post), x.spec.Label, x.work)
			}
			return chainkit.Failf("C12|most-work|heavier-valid-delivered-branch-not-followed|err="+fmt.Sprint(err != nil),
				"after %s (ProcessBlock err=%q) the node is on %s (work %s) although the branch ending at %s is valid, fully delivered and has work %s",
				op, errStr(err), labels(post), s.workOfChain(post), x.spec.Label, x.work)
		}
	}
	// indexes: differential against a fresh node fed only the active chain
	tip := "g"
	if len(post) > 0 {
		tip = post[len(post)-1].spec.Label
	}
	want, ok := s.refs[tip]
	if !ok {
		evid.Fatalf("C12: no reference snapshot for %s", tip)
	}
	if got := snapshot(s.n); got != want {
		cls := "after=connect"
		if reorg {
			cls = "after=reorg"
		}
		if err != nil {
			cls += "+error"
		}
		return chainkit.Failf("C12|indexes|differ-from-fresh-node|"+cls+"|field="+firstDiffField(got, want),
			"after %s the node is on %s but its indexes differ from a fresh node fed only that chain: %s", op, labels(post), firstDiff(got, want))
	}
	if changed {
		s.c["active_chain_changes"]++
	}
	return nil
}

func errStr(err error) string {
	if err == nil {
		return ""
	}
	s := err.Error()
	if len(s) > 120 {
		s = s[:120]
	}
	return strings.TrimSpace(s)
}

func firstInvalid(ch []*tblock) *tblock {
	for _, x := range ch {
		if x.tainted {
			for y := x; y != nil; y = y.parent {
				if y.spec.Invalid != "" && (y.parent == nil || !y.parent.tainted) {
					return y
				}
			}
			return x
		}
	}
	return nil
}

// strandedBelowInvalid: the tip of ch is the parent of a delivered invalid block.
func (s *system) strandedBelowInvalid(ch []*tblock) bool {
	var tip *tblock
	if len(ch) > 0 {
		tip = ch[len(ch)-1]
	}
	for _, x := range s.t.blocks {
		if x.spec.Invalid != "" && x.parent == tip && s.delivered[x.idx] {
			return true
		}
	}
	return false
}

// stuckOrphan returns a block of x's chain that the node still holds in its orphan pool although
// its parent is known to the block index.
func (s *system) stuckOrphan(x *tblock) *tblock {
	var found *tblock
	for y := x; y != nil; y = y.parent {
		h := y.blk.Hash()
		ph := y.blk.Header.Previous
		if s.n.Chain.IsKnownOrphan(&h) && s.n.Chain.BlockExists(&ph) {
			found = y
		}
	}
	return found
}

func (s *system) fullyDelivered(x *tblock) bool {
	for y := x; y != nil; y = y.parent {
		if !s.delivered[y.idx] {
			return false
		}
	}
	return true
}

func firstDiff(got, want string) string {
	g, w := strings.Split(got, "\n"), strings.Split(want, "\n")
	for i := 0; i < len(g) || i < len(w); i++ {
		a, b := "", ""
		if i < len(g) {
			a = g[i]
		}
		if i < len(w) {
			b = w[i]
		}
		if a != b {
			return fmt.Sprintf("node %q vs fresh %q", a, b)
		}
	}
	return ""
}

func firstDiffField(got, want string) string {
	d := firstDiff(got, want)
	d = strings.TrimPrefix(d, "node \"")
	for _, f := range []string{"height", "chain", "tx", "utxo"} {
		if strings.HasPrefix(d, f) {
			return f
		}
	}
	return "other"
}

// Digest: delivered set + chainkit digest (active chain, unspent index, pool) + what the node
// knows of every scenario block (known to the index / orphan). Dropped: block-index status
// flags and the side-chain block cache contents (not observable through the chain queries; if
// they matter they show up as different behaviour from equal digests, which the replay
// self-check would flag as a divergence).
func (s *system) Digest() string {
	h := sha256.New()
	h.Write([]byte(s.n.Digest()))
	for i, tb := range s.t.blocks {
		st := byte('-')
		if s.delivered[i] {
			st = 'd'
			hh := tb.blk.Hash()
			if s.n.Chain.IsKnownOrphan(&hh) {
				st = 'o'
			} else if s.n.Chain.BlockExists(&hh) {
				st = 'k'
			}
		}
		h.Write([]byte{st})
	}
	return hex.EncodeToString(h.Sum(nil)[:16])
}

// ---------------------------------------------------------------------------------------------

func main() {
	if chainkit.Serve(chainkit.BFSHandler(chainkit.Multi(newSystem))) {
		return
	}
	r := evid.Start("C12", "model_checking")
	if r.Replay != "" {
		var a struct {
			Scenario string   `json:"scenario"`
			History  []string `json:"history"`
		}
		r.LoadReplay(&a)
		d1, _, _, f1, at := chainkit.RunHistory(newSystem, a.Scenario, a.History, false)
		d2, _, _, f2, _ := chainkit.RunHistory(newSystem, a.Scenario, a.History, false)
		chainkit.Cleanup()
		if d1 != d2 || (f1 == nil) != (f2 == nil) {
			evid.Fatalf("replay is not deterministic")
		}
		if f1 != nil {
			fmt.Printf("replay: %s %v -> FAIL at op %d %s: %s\n", a.Scenario, a.History, at, f1.Sig, f1.What)
			r.Violate(f1.Sig, f1.What, map[string]interface{}{"scenario": a.Scenario, "history": a.History})
		} else {
			fmt.Printf("replay: %s %v -> ok, digest %s\n", a.Scenario, a.History, d1)
		}
		r.Finish(evid.Coverage{})
	}
	budget := chainkit.Budget(r.Pick(85, 1700))
	deadline := time.Now().Add(budget)
	// reference snapshots (and the construction self-checks) once, in the parent
	scratch := evid.Scratch("c12")
	defer os.RemoveAll(scratch)
	for _, sc := range scenarios(r.Tier) {
		c := sc
		ensureRefs(&c)
	}
	rb, _ := json.Marshal(refSnaps)
	refPath := scratch + "/refs.json"
	if err := os.WriteFile(refPath, rb, 0o644); err != nil {
		evid.Fatalf("C12: %v", err)
	}
	os.Setenv("C12_REFS", refPath)
	pool, err := chainkit.StartPool(par.Workers())
	if err != nil {
		evid.Fatalf("C12: %v", err)
	}
	// all scenarios in one search (first operation s:<scenario>), so their frontiers share the
	// workers level by level and a time cap only cuts the deepest levels of every scenario
	scs := scenarios(r.Tier)
	var scNames []string
	for _, sc := range scs {
		scNames = append(scNames, sc.Name)
	}
	res := chainkit.BFS(pool, chainkit.Multi(newSystem), chainkit.MultiName(scNames), 0, deadline, func(f *chainkit.Fail, h []string) {
		name, hist := chainkit.SplitMulti(h)
		r.Violate(f.Sig, f.What, map[string]interface{}{"scenario": name, "history": hist})
	})
	results := res.PerGroup
	states, transitions, execs := res.States, res.Transitions, res.Execs
	exhaustive := res.Exhaustive
	var caps []string
	if !res.Exhaustive {
		caps = append(caps, res.Cap)
	}
	depth := res.DepthDone - 1
	if depth < 0 {
		depth = 0
	}
	total := res.Counters
	samples := []interface{}{}
	for _, s := range res.Samples {
		samples = append(samples, s)
	}
	pool.Close()
	chainkit.Cleanup()
	os.RemoveAll(scratch)
	if len(samples) == 0 {
		samples = append(samples, []string{})
	}
	if exhaustive && r.NumViolations() == 0 && (total["reorganisations_completed"] == 0 || total["orphans_stored"] == 0 || total["invalid_blocks_delivered"] == 0) {
		evid.Fatalf("C12: vacuous run: %v", total)
	}
	var names []string
	for _, sc := range scenarios(r.Tier) {
		var bl []string
		for _, b := range sc.Blocks {
			x := b.Label + "<-" + b.Parent
			if len(b.Txs) > 0 {
				x += "[" + strings.Join(b.Txs, ",") + "]"
			}
			if b.Invalid != "" {
				x += "!" + b.Invalid
			}
			bl = append(bl, x)
		}
		names = append(names, sc.Name+": "+strings.Join(bl, " "))
	}
	cov := evid.Coverage{
		"states":                        states,
		"transitions":                   transitions,
		"traces_validated_against_impl": execs,
		"max_depth_completed":           depth,
		"exhaustive":                    exhaustive,
		"cap":                           strings.Join(caps, "; "),
		"scenarios":                     results,
		"scenario_trees":                names,
		"non_vacuity":                   total,
		"rule":                          "for every scenario tree (scenario_trees: label<-parent[txs]!invalid-kind): breadth-first search over all delivery orders d:<label> of its blocks (every undelivered block enabled in every state, orphans included) until all are delivered, one fresh chainkit node per transition, global digest memo (delivered set + active chain + unspent index + node-known/orphan status of every block); oracles after every delivery: active chain is a tree path without invalid blocks; no valid fully-delivered branch has strictly more work (work recomputed from Bits); the active chain changes only to strictly more work (a failed switch leaves the previous chain); height/best hash/unspent/tx/per-address UTXO indexes equal a fresh node fed only the active chain; states reached through a failing delivery are not expanded",
		"samples":                       samples,
	}
	r.Assume = append(r.Assume,
		"all scenarios but guard-live* run with pure PoW era parameters, where the irreversibility exception never applies; guard-live* use C30's compressed DPoS regime (unconfirmed blocks through BlockChain.ProcessBlock) and exempt a heavier branch only where State.IsIrreversible's documented rules refuse it (fork point <= L, or >= 6 blocks to detach under DPOS); C30 checks the guard itself",
		"constant difficulty (regnet PowLimitBits 0x207fffff): work differs through block count only",
		"ties are resolved first-seen, as connectBestChain documents; the oracle accepts either tied chain but no change between them")
	r.Finish(cov)
}
