// C03: validating any decoded block/transaction never panics — bounded-exhaustive enumeration of
// script shapes, program/parameter shapes, merged-mining proof shapes and coinbase/block shapes
// against the real classifiers, RunPrograms, AuxPow.Check and BlockChain.CheckBlockSanity.
//
// Oracle: every call returns (accept or reject); a recovered panic is a violation whose
// signature is `C03|panic|<repository function that panicked>|<panic class>`.
//
// Reachability triage is part of the check (a panic only counts if the input can reach the
// function through the node's own call path):
//
//   - contract.IsStandard/IsSchnorr/IsMultiSig/GetCodeType: called on *arbitrary* decoded program
//     code of length >= 23 (CheckAttributeProgram is the only guard before
//     ReturnDepositCoin/RegisterProducer/... SpecialContextCheck and RunPrograms call them). The
//     enumeration therefore only counts inputs with len(code) >= MinProgramCodeSize (23); shorter
//     prefixes are evaluated too but a panic on them is recorded as unreachable, not alarmed.
//   - blockchain.RunPrograms: called by checkTransactionSignature after SanityCheck. What sanity
//     guarantees (DefaultChecker.CheckAttributeProgram): every program has non-nil code of >= 23
//     bytes and a non-nil parameter; Schnorr-shaped code only from NormalSchnorrStartHeight on
//     (mainnet 1 405 000, long passed). Every panicking (code, parameter) is re-submitted, inside a
//     TransferAsset transaction that went through Serialize/Deserialize, to the real
//     BlockChain.CheckTransactionSanity at a current mainnet height; only if sanity accepts it is
//     the panic reported.
//   - AuxPow.Check (and GetExpectedIndex through it): the first statement of CheckBlockSanity, so
//     any block that decodes reaches it. Every proof is serialized and deserialized before it is
//     checked, so only shapes that survive the wire format are evaluated (e.g. a merkle index of
//     -1 is not representable and never evaluated).
//   - CheckBlockSanity: blocks are serialized/deserialized first; shapes that do not decode are
//     skipped and counted.
package main

import (
	"bytes"
	"encoding/binary"
	"encoding/hex"
	"fmt"
	"math/big"
	"os"
	"path/filepath"
	"runtime"
	"runtime/debug"
	"sort"
	"strings"
	"sync"
	"sync/atomic"

	"github.com/elastos/Elastos.ELA/auxpow"
	"github.com/elastos/Elastos.ELA/blockchain"
	"github.com/elastos/Elastos.ELA/common"
	"github.com/elastos/Elastos.ELA/common/config"
	"github.com/elastos/Elastos.ELA/core"
	"github.com/elastos/Elastos.ELA/core/checkpoint"
	"github.com/elastos/Elastos.ELA/core/contract"
	pg "github.com/elastos/Elastos.ELA/core/contract/program"
	"github.com/elastos/Elastos.ELA/core/transaction"
	ctypes "github.com/elastos/Elastos.ELA/core/types/common"
	"github.com/elastos/Elastos.ELA/core/types/functions"
	"github.com/elastos/Elastos.ELA/dpos/state"

	"verif/evid"
	"verif/keys"
	"verif/par"
)

// ---------------------------------------------------------------------------------------------
// panic capture

type outcome struct {
	Panicked bool
	Site     string
	Line     string
	Class    string
	Value    string
}

func classify(e interface{}) string {
	msg := fmt.Sprint(e)
	if re, ok := e.(runtime.Error); ok {
		msg = strings.TrimPrefix(re.Error(), "runtime error: ")
	}
	for _, k := range []string{"index out of range", "slice bounds out of range", "integer divide by zero",
		"invalid memory address or nil pointer dereference", "makeslice", "interface conversion", "makemap", "negative shift amount"} {
		if strings.Contains(msg, k) {
			if k == "invalid memory address or nil pointer dereference" {
				return "nil pointer dereference"
			}
			return k
		}
	}
	// strip digits/hex so that the class does not carry values
	var b strings.Builder
	for _, c := range msg {
		if c >= '0' && c <= '9' {
			continue
		}
		b.WriteRune(c)
		if b.Len() > 60 {
			break
		}
	}
	return strings.TrimSpace(b.String())
}

func guard(f func()) (o outcome) {
	defer func() {
		if e := recover(); e != nil {
			st := debug.Stack()
			o = outcome{Panicked: true, Site: evid.PanicSite(st), Line: panicLine(st), Class: classify(e), Value: fmt.Sprint(e)}
		}
	}()
	f()
	return
}

// sig: property | clause | repository function that panicked | panic class | source text of the
// panicking statement (whitespace-trimmed; no line numbers, so unrelated edits do not move it,
// and two different out-of-range accesses in one function get two signatures).
func sig(o outcome) string { return "C03|panic|" + o.Site + "|" + o.Class + "|" + o.Line }

var (
	srcMu    sync.Mutex
	srcCache = map[string][]string{}
)

// panicLine returns the trimmed source line of the first repository frame below the panic.
func panicLine(stack []byte) string {
	lines := strings.Split(string(stack), "\n")
	seen := false
	for i := 0; i+1 < len(lines); i++ {
		l := lines[i]
		if strings.HasPrefix(l, "panic(") || strings.Contains(l, "runtime.gopanic") || strings.HasPrefix(l, "runtime.panic") || strings.HasPrefix(l, "runtime.goPanic") {
			seen = true
			continue
		}
		if !seen || strings.HasPrefix(l, "\t") || strings.HasPrefix(l, "runtime.") || !strings.Contains(l, "Elastos.ELA/") {
			continue
		}
		loc := strings.TrimSpace(lines[i+1])
		if k := strings.LastIndex(loc, " +0x"); k > 0 {
			loc = loc[:k]
		}
		k := strings.LastIndex(loc, ":")
		if k < 0 {
			return "?"
		}
		file := loc[:k]
		var n int
		fmt.Sscanf(loc[k+1:], "%d", &n)
		srcMu.Lock()
		src, ok := srcCache[file]
		if !ok {
			b, err := os.ReadFile(file)
			if err == nil {
				src = strings.Split(string(b), "\n")
			}
			srcCache[file] = src
		}
		srcMu.Unlock()
		if n < 1 || n > len(src) {
			return "?"
		}
		t := strings.Join(strings.Fields(src[n-1]), " ")
		if len(t) > 90 {
			t = t[:90]
		}
		return t
	}
	return "?"
}

// ---------------------------------------------------------------------------------------------
// seam 1: script classifiers over a grammar and all prefixes

type enc struct {
	name string
	b    []byte
}

func mnEncodings(thorough bool) []enc {
	var out []enc
	xs := []byte{0, 1, 2, 3, 4, 33, 80, 255}
	for _, x := range xs {
		out = append(out, enc{fmt.Sprintf("1,%d", x), []byte{1, x}})
	}
	for _, p := range [][2]byte{{0, 1}, {0, 2}, {0, 3}, {4, 0}, {0, 33}, {0xff, 0xff}, {0x04, 0x01}} {
		out = append(out, enc{fmt.Sprintf("2,%d,%d", p[0], p[1]), []byte{2, p[0], p[1]}})
	}
	for k := 1; k <= 16; k++ {
		out = append(out, enc{fmt.Sprintf("PUSH%d", k), []byte{byte(0x50 + k)}})
	}
	others := []byte{0x00, 0x03, 0x21, 0x50, 0x61, 0xff}
	if thorough {
		others = append(others, 0x04, 0x20, 0x22, 0x4f, 0x7f, 0x80, 0xac, 0xae, 0xaf)
	}
	for _, o := range others {
		out = append(out, enc{fmt.Sprintf("op%02x", o), []byte{o}})
	}
	return out
}

type clsCounters struct {
	evals, reachable, stdTrue, schTrue, msTrue, panicsReach, panicsUnreach int64
}

var classifierFns = []struct {
	name string
	f    func([]byte) bool
}{
	{"IsStandard", contract.IsStandard},
	{"IsSchnorr", contract.IsSchnorr},
	{"IsMultiSig", contract.IsMultiSig},
	{"GetCodeType", func(c []byte) bool { return contract.GetCodeType(c) != contract.Custom }},
}

func evalClassifiers(r *evid.Run, code []byte, ct *clsCounters, classes *evid.Distinct) {
	// an exact-capacity copy: what a decoder hands over
	c := make([]byte, len(code))
	copy(c, code)
	reach := len(c) >= pg.MinProgramCodeSize
	if reach {
		atomic.AddInt64(&ct.reachable, 1)
	}
	for _, fn := range classifierFns {
		atomic.AddInt64(&ct.evals, 1)
		var res bool
		o := guard(func() { res = fn.f(c) })
		if o.Panicked {
			if !reach {
				atomic.AddInt64(&ct.panicsUnreach, 1)
				classes.Add(fn.name + ":panic-unreachable(len<23)")
				continue
			}
			atomic.AddInt64(&ct.panicsReach, 1)
			classes.Add(fn.name + ":panic")
			r.Violate(sig(o), "script classifier panics on decodable program code (len>=23)",
				map[string]interface{}{"kind": "classifier", "fn": fn.name, "code": hex.EncodeToString(c), "panic": o.Value})
			continue
		}
		if res {
			switch fn.name {
			case "IsStandard":
				atomic.AddInt64(&ct.stdTrue, 1)
			case "IsSchnorr":
				atomic.AddInt64(&ct.schTrue, 1)
			case "IsMultiSig":
				atomic.AddInt64(&ct.msTrue, 1)
			}
		}
		classes.Add(fmt.Sprintf("%s:%v", fn.name, res))
	}
}

func runClassifiers(r *evid.Run, ct *clsCounters, classes *evid.Distinct, samples *evid.Samples) (scripts int64) {
	encs := mnEncodings(r.Thorough())
	maxSlots := r.Pick(3, 5)
	finals := [][]byte{{0xAE}, {0xAC}, {0xAF}, {0x00}, {}}
	trails := [][]byte{{}, {0x00}}
	// key slot contents: a real key, and (thorough) a slot whose key bytes start with 33 so that
	// the slot loop can resynchronise inside a key.
	slotKinds := [][]byte{append([]byte{33}, keys.Pub(0)...)}
	if r.Thorough() {
		odd := append([]byte{33, 33}, bytes.Repeat([]byte{33}, 32)...)
		slotKinds = append(slotKinds, odd)
	}
	var nScripts int64
	par.Go(len(encs), func(mi int) {
		me := encs[mi]
		for _, sk := range slotKinds {
			for slots := 0; slots <= maxSlots; slots++ {
				for _, ne := range encs {
					for _, fin := range finals {
						for _, tr := range trails {
							var s []byte
							s = append(s, me.b...)
							for k := 0; k < slots; k++ {
								s = append(s, sk...)
							}
							s = append(s, ne.b...)
							s = append(s, fin...)
							s = append(s, tr...)
							atomic.AddInt64(&nScripts, 1)
							for l := 0; l <= len(s); l++ {
								evalClassifiers(r, s[:l], ct, classes)
							}
						}
					}
				}
			}
		}
	})
	// the documented constructors' outputs must classify (non-vacuity of the "true" side)
	for _, c := range [][]byte{keys.StandardCode(keys.Pub(0)), keys.SchnorrCode(keys.Pub(1)),
		keys.MultiSigCode(2, keys.Pubs(0, 1, 2)...), keys.CrossChainCode(1, keys.Pubs(0, 1)...)} {
		evalClassifiers(r, c, ct, classes)
		for l := 0; l < len(c); l++ {
			evalClassifiers(r, c[:l], ct, classes)
		}
		samples.Add(map[string]interface{}{"classifier_seed": hex.EncodeToString(c)})
	}
	return nScripts
}

// ---------------------------------------------------------------------------------------------
// seam 2: RunPrograms under the sanity precondition

type rpCase struct {
	Prefix byte   `json:"prefix"`
	Code   string `json:"code"`
	Param  string `json:"param"`
	Match  bool   `json:"hash_matches_code"`
	Kind   string `json:"code_kind"`
}

type namedCode struct {
	kind string
	code []byte
}

func rpCodes(thorough bool) []namedCode {
	var out []namedCode
	add := func(k string, c []byte) {
		if len(c) >= pg.MinProgramCodeSize { // sanity precondition
			out = append(out, namedCode{k, c})
		}
	}
	ff := bytes.Repeat([]byte{0xff}, 32)
	zz := make([]byte, 32)
	add("standard", keys.StandardCode(keys.Pub(0)))
	add("standard-x>=P", keys.StandardCode(append([]byte{2}, ff...)))
	add("standard-x=0", keys.StandardCode(append([]byte{3}, zz...)))
	add("standard-flag5", keys.StandardCode(append([]byte{5}, keys.Pub(0)[1:]...)))
	add("standard-flag4", keys.StandardCode(append([]byte{4}, keys.Pub(0)[1:]...)))
	add("schnorr", keys.SchnorrCode(keys.AggregatePub(1, 2)))
	add("schnorr-x>=P", keys.SchnorrCode(append([]byte{2}, ff...)))
	add("schnorr-flag0", keys.SchnorrCode(append([]byte{0}, zz...)))
	add("schnorr-flag4", keys.SchnorrCode(append([]byte{4}, keys.Pub(0)[1:]...)))
	ms23 := keys.MultiSigCode(2, keys.Pubs(3, 4, 5)...)
	add("multisig-1of2", keys.MultiSigCode(1, keys.Pubs(1, 2)...))
	add("multisig-2of3", ms23)
	add("multisig-1of1", keys.MultiSigCode(1, keys.Pubs(1)...))
	add("multisig-0of2", keys.MultiSigCode(0, keys.Pubs(1, 2)...))
	add("multisig-3of2", keys.MultiSigCode(3, keys.Pubs(1, 2)...))
	add("multisig-17of2", keys.MultiSigCode(17, keys.Pubs(1, 2)...))
	add("multisig-badkey", keys.MultiSigCode(1, keys.Pub(1), append([]byte{2}, ff...)))
	add("multisig-flag7key", keys.MultiSigCode(1, append([]byte{7}, keys.Pub(1)[1:]...), keys.Pub(2)))
	m := keys.MultiSigCode(1, keys.Pubs(1, 2)...)
	m[len(m)-2] = 0x53 // declares n=3 over 2 keys
	add("multisig-n-mismatch", m)
	m = keys.MultiSigCode(1, keys.Pubs(1, 2)...)
	m[len(m)-2] = 0x00
	add("multisig-n-op00", m)
	m = keys.MultiSigCode(1, keys.Pubs(1, 2)...)
	m[0] = 0x01
	add("multisig-m-enc1", m)
	cc12 := keys.CrossChainCode(1, keys.Pubs(1, 2)...)
	cc23 := keys.CrossChainCode(2, keys.Pubs(3, 4, 5)...)
	add("crosschain-1of2", cc12)
	add("crosschain-2of3", cc23)
	add("crosschain-0of2", keys.CrossChainCode(0, keys.Pubs(1, 2)...))
	add("crosschain-badkey", keys.CrossChainCode(1, keys.Pub(1), append([]byte{2}, ff...)))
	// every truncation (>=23 bytes) of the multi-key scripts: covers scripts cut inside a key,
	// after the last key, after the n opcode
	for _, base := range []namedCode{{"multisig-2of3", ms23}, {"crosschain-1of2", cc12}} {
		step := 1
		if !thorough {
			step = 1
		}
		for l := pg.MinProgramCodeSize; l < len(base.code); l += step {
			add(fmt.Sprintf("%s[:%d]", base.kind, l), base.code[:l])
		}
	}
	// truncated script followed by the encodings that make IsMultiSig read past the key list
	two := keys.MultiSigCode(1, keys.Pubs(1, 2)...)
	keysOnly := two[:len(two)-2]
	for _, tail := range [][]byte{{1}, {2}, {2, 0}, {0x52}, {1, 2}, {2, 0, 2}} {
		add(fmt.Sprintf("multisig-keys+%x", tail), append(append([]byte{}, keysOnly...), tail...))
	}
	add("zeros23", make([]byte, 23))
	add("ff23", bytes.Repeat([]byte{0xff}, 23))
	add("zeros35", make([]byte, 35))
	g := make([]byte, 71)
	g[70] = 0xAE
	add("zeros71+AE", g)
	g = make([]byte, 71)
	g[70] = 0xAF
	add("zeros71+AF", g)
	g = bytes.Repeat([]byte{33}, 71)
	add("all33x71", g)
	g = bytes.Repeat([]byte{33}, 23)
	add("all33x23", g)
	return out
}

type rpCounters struct {
	evals, accepted, rejected, panics, panicsSanityRejected int64
}

// validParamFor returns a parameter that is valid for some of the code kinds (so that the
// accept branches are exercised); for others it is just plausible bytes.
func validParamFor(nc namedCode, data []byte) []byte {
	switch {
	case nc.kind == "standard":
		return keys.SigParam(keys.Sign(0, data, 0))
	case nc.kind == "schnorr":
		s := keys.SignSchnorrD(keys.AggregateD(1, 2), common.Sha256D(data), 0)
		return s[:]
	case strings.HasSuffix(nc.kind, "1of2") || strings.Contains(nc.kind, "badkey") || strings.Contains(nc.kind, "0of2"):
		return keys.SigParam(keys.Sign(1, data, 0), keys.Sign(2, data, 0))
	case strings.HasSuffix(nc.kind, "2of3"):
		return keys.SigParam(keys.Sign(3, data, 0), keys.Sign(5, data, 0))
	}
	return keys.SigParam(keys.Sign(1, data, 0), keys.Sign(2, data, 0))
}

type panicCand struct {
	o  outcome
	c  rpCase
	nc namedCode
}

func runRunPrograms(r *evid.Run, ct *rpCounters, classes *evid.Distinct, samples *evid.Samples) []panicCand {
	data := []byte("verif C03 signed data ..........................")
	prefixes := []byte{keys.PrefixStandard, keys.PrefixDeposit, keys.PrefixMultiSig, keys.PrefixCrossChain, keys.PrefixDPoSV2, keys.PrefixCRDID, 0x00}
	codes := rpCodes(r.Thorough())
	maxLen := 130
	var mu sync.Mutex
	var cands []panicCand
	par.Go(len(codes), func(ci int) {
		nc := codes[ci]
		valid := validParamFor(nc, data)
		for _, pre := range prefixes {
			for _, match := range []bool{true, false} {
				var ph common.Uint168
				if match {
					ph = common.Uint168(keys.ProgramHash(pre, nc.code))
				} else {
					ph = common.Uint168(keys.ProgramHash(pre, []byte("some other code")))
				}
				for l := 0; l <= maxLen; l++ {
					for content := 0; content < 2; content++ {
						param := make([]byte, l) // exact capacity, non-nil even for l == 0
						if content == 1 {
							copy(param, valid)
						}
						code := make([]byte, len(nc.code))
						copy(code, nc.code)
						prog := &pg.Program{Code: code, Parameter: param}
						atomic.AddInt64(&ct.evals, 1)
						var err error
						o := guard(func() { err = blockchain.RunPrograms(data, []common.Uint168{ph}, []*pg.Program{prog}) })
						if o.Panicked {
							atomic.AddInt64(&ct.panics, 1)
							mu.Lock()
							cands = append(cands, panicCand{o, rpCase{pre, hex.EncodeToString(code), hex.EncodeToString(param), match, nc.kind}, nc})
							mu.Unlock()
							classes.Add("runprograms:panic:" + o.Site)
							continue
						}
						if err == nil {
							atomic.AddInt64(&ct.accepted, 1)
							classes.Add(fmt.Sprintf("runprograms:accept:prefix=%02x", pre))
							if content == 1 && l == len(valid) {
								samples.Add(map[string]interface{}{"runprograms_accept": nc.kind, "prefix": pre, "param_len": l})
							}
						} else {
							atomic.AddInt64(&ct.rejected, 1)
							classes.Add("runprograms:reject:" + shortErr(err))
						}
					}
				}
			}
		}
	})
	sort.Slice(cands, func(i, j int) bool {
		a, b := cands[i], cands[j]
		if sig(a.o) != sig(b.o) {
			return sig(a.o) < sig(b.o)
		}
		if a.c.Prefix != b.c.Prefix {
			return a.c.Prefix < b.c.Prefix
		}
		if a.c.Code != b.c.Code {
			return a.c.Code < b.c.Code
		}
		if len(a.c.Param) != len(b.c.Param) {
			return len(a.c.Param) < len(b.c.Param)
		}
		return a.c.Param < b.c.Param
	})
	return cands
}

func shortErr(err error) string {
	s := err.Error()
	if len(s) > 48 {
		s = s[:48]
	}
	return s
}

// ---------------------------------------------------------------------------------------------
// seam 3: AuxPow.Check over the proof-shape menu

type apCounters struct {
	evals, accepted, rejected, panics, undecodable int64
}

func u256(b byte) common.Uint256 {
	var u common.Uint256
	for i := range u {
		u[i] = b + byte(i)
	}
	return u
}

// expectedIndex is the documented merged-mining slot formula on 64-bit arithmetic (independent
// of the repository's uint32 shift); only used to *build* proofs that get past the last test.
func expectedIndex(nonce uint32, chainID int, h int) uint32 {
	rnd := nonce
	rnd = rnd*1103515245 + 12345
	rnd += uint32(chainID)
	rnd = rnd*1103515245 + 12345
	if h >= 32 {
		return rnd
	}
	return rnd % (uint32(1) << uint(h))
}

type apCase struct {
	Proof string `json:"auxpow"`
	Hash  string `json:"block_hash"`
	Desc  string `json:"desc"`
}

func evalAuxPow(r *evid.Run, ap *auxpow.AuxPow, blockHash common.Uint256, desc string, ct *apCounters, classes *evid.Distinct, samples *evid.Samples) {
	buf := new(bytes.Buffer)
	if err := ap.Serialize(buf); err != nil {
		atomic.AddInt64(&ct.undecodable, 1)
		return
	}
	raw := append([]byte{}, buf.Bytes()...)
	var dec auxpow.AuxPow
	if err := dec.Deserialize(bytes.NewReader(raw)); err != nil {
		atomic.AddInt64(&ct.undecodable, 1)
		return
	}
	atomic.AddInt64(&ct.evals, 1)
	h := blockHash
	var ok bool
	o := guard(func() { ok = dec.Check(&h, auxpow.AuxPowChainID) })
	if o.Panicked {
		atomic.AddInt64(&ct.panics, 1)
		classes.Add("auxpow:panic:" + o.Site + ":" + o.Class)
		r.Violate(sig(o), "AuxPow.Check (first statement of CheckBlockSanity) panics on a decodable proof",
			map[string]interface{}{"kind": "auxpow", "auxpow": hex.EncodeToString(raw), "block_hash": hex.EncodeToString(blockHash[:]), "desc": desc, "panic": o.Value})
		return
	}
	if ok {
		atomic.AddInt64(&ct.accepted, 1)
		classes.Add("auxpow:accept")
		samples.Add(map[string]interface{}{"auxpow_accept": desc})
	} else {
		atomic.AddInt64(&ct.rejected, 1)
		classes.Add("auxpow:reject")
	}
}

func runAuxPow(r *evid.Run, ct *apCounters, classes *evid.Distinct, samples *evid.Samples) {
	blockHash := u256(0x40)
	maxBranch := 40
	sizeModes := []string{"match", "0", "1", "2^31", "match+1"}
	tails := []int{8, 12, 4, 5, 7, 3, 0} // bytes following the root hash (8 = size+nonce)
	nibbleOffsets := []int{0, 2, 1, 7, 16, 95}
	if r.Quick() {
		nibbleOffsets = []int{0, 2, 1, 16}
	}
	parIdx := []uint32{0, 1, 0xffffffff, 5}
	par.Go(maxBranch+1, func(bl int) {
		branch := make([]common.Uint256, bl)
		for i := range branch {
			branch[i] = u256(byte(i*3 + 1))
		}
		for _, nonce := range []uint32{0, 1, 0xffffffff} {
			exp := expectedIndex(nonce, auxpow.AuxPowChainID, bl)
			for _, auxIdx := range uniq32([]uint32{exp, 0, 1, 0xffffffff}) {
				// aux root as the verifier derives it (harness construction only)
				rev := common.BytesReverse(append([]byte{}, blockHash[:]...))
				rh, _ := common.Uint256FromBytes(rev)
				root := auxpow.GetMerkleRoot(*rh, branch, int(auxIdx))
				rootRev := common.BytesReverse(append([]byte{}, root[:]...))
				for _, sm := range sizeModes {
					var size uint32
					switch sm {
					case "match":
						if bl < 32 {
							size = 1 << uint(bl)
						} else {
							size = 0
						}
					case "0":
						size = 0
					case "1":
						size = 1
					case "2^31":
						size = 1 << 31
					case "match+1":
						if bl < 32 {
							size = 1<<uint(bl) + 1
						} else {
							size = 1
						}
					}
					for _, tail := range tails {
						var tb [12]byte
						binary.LittleEndian.PutUint32(tb[0:], size)
						binary.LittleEndian.PutUint32(tb[4:], nonce)
						for _, off := range nibbleOffsets {
							if bl%4 != 0 && bl < 32 && off > 2 {
								continue // long offsets only on a subset of branch lengths
							}
							// script as a hex string: pad nibbles, marker, root, tail
							hs := strings.Repeat("a", off) + "fabe6d6d" + hex.EncodeToString(rootRev) + hex.EncodeToString(tb[:tail])
							if len(hs)%2 == 1 {
								hs += "0"
							}
							script, _ := hex.DecodeString(hs)
							for txins := 0; txins <= 2; txins++ {
								for _, pmode := range []string{"match", "mismatch"} {
									if pmode == "mismatch" && (off != 0 || tail != 8 || sm != "match") {
										continue
									}
									for _, pi := range parIdx {
										if pi != 0 && (off != 0 || tail != 8) {
											continue
										}
										cb := auxpow.BtcTx{Version: 1, TxIn: []*auxpow.BtcTxIn{}, TxOut: []*auxpow.BtcTxOut{}}
										for k := 0; k < txins; k++ {
											s := script
											if k == 1 {
												s = []byte{0xfa, 0xbe, 'm', 'm'}
											}
											cb.TxIn = append(cb.TxIn, &auxpow.BtcTxIn{SignatureScript: append([]byte{}, s...)})
										}
										pm := []common.Uint256{u256(0x77)}
										ap := auxpow.AuxPow{AuxMerkleBranch: branch, AuxMerkleIndex: int(auxIdx), ParCoinbaseTx: cb,
											ParCoinBaseMerkle: pm, ParMerkleIndex: int(pi)}
										if pmode == "match" {
											ap.ParBlockHeader.MerkleRoot = auxpow.GetMerkleRoot(cb.Hash(), pm, int(pi))
										}
										desc := fmt.Sprintf("txins=%d branch=%d size=%s tail=%d nibble_off=%d aux_idx=%d nonce=%d par_idx=%d parent_root=%s",
											txins, bl, sm, tail, off, auxIdx, nonce, pi, pmode)
										evalAuxPow(r, &ap, blockHash, desc, ct, classes, samples)
									}
								}
							}
						}
					}
				}
			}
		}
	})
}

func uniq32(in []uint32) []uint32 {
	seen := map[uint32]bool{}
	var out []uint32
	for _, v := range in {
		if !seen[v] {
			seen[v] = true
			out = append(out, v)
		}
	}
	return out
}

// ---------------------------------------------------------------------------------------------
// seam 4: CheckBlockSanity with coinbase / transaction shapes; also the sanity-gate used to
// triage RunPrograms panics

type fixture struct {
	chain  *blockchain.BlockChain
	params *config.Configuration
	st     *state.State // the chain's DPoS state (consensus algorithm is read from it)
	close  func()
}

func newFixture(scr string) *fixture {
	functions.GetTransactionByTxType = transaction.GetTransaction
	functions.GetTransactionByBytes = transaction.GetTransactionByBytes
	functions.CreateTransaction = transaction.CreateTransaction
	functions.GetTransactionParameters = transaction.GetTransactionparameters
	config.DefaultParams = *config.GetDefaultParams()
	params := config.GetDefaultParams()
	params.GenesisBlock = core.GenesisBlock(*params.FoundationProgramHash)
	// regnet-style proof-of-work limit so that a header can be solved with a handful of nonces;
	// every other parameter (activation heights) stays mainnet.
	params.PowConfiguration.PowLimit = new(big.Int).Sub(new(big.Int).Lsh(big.NewInt(1), 255), big.NewInt(1))
	blockchain.FoundationAddress = *params.FoundationProgramHash
	ckp := checkpoint.NewManager(config.GetDefaultParams())
	store, err := blockchain.NewChainStore(filepath.Join(scr, "chain"), params)
	if err != nil {
		evid.Fatalf("chain store: %v", err)
	}
	st := state.NewState(params, nil, nil, nil, nil, nil, nil, nil, nil, nil, nil, nil)
	chain, err := blockchain.New(store, params, st, nil, ckp)
	if err != nil {
		evid.Fatalf("blockchain.New: %v", err)
	}
	if blockchain.DefaultLedger == nil {
		blockchain.DefaultLedger = &blockchain.Ledger{Blockchain: chain, Store: store}
	}
	return &fixture{chain: chain, params: params, st: st, close: func() { store.Close() }}
}

func elaOutput(v common.Fixed64, ph common.Uint168) *ctypes.Output {
	return &ctypes.Output{AssetID: core.ELAAssetID, Value: v, ProgramHash: ph, Type: ctypes.OTNone, Payload: nil}
}

