package main

import (
	"encoding/hex"
	"fmt"
	"math"

	"github.com/elastos/Elastos.ELA/blockchain"
	"github.com/elastos/Elastos.ELA/common"
	"github.com/elastos/Elastos.ELA/core"
	pg "github.com/elastos/Elastos.ELA/core/contract/program"
	"github.com/elastos/Elastos.ELA/core/transaction"
	"github.com/elastos/Elastos.ELA/core/types"
	ctypes "github.com/elastos/Elastos.ELA/core/types/common"
	"github.com/elastos/Elastos.ELA/core/types/interfaces"
	"github.com/elastos/Elastos.ELA/core/types/outputpayload"
	"github.com/elastos/Elastos.ELA/core/types/payload"
	"github.com/elastos/Elastos.ELA/dpos/state"

	"verif/evid"
	"verif/keys"
)

// seam 6: checkCoinbaseTransactionContext (through the hook BlockChain.VerifCheckCoinbaseContext,
// blockchain/export_verif_c11.go) over coinbase shapes built around the exactly CORRECT coinbase
// of each reward regime.
//
// Call path in the node: CheckBlockContext -> checkTxsContext -> checkCoinbaseTransactionContext,
// i.e. after CheckBlockSanity. What sanity guarantees about the coinbase is decided by the real
// BlockChain.CheckTransactionSanity on the wire-round-tripped coinbase at the same height (at
// least two outputs, foundation ratio, ...): a panic is alarmed only if sanity accepts that
// coinbase; panics on sanity-rejected coinbases (0 or 1 outputs) are counted as unreachable.

type cbCounters struct {
	evals, accepted, rejected, panics, panicsUnreachable, sanityOK int64
}

type cbOut struct {
	v    common.Fixed64
	addr common.Uint168
}

func ceilShare(total common.Fixed64, share float64) common.Fixed64 {
	return common.Fixed64(math.Ceil(float64(total) * share))
}

func runCoinbaseContext(r *evid.Run, f *fixture, ct *cbCounters, classes *evid.Distinct, samples *evid.Samples) {
	arb, ok := blockchain.DefaultLedger.Arbitrators.(*state.Arbiters)
	if !ok || arb == nil {
		evid.Fatalf("coinbase seam: ledger arbitrators not installed")
	}
	p := f.params
	miner := common.Uint168(keys.ProgramHash(keys.PrefixStandard, keys.StandardCode(keys.Pub(8))))
	other := common.Uint168(keys.ProgramHash(keys.PrefixStandard, keys.StandardCode(keys.Pub(7))))
	type regime struct {
		name         string
		height       uint32
		activeHeight uint32 // Arbiters.DPoSV2ActiveHeight
	}
	regimes := []regime{
		{"pre-DPoS", 100, math.MaxUint32},
		{"H2,v2-not-activated", p.PublicDPOSHeight + 10, math.MaxUint32},
		{"H2,v2-activated-at-this-height", 1500000, 1500000 - 1},
		{"DPoSv2-active", 2300000, 1500000},
	}
	fees := []common.Fixed64{0, 1, 10000, 123456789}
	for _, rg := range regimes {
		for _, algo := range []state.ConsesusAlgorithm{state.DPOS, state.POW} {
			arb.DPoSV2ActiveHeight = rg.activeHeight
			arb.ConsensusAlgorithm = algo
			f.st.DPoSV2ActiveHeight = rg.activeHeight
			f.st.ConsensusAlgorithm = algo
			for _, fee := range fees {
				total := fee + p.GetBlockReward(rg.height)
				cr := ceilShare(total, 0.3)
				dpos := ceilShare(total, 0.35)
				// address sets: what the v2 rule expects under each consensus algorithm, and the
				// foundation address of the early regimes
				crAddr, dposAddr := *p.CRConfiguration.CRAssetsProgramHash, *p.DPoSConfiguration.DPoSV2RewardAccumulateProgramHash
				if algo == state.POW {
					crAddr, dposAddr = *p.DestroyELAProgramHash, *p.DestroyELAProgramHash
				}
				bases := map[string][]cbOut{
					// correct DPoS v2 coinbase: CR share, miner share, DPoS share
					"v2-correct": {{cr, crAddr}, {total - cr - dpos, miner}, {dpos, dposAddr}, {1, other}},
					// correct H2 coinbase (no arbiter rewards pending): two outputs summing to total - dpos share
					"h2-correct": {{cr, *p.FoundationProgramHash}, {total - dpos - cr, miner}, {dpos, dposAddr}, {1, other}},
					// correct pre-DPoS coinbase: outputs sum to reward + fees
					"pre-correct": {{cr, *p.FoundationProgramHash}, {total - cr - 1, miner}, {1, other}, {1, other}},
				}
				for _, bn := range []string{"v2-correct", "h2-correct", "pre-correct"} {
					base := bases[bn]
					for mask := 0; mask < 1<<4; mask++ { // every ordered subset: 0..4 outputs
						var outs []cbOut
						for i := 0; i < 4; i++ {
							if mask&(1<<uint(i)) != 0 {
								outs = append(outs, base[i])
							}
						}
						// deviations: none, each present value +-1, address swaps
						type dev struct {
							name string
							f    func([]cbOut)
						}
						devs := []dev{{"exact", func([]cbOut) {}}}
						for i := range outs {
							i := i
							devs = append(devs, dev{fmt.Sprintf("v%d+1", i), func(o []cbOut) { o[i].v++ }},
								dev{fmt.Sprintf("v%d-1", i), func(o []cbOut) { o[i].v-- }})
						}
						if len(outs) >= 2 {
							devs = append(devs, dev{"swap-addr-0-1", func(o []cbOut) { o[0].addr, o[1].addr = o[1].addr, o[0].addr }})
						}
						if len(outs) >= 3 {
							devs = append(devs, dev{"swap-addr-0-2", func(o []cbOut) { o[0].addr, o[2].addr = o[2].addr, o[0].addr }},
								dev{"swap-values-1-2", func(o []cbOut) { o[1].v, o[2].v = o[2].v, o[1].v }})
						}
						for _, d := range devs {
							oo := append([]cbOut{}, outs...)
							d.f(oo)
							desc := fmt.Sprintf("regime=%s consensus=%d fee=%d base=%s subset=%04b dev=%s", rg.name, algo, fee, bn, mask, d.name)
							f.evalCoinbaseCtx(r, rg.height, fee, oo, desc, ct, classes, samples)
						}
					}
				}
			}
		}
	}
	arb.DPoSV2ActiveHeight = math.MaxUint32
	arb.ConsensusAlgorithm = state.DPOS
	f.st.DPoSV2ActiveHeight = math.MaxUint32
	f.st.ConsensusAlgorithm = state.DPOS
}

func (f *fixture) evalCoinbaseCtx(r *evid.Run, height uint32, fee common.Fixed64, outs []cbOut, desc string, ct *cbCounters, classes *evid.Distinct, samples *evid.Samples) {
	var os []*ctypes.Output
	for _, o := range outs {
		os = append(os, &ctypes.Output{AssetID: core.ELAAssetID, Value: o.v, ProgramHash: o.addr, Type: ctypes.OTNone, Payload: &outputpayload.DefaultOutput{}})
	}
	cb := transaction.CreateTransaction(ctypes.TxVersion09, ctypes.CoinBase, 0, &payload.CoinBase{Content: []byte{1, 2, 3, 4}},
		[]*ctypes.Attribute{{Usage: ctypes.Nonce, Data: []byte{1, 2, 3, 4}}}, cbInput("ok"), os, height, []*pg.Program{})
	raw, err := encodeTx(cb)
	if err != nil {
		classes.Add("coinbasectx:unserializable")
		return
	}
	dec, err := decodeTxBytes(raw)
	if err != nil {
		classes.Add("coinbasectx:undecodable")
		return
	}
	feeTx := transferTx("ok")
	feeTx.SetFee(fee)
	blk := &types.Block{Header: ctypes.Header{Height: height}, Transactions: []interfaces.Transaction{dec, feeTx}}
	ct.evals++
	var cerr error
	o := guard(func() { cerr = f.chain.VerifCheckCoinbaseContext(blk, fee) })
	if o.Panicked {
		// reachability: would CheckBlockSanity have let this coinbase through?
		var serr error
		so := guard(func() {
			if e := f.chain.CheckTransactionSanity(height, dec); e != nil {
				serr = e
			}
		})
		if so.Panicked || serr != nil {
			ct.panicsUnreachable++
			classes.Add("coinbasectx:panic-unreachable(coinbase rejected by sanity):" + o.Site)
			return
		}
		ct.panics++
		classes.Add("coinbasectx:panic:" + o.Site)
		r.Violate(sig(o), "checkCoinbaseTransactionContext panics on a coinbase that CheckTransactionSanity accepts",
			map[string]interface{}{"kind": "coinbasectx", "coinbase": hex.EncodeToString(raw), "height": height, "fee": int64(fee), "desc": desc, "panic": o.Value})
		return
	}
	if cerr == nil {
		ct.accepted++
		classes.Add("coinbasectx:accept")
		samples.Add(map[string]interface{}{"coinbasectx_accept": desc})
	} else {
		ct.rejected++
		classes.Add("coinbasectx:reject:" + shortErr(cerr))
	}
}
