package main

import (
	"bytes"
	crand "crypto/rand"
	"encoding/hex"
	"fmt"
	"sort"

	"github.com/elastos/Elastos.ELA/common"
	pg "github.com/elastos/Elastos.ELA/core/contract/program"
	ctypes "github.com/elastos/Elastos.ELA/core/types/common"
	"github.com/elastos/Elastos.ELA/core/types/functions"
	"github.com/elastos/Elastos.ELA/core/types/interfaces"
	"github.com/elastos/Elastos.ELA/core/types/outputpayload"
	"github.com/elastos/Elastos.ELA/core/types/payload"
	"github.com/elastos/Elastos.ELA/crypto"
	"github.com/elastos/Elastos.ELA/mempool"

	"verif/evid"
	"verif/mc"
)

// ---------------------------------------------------------------------------------------------
// menu

type ref struct {
	parent int // 0 = F0, 1 = F1
	idx    uint16
}

type slotKey struct{ slot, key string }

type mtx struct {
	name   string
	kind   string // transfer regprod updprod regcr updcr proposal pwithdraw swithdraw rdeposit
	inputs []ref
	rate   int64 // fee per byte (fee = rate * size)
	rival  bool  // quick tier: may arrive in a block without having been pooled

	owner, node []byte // producers
	ownerSeed   byte   // private key seed of the owner key (payload signature)
	nick        string // producers / CRs
	cid         common.Uint168
	crpub       []byte
	draft       common.Uint256
	did         common.Uint168
	budgets     []common.Fixed64
	phash       common.Uint256
	shashes     []common.Uint256 // side-chain tx hashes / return-deposit hashes

	real interfaces.Transaction
	// blk: the same transaction as a block carries it — another object, decoded from the wire,
	// whose program parameter (signature bytes, not part of the hash) has a different length, so
	// hash and fee are equal but the serialized size is not
	blk interfaces.Transaction
	hash common.Uint256
	size int
	fee  common.Fixed64

	expect    []slotKey // the slot entries this transaction must own while pooled
	resources []string  // unique resources claimed (oracle clause 1)
}

func privOf(seed byte) []byte {
	priv := make([]byte, 32)
	for i := range priv {
		priv[i] = seed + byte(i)
	}
	return priv
}

type constReader byte

func (c constReader) Read(p []byte) (int, error) {
	for i := range p {
		p[i] = byte(c)
	}
	return len(p), nil
}

// signProducerInfo signs the payload with the owner's key as a wallet would; the secure source
// is a constant stream while signing so that transaction hashes are the same in every run.
func signProducerInfo(p *payload.ProducerInfo, ownerSeed byte) {
	saved := crand.Reader
	crand.Reader = constReader(0x5a)
	defer func() { crand.Reader = saved }()
	buf := new(bytes.Buffer)
	if err := p.SerializeUnsigned(buf, payload.ProducerInfoVersion); err != nil {
		evid.Fatalf("producer info: %v", err)
	}
	sig, err := crypto.Sign(privOf(ownerSeed), buf.Bytes())
	if err != nil {
		evid.Fatalf("sign: %v", err)
	}
	p.Signature = sig
}

func pub(seed byte) []byte {
	priv := privOf(seed)
	b, err := crypto.NewPubKey(priv).EncodePoint(true)
	if err != nil {
		evid.Fatalf("pubkey: %v", err)
	}
	return b
}

func h256(b byte) common.Uint256 {
	var h common.Uint256
	for i := range h {
		h[i] = b
	}
	return h
}

func h168(b byte) common.Uint168 {
	var h common.Uint168
	h[0] = 0x67
	for i := 1; i < len(h); i++ {
		h[i] = b
	}
	return h
}

func stdCode(pk []byte) []byte {
	c := append([]byte{byte(len(pk))}, pk...)
	return append(c, 0xac) // CHECKSIG
}

func plainOutputs(n int, val common.Fixed64) []*ctypes.Output {
	var out []*ctypes.Output
	for i := 0; i < n; i++ {
		out = append(out, &ctypes.Output{Value: val, ProgramHash: h168(byte(0x30 + i)), Type: ctypes.OTNone, Payload: &outputpayload.DefaultOutput{}})
	}
	return out
}

// chain state the model starts from: one registered producer and one registered CR.
var (
	k0, n0 = pub(1), pub(2)
	c0     = h168(0xc0)
)

const nick0, crNick0 = "p0", "c0"

func buildMenu(thorough bool) {
	mk := func(t ctypes.TxType, pv byte, p interfaces.Payload, ins []*ctypes.Input, outs []*ctypes.Output, nonce string) interfaces.Transaction {
		attrs := []*ctypes.Attribute{{Usage: ctypes.Nonce, Data: []byte(nonce)}}
		return functions.CreateTransaction(ctypes.TxVersion09, t, pv, p, attrs, ins, outs, 0, []*pg.Program{})
	}
	fund[0] = mk(ctypes.TransferAsset, 0, &payload.TransferAsset{}, nil, plainOutputs(20, 1000000), "F0")
	fund[1] = mk(ctypes.TransferAsset, 0, &payload.TransferAsset{}, nil, plainOutputs(4, 1000000), "F1")

	k1, k2, k3 := pub(11), pub(12), pub(13)
	n1, n3 := pub(21), pub(23)
	kc1 := pub(31)
	defs := []*mtx{
		// outpoint collisions; T3 is a child of the disconnectable funding transaction and ties
		// with T1 on fee rate
		{name: "T1", kind: "transfer", inputs: []ref{{0, 0}}, rate: 30},
		{name: "T2", rival: true, kind: "transfer", inputs: []ref{{0, 0}, {0, 1}}, rate: 40},
		{name: "T3", kind: "transfer", inputs: []ref{{1, 0}}, rate: 30},
		// producer owner key / node key / nickname
		{name: "RP1", kind: "regprod", inputs: []ref{{0, 2}}, rate: 25, ownerSeed: 11, owner: k1, node: n1, nick: "alice"},
		{name: "RP2", rival: true, kind: "regprod", inputs: []ref{{0, 3}}, rate: 26, ownerSeed: 12, owner: k2, node: n1, nick: "bob"},
		// two updates of the producer that is registered on chain
		{name: "UP1", kind: "updprod", inputs: []ref{{0, 5}}, rate: 20, ownerSeed: 1, owner: k0, node: n0, nick: "p0-a"},
		{name: "UP2", rival: true, kind: "updprod", inputs: []ref{{0, 6}}, rate: 20, ownerSeed: 1, owner: k0, node: n0, nick: "p0-b"},
		// CR CID
		{name: "UC1", rival: true, kind: "updcr", inputs: []ref{{0, 8}}, rate: 22, cid: c0, nick: "c0-a"},
		{name: "UC2", kind: "updcr", inputs: []ref{{1, 1}}, rate: 23, cid: c0, nick: "c0-b"},
		// proposal draft hash (+ budgets)
		{name: "PR1", kind: "proposal", inputs: []ref{{0, 9}}, rate: 50, draft: h256(0xd1), did: h168(0x51), budgets: []common.Fixed64{10, 20}},
		{name: "PR2", rival: true, kind: "proposal", inputs: []ref{{0, 10}}, rate: 15, draft: h256(0xd1), did: h168(0x52), budgets: []common.Fixed64{5}},
		// side-chain transaction hashes
		{name: "WS1", kind: "swithdraw", inputs: []ref{{0, 13}}, rate: 35, shashes: []common.Uint256{h256(0xa1), h256(0xa2)}},
		{name: "WS2", rival: true, kind: "swithdraw", inputs: []ref{{0, 14}}, rate: 36, shashes: []common.Uint256{h256(0xa2), h256(0xa3)}},
	}
	if thorough {
		defs = append(defs,
			&mtx{name: "RP3", rival: true, kind: "regprod", inputs: []ref{{0, 4}}, rate: 27, ownerSeed: 11, owner: k1, node: n3, nick: "bob"},
			&mtx{name: "UP3", kind: "updprod", inputs: []ref{{0, 17}}, rate: 21, ownerSeed: 1, owner: k0, node: n0, nick: "p0-c"},
			&mtx{name: "RC1", kind: "regcr", inputs: []ref{{0, 7}}, rate: 28, crpub: kc1, cid: h168(0xc1), nick: "c0-a"},
			&mtx{name: "RC2", rival: true, kind: "regcr", inputs: []ref{{0, 16}}, rate: 29, crpub: k3, cid: h168(0xc1), nick: "dave"},
			&mtx{name: "PW1", kind: "pwithdraw", inputs: []ref{{0, 11}}, rate: 31, phash: h256(0xe1)},
			&mtx{name: "PW2", rival: true, kind: "pwithdraw", inputs: []ref{{0, 12}}, rate: 32, phash: h256(0xe1)},
			&mtx{name: "RD1", kind: "rdeposit", inputs: []ref{{0, 15}}, rate: 33, shashes: []common.Uint256{h256(0xb1)}},
			&mtx{name: "RD2", rival: true, kind: "rdeposit", inputs: []ref{{1, 2}}, rate: 34, shashes: []common.Uint256{h256(0xb1), h256(0xb2)}},
		)
	}
	for _, m := range defs {
		var ins []*ctypes.Input
		for _, r := range m.inputs {
			ins = append(ins, &ctypes.Input{Previous: ctypes.OutPoint{TxID: fund[r.parent].Hash(), Index: r.idx}, Sequence: 0})
			op := ctypes.OutPoint{TxID: fund[r.parent].Hash(), Index: r.idx}
			m.expect = append(m.expect, slotKey{"TxInputsReferKeys", hex.EncodeToString(op.Bytes())})
			m.resources = append(m.resources, fmt.Sprintf("outpoint:F%d:%d", r.parent, r.idx))
		}
		outs := plainOutputs(1, 900000)
		switch m.kind {
		case "transfer":
			m.real = mk(ctypes.TransferAsset, 0, &payload.TransferAsset{}, ins, outs, m.name)
		case "regprod", "updprod":
			t := ctypes.RegisterProducer
			if m.kind == "updprod" {
				t = ctypes.UpdateProducer
			}
			info := &payload.ProducerInfo{OwnerKey: m.owner, NodePublicKey: m.node, NickName: m.nick, Url: "http://example.org", Location: 1, NetAddress: "127.0.0.1:20338"}
			signProducerInfo(info, m.ownerSeed)
			m.real = mk(t, 0, info, ins, outs, m.name)
			o, n := hex.EncodeToString(m.owner), hex.EncodeToString(m.node)
			m.expect = append(m.expect, slotKey{"DPoSOwnerPublicKey", o}, slotKey{"DPoSNodePublicKey", n}, slotKey{"DPoSOwnerNodePublicKeys", o}, slotKey{"DPoSNickname", m.nick})
			if o != n {
				m.expect = append(m.expect, slotKey{"DPoSOwnerNodePublicKeys", n})
			}
			m.resources = append(m.resources, "producer-owner-key:"+o, "producer-node-key:"+n, "producer-nickname:"+m.nick)
		case "regcr":
			code := stdCode(m.crpub)
			m.real = mk(ctypes.RegisterCR, 0, &payload.CRInfo{Code: code, CID: m.cid, DID: h168(m.cid[1] ^ 0xff), NickName: m.nick, Url: "http://example.org", Location: 1}, ins, outs, m.name)
			p := hex.EncodeToString(m.crpub)
			m.expect = append(m.expect, slotKey{"DPoSOwnerPublicKey", p}, slotKey{"DPoSNodePublicKey", p}, slotKey{"CrDID", hex.EncodeToString(m.cid.Bytes())}, slotKey{"CrNickname", m.nick})
			m.resources = append(m.resources, "cr-cid:"+hex.EncodeToString(m.cid.Bytes()), "cr-nickname:"+m.nick, "cr-public-key:"+p)
		case "updcr":
			m.real = mk(ctypes.UpdateCR, 0, &payload.CRInfo{Code: stdCode(pub(41)), CID: m.cid, DID: h168(m.cid[1] ^ 0xff), NickName: m.nick, Url: "http://example.org", Location: 1}, ins, outs, m.name)
			m.expect = append(m.expect, slotKey{"CrDID", hex.EncodeToString(m.cid.Bytes())}, slotKey{"CrNickname", m.nick})
			m.resources = append(m.resources, "cr-cid:"+hex.EncodeToString(m.cid.Bytes()), "cr-nickname:"+m.nick)
		case "proposal":
			var bs []payload.Budget
			for i, b := range m.budgets {
				bs = append(bs, payload.Budget{Type: payload.NormalPayment, Stage: byte(i + 1), Amount: b})
			}
			bs[0].Type = payload.Imprest
			bs[0].Stage = 0
			m.real = mk(ctypes.CRCProposal, payload.CRCProposalVersion, &payload.CRCProposal{ProposalType: payload.Normal, CategoryData: "c34", OwnerKey: pub(42), DraftHash: m.draft, Budgets: bs, Recipient: h168(0x77), CRCouncilMemberDID: m.did}, ins, outs, m.name)
			m.expect = append(m.expect, slotKey{"CRCProposalDraftHash", hex.EncodeToString(m.draft.Bytes())}, slotKey{"CRCProposalDID", hex.EncodeToString(m.did.Bytes())})
			m.resources = append(m.resources, "proposal-draft-hash:"+hex.EncodeToString(m.draft.Bytes()))
		case "pwithdraw":
			m.real = mk(ctypes.CRCProposalWithdraw, 0, &payload.CRCProposalWithdraw{ProposalHash: m.phash, OwnerKey: pub(42)}, ins, outs, m.name)
			m.expect = append(m.expect, slotKey{"CRCProposalHash", hex.EncodeToString(m.phash.Bytes())})
			m.resources = append(m.resources, "withdrawn-proposal-hash:"+hex.EncodeToString(m.phash.Bytes()))
		case "swithdraw":
			m.real = mk(ctypes.WithdrawFromSideChain, payload.WithdrawFromSideChainVersion, &payload.WithdrawFromSideChain{BlockHeight: 100, GenesisBlockAddress: "eb7adb1fea0dd6185b09a43bdcd4924bb22bff7151f0b1b4e08699840ab1384b", SideChainTransactionHashes: m.shashes}, ins, outs, m.name)
			for _, h := range m.shashes {
				m.expect = append(m.expect, slotKey{"SidechainTxHashes", hex.EncodeToString(h.Bytes())})
				m.resources = append(m.resources, "sidechain-tx-hash:"+hex.EncodeToString(h.Bytes()))
			}
		case "rdeposit":
			outs = nil
			for i, h := range m.shashes {
				outs = append(outs, &ctypes.Output{Value: 1000, ProgramHash: h168(byte(0x60 + i)), Type: ctypes.OTReturnSideChainDepositCoin,
					Payload: &outputpayload.ReturnSideChainDeposit{Version: 0, GenesisBlockAddress: "XKUh4GLhFJiqAMTF6HyWQrV9pK9HcGUdfJ", DepositTransactionHash: h}})
				m.expect = append(m.expect, slotKey{"SidechainReturnDepositTxHashes", hex.EncodeToString(h.Bytes())})
				m.resources = append(m.resources, "return-deposit-hash:"+hex.EncodeToString(h.Bytes()))
			}
			m.real = mk(ctypes.ReturnSideChainDepositCoin, 0, &payload.ReturnSideChainDepositCoin{}, ins, outs, m.name)
		default:
			evid.Fatalf("menu kind %s", m.kind)
		}
		m.hash = m.real.Hash()
		m.size = m.real.GetSize()
		m.fee = common.Fixed64(m.rate * int64(m.size))
		m.real.SetFee(m.fee) // what the real ContextCheck would record (inputs - outputs)
		o := m.real
		m.blk = functions.CreateTransaction(o.Version(), o.TxType(), o.PayloadVersion(), o.Payload(), o.Attributes(), o.Inputs(), o.Outputs(), o.LockTime(),
			[]*pg.Program{{Code: stdCode(pub(50)), Parameter: bytes.Repeat([]byte{0x40}, 65)}})
		m.blk.SetFee(m.fee)
		if m.blk.Hash() != m.hash || m.blk.GetSize() == m.size {
			evid.Fatalf("menu %s: block copy must have the same hash and a different size", m.name)
		}
	}
	menu = defs
}

// ---------------------------------------------------------------------------------------------
// chain model (the environment the wrapper's ContextCheck answers from)

type chainModel struct {
	confirmed []int // menu transactions in connection order
	f1        bool  // funding transaction F1 connected
}

type prodRec struct {
	node []byte
	nick string
}

// canon is the part of the model state that can influence any later answer: the set of
// confirmed transactions and, for the entities that can be updated repeatedly, the last update.
func (c *chainModel) canon() string {
	set := make([]string, 0, len(c.confirmed))
	lastUP, lastUC := "", ""
	for _, j := range c.confirmed {
		set = append(set, menu[j].name)
		switch menu[j].kind {
		case "updprod":
			lastUP = menu[j].name
		case "updcr":
			lastUC = menu[j].name
		}
	}
	sort.Strings(set)
	return fmt.Sprint(set, lastUP, lastUC)
}

func (c *chainModel) f1HasConfirmedChild() bool {
	for _, j := range c.confirmed {
		for _, r := range menu[j].inputs {
			if r.parent == 1 {
				return true
			}
		}
	}
	return false
}

// valid answers whether menu transaction i passes the context check against the chain formed by
// the initial state plus the confirmed transactions.
func (c *chainModel) valid(i int) error {
	m := menu[i]
	spent := map[ref]bool{}
	prods := map[string]*prodRec{hex.EncodeToString(k0): {node: n0, nick: nick0}}
	crs := map[common.Uint168]string{c0: crNick0}
	crPubs := map[string]bool{}
	used := map[string]bool{}
	for _, j := range c.confirmed {
		t := menu[j]
		for _, r := range t.inputs {
			spent[r] = true
		}
		switch t.kind {
		case "regprod", "updprod":
			prods[hex.EncodeToString(t.owner)] = &prodRec{node: t.node, nick: t.nick}
		case "regcr", "updcr":
			crs[t.cid] = t.nick
			if t.kind == "regcr" {
				crPubs[hex.EncodeToString(t.crpub)] = true
			}
		case "proposal":
			used["draft:"+t.draft.String()] = true
		case "pwithdraw":
			used["pw:"+t.phash.String()] = true
		case "swithdraw":
			for _, h := range t.shashes {
				used["sc:"+h.String()] = true
			}
		case "rdeposit":
			for _, h := range t.shashes {
				used["rd:"+h.String()] = true
			}
		}
	}
	for _, r := range m.inputs {
		if r.parent == 1 && !c.f1 {
			return fmt.Errorf("referenced transaction F1 is not on the chain")
		}
		if spent[r] {
			return fmt.Errorf("input F%d:%d already spent on chain", r.parent, r.idx)
		}
	}
	nodeTaken := func(node []byte, except string) bool {
		for o, p := range prods {
			if o != except && (hex.EncodeToString(p.node) == hex.EncodeToString(node) || o == hex.EncodeToString(node)) {
				return true
			}
		}
		return crPubs[hex.EncodeToString(node)]
	}
	nickTaken := func(n, except string) bool {
		for o, p := range prods {
			if o != except && p.nick == n {
				return true
			}
		}
		return false
	}
	switch m.kind {
	case "regprod":
		o := hex.EncodeToString(m.owner)
		if prods[o] != nil || crPubs[o] || nodeTaken(m.owner, "") {
			return fmt.Errorf("producer already registered")
		}
		if nodeTaken(m.node, "") {
			return fmt.Errorf("node key already used")
		}
		if nickTaken(m.nick, "") {
			return fmt.Errorf("nickname already used")
		}
	case "updprod":
		// UpdateProducerTransaction.SpecialContextCheck: the producer must exist; a changed
		// nickname / node key must not be taken; updating again is allowed.
		o := hex.EncodeToString(m.owner)
		p := prods[o]
		if p == nil {
			return fmt.Errorf("updating unknown producer")
		}
		if p.nick != m.nick && nickTaken(m.nick, o) {
			return fmt.Errorf("nickname already used")
		}
		if hex.EncodeToString(p.node) != hex.EncodeToString(m.node) && nodeTaken(m.node, o) {
			return fmt.Errorf("node key already used")
		}
	case "regcr":
		if _, ok := crs[m.cid]; ok {
			return fmt.Errorf("cid already registered")
		}
		for _, n := range crs {
			if n == m.nick {
				return fmt.Errorf("nickname already used")
			}
		}
		p := hex.EncodeToString(m.crpub)
		if crPubs[p] || prods[p] != nil || nodeTaken(m.crpub, "") {
			return fmt.Errorf("public key already used")
		}
	case "updcr":
		// UpdateCRTransaction.SpecialContextCheck: the candidate must exist; a changed nickname
		// must not be taken.
		cur, ok := crs[m.cid]
		if !ok {
			return fmt.Errorf("updating unknown CR")
		}
		if cur != m.nick {
			for cid, n := range crs {
				if cid != m.cid && n == m.nick {
					return fmt.Errorf("nickname already used")
				}
			}
		}
	case "proposal":
		if used["draft:"+m.draft.String()] {
			return fmt.Errorf("duplicated draft hash")
		}
	case "pwithdraw":
		if used["pw:"+m.phash.String()] {
			return fmt.Errorf("proposal already withdrawn")
		}
	case "swithdraw":
		for _, h := range m.shashes {
			if used["sc:"+h.String()] {
				return fmt.Errorf("duplicated side-chain transaction")
			}
		}
	case "rdeposit":
		for _, h := range m.shashes {
			if used["rd:"+h.String()] {
				return fmt.Errorf("duplicated return-deposit transaction")
			}
		}
	}
	return nil
}

// ---------------------------------------------------------------------------------------------
// oracle

type viol struct {
	prio int
	sig  string
	what string
}

// check evaluates the invariants on a snapshot of the pool's internals; the highest-priority
// (then alphabetically first) violated clause is reported.
func (in *inst) check(after string) *mc.Fail {
	s := in.pool.VerifSnapshot()
	var vs []viol
	add := func(prio int, sig, format string, a ...interface{}) {
		vs = append(vs, viol{prio, sig, fmt.Sprintf(format, a...)})
	}
	byHash := map[common.Uint256]*mtx{}
	for _, m := range menu {
		byHash[m.hash] = m
	}
	var pooled []*mtx
	for _, h := range s.TxnList {
		m := byHash[h]
		if m == nil {
			add(0, "C34|unknown-pooled-tx", "pool holds a transaction that was never submitted")
			continue
		}
		pooled = append(pooled, m)
	}
	sort.Slice(pooled, func(i, j int) bool { return pooled[i].name < pooled[j].name })

	// 1. no two pooled transactions share an outpoint or a unique key
	owner := map[string]*mtx{}
	for _, m := range pooled {
		for _, res := range m.resources {
			if o := owner[res]; o != nil {
				class := res[:indexByte(res, ':')]
				add(1, "C34|shared-resource|"+class+"|"+o.kind+"+"+m.kind, "two pooled transactions (%s and %s) claim the same %s", o.kind, m.kind, class)
			} else {
				owner[res] = m
			}
		}
	}

	// 2/3. slot entries == keys of the pooled transactions, each mapping to its transaction
	type ent struct{ slot, key string }
	have := map[ent]common.Uint256{}
	for _, e := range s.Slots {
		have[ent{e.Slot, e.Key}] = e.Tx
	}
	want := map[ent]*mtx{}
	for _, m := range pooled {
		for _, k := range m.expect {
			want[ent{k.slot, k.key}] = m
			tx, ok := have[ent{k.slot, k.key}]
			if !ok {
				add(2, "C34|index-missing|slot="+k.slot+"|tx="+m.kind, "a pooled %s transaction has no entry for its key in conflict slot %s", m.kind, k.slot)
			} else if tx != m.hash && owner[resourceOf(m, k)] == m {
				add(2, "C34|index-wrong-tx|slot="+k.slot+"|tx="+m.kind, "a key of a pooled %s transaction in conflict slot %s maps to a different transaction", m.kind, k.slot)
			}
		}
	}
	for _, e := range s.Slots {
		if _, ok := want[ent{e.Slot, e.Key}]; !ok {
			kind := "unknown"
			if m := byHash[e.Tx]; m != nil {
				kind = m.kind
			}
			if _, pooledTx := indexOf(s.TxnList, e.Tx); pooledTx {
				add(3, "C34|index-extra|slot="+e.Slot+"|tx="+kind, "conflict slot %s holds a key for a pooled %s transaction that does not have that key", e.Slot, kind)
			} else {
				add(3, "C34|index-dangling|slot="+e.Slot+"|tx="+kind, "conflict slot %s holds a key of a %s transaction that is not in the pool", e.Slot, kind)
			}
		}
	}

	// 4. fee list: sorted by fee rate, exactly the pooled hashes, right sizes/rates, total = sum
	seen := map[common.Uint256]bool{}
	var sum uint64
	for i, it := range s.Fees {
		if i > 0 && s.Fees[i-1].FeeRate < it.FeeRate {
			add(4, "C34|fees-unsorted", "fee list is not sorted by descending fee rate")
		}
		if seen[it.Hash] {
			add(4, "C34|fees-duplicate", "fee list holds a transaction twice")
		}
		seen[it.Hash] = true
		sum += uint64(it.Size)
		m := byHash[it.Hash]
		if _, ok := indexOf(s.TxnList, it.Hash); !ok {
			add(4, "C34|fees-not-pooled", "fee list holds a transaction that is not in the pool")
		} else if m != nil {
			if int(it.Size) != m.size {
				add(4, "C34|fees-item-size", "fee list records a size that is not the transaction's size")
			}
			if it.FeeRate != float64(m.fee)/float64(m.size) {
				add(4, "C34|fees-item-rate", "fee list records a fee rate that is not fee/size of the transaction")
			}
		}
	}
	for _, m := range pooled {
		if !seen[m.hash] {
			add(4, "C34|fees-missing|tx="+m.kind, "a pooled %s transaction is not in the fee list", m.kind)
		}
	}
	var poolBytes uint64
	for _, m := range pooled {
		poolBytes += uint64(m.size)
	}
	if s.FeesTotalSize != poolBytes {
		add(5, "C34|total-size", "fee list total size differs from the sum of the pooled transaction sizes")
	}
	if s.FeesTotalSize != sum {
		add(5, "C34|total-size-vs-items", "fee list total size differs from the sum of its items")
	}

	// 5. pending proposal budget total
	var budget common.Fixed64
	for _, m := range pooled {
		for _, b := range m.budgets {
			budget += b
		}
	}
	if s.ProposalsUsedAmount != budget {
		add(6, "C34|proposal-amount", "proposalsUsedAmount differs from the sum of the budgets of the pooled proposals")
	}

	// 6. size within the limit
	if poolBytes > s.FeesMaxSize || s.FeesTotalSize > s.FeesMaxSize {
		add(7, "C34|over-limit", "pool size exceeds the byte limit")
	}

	if len(vs) == 0 {
		return nil
	}
	sort.Slice(vs, func(i, j int) bool {
		if vs[i].prio != vs[j].prio {
			return vs[i].prio < vs[j].prio
		}
		return vs[i].sig < vs[j].sig
	})
	return &mc.Fail{Signature: vs[0].sig + "|after=" + after, What: vs[0].what}
}

func resourceOf(m *mtx, k slotKey) string {
	// the resource string that corresponds to an expected slot key (same position-independent
	// suffix); falls back to the first resource
	for _, r := range m.resources {
		if len(r) >= len(k.key) && r[len(r)-len(k.key):] == k.key {
			return r
		}
	}
	return m.resources[0]
}

func indexByte(s string, b byte) int {
	for i := 0; i < len(s); i++ {
		if s[i] == b {
			return i
		}
	}
	return len(s)
}

func indexOf(l []common.Uint256, h common.Uint256) (int, bool) {
	for i, x := range l {
		if x == h {
			return i, true
		}
	}
	return -1, false
}

func short(s string) string {
	if len(s) > 16 {
		return s[:16] + "…"
	}
	return s
}

var _ = mempool.NewTxPool
