// Package storekit is the "store tier" driver: a real blockchain.NewChainStore on a scratch
// directory, driven through ChainStore.SaveBlock / RollbackBlock (→ ChainStoreFFLDB.SaveBlock /
// RollbackBlock with the real per-transaction save/rollback processors and the real index
// manager), fed synthetic blocks that need neither signatures nor proof of work.
//
// What is real: NewChainStore, blockchain.New (genesis chain state), BlockChain.Init (index
// creation + catch-up), the save/rollback path, every query. What is synthetic: the blocks
// (header fields are deterministic functions of parent, height and content; AuxPow is the zero
// value) and the BlockNode bookkeeping, which storekit keeps itself the way
// BlockChain.connectBlock/disconnectBlock do (node.Parent, CalcPastMedianTime).
//
// The store itself holds no process-global state (the index manager, TxCache and block cache are
// per instance), so several stores may live in one process; the transaction factory hooks of
// core/types/functions and config.DefaultParams are installed once by Setup().
package storekit

import (
	"bytes"
	"encoding/binary"
	"encoding/hex"
	"fmt"
	"os"
	"path/filepath"
	"sort"
	"strings"
	"sync"

	"github.com/elastos/Elastos.ELA/blockchain"
	"github.com/elastos/Elastos.ELA/blockchain/indexers"
	"github.com/elastos/Elastos.ELA/common"
	"github.com/elastos/Elastos.ELA/common/config"
	"github.com/elastos/Elastos.ELA/core"
	"github.com/elastos/Elastos.ELA/core/checkpoint"
	"github.com/elastos/Elastos.ELA/core/transaction"
	"github.com/elastos/Elastos.ELA/core/types"
	common2 "github.com/elastos/Elastos.ELA/core/types/common"
	"github.com/elastos/Elastos.ELA/core/types/functions"
	"github.com/elastos/Elastos.ELA/core/types/interfaces"
	"github.com/elastos/Elastos.ELA/core/types/payload"
	"github.com/elastos/Elastos.ELA/crypto"
	"github.com/elastos/Elastos.ELA/database"

	"verif/hx"
)

var once sync.Once

// Setup installs the transaction factory hooks and a quiet logger (idempotent).
func Setup(logDir string) {
	once.Do(func() {
		functions.GetTransactionByTxType = transaction.GetTransaction
		functions.GetTransactionByBytes = transaction.GetTransactionByBytes
		functions.CreateTransaction = transaction.CreateTransaction
		functions.GetTransactionParameters = transaction.GetTransactionparameters
		config.DefaultParams = *config.GetDefaultParams()
		hx.QuietLogs(logDir)
	})
}

// Params returns fresh main-net default parameters with the genesis block filled in.
func Params() *config.Configuration {
	p := config.GetDefaultParams()
	p.Sterilize()
	p.GenesisBlock = core.GenesisBlock(*p.FoundationProgramHash)
	return p
}

// Store is one chain store plus the harness-side record of the active chain.
type Store struct {
	Dir    string
	Params *config.Configuration
	CS     blockchain.IChainStore
	FFL    *blockchain.ChainStoreFFLDB

	// active chain, index = height (0 = genesis)
	Blocks []*types.Block
	Nodes  []*blockchain.BlockNode
}

// Create builds a fresh store in dir (which must not exist or be empty): NewChainStore,
// blockchain.New (creates the chain state with the genesis block) and BlockChain.Init (creates
// the indexes and indexes the genesis block) — the node's own start-up sequence.
func Create(dir string, params *config.Configuration) (*Store, error) {
	if params == nil {
		params = Params()
	}
	cs, err := blockchain.NewChainStore(dir, params)
	if err != nil {
		return nil, err
	}
	chain, err := blockchain.New(cs, params, nil, nil, checkpoint.NewManager(params))
	if err != nil {
		return nil, err
	}
	if err := chain.Init(nil); err != nil {
		return nil, err
	}
	ffl, ok := cs.GetFFLDB().(*blockchain.ChainStoreFFLDB)
	if !ok {
		return nil, fmt.Errorf("unexpected ffldb store type %T", cs.GetFFLDB())
	}
	s := &Store{Dir: dir, Params: params, CS: cs, FFL: ffl}
	g := params.GenesisBlock
	h := g.Hash()
	s.Blocks = []*types.Block{g}
	s.Nodes = []*blockchain.BlockNode{blockchain.NewBlockNode(&g.Header, &h)}
	return s, nil
}

// Close closes both databases of the store (ffldb and the small leveldb side store).
func (s *Store) Close() {
	if s.CS != nil {
		s.CS.Close()
		s.CS.CloseLeveldb()
		s.CS = nil
	}
}

// Destroy closes the store and removes its directory.
func (s *Store) Destroy() {
	s.Close()
	os.RemoveAll(s.Dir)
}

// dbChain answers the index manager's start-up questions (indexers.IChain) from the persisted
// height index and the stored blocks, i.e. from the database itself, not from harness memory.
type dbChain struct{ ffl *blockchain.ChainStoreFFLDB }

var heightIdx = []byte("heightidx")

func (c dbChain) hashAt(height uint32) (*common.Uint256, bool) {
	var out *common.Uint256
	c.ffl.View(func(tx database.Tx) error {
		b := tx.Metadata().Bucket(heightIdx)
		if b == nil {
			return nil
		}
		var k [4]byte
		binary.LittleEndian.PutUint32(k[:], height)
		if v := b.Get(k[:]); len(v) == 32 {
			var h common.Uint256
			copy(h[:], v)
			out = &h
		}
		return nil
	})
	return out, out != nil
}

func (c dbChain) MainChainHasBlock(height uint32, hash *common.Uint256) bool {
	h, ok := c.hashAt(height)
	return ok && h.IsEqual(*hash)
}

func (c dbChain) GetBlockByHeight(height uint32) (*types.Block, error) {
	h, ok := c.hashAt(height)
	if !ok {
		return nil, fmt.Errorf("no block at height %d", height)
	}
	b, err := c.ffl.GetBlock(*h)
	if err != nil {
		return nil, err
	}
	return b.Block, nil
}

func (c dbChain) GetHeight() uint32 {
	var n uint32
	for {
		if _, ok := c.hashAt(n + 1); !ok {
			return n
		}
		n++
	}
}

// Reopen closes the store and opens it again from disk: every in-memory cache (TxCache, block
// cache, TxIndex.curBlockID, ffldb's dbcache) starts cold. The index manager is initialised the
// way BlockChain.Init does it, with the chain questions answered from the database.
func (s *Store) Reopen() error {
	s.Close()
	cs, err := blockchain.NewChainStore(s.Dir, s.Params)
	if err != nil {
		return err
	}
	ffl, ok := cs.GetFFLDB().(*blockchain.ChainStoreFFLDB)
	if !ok {
		return fmt.Errorf("unexpected ffldb store type %T", cs.GetFFLDB())
	}
	dc := dbChain{ffl}
	if err := ffl.InitIndex(dc, nil); err != nil {
		cs.Close()
		cs.CloseLeveldb()
		return err
	}
	cs.SetHeight(dc.GetHeight())
	s.CS, s.FFL = cs, ffl
	return nil
}

// Tip returns the active tip block.
func (s *Store) Tip() *types.Block { return s.Blocks[len(s.Blocks)-1] }

// Height of the active chain.
func (s *Store) Height() uint32 { return uint32(len(s.Blocks) - 1) }

// NewBlock builds a block on the current tip holding a coinbase (unique per parent and content)
// followed by txs. Header fields are deterministic: timestamp = genesis + 120·height, bits =
// 0x207fffff, nonce 0, merkle root computed by the repository's crypto.ComputeRoot.
func (s *Store) NewBlock(txs ...interfaces.Transaction) *types.Block {
	tip := s.Tip()
	height := tip.Height + 1
	prev := tip.Hash()
	// the coinbase commits to parent and content so that equal coinbases never appear in two
	// different blocks (the transaction index keeps one location per hash)
	tag := new(bytes.Buffer)
	tag.Write(prev[:])
	for _, t := range txs {
		h := t.Hash()
		tag.Write(h[:])
	}
	th := common.Hash(tag.Bytes())
	cb := Coinbase(height, th[:8], Out(MinerAddr, 100))
	all := append([]interfaces.Transaction{cb}, txs...)
	return s.RawBlock(all)
}

// RawBlock builds a block on the current tip from exactly the given transactions.
func (s *Store) RawBlock(all []interfaces.Transaction) *types.Block {
	tip := s.Tip()
	height := tip.Height + 1
	hashes := make([]common.Uint256, 0, len(all))
	for _, t := range all {
		hashes = append(hashes, t.Hash())
	}
	root, err := crypto.ComputeRoot(hashes)
	if err != nil {
		panic(err)
	}
	return &types.Block{
		Header: common2.Header{
			Version:    0,
			Previous:   tip.Hash(),
			MerkleRoot: root,
			Timestamp:  s.Blocks[0].Timestamp + 120*height,
			Bits:       0x207fffff,
			Nonce:      0,
			Height:     height,
		},
		Transactions: all,
	}
}

// Connect appends b (built on the current tip) through ChainStore.SaveBlock, mirroring
// BlockChain.connectBlock: node.Parent = tip node, median time of the tip.
func (s *Store) Connect(b *types.Block, confirm *payload.Confirm) error {
	tipNode := s.Nodes[len(s.Nodes)-1]
	h := b.Hash()
	if !b.Previous.IsEqual(*tipNode.Hash) {
		return fmt.Errorf("storekit: block does not extend the tip")
	}
	node := blockchain.NewBlockNode(&b.Header, &h)
	node.Parent = tipNode
	node.InMainChain = true
	if err := s.CS.SaveBlock(b, node, confirm, blockchain.CalcPastMedianTime(tipNode)); err != nil {
		return err
	}
	s.Blocks = append(s.Blocks, b)
	s.Nodes = append(s.Nodes, node)
	return nil
}

// DisconnectTip removes the tip through ChainStore.RollbackBlock, mirroring
// BlockChain.disconnectBlock.
func (s *Store) DisconnectTip(confirm *payload.Confirm) (*types.Block, error) {
	if len(s.Blocks) < 2 {
		return nil, fmt.Errorf("storekit: nothing to disconnect")
	}
	b := s.Blocks[len(s.Blocks)-1]
	node := s.Nodes[len(s.Nodes)-1]
	if err := s.CS.RollbackBlock(b, node, confirm, blockchain.CalcPastMedianTime(node.Parent)); err != nil {
		return nil, err
	}
	s.Blocks = s.Blocks[:len(s.Blocks)-1]
	s.Nodes = s.Nodes[:len(s.Nodes)-1]
	return b, nil
}

// ---------------------------------------------------------------------------------------------
// metadata dump

// Row is one key/value of the metadata database; Path is the chain of bucket names from the
// root ("" = metadata root), each rendered printable.
type Row struct {
	Path  string
	Key   string // hex
	Value string // hex
}

func (r Row) String() string { return r.Path + " " + r.Key + "=" + r.Value }

func name(b []byte) string {
	for _, c := range b {
		if c < 0x21 || c > 0x7e || c == '/' {
			return "0x" + hex.EncodeToString(b)
		}
	}
	return string(b)
}

// Dump walks every bucket of the ffldb metadata recursively with cursors inside one View and
// returns all rows in cursor (byte) order, depth first. Empty nested buckets are reported as a
// row with Key "<bucket>" so that their existence is visible to the caller.
func (s *Store) Dump() ([]Row, error) {
	var rows []Row
	err := s.FFL.View(func(tx database.Tx) error {
		var walk func(b database.Bucket, path string) error
		walk = func(b database.Bucket, path string) error {
			type sub struct{ k []byte }
			var subs []sub
			c := b.Cursor()
			n := 0
			for ok := c.First(); ok; ok = c.Next() {
				n++
				k := append([]byte{}, c.Key()...)
				v := c.Value()
				// a nested bucket shows up with a nil value; only then is the (costlier)
				// bucket lookup needed to tell it from a key with an empty value
				if len(v) == 0 {
					if nb := b.Bucket(k); nb != nil {
						subs = append(subs, sub{k})
						continue
					}
				}
				rows = append(rows, Row{Path: path, Key: hex.EncodeToString(k), Value: hex.EncodeToString(v)})
			}
			if n == 0 {
				rows = append(rows, Row{Path: path, Key: "<bucket>"})
			}
			for _, sb := range subs {
				if err := walk(b.Bucket(sb.k), path+"/"+name(sb.k)); err != nil {
					return err
				}
			}
			return nil
		}
		return walk(tx.Metadata(), "")
	})
	return rows, err
}

// Canon is a canonical, comparable rendering of a dump: one line per retained row, sorted.
type Canon []string

// CanonRules says what Canonical drops or normalises; every rule carries its justification in
// Rules() so that checks can print it into their evidence.
type CanonRules struct {
	// KeepStoredBlocks keeps the ffldb block-location bucket and write cursor (normally dropped:
	// SaveBlock stores the block data and RollbackBlock keeps it by design, see
	// IFFLDBChainStore.IsBlockInStore "rollback will not remove from file DB").
	KeepStoredBlocks bool
}

// Rules lists the normalisations applied by Canonical with their justification.
func Rules() []string {
	return []string{
		"bucket /ffldb-blockidx and key ffldb-writeloc dropped: block data stays stored after RollbackBlock by design (IsBlockInStore)",
		"chainstate: only best hash and height kept; totalTxns is always 0 and the workSum field is written but never read back (RollbackBlock stores the removed node's work sum, as upstream btcd does)",
		"a nested bucket without rows equals an absent bucket (Tx3/draft/per-address buckets are created lazily by TryCreateBucket/CreateBucketIfNotExists and no query can tell an empty bucket from a missing one)",
		"utxobyhashidx/<addr>/<height> rows: the UTXO list is compared as a multiset (swap-and-pop removal, append on restore) and a row holding an empty list equals an absent row (DBFetchUtxoIndexEntry skips them)",
		"unspentbyhashidx rows: the output index list is compared as a multiset (swap-and-pop removal, append on restore)",
		"the ffldb bucket-id sequence (bidx-cbid) is internal and not reachable through the Bucket API, so it never appears",
	}
}

// Canonical applies the documented normalisations to a raw dump.
func Canonical(rows []Row, rules CanonRules) Canon {
	var out []string
	for _, r := range rows {
		if r.Key == "<bucket>" {
			continue
		}
		if !rules.KeepStoredBlocks {
			if strings.HasPrefix(r.Path, "/ffldb-blockidx") {
				continue
			}
			if r.Path == "" && r.Key == hex.EncodeToString([]byte("ffldb-writeloc")) {
				continue
			}
		}
		v := r.Value
		switch {
		case r.Path == "" && r.Key == hex.EncodeToString([]byte("chainstate")):
			if len(v) >= 72 {
				v = v[:72]
			}
		case strings.HasPrefix(r.Path, "/utxobyhashidx/"):
			raw, _ := hex.DecodeString(v)
			items, ok := splitUTXOs(raw)
			if !ok {
				v = "undecodable:" + v
				break
			}
			if len(items) == 0 {
				continue
			}
			sort.Strings(items)
			v = strings.Join(items, ",")
		case r.Path == "/unspentbyhashidx":
			raw, _ := hex.DecodeString(v)
			if len(raw)%2 != 0 {
				v = "undecodable:" + v
				break
			}
			var idx []int
			for i := 0; i+1 < len(raw); i += 2 {
				idx = append(idx, int(raw[i])+256*int(raw[i+1]))
			}
			sort.Ints(idx)
			v = fmt.Sprint(idx)
		}
		out = append(out, r.Path+" "+r.Key+"="+v)
	}
	sort.Strings(out)
	return out
}

// splitUTXOs decodes <varuint count>{<txid 32><index 2><value 8>} into printable items.
func splitUTXOs(raw []byte) ([]string, bool) {
	r := bytes.NewReader(raw)
	n, err := common.ReadVarUint(r, 0)
	if err != nil {
		return nil, false
	}
	var items []string
	for i := uint64(0); i < n; i++ {
		var u common2.UTXO
		if err := u.Deserialize(r); err != nil {
			return nil, false
		}
		items = append(items, fmt.Sprintf("%s:%d:%d", hex.EncodeToString(u.TxID[:]), u.Index, int64(u.Value)))
	}
	if r.Len() != 0 {
		return nil, false
	}
	return items, true
}

// Diff returns the lines only in a (prefixed "-") and only in b (prefixed "+").
func Diff(a, b Canon) []string {
	in := map[string]int{}
	for _, l := range a {
		in[l]++
	}
	var out []string
	for _, l := range b {
		if in[l] > 0 {
			in[l]--
		} else {
			out = append(out, "+"+l)
		}
	}
	inb := map[string]int{}
	for _, l := range b {
		inb[l]++
	}
	for _, l := range a {
		if inb[l] > 0 {
			inb[l]--
		} else {
			out = append(out, "-"+l)
		}
	}
	sort.Strings(out)
	return out
}

// Bucket returns the top-level bucket name of a diff/canon line ("" for root keys).
func Bucket(line string) string {
	l := strings.TrimLeft(line, "+-")
	p, _, _ := strings.Cut(l, " ")
	p = strings.TrimPrefix(p, "/")
	b, _, _ := strings.Cut(p, "/")
	if b == "" {
		return "root"
	}
	return b
}

// ---------------------------------------------------------------------------------------------
// fresh directories

// Fresh returns a new scratch path (not yet created) inside base.
func Fresh(base, tag string, n int) string {
	return filepath.Join(base, fmt.Sprintf("%s-%d", tag, n))
}

// UTXOs renders an address list (GetUTXO answer) as sorted printable items.
func UTXOs(us []*common2.UTXO) []string {
	out := make([]string, 0, len(us))
	for _, u := range us {
		out = append(out, fmt.Sprintf("%s:%d:%d", hex.EncodeToString(u.TxID[:4]), u.Index, int64(u.Value)))
	}
	sort.Strings(out)
	return out
}

var _ indexers.IChain = dbChain{}
