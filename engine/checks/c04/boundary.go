package main

// Boundary-length family: the var-int encoding changes width at 0xfd, 0x10000 and 2^32. Every
// var-bytes / var-string / list-count class the encoders use is driven to lengths on both sides
// of the first two boundaries inside real values, and the primitives themselves are round-tripped
// over all boundaries ±2.

import (
	"bytes"
	"fmt"
	"reflect"
	"sort"
	"strings"
	"sync"
	"sync/atomic"

	"github.com/elastos/Elastos.ELA/common"
	pg "github.com/elastos/Elastos.ELA/core/contract/program"
	"github.com/elastos/Elastos.ELA/core/types"
	common2 "github.com/elastos/Elastos.ELA/core/types/common"
	"github.com/elastos/Elastos.ELA/core/types/interfaces"

	"verif/par"
	"verif/wire"
)

var boundaryLens = []int{0xfc, 0xfd, 0xfe, 0xffff - 1, 0xffff, 0x10000}

// ---------------------------------------------------------------------------------------------
// primitives

func (c *ctx) checkPrimitives() {
	r := c.r
	var vals []uint64
	seen := map[uint64]bool{}
	add := func(v uint64) {
		if !seen[v] {
			seen[v] = true
			vals = append(vals, v)
		}
	}
	for _, b := range []uint64{0, 0xfd, 0x100, 0xffff, 0x10000, 1<<32 - 1, 1 << 32, 1<<63 - 1, 1 << 63, 1<<64 - 1} {
		for d := uint64(0); d <= 2; d++ {
			add(b + d) // wraps around at the top, which is fine: still a value
			add(b - d)
		}
	}
	for _, v := range vals {
		atomic.AddInt64(&c.evals, 1)
		atomic.AddInt64(&c.boundary, 1)
		buf := new(bytes.Buffer)
		art := map[string]interface{}{"kind": "primitive", "case": fmt.Sprintf("varuint/%#x", v)}
		if err := common.WriteVarUint(buf, v); err != nil {
			r.Violate("C04|primitive|WriteVarUint|error", fmt.Sprintf("WriteVarUint(%#x) fails: %v", v, err), art)
			continue
		}
		b := append([]byte{}, buf.Bytes()...)
		art["bytes"] = hexs(b)
		if len(b) != common.VarUintSerializeSize(v) {
			r.Violate("C04|primitive|VarUintSerializeSize", fmt.Sprintf("WriteVarUint(%#x) writes %d bytes, VarUintSerializeSize says %d", v, len(b), common.VarUintSerializeSize(v)), art)
		}
		rd := bytes.NewReader(b)
		got, err := common.ReadVarUint(rd, 0)
		if err != nil || got != v || rd.Len() != 0 {
			r.Violate("C04|primitive|varuint-roundtrip", fmt.Sprintf("ReadVarUint(WriteVarUint(%#x)) = %#x, err %v, %d bytes left", v, got, err, rd.Len()), art)
			continue
		}
		c.mark(fmt.Sprintf("prim|varuint|%d", len(b)))
	}
	for _, l := range append([]int{0, 1, 0xfb, 0xff, 0x100, 0x10001, 0x10002}, boundaryLens...) {
		data := make([]byte, l)
		for i := range data {
			data[i] = byte(i*7 + 1)
		}
		atomic.AddInt64(&c.evals, 2)
		atomic.AddInt64(&c.boundary, 2)
		art := map[string]interface{}{"kind": "primitive", "case": fmt.Sprintf("varbytes/%#x", l)}
		buf := new(bytes.Buffer)
		if err := common.WriteVarBytes(buf, data); err != nil {
			r.Violate("C04|primitive|WriteVarBytes|error", err.Error(), art)
			continue
		}
		rd := bytes.NewReader(buf.Bytes())
		got, err := common.ReadVarBytes(rd, common.MaxVarStringLength, "boundary")
		if err != nil || !bytes.Equal(got, data) || rd.Len() != 0 {
			r.Violate("C04|primitive|varbytes-roundtrip", fmt.Sprintf("ReadVarBytes(WriteVarBytes(%d bytes)) fails: err %v, %d bytes left", l, err, rd.Len()), art)
		}
		buf = new(bytes.Buffer)
		if err := common.WriteVarString(buf, string(data)); err != nil {
			r.Violate("C04|primitive|WriteVarString|error", err.Error(), art)
			continue
		}
		rd = bytes.NewReader(buf.Bytes())
		gs, err := common.ReadVarString(rd)
		if err != nil || gs != string(data) || rd.Len() != 0 {
			r.Violate("C04|primitive|varstring-roundtrip", fmt.Sprintf("ReadVarString(WriteVarString(%d bytes)) fails: err %v, %d bytes left", l, err, rd.Len()), art)
		}
		c.mark(fmt.Sprintf("prim|varbytes|%d", l))
	}
}

// ---------------------------------------------------------------------------------------------
// length-carrying leaves of a value

type leaf struct {
	path string
	get  func(root reflect.Value) reflect.Value
}

// lenLeaves lists the exported string, []byte and slice fields reachable from v (through structs,
// pointers, interfaces and the first element of slices).
func lenLeaves(v reflect.Value, path string, get func(reflect.Value) reflect.Value, out *[]leaf, depth int) {
	if depth > 8 {
		return
	}
	switch v.Kind() {
	case reflect.Ptr, reflect.Interface:
		if v.IsNil() {
			return
		}
		lenLeaves(v.Elem(), path, func(r reflect.Value) reflect.Value { return get(r).Elem() }, out, depth+1)
	case reflect.Struct:
		if v.Type() == reflect.TypeOf(common.Uint256{}) {
			return
		}
		t := v.Type()
		for i := 0; i < t.NumField(); i++ {
			if t.Field(i).PkgPath != "" {
				continue
			}
			i := i
			lenLeaves(v.Field(i), path+"."+t.Field(i).Name, func(r reflect.Value) reflect.Value { return get(r).Field(i) }, out, depth+1)
		}
	case reflect.String:
		*out = append(*out, leaf{path, get})
	case reflect.Slice:
		if !v.CanSet() {
			return
		}
		*out = append(*out, leaf{path, get})
		if v.Type().Elem().Kind() != reflect.Uint8 && v.Len() > 0 {
			lenLeaves(v.Index(0), path+"[0]", func(r reflect.Value) reflect.Value { return get(r).Index(0) }, out, depth+1)
		}
	}
}

// setLen gives the leaf length n: strings and byte strings are filled, other slices repeat their
// first element (or zero values when empty).
func setLen(v reflect.Value, n int) bool {
	if !v.CanSet() {
		return false
	}
	switch v.Kind() {
	case reflect.String:
		v.SetString(strings.Repeat("a", n))
	case reflect.Slice:
		s := reflect.MakeSlice(v.Type(), n, n)
		if v.Type().Elem().Kind() == reflect.Uint8 {
			for i := 0; i < n; i++ {
				s.Index(i).SetUint(uint64(byte(i*3 + 1)))
			}
		} else if v.Len() > 0 {
			for i := 0; i < n; i++ {
				s.Index(i).Set(v.Index(0))
			}
		}
		v.Set(s)
	default:
		return false
	}
	return true
}

// control returns a length in the same var-int width class as n that is not a boundary: when the
// codec refuses n and the control alike, a declared per-field limit is at work (not a finding);
// when only the boundary length fails, the encoding of the boundary is broken.
func control(n int) int {
	switch {
	case n < 0xfd:
		return 0xf0
	case n <= 0xfe:
		return 0x100
	case n <= 0xffff:
		return 0xfff0
	}
	return 0x10010
}

type bcase struct {
	name   string
	build  func() interface{} // fresh value (pointer)
	encode func(v interface{}) ([]byte, error)
	decode func(b []byte) (interface{}, int, error) // value, bytes left, error
	equal  func(a, b interface{}) (bool, string)
	lens   []int
	class  string // signature component
	setup  func() // process-global switch the codec depends on (DPoS message payload version)
}

// deepCopy clones a value: structs are copied whole (unexported fields shallow), exported
// pointers, slices and interfaces recursively.
func deepCopy(v reflect.Value) reflect.Value {
	switch v.Kind() {
	case reflect.Ptr:
		if v.IsNil() {
			return v
		}
		n := reflect.New(v.Type().Elem())
		n.Elem().Set(deepCopy(v.Elem()))
		return n
	case reflect.Interface:
		if v.IsNil() {
			return v
		}
		n := reflect.New(v.Type()).Elem()
		n.Set(deepCopy(v.Elem()))
		return n
	case reflect.Struct:
		n := reflect.New(v.Type()).Elem()
		n.Set(v)
		for i := 0; i < v.NumField(); i++ {
			if v.Type().Field(i).PkgPath != "" {
				continue
			}
			switch v.Field(i).Kind() {
			case reflect.Ptr, reflect.Slice, reflect.Interface, reflect.Struct:
				n.Field(i).Set(deepCopy(v.Field(i)))
			}
		}
		return n
	case reflect.Slice:
		if v.IsNil() {
			return v
		}
		n := reflect.MakeSlice(v.Type(), v.Len(), v.Len())
		switch v.Type().Elem().Kind() {
		case reflect.Ptr, reflect.Slice, reflect.Interface, reflect.Struct:
			for i := 0; i < v.Len(); i++ {
				n.Index(i).Set(deepCopy(v.Index(i)))
			}
		default:
			reflect.Copy(n, v)
		}
		return n
	}
	return v
}

var (
	baseMu     sync.Mutex
	baseStatus = map[string]string{}
	// currentCase names the value being encoded/decoded right now (for the resource watchdog)
	currentCase atomic.Value
)

// baselineOK: the unmodified value of the case must itself be a fixed point (encode → decode
// consumes everything and re-encodes to the same bytes). If it is not, that is reported once as
// C04|roundtrip-differs|base|<class> and every mutation family skips the case: mutating a value
// whose decoder already returns something else only multiplies the same defect — and a decoder
// that grows the value on every round trip makes the long-list variants explode.
func (c *ctx) baselineOK(bc bcase) bool {
	baseMu.Lock()
	st, done := baseStatus[bc.name]
	baseMu.Unlock()
	if done {
		return st == "ok"
	}
	currentCase.Store(bc.name + " (unmodified)")
	detail := ""
	st = func() (status string) {
		defer func() {
			if e := recover(); e != nil {
				status, detail = "panic", fmt.Sprint(e)
			}
		}()
		if bc.setup != nil {
			bc.setup()
		}
		v := bc.build()
		if bc.setup != nil {
			bc.setup() // building the message specs leaves the global at its last value
		}
		b, err := bc.encode(v)
		if err != nil {
			detail = err.Error()
			return "encode-error"
		}
		got, left, err := bc.decode(b)
		if err != nil {
			detail = err.Error()
			return "decode-error"
		}
		if left != 0 {
			detail = fmt.Sprintf("%d bytes left", left)
			return "leftover"
		}
		b2, err := bc.encode(got)
		if err != nil || !bytes.Equal(b, b2) {
			detail = fmt.Sprintf("%d bytes encoded, %d bytes after decode and re-encode", len(b), len(b2))
			return "reencode-diff"
		}
		return "ok"
	}()
	baseMu.Lock()
	_, again := baseStatus[bc.name]
	baseStatus[bc.name] = st
	baseMu.Unlock()
	if st != "ok" && !again {
		c.r.Violate("C04|roundtrip-differs|base|"+bc.class, fmt.Sprintf("the populated %s value does not round-trip (%s: %s); its mutation families are skipped", bc.name, st, detail),
			map[string]interface{}{"kind": "boundary", "case": bc.name})
	}
	return st == "ok"
}

// cached replaces the builder by clones of one prototype (builders are deterministic and some
// are expensive).
func cached(bc bcase) bcase {
	orig := bc.build
	proto := reflect.ValueOf(orig())
	bc.build = func() interface{} {
		if bc.setup != nil {
			bc.setup()
		}
		return deepCopy(proto).Interface()
	}
	return bc
}

// safeGet follows a leaf path; a path through an element the value does not have yields the zero
// Value.
func safeGet(lf leaf, root reflect.Value) (v reflect.Value) {
	defer func() {
		if recover() != nil {
			v = reflect.Value{}
		}
	}()
	return lf.get(root)
}

// attempt encodes and decodes one value with leaf lf at length n.
// status: "ok", "refused-encode", "decode-error", "leftover", "reencode-diff", "not-carried", "diff"
func attempt(bc bcase, lf leaf, n int) (status, detail string) {
	currentCase.Store(fmt.Sprintf("%s%s len=%d", bc.name, lf.path, n))
	v := bc.build()
	target := safeGet(lf, reflect.ValueOf(v))
	if !target.IsValid() || !setLen(target, n) {
		return "not-carried", ""
	}
	var b []byte
	var err error
	func() {
		defer func() {
			if e := recover(); e != nil {
				err = fmt.Errorf("panic: %v", e)
			}
		}()
		b, err = bc.encode(v)
	}()
	if err != nil {
		return "refused-encode", err.Error()
	}
	var got interface{}
	var left int
	func() {
		defer func() {
			if e := recover(); e != nil {
				err = fmt.Errorf("panic: %v", e)
			}
		}()
		got, left, err = bc.decode(b)
	}()
	if err != nil {
		return "decode-error", err.Error()
	}
	if left != 0 {
		return "leftover", fmt.Sprintf("%d bytes left", left)
	}
	b2, err := bc.encode(got)
	if err != nil || !bytes.Equal(b, b2) {
		return "reencode-diff", ""
	}
	gl := safeGet(lf, reflect.ValueOf(got))
	if !gl.IsValid() || gl.Len() != n {
		return "not-carried", "" // the variant does not carry this field: nothing exercised
	}
	if ok, d := wire.Equal(target.Interface(), gl.Interface()); !ok {
		return "diff", d
	}
	return "ok", ""
}

func (c *ctx) runBoundary(bc bcase) {
	for _, f := range c.boundaryJobs(bc) {
		f()
	}
}

// boundaryJobs returns one unit of work per length-carrying leaf of the case (so that a case
// with many or large leaves spreads over the workers).
func (c *ctx) boundaryJobs(bc bcase) (jobs []func()) {
	if !c.baselineOK(bc) {
		return nil
	}
	bc = cached(bc)
	r := c.r
	root := reflect.ValueOf(bc.build())
	var leaves []leaf
	lenLeaves(root, "", func(r reflect.Value) reflect.Value { return r }, &leaves, 0)
	for _, lf := range leaves {
		lf := lf
		jobs = append(jobs, func() {
			ctlStatus := map[int]string{}
			for _, n := range bc.lens {
				atomic.AddInt64(&c.evals, 1)
				name := fmt.Sprintf("%s%s/len=%#x", bc.name, lf.path, n)
				art := map[string]interface{}{"kind": "boundary", "case": name}
				st, detail := attempt(bc, lf, n)
				switch st {
				case "ok":
					atomic.AddInt64(&c.boundary, 1)
					c.mark(fmt.Sprintf("boundary|%s|%s|%d", bc.class, fieldClass(lf.path), lenClass(n)))
					continue
				case "not-carried":
					atomic.AddInt64(&c.boundaryNotCarried, 1)
					continue
				}
				if st == "leftover" || st == "reencode-diff" || st == "diff" {
					// the codec accepted the value and returned something else: never a declared
					// limit. Report and leave the larger lengths of this leaf alone (a decoder
					// that grows the value makes them explode).
					r.Violate("C04|boundary-length|"+st+"|"+bc.class+"|"+fieldClass(lf.path),
						fmt.Sprintf("a length/count of %#x at %s is accepted but does not come back equal (%s %s)", n, lf.path, st, detail), art)
					return
				}
				// refused: is a declared limit at work? ask the control length of the same width class
				ctl := control(n)
				cs, ok := ctlStatus[ctl]
				if !ok {
					atomic.AddInt64(&c.evals, 1)
					cs, _ = attempt(bc, lf, ctl)
					ctlStatus[ctl] = cs
				}
				if cs != "ok" {
					atomic.AddInt64(&c.boundaryRefused, 1)
					continue
				}
				r.Violate("C04|boundary-length|"+st+"|"+bc.class+"|"+fieldClass(lf.path),
					fmt.Sprintf("a length/count of %#x at %s does not survive encode/decode (%s %s) although %#x does", n, lf.path, st, detail, ctl), art)
			}
		})
	}
	return jobs
}

func lenClass(n int) int {
	switch {
	case n < 0xfd:
		return 1
	case n <= 0xffff:
		return 3
	}
	return 5
}

// txBox lets the leaf walker reach the parts of a transaction (whose fields are unexported)
// through a struct of its accessors; apply() writes them back.
type txParts struct {
	Payload    interfaces.Payload
	Attributes []*common2.Attribute
	Inputs     []*common2.Input
	Outputs    []*common2.Output
	Programs   []*pg.Program
	LockTime   uint32
}

func (c *ctx) boundaryCases() (out []bcase, seq []bcase) {
	mk := func() *wire.Filler { return &wire.Filler{N: 2, Bool: true} }
	short := []int{0xfc, 0xfd, 0xfe}
	// transactions: payload leaves of every type × variant, and the transaction's own lists
	for _, t := range wire.TxTypes() {
		t := t
		for vi, pvar := range wire.PayloadVariants(t, mk) {
			vi, label, pv := vi, pvar.Label, pvar.Version
			if !supportedVersion(t, pv) {
				continue
			}
			build := func() interface{} {
				p := wire.PayloadVariants(t, mk)[vi].Payload
				tx := wire.NewTx(t, pv, p, wire.TxShape{Version: common2.TxVersion09, Attrs: []common2.AttributeUsage{common2.Memo}, Inputs: 1,
					Outputs: []common2.OutputType{common2.OTNone}, Programs: 1}, mk())
				return &txParts{Payload: tx.Payload(), Attributes: tx.Attributes(), Inputs: tx.Inputs(), Outputs: tx.Outputs(), Programs: tx.Programs()}
			}
			// the three-byte/five-byte lengths once per transaction type (first variant); the other
			// variants of the same payload struct get the one-byte/three-byte boundary only
			lens := boundaryLens
			if vi > 0 {
				lens = short
			}
			bc := bcase{name: fmt.Sprintf("tx/%s/%s", t.Name(), label), class: "tx/" + t.Name(), lens: lens}
			bc.build = func() interface{} {
				parts := build().(*txParts)
				parts.Attributes, parts.Inputs, parts.Outputs, parts.Programs = nil, nil, nil, nil // payload only here
				return parts
			}
			mkTx := func(v interface{}) interfaces.Transaction {
				parts := v.(*txParts)
				full := build().(*txParts)
				tx := wire.NewTx(t, pv, parts.Payload, wire.TxShape{Version: common2.TxVersion09}, mk())
				if parts.Attributes != nil || parts.Inputs != nil || parts.Outputs != nil || parts.Programs != nil {
					tx.SetAttributes(parts.Attributes)
					tx.SetInputs(parts.Inputs)
					tx.SetOutputs(parts.Outputs)
					tx.SetPrograms(parts.Programs)
				} else {
					tx.SetAttributes(full.Attributes)
					tx.SetInputs(full.Inputs)
					tx.SetOutputs(full.Outputs)
					tx.SetPrograms(full.Programs)
				}
				return tx
			}
			bc.encode = func(v interface{}) ([]byte, error) { return wire.EncodeTx(mkTx(v)) }
			bc.decode = func(b []byte) (interface{}, int, error) {
				tr := wire.NewTracker(b)
				tr.NoTrace = true
				v, err := wire.DecodeTx(tr)
				if err != nil {
					return nil, 0, err
				}
				tx := v.(interfaces.Transaction)
				return &txParts{Payload: tx.Payload()}, tr.Remaining(), nil
			}
			out = append(out, bc)
		}
	}
	// the transaction's own length-carrying parts, on TransferAsset v9 with every output payload
	for _, ot := range wire.OutputTypes {
		nv := 1
		if ot == common2.OTVote || ot == common2.OTDposV2Vote {
			nv = 3
		}
		for v := 0; v < nv; v++ {
			ot, v := ot, v
			build := func() interface{} {
				f := mk()
				p, _ := wire.NewPayload(common2.TransferAsset, 0, f)
				tx := wire.NewTx(common2.TransferAsset, 0, p, wire.TxShape{Version: common2.TxVersion09, Attrs: []common2.AttributeUsage{common2.Memo}, Inputs: 1,
					Outputs: []common2.OutputType{ot}, OutVar: v, Programs: 1}, f)
				return &txParts{Payload: tx.Payload(), Attributes: tx.Attributes(), Inputs: tx.Inputs(), Outputs: tx.Outputs(), Programs: tx.Programs(), LockTime: tx.LockTime()}
			}
			lens := boundaryLens
			if ot != common2.OTNone {
				lens = short // the list/attribute/program classes are covered once, with OTNone
			}
			bc := bcase{name: fmt.Sprintf("txparts/out%d.%d", ot, v), class: fmt.Sprintf("txparts/out%d", ot), lens: lens, build: build}
			bc.encode = func(v interface{}) ([]byte, error) {
				parts := v.(*txParts)
				tx := wire.NewTx(common2.TransferAsset, 0, parts.Payload, wire.TxShape{Version: common2.TxVersion09}, mk())
				tx.SetAttributes(parts.Attributes)
				tx.SetInputs(parts.Inputs)
				tx.SetOutputs(parts.Outputs)
				tx.SetPrograms(parts.Programs)
				tx.SetLockTime(parts.LockTime)
				return wire.EncodeTx(tx)
			}
			bc.decode = func(b []byte) (interface{}, int, error) {
				tr := wire.NewTracker(b)
				tr.NoTrace = true
				v, err := wire.DecodeTx(tr)
				if err != nil {
					return nil, 0, err
				}
				tx := v.(interfaces.Transaction)
				return &txParts{Payload: tx.Payload(), Attributes: tx.Attributes(), Inputs: tx.Inputs(), Outputs: tx.Outputs(), Programs: tx.Programs(), LockTime: tx.LockTime()}, tr.Remaining(), nil
			}
			out = append(out, bc)
		}
	}
	// headers (merkle branch counts, parent coinbase scripts), confirms, p2p and DPoS messages
	serCodec := func(bc *bcase, fresh func() common.Serializable) {
		bc.encode = func(v interface{}) ([]byte, error) {
			buf := new(bytes.Buffer)
			err := v.(common.Serializable).Serialize(buf)
			return buf.Bytes(), err
		}
		bc.decode = func(b []byte) (interface{}, int, error) {
			x := fresh()
			tr := wire.NewTracker(b)
			tr.NoTrace = true
			if err := x.Deserialize(tr); err != nil {
				return nil, 0, err
			}
			return x, tr.Remaining(), nil
		}
	}
	{
		bc := bcase{name: "header", class: "header", lens: short, build: func() interface{} { return wire.NewHeader(mk(), 1, 1) }}
		serCodec(&bc, func() common.Serializable { return &common2.Header{} })
		out = append(out, bc)
		bc2 := bcase{name: "confirm", class: "confirm", lens: short, build: func() interface{} { return wire.NewConfirm(mk(), 1) }}
		serCodec(&bc2, func() common.Serializable { return wire.NewConfirm(&wire.Filler{Zero: true}, 0) })
		out = append(out, bc2)
	}
	{
		bc := bcase{name: "dposblock", class: "dposblock", lens: short, build: func() interface{} {
			f := mk()
			return &types.DposBlock{Block: &types.Block{Header: *wire.NewHeader(f, 1, 1), Transactions: wire.SmallTxs(f, 1)}, HaveConfirm: true, Confirm: wire.NewConfirm(f, 1)}
		}}
		serCodec(&bc, func() common.Serializable { return &types.DposBlock{} })
		out = append(out, bc)
	}
	for _, sp := range append(wire.P2PMsgSpecs(), wire.DposMsgSpecs()...) {
		sp := sp
		if strings.HasSuffix(sp.Name, "/block") || strings.HasSuffix(sp.Name, "/tx") || strings.HasSuffix(sp.Name, "/res_blc") || strings.HasSuffix(sp.Name, "/merkleblock") {
			continue // containers of values covered above
		}
		idx := -1
		all := append(wire.P2PMsgSpecs(), wire.DposMsgSpecs()...)
		for i := range all {
			if all[i].Name == sp.Name {
				idx = i
			}
		}
		bc := bcase{name: sp.Name, class: sp.Name, lens: boundaryLens, setup: sp.Setup, build: func() interface{} {
			if sp.Setup != nil {
				sp.Setup()
			}
			return append(wire.P2PMsgSpecs(), wire.DposMsgSpecs()...)[idx].Value
		}}
		serCodec(&bc, func() common.Serializable {
			if sp.Setup != nil {
				sp.Setup()
			}
			return sp.New()
		})
		if sp.Setup != nil {
			seq = append(seq, bc) // depends on the process-global DPoS payload version: not in parallel
		} else {
			out = append(out, bc)
		}
	}
	return out, seq
}

// checkMsgLimits: a message holding limit−1 or exactly limit elements in a field with a documented
// per-message limit (the repository's constants, wire.MsgLimits) round-trips through its own
// Serialize/Deserialize.
func (c *ctx) checkMsgLimits() {
	r := c.r
	for _, lim := range wire.MsgLimits() {
		for _, n := range []int{lim.Limit - 1, lim.Limit} {
			atomic.AddInt64(&c.evals, 1)
			sp, ok := wire.SpecByName(lim.Spec)
			if !ok {
				continue
			}
			if sp.Setup != nil {
				sp.Setup()
			}
			art := map[string]interface{}{"kind": "msglimit", "case": fmt.Sprintf("%s/%s=%d", lim.Spec, lim.Path, n)}
			if err := wire.ApplyLimit(sp.Value, lim, n); err != nil {
				continue
			}
			sig := lim.Spec + "|" + lim.Path
			buf := new(bytes.Buffer)
			if err := sp.Value.Serialize(buf); err != nil {
				r.Violate("C04|msg-limit|encode-error|"+sig, fmt.Sprintf("%s with %d in %s (limit %s = %d) does not serialise: %v", lim.Spec, n, lim.Path, lim.Const, lim.Limit, err), art)
				continue
			}
			m := sp.New()
			tr := wire.NewTracker(buf.Bytes())
			tr.NoTrace = true
			if err := m.Deserialize(tr); err != nil {
				r.Violate("C04|msg-limit|decode-error|"+sig, fmt.Sprintf("%s with %d in %s (limit %s = %d) serialises but does not deserialise: %v", lim.Spec, n, lim.Path, lim.Const, lim.Limit, err), art)
				continue
			}
			if ok, d := wire.Equal(sp.Value, m); !ok || tr.Remaining() != 0 {
				r.Violate("C04|msg-limit|roundtrip-diff|"+sig, fmt.Sprintf("%s with %d in %s comes back different (%s, %d bytes left)", lim.Spec, n, lim.Path, d, tr.Remaining()), art)
				continue
			}
			atomic.AddInt64(&c.msgLimits, 1)
			c.mark(fmt.Sprintf("msglimit|%s|%d", sig, n-lim.Limit))
		}
	}
}

// ---------------------------------------------------------------------------------------------
// per-field length limits

// limitCap: lengths are probed up to this many bytes; a field that still round-trips there is
// recorded as limitCap ("no limit below the cap": the 8 MB / 16 MiB limits).
const limitCap = 1<<20 + 16

// probeLimits finds, for every byte-string / string field of the value class, the largest length
// that survives encode → decode (bisection; the boundary family above shows separately that the
// var-int width changes do not break monotonicity). The result is keyed by case name + field path.
func (c *ctx) probeLimits(bc bcase, skip map[string]bool) map[string]int {
	if !c.baselineOK(bc) {
		return map[string]int{}
	}
	bc = cached(bc)
	out := map[string]int{}
	root := reflect.ValueOf(bc.build())
	var leaves []leaf
	lenLeaves(root, "", func(r reflect.Value) reflect.Value { return r }, &leaves, 0)
	for _, lf := range leaves {
		v := safeGet(lf, root)
		if !v.IsValid() || !(v.Kind() == reflect.String || (v.Kind() == reflect.Slice && v.Type().Elem().Kind() == reflect.Uint8)) {
			continue
		}
		// the transaction's own fields once (with the plain output), output payload fields per type
		if strings.HasPrefix(bc.class, "txparts/out") && bc.class != "txparts/out0" && !strings.HasPrefix(lf.path, ".Outputs") {
			continue
		}
		ok := func(n int) bool {
			atomic.AddInt64(&c.evals, 1)
			atomic.AddInt64(&c.limitProbes, 1)
			st, _ := attempt(bc, lf, n)
			return st == "ok"
		}
		key := bc.name + lf.path
		if skip[key] {
			continue // the same field of the same payload version is probed through another variant
		}
		if !ok(1) {
			continue // not carried by this variant (or not a free field)
		}
		if ok(limitCap) {
			out[key] = limitCap
			continue
		}
		lo, hi := 1, limitCap // lo round-trips, hi does not
		for hi-lo > 1 {
			mid := lo + (hi-lo)/2
			if ok(mid) {
				lo = mid
			} else {
				hi = mid
			}
		}
		out[key] = lo
		if lo > 1 && !ok(lo-1) {
			c.r.Violate("C04|field-limit|non-monotone|"+bc.class+"|"+fieldClass(lf.path), fmt.Sprintf("%s round-trips at length %d but not at %d", lf.path, lo, lo-1),
				map[string]interface{}{"kind": "limit", "case": key})
		}
	}
	return out
}

// checkLimits compares the probed limits with the pinned table (the tree's own rule at the time
// of writing): a field whose largest round-tripping length moved, in either direction, changed
// what is well-formed on the wire.
func (c *ctx) checkLimits(cases []bcase, seq []bcase) (observed map[string]int, unpinned, vanished []string) {
	observed = map[string]int{}
	var mu sync.Mutex
	classOf := map[string]string{}
	pathOf := map[string]string{}
	// one probe per (transaction type, payload version, field): the first variant (proposal type)
	// that carries the field does it — decided in a sequential pre-pass so that it is deterministic
	skip := map[string]bool{}
	firstCarrier := map[string]bool{}
	for _, bc0 := range cases {
		seg := strings.SplitN(bc0.name, "/", 4)
		if len(seg) < 4 || seg[0] != "tx" {
			continue // not a multi-variant transaction payload case
		}
		if !c.baselineOK(bc0) {
			continue
		}
		group := strings.Join(seg[:3], "/")
		bc := cached(bc0)
		root := reflect.ValueOf(bc.build())
		var leaves []leaf
		lenLeaves(root, "", func(r reflect.Value) reflect.Value { return r }, &leaves, 0)
		for _, lf := range leaves {
			v := safeGet(lf, root)
			if !v.IsValid() || !(v.Kind() == reflect.String || (v.Kind() == reflect.Slice && v.Type().Elem().Kind() == reflect.Uint8)) {
				continue
			}
			g := group + lf.path
			if firstCarrier[g] {
				skip[bc0.name+lf.path] = true
				continue
			}
			if st, _ := attempt(bc, lf, 1); st == "ok" {
				firstCarrier[g] = true
			}
		}
	}
	run := func(bc bcase) {
		m := c.probeLimits(bc, skip)
		mu.Lock()
		for k, v := range m {
			observed[k] = v
			classOf[k] = bc.class
			pathOf[k] = strings.TrimPrefix(k, bc.name)
		}
		mu.Unlock()
	}
	par.Go(len(cases), func(i int) { c.guard("limit", cases[i].name, func() { run(cases[i]) }) })
	for _, bc := range seq {
		bc := bc
		c.guard("limit", bc.name, func() { run(bc) })
	}
	for k, v := range observed {
		want, ok := pinnedLimits[k]
		if !ok {
			unpinned = append(unpinned, k)
			continue
		}
		if want != v {
			path := pathOf[k]
			desc := func(n int) string {
				if n >= limitCap {
					return fmt.Sprintf("no limit below %d", limitCap)
				}
				return fmt.Sprint(n)
			}
			c.r.Violate("C04|field-limit-changed|"+classOf[k]+"|"+fieldClass(path),
				fmt.Sprintf("the largest length of %s that survives encode/decode is %s; the pinned limit of this field is %s", k, desc(v), desc(want)),
				map[string]interface{}{"kind": "limit", "case": k, "observed": v, "pinned": want})
		} else {
			c.mark("limit|" + k)
		}
	}
	for k := range pinnedLimits {
		if _, ok := observed[k]; !ok {
			vanished = append(vanished, k)
		}
	}
	sort.Strings(unpinned)
	sort.Strings(vanished)
	return
}
