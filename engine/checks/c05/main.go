// C05: spending requires valid signatures from every spent address — bounded-exhaustive
// enumeration against the real checkTransactionSignature (through the verif hook),
// blockchain.RunPrograms and crypto.VerifyMultisigSignatures, with harness keys.
//
// Oracle (independent; package keys: hand-parsed script layouts, Go crypto/ecdsa, textbook
// Schnorr): whenever the node ACCEPTS,
//
//	(a) the program list is exactly one program per distinct spent address / script attribute,
//	    matched by code hash                                   -> C05|accept-wrong-program-set
//	(b) each program's code hashes to its address               -> C05|accept-unbound-program|prefix=..
//	(c) each program's signatures verify over the signed bytes  -> C05|accept-invalid-signature|layout=..|prefix=..
//	    (whole transactions: ...|layout=..|seam=tx)
//	(d) m-of-n: at least m DISTINCT script keys signed, m >= 1  -> C05|accept-too-few-signers|..
//
// (b)-(d) are demanded only where the property speaks: addresses a user can own, i.e. codes in
// one of the layouts the repository's own constructors emit (standard, multisig, Schnorr; the
// check enumerates the constructors and verifies they stay inside these layouts) under the
// standard / deposit / multisig prefixes. Accepted spends outside that region — unclassified code
// under the standard/deposit prefix (no signature check in RunPrograms) and every program under
// the cross-chain prefix (no code-hash binding in RunPrograms) — are enumerated and REPORTED in
// the evidence (`no_signature_check_classes`), not alarmed: such an address is never issued to a
// user (only somebody who deliberately pays to an anyone-can-spend script creates one), and
// cross-chain UTXOs are guarded at the transaction level (checkTransactionCrossChainUTXO and
// WithdrawFromSideChain's own arbiter check — properties C31/C33), see DESIGN.md §5 C05.
//
// The opposite direction (a canonical valid spend is rejected) is not the property; it would
// make every accept-side statement vacuous, so it ends the run as an engine error (exit 2).
package main

import (
	"bytes"
	"crypto/sha256"
	"encoding/hex"
	"fmt"
	"os"
	"runtime/debug"
	"sort"
	"strings"
	"sync/atomic"

	"github.com/elastos/Elastos.ELA/blockchain"
	"github.com/elastos/Elastos.ELA/common"
	"github.com/elastos/Elastos.ELA/core"
	"github.com/elastos/Elastos.ELA/core/contract"
	pg "github.com/elastos/Elastos.ELA/core/contract/program"
	"github.com/elastos/Elastos.ELA/core/transaction"
	ctypes "github.com/elastos/Elastos.ELA/core/types/common"
	"github.com/elastos/Elastos.ELA/core/types/functions"
	"github.com/elastos/Elastos.ELA/core/types/interfaces"
	"github.com/elastos/Elastos.ELA/core/types/outputpayload"
	"github.com/elastos/Elastos.ELA/core/types/payload"
	"github.com/elastos/Elastos.ELA/crypto"

	"verif/evid"
	"verif/hx"
	"verif/keys"
	"verif/par"
)

// ---------------------------------------------------------------------------------------------
// independent reference side

func sha256d(b []byte) [32]byte {
	h := sha256.Sum256(b)
	return sha256.Sum256(h[:])
}

// layout classifies code by the documented script layouts (hand parser, not contract.Is*).
// For m-of-n layouts it returns m and the key list.
func layout(code []byte) (kind string, m int, pubs [][]byte) {
	if len(code) == 35 && code[0] == 0x21 && code[34] == keys.OpCheckSig {
		return "standard", 1, [][]byte{code[1:34]}
	}
	if len(code) == 35 && code[0] == keys.OpPush1 && code[1] == 0x21 {
		return "schnorr", 1, [][]byte{code[2:35]}
	}
	if len(code) >= 37 && (code[len(code)-1] == keys.OpCheckMultiSig || code[len(code)-1] == keys.OpCrossChain) &&
		(len(code)-3)%34 == 0 && code[0] >= 0x51 && code[0] <= 0x60 {
		n := (len(code) - 3) / 34
		if int(code[len(code)-2]) != 0x50+n || n < 1 || n > 16 {
			return "unclassified", 0, nil
		}
		for k := 0; k < n; k++ {
			if code[1+34*k] != 0x21 {
				return "unclassified", 0, nil
			}
			pubs = append(pubs, code[2+34*k:2+34*k+33])
		}
		m = int(code[0]) - 0x50
		if m > n {
			return "unclassified", 0, nil
		}
		if code[len(code)-1] == keys.OpCrossChain {
			return "crosschain", m, pubs
		}
		return "multisig", m, pubs
	}
	return "unclassified", 0, nil
}

// distinctSigners counts the distinct keys of pubs for which some 65-byte chunk of param carries
// a valid signature over data. ok=false when param is not a whole number of chunks.
func distinctSigners(pubs [][]byte, param, data []byte) (int, bool) {
	if len(param)%65 != 0 {
		return 0, false
	}
	seen := map[string]bool{}
	for i := 0; i+65 <= len(param); i += 65 {
		sig := param[i+1 : i+65]
		for _, pk := range pubs {
			if keys.VerifyECDSA(pk, data, sig) {
				seen[string(pk)] = true
			}
		}
	}
	return len(seen), true
}

// refVerdict: is (code, param) a valid authorisation of data under the documented rules?
// reason names the violated clause when it is not.
func refVerdict(code, param, data []byte) (lay string, valid bool, reason string) {
	lay, m, pubs := layout(code)
	switch lay {
	case "standard":
		if len(param) != 65 || !keys.VerifyECDSA(pubs[0], data, param[1:]) {
			return lay, false, "accept-invalid-signature"
		}
		return lay, true, ""
	case "schnorr":
		if len(param) < 64 || !keys.VerifySchnorr(pubs[0], sha256d(data), param[:64]) {
			return lay, false, "accept-invalid-signature"
		}
		return lay, true, ""
	case "multisig", "crosschain":
		d, ok := distinctSigners(pubs, param, data)
		if !ok {
			return lay, false, "accept-invalid-signature"
		}
		if m < 1 || d < m {
			return lay, false, "accept-too-few-signers"
		}
		return lay, true, ""
	}
	return lay, false, "unclassified"
}

// ---------------------------------------------------------------------------------------------

type counters struct {
	evals, accepted, rejected, panicked, reported int64
}

type checker struct {
	r        *evid.Run
	ct       counters
	classes  evid.Distinct // outcome classes
	noSig    evid.Distinct // accepted spends outside the owned-address region (reported)
	samples  *evid.Samples
	validRej evid.Distinct // canonical valid spends rejected (engine error at the end)
}

func guard(f func() error) (err error, panicked bool, site string) {
	defer func() {
		if e := recover(); e != nil {
			panicked = true
			site = evid.PanicSite(debug.Stack())
		}
	}()
	return f(), false, ""
}

// judge applies clauses (b)-(d) to ONE accepted (hash, program) pair.
func (c *checker) judge(seam string, ph common.Uint168, code, param, data []byte, art map[string]interface{}) {
	prefix := ph[0]
	lay, valid, reason := refVerdict(code, param, data)
	ch := keys.CodeHash(code)
	bound := bytes.Equal(ch[:], ph[1:])
	owned := lay != "unclassified" && lay != "crosschain" &&
		(prefix == keys.PrefixStandard || prefix == keys.PrefixDeposit || prefix == keys.PrefixMultiSig)
	if prefix == keys.PrefixCrossChain || !owned {
		// outside the region where the property makes a promise: report the class
		cls := fmt.Sprintf("prefix=%02x layout=%s bound_to_address=%v signatures_valid=%v", prefix, lay, bound, valid)
		c.noSig.Add(cls)
		atomic.AddInt64(&c.ct.reported, 1)
		return
	}
	if !bound {
		c.r.Violate(fmt.Sprintf("C05|accept-unbound-program|prefix=%02x", prefix), "a program whose code does not hash to the spent address was accepted", art)
		return
	}
	if !valid {
		c.r.Violate(fmt.Sprintf("C05|%s|layout=%s|prefix=%02x", reason, lay, prefix), "a spend was accepted although the independent verifier rejects its signatures", art)
	}
}

// runOne drives RunPrograms with one (hash, program) pair.
func (c *checker) runOne(seam string, ph common.Uint168, code, param, data []byte, expectValid bool, desc string) bool {
	cc := append(make([]byte, 0, len(code)), code...)
	pp := append(make([]byte, 0, len(param)), param...)
	atomic.AddInt64(&c.ct.evals, 1)
	err, panicked, site := guard(func() error {
		return blockchain.RunPrograms(data, []common.Uint168{ph}, []*pg.Program{{Code: cc, Parameter: pp}})
	})
	if panicked {
		atomic.AddInt64(&c.ct.panicked, 1)
		c.classes.Add(seam + ":panic:" + site + " (C03's subject; counted as not accepted)")
		return false
	}
	if err != nil {
		atomic.AddInt64(&c.ct.rejected, 1)
		c.classes.Add(seam + ":reject:" + short(err))
		if expectValid {
			c.validRej.Add(seam + ": " + desc + ": " + err.Error())
		}
		return false
	}
	atomic.AddInt64(&c.ct.accepted, 1)
	c.classes.Add(seam + ":accept")
	c.judge(seam, ph, code, param, data, map[string]interface{}{"kind": "single", "seam": seam, "hash": hex.EncodeToString(ph[:]),
		"code": hex.EncodeToString(code), "param": hex.EncodeToString(param), "data": hex.EncodeToString(data), "desc": desc})
	return true
}

func short(err error) string {
	s := err.Error()
	if len(s) > 44 {
		s = s[:44]
	}
	return s
}

// ---------------------------------------------------------------------------------------------
// address kinds

type akind struct {
	name   string
	prefix byte
	code   []byte
	sign   func(data []byte) []byte // a canonical valid parameter
	bad    func(data []byte) []byte // same shape, signed by keys that are not in the script
}

func otherData(data []byte) []byte {
	d := append([]byte{}, data...)
	d[len(d)/2] ^= 0x01
	return d
}

func addressKinds() []akind {
	schD := keys.AggregateD(7, 8)
	return []akind{
		{"standard(k0)", keys.PrefixStandard, keys.StandardCode(keys.Pub(0)),
			func(d []byte) []byte { return keys.SigParam(keys.Sign(0, d, 0)) },
			func(d []byte) []byte { return keys.SigParam(keys.Sign(9, d, 0)) }},
		{"standard(k1)", keys.PrefixStandard, keys.StandardCode(keys.Pub(1)),
			func(d []byte) []byte { return keys.SigParam(keys.Sign(1, d, 0)) },
			func(d []byte) []byte { return keys.SigParam(keys.Sign(1, otherData(d), 0)) }},
		{"deposit(k0)", keys.PrefixDeposit, keys.StandardCode(keys.Pub(0)),
			func(d []byte) []byte { return keys.SigParam(keys.Sign(0, d, 1)) },
			func(d []byte) []byte { return keys.SigParam(keys.Sign(9, d, 1)) }},
		{"multisig-1of2(k2,k3)", keys.PrefixMultiSig, keys.MultiSigCode(1, keys.Pubs(2, 3)...),
			func(d []byte) []byte { return keys.SigParam(keys.Sign(3, d, 0)) },
			func(d []byte) []byte { return keys.SigParam(keys.Sign(9, d, 0)) }},
		{"multisig-2of3(k4,k5,k6)", keys.PrefixMultiSig, keys.MultiSigCode(2, keys.Pubs(4, 5, 6)...),
			func(d []byte) []byte { return keys.SigParam(keys.Sign(6, d, 0), keys.Sign(4, d, 0)) },
			func(d []byte) []byte { return keys.SigParam(keys.Sign(6, d, 0), keys.Sign(6, d, 1)) }},
		{"schnorr(k7+k8)", keys.PrefixStandard, keys.SchnorrCode(keys.AggregatePub(7, 8)),
			func(d []byte) []byte { s := keys.SignSchnorrD(schD, sha256d(d), 0); return s[:] },
			func(d []byte) []byte { s := keys.SignSchnorrD(keys.D(7), sha256d(d), 0); return s[:] }},
	}
}

func (k akind) hash() common.Uint168 { return common.Uint168(keys.ProgramHash(k.prefix, k.code)) }

// skeleton builds a TransferAsset spending one UTXO per address (or naming the last address in a
// Script attribute when viaAttr), plus optionally a second UTXO of the first address.
func skeleton(set []akind, viaAttr, dupInput bool) (interfaces.Transaction, map[*ctypes.Input]ctypes.Output) {
	refs := map[*ctypes.Input]ctypes.Output{}
	var ins []*ctypes.Input
	attrs := []*ctypes.Attribute{{Usage: ctypes.Nonce, Data: []byte{0x42}}}
	add := func(i int, h common.Uint168) {
		var id common.Uint256
		id[0], id[1] = byte(i+1), 0xC5
		in := &ctypes.Input{Previous: ctypes.OutPoint{TxID: id, Index: uint16(i)}, Sequence: 0}
		ins = append(ins, in)
		refs[in] = ctypes.Output{AssetID: core.ELAAssetID, Value: 1000, ProgramHash: h}
	}
	for i, k := range set {
		if viaAttr && i == len(set)-1 && len(set) > 1 {
			h := k.hash()
			attrs = append(attrs, &ctypes.Attribute{Usage: ctypes.Script, Data: append([]byte{}, h[:]...)})
			continue
		}
		add(i, k.hash())
	}
	if dupInput {
		add(len(set)+3, set[0].hash())
	}
	to := common.Uint168(keys.ProgramHash(keys.PrefixStandard, keys.StandardCode(keys.Pub(9))))
	outs := []*ctypes.Output{{AssetID: core.ELAAssetID, Value: 900, ProgramHash: to, Type: ctypes.OTNone, Payload: &outputpayload.DefaultOutput{}}}
	tx := transaction.CreateTransaction(ctypes.TxVersion09, ctypes.TransferAsset, 0, &payload.TransferAsset{}, attrs, ins, outs, 0, nil)
	return tx, refs
}

func unsigned(tx interfaces.Transaction) []byte {
	buf := new(bytes.Buffer)
	if err := tx.SerializeUnsigned(buf); err != nil {
		evid.Fatalf("SerializeUnsigned: %v", err)
	}
	return buf.Bytes()
}

type prog struct {
	name  string
	code  []byte
	param []byte
	valid bool // canonical valid for its own code over the skeleton's data
}

// part A: address sets x program sequences through checkTransactionSignature
func (c *checker) partA(maxSet int) (sets, seqs int64) {
	kinds := addressKinds()
	var combos [][]int
	var rec func(start int, cur []int)
	rec = func(start int, cur []int) {
		if len(cur) > 0 {
			combos = append(combos, append([]int{}, cur...))
		}
		if len(cur) == maxSet {
			return
		}
		for i := start; i < len(kinds); i++ {
			rec(i+1, append(cur, i))
		}
	}
	rec(0, nil)
	type job struct {
		set            []akind
		viaAttr, dupIn bool
	}
	var jobs []job
	for _, cb := range combos {
		var set []akind
		for _, i := range cb {
			set = append(set, kinds[i])
		}
		jobs = append(jobs, job{set, false, false}, job{set, false, true})
		if len(set) > 1 {
			jobs = append(jobs, job{set, true, false})
		}
	}
	var nSeq int64
	par.Go(len(jobs), func(ji int) {
		j := jobs[ji]
		tx0, _ := skeleton(j.set, j.viaAttr, j.dupIn)
		data := unsigned(tx0)
		// pool: valid program per needed address, an invalidly signed twin, one foreign program
		var pool []prog
		for _, k := range j.set {
			pool = append(pool, prog{k.name + ":ok", k.code, k.sign(data), true})
		}
		for _, k := range j.set {
			pool = append(pool, prog{k.name + ":badsig", k.code, k.bad(data), false})
		}
		fcode := keys.StandardCode(keys.Pub(9))
		pool = append(pool, prog{"foreign standard(k9):ok", fcode, keys.SigParam(keys.Sign(9, data, 0)), true})
		// needed multiset of code hashes
		need := map[[20]byte]int{}
		for _, k := range j.set {
			need[keys.CodeHash(k.code)]++
		}
		maxLen := len(j.set) + 1
		idx := make([]int, 0, maxLen)
		var walk func()
		walk = func() {
			c.evalSeq(j.set, j.viaAttr, j.dupIn, data, pool, idx, need)
			atomic.AddInt64(&nSeq, 1)
			if len(idx) == maxLen {
				return
			}
			for p := range pool {
				idx = append(idx, p)
				walk()
				idx = idx[:len(idx)-1]
			}
		}
		walk()
	})
	return int64(len(jobs)), nSeq
}

func (c *checker) evalSeq(set []akind, viaAttr, dupIn bool, data []byte, pool []prog, idx []int, need map[[20]byte]int) {
	tx, refs := skeleton(set, viaAttr, dupIn)
	progs := make([]*pg.Program, len(idx))
	var names []string
	for i, p := range idx {
		progs[i] = &pg.Program{Code: append([]byte{}, pool[p].code...), Parameter: append([]byte{}, pool[p].param...)}
		names = append(names, pool[p].name)
	}
	tx.SetPrograms(progs)
	atomic.AddInt64(&c.ct.evals, 1)
	err, panicked, site := guard(func() error { return transaction.VerifCheckTransactionSignature(tx, refs) })
	if panicked {
		atomic.AddInt64(&c.ct.panicked, 1)
		c.classes.Add("tx:panic:" + site)
		return
	}
	// reference verdict
	have := map[[20]byte]int{}
	allValid := true
	for _, p := range idx {
		have[keys.CodeHash(pool[p].code)]++
		if !pool[p].valid {
			allValid = false
		}
	}
	setOK := len(idx) == len(set) && len(have) == len(need)
	if setOK {
		for h, n := range need {
			if have[h] != n {
				setOK = false
			}
		}
	}
	if err != nil {
		atomic.AddInt64(&c.ct.rejected, 1)
		c.classes.Add("tx:reject:" + short(err))
		if setOK && allValid {
			c.validRej.Add(fmt.Sprintf("tx: set=%v programs=%v: %v", kindNames(set), names, err))
		}
		return
	}
	atomic.AddInt64(&c.ct.accepted, 1)
	c.classes.Add("tx:accept")
	c.samples.Add(map[string]interface{}{"tx_accept_addresses": kindNames(set), "programs": names, "via_script_attribute": viaAttr, "two_inputs_same_address": dupIn})
	art := map[string]interface{}{"kind": "tx", "addresses": kindNames(set), "programs": names, "via_attr": viaAttr, "dup_input": dupIn}
	if !setOK {
		c.r.Violate("C05|accept-wrong-program-set", "a transaction was accepted although its programs are not exactly one per distinct spent address (by code hash)", art)
		return
	}
	if !allValid {
		// which one: re-derive with the independent verifier
		for _, p := range idx {
			lay, valid, reason := refVerdict(pool[p].code, pool[p].param, data)
			if !valid {
				c.r.Violate(fmt.Sprintf("C05|%s|layout=%s|seam=tx", reason, lay), "a transaction was accepted although one of its programs carries no valid signature set", art)
				return
			}
		}
	}
}

func kindNames(set []akind) []string {
	var o []string
	for _, k := range set {
		o = append(o, k.name)
	}
	return o
}

// ---------------------------------------------------------------------------------------------
// part B: single-byte mutations (position x 16-value alphabet) of code, parameter, signed data

func alphabet(b byte) []byte {
	cand := []byte{0x00, 0x01, 0x7f, 0x80, 0xff, b ^ 0x01, b ^ 0x80, b + 1, b - 1, 0x21, 0x40, 0x41, 0x51, 0xac, 0xae, 0xaf, b ^ 0x02, 0x02, 0x03}
	seen := map[byte]bool{b: true}
	var out []byte
	for _, v := range cand {
		if !seen[v] && len(out) < 16 {
			seen[v] = true
			out = append(out, v)
		}
	}
	return out
}

func (c *checker) partB() (n int64) {
	kinds := addressKinds()
	// plus a cross-chain spend: reported region, still enumerated
	kinds = append(kinds, akind{"crosschain-1of2(k2,k3)", keys.PrefixCrossChain, keys.CrossChainCode(1, keys.Pubs(2, 3)...),
		func(d []byte) []byte { return keys.SigParam(keys.Sign(2, d, 0)) }, nil})
	// m == n multisig scripts under every prefix that RunPrograms routes by code kind
	// (multisig 0x12, standard 0x21, deposit 0x1f); the cross-chain twin under 0x4b
	for _, pre := range []byte{keys.PrefixMultiSig, keys.PrefixStandard, keys.PrefixDeposit} {
		pre := pre
		kinds = append(kinds,
			akind{fmt.Sprintf("multisig-2of2(k2,k3)@prefix%02x", pre), pre, keys.MultiSigCode(2, keys.Pubs(2, 3)...),
				func(d []byte) []byte { return keys.SigParam(keys.Sign(2, d, 0), keys.Sign(3, d, 0)) }, nil},
			akind{fmt.Sprintf("multisig-3of3(k4,k5,k6)@prefix%02x", pre), pre, keys.MultiSigCode(3, keys.Pubs(4, 5, 6)...),
				func(d []byte) []byte { return keys.SigParam(keys.Sign(6, d, 0), keys.Sign(4, d, 0), keys.Sign(5, d, 0)) }, nil},
			akind{fmt.Sprintf("multisig-1of2(k2,k3)@prefix%02x", pre), pre, keys.MultiSigCode(1, keys.Pubs(2, 3)...),
				func(d []byte) []byte { return keys.SigParam(keys.Sign(3, d, 0)) }, nil})
	}
	kinds = append(kinds, akind{"crosschain-2of2(k2,k3)", keys.PrefixCrossChain, keys.CrossChainCode(2, keys.Pubs(2, 3)...),
		func(d []byte) []byte { return keys.SigParam(keys.Sign(2, d, 0), keys.Sign(3, d, 0)) }, nil})
	var total int64
	par.Go(len(kinds), func(ki int) {
		k := kinds[ki]
		tx, _ := skeleton([]akind{k}, false, false)
		data := unsigned(tx)
		param := k.sign(data)
		ph := k.hash()
		// no valid signatures at all: zero signatures, one signature dropped, empty parameter
		if len(param)%65 == 0 {
			zero := make([]byte, len(param))
			for i := 0; i < len(zero); i += 65 {
				zero[i] = 0x40
			}
			atomic.AddInt64(&total, 3)
			c.runOne("zero-signatures", ph, k.code, zero, data, false, k.name)
			c.runOne("fewer-signatures", ph, k.code, param[:len(param)-65], data, false, k.name)
			c.runOne("zero-signatures", ph, k.code, zero, otherData(data), false, k.name+" altered data")
		}
		if !c.runOne("mutation-seed", ph, k.code, param, data, true, k.name) {
			return
		}
		// signatures made over every proper prefix of the signed bytes (and over the bytes plus one)
		// presented with the full bytes, and the full-bytes signature presented with every prefix
		for l := 0; l <= len(data); l++ {
			other := data[:l]
			if l == len(data) {
				other = append(append([]byte{}, data...), 0)
			}
			atomic.AddInt64(&total, 2)
			c.runOne("sign-prefix", ph, k.code, k.sign(other), data, false, fmt.Sprintf("%s signed over %d of %d bytes", k.name, len(other), len(data)))
			c.runOne("present-prefix", ph, k.code, param, other, false, fmt.Sprintf("%s presented %d of %d bytes", k.name, len(other), len(data)))
		}
		for part, base := range [][]byte{k.code, param, data} {
			for pos := range base {
				for _, v := range alphabet(base[pos]) {
					m := append([]byte{}, base...)
					m[pos] = v
					code, par_, dat := k.code, param, data
					switch part {
					case 0:
						code = m
					case 1:
						par_ = m
					case 2:
						dat = m
					}
					atomic.AddInt64(&total, 1)
					c.runOne([]string{"mutate-code", "mutate-param", "mutate-data"}[part], ph, code, par_, dat, false,
						fmt.Sprintf("%s pos=%d", k.name, pos))
				}
			}
		}
	})
	return total
}

// ---------------------------------------------------------------------------------------------
// part C: m-of-n, every multiset/sequence of signer slots

// layouts: restricted-growth strings of length n (which script slots hold the same key)
func slotLayouts(n int) [][]int {
	var out [][]int
	var rec func(cur []int, max int)
	rec = func(cur []int, max int) {
		if len(cur) == n {
			out = append(out, append([]int{}, cur...))
			return
		}
		for v := 0; v <= max+1; v++ {
			nm := max
			if v > max {
				nm = v
			}
			rec(append(cur, v), nm)
		}
	}
	rec(nil, -1)
	return out
}

func (c *checker) partC(thorough bool) (cases int64) {
	data := []byte("verif C05 multisig signed data / unsigned transaction bytes stand-in")
	const foreign, garbage = 100, 101
	type job struct {
		n, m int
		lay  []int
	}
	var jobs []job
	for n := 1; n <= 4; n++ {
		for _, lay := range slotLayouts(n) {
			for m := 1; m <= n; m++ {
				jobs = append(jobs, job{n, m, lay})
			}
		}
	}
	var total int64
	par.Go(len(jobs), func(ji int) {
		j := jobs[ji]
		pubs := make([][]byte, j.n)
		distinct := 0
		for i, v := range j.lay {
			pubs[i] = keys.Pub(v)
			if v+1 > distinct {
				distinct = v + 1
			}
		}
		tokens := []int{}
		for v := 0; v < distinct; v++ {
			tokens = append(tokens, v)
		}
		tokens = append(tokens, foreign, garbage)
		msCode := keys.MultiSigCode(j.m, pubs...)
		ccCode := keys.CrossChainCode(j.m, pubs...)
		var chunks [][]byte
		for _, pk := range pubs {
			chunks = append(chunks, append([]byte{0x21}, pk...))
		}
		maxLen := j.n + 1
		full := thorough || j.n <= 3
		seq := make([]int, 0, maxLen)
		eval := func(seq []int) {
			occ := map[int]int{}
			var sigs [][]byte
			clean := true
			for _, t := range seq {
				switch t {
				case foreign:
					sigs = append(sigs, keys.Sign(9, data, occ[t]))
					clean = false
				case garbage:
					g := make([]byte, 64)
					g[0], g[63] = 1, byte(1+occ[t])
					sigs = append(sigs, g)
					clean = false
				default:
					if occ[t] > 0 {
						clean = false
					}
					sigs = append(sigs, keys.Sign(t, data, occ[t])) // j-th signature of a key uses nonce variant j
				}
				occ[t]++
			}
			param := keys.SigParam(sigs...)
			canonical := clean && len(seq) >= j.m && len(seq) <= j.n
			desc := fmt.Sprintf("m=%d n=%d slots=%v signers=%v", j.m, j.n, j.lay, seq)
			atomic.AddInt64(&total, 1)
			// seam 1: crypto.VerifyMultisigSignatures directly
			atomic.AddInt64(&c.ct.evals, 1)
			err, panicked, site := guard(func() error { return crypto.VerifyMultisigSignatures(j.m, j.n, chunks, param, data) })
			switch {
			case panicked:
				atomic.AddInt64(&c.ct.panicked, 1)
				c.classes.Add("verifymultisig:panic:" + site)
			case err != nil:
				atomic.AddInt64(&c.ct.rejected, 1)
				c.classes.Add("verifymultisig:reject:" + short(err))
				if canonical {
					c.validRej.Add("VerifyMultisigSignatures: " + desc + ": " + err.Error())
				}
			default:
				atomic.AddInt64(&c.ct.accepted, 1)
				c.classes.Add("verifymultisig:accept")
				d, _ := distinctSigners(pubs, param, data)
				if d < j.m {
					c.r.Violate("C05|accept-too-few-signers|seam=VerifyMultisigSignatures", "VerifyMultisigSignatures accepted fewer than m distinct signing keys",
						map[string]interface{}{"kind": "mofn", "m": j.m, "n": j.n, "slots": j.lay, "signers": seq})
				}
			}
			// seam 2: RunPrograms, multisig address
			c.runOne("mofn-multisig", common.Uint168(keys.ProgramHash(keys.PrefixMultiSig, msCode)), msCode, param, data, canonical && j.n >= 2, desc)
			// seam 2b: the same multisig script under the standard and deposit prefixes
			// ("multisig deposit": RunPrograms decides by code kind there)
			if j.n <= 3 || distinct == j.n {
				c.runOne("mofn-multisig@21", common.Uint168(keys.ProgramHash(keys.PrefixStandard, msCode)), msCode, param, data, canonical && j.n >= 2, desc)
				c.runOne("mofn-multisig@1f", common.Uint168(keys.ProgramHash(keys.PrefixDeposit, msCode)), msCode, param, data, canonical && j.n >= 2, desc)
			}
			// seam 3: RunPrograms, cross-chain address (reported region), small n only
			if j.n <= 3 {
				c.runOne("mofn-crosschain", common.Uint168(keys.ProgramHash(keys.PrefixCrossChain, ccCode)), ccCode, param, data, false, desc)
			}
		}
		var walk func(minTok int)
		walk = func(minTok int) {
			eval(seq)
			if !full && len(seq) > 1 {
				rev := make([]int, len(seq))
				for i := range seq {
					rev[i] = seq[len(seq)-1-i]
				}
				eval(rev)
			}
			if len(seq) == maxLen {
				return
			}
			for ti, t := range tokens {
				if !full && ti < minTok {
					continue
				}
				seq = append(seq, t)
				walk(ti)
				seq = seq[:len(seq)-1]
			}
		}
		walk(0)
	})
	return total
}

// ---------------------------------------------------------------------------------------------
// part D: classes on which no signature check happens + the constructors' layouts

func (c *checker) partD() (constructorsOK int) {
	data := []byte("verif C05 class enumeration data")
	prefixes := []byte{keys.PrefixStandard, keys.PrefixDeposit, keys.PrefixMultiSig, keys.PrefixCrossChain, keys.PrefixDPoSV2, keys.PrefixCRDID, 0x00}
	ff := bytes.Repeat([]byte{0xff}, 32)
	codes := map[string][]byte{
		"standard":                 keys.StandardCode(keys.Pub(0)),
		"schnorr":                  keys.SchnorrCode(keys.Pub(1)),
		"multisig-2of3":            keys.MultiSigCode(2, keys.Pubs(4, 5, 6)...),
		"multisig-1of1":            keys.MultiSigCode(1, keys.Pubs(4)...),
		"multisig-0of2":            keys.MultiSigCode(0, keys.Pubs(4, 5)...),
		"multisig-3of2":            keys.MultiSigCode(3, keys.Pubs(4, 5)...),
		"multisig-m-as-1,x":        append([]byte{1, 1}, keys.MultiSigCode(1, keys.Pubs(4, 5)...)[1:]...),
		"crosschain-1of2":          keys.CrossChainCode(1, keys.Pubs(2, 3)...),
		"crosschain-0of2":          keys.CrossChainCode(0, keys.Pubs(2, 3)...),
		"sidechain-genesis-script": append(bytes.Repeat([]byte{0x5d}, 32), keys.OpCrossChain),
		"zeros23":                  make([]byte, 23),
		"zeros35":                  make([]byte, 35),
		"standard-badpoint":        keys.StandardCode(append([]byte{2}, ff...)),
		"standard+trailing-byte":   append(keys.StandardCode(keys.Pub(0)), 0),
		"checksig-only-35":         append(make([]byte, 34), keys.OpCheckSig),
	}
	var names []string
	for k := range codes {
		names = append(names, k)
	}
	sort.Strings(names)
	params := map[string][]byte{"empty": {}, "zeros64": make([]byte, 64), "zeros65": make([]byte, 65), "zeros130": make([]byte, 130),
		"foreign-signature": keys.SigParam(keys.Sign(9, data, 0))}
	var pnames []string
	for k := range params {
		pnames = append(pnames, k)
	}
	sort.Strings(pnames)
	for _, pre := range prefixes {
		for _, cn := range names {
			for _, pn := range pnames {
				for _, match := range []bool{true, false} {
					ph := common.Uint168(keys.ProgramHash(pre, codes[cn]))
					if !match {
						ph = common.Uint168(keys.ProgramHash(pre, []byte("another code")))
					}
					c.runOne("classes", ph, codes[cn], params[pn], data, false, fmt.Sprintf("prefix=%02x code=%s param=%s match=%v", pre, cn, pn, match))
				}
			}
		}
	}
	// every address constructor of the repository stays inside the classified layouts, and an
	// unsigned / foreign-signed spend of it is rejected
	type ctor struct {
		name string
		c    *contract.Contract
		err  error
	}
	rp := func(i int) *crypto.PublicKey {
		pk, err := crypto.DecodePoint(keys.Pub(i))
		if err != nil {
			evid.Fatalf("DecodePoint: %v", err)
		}
		return pk
	}
	var ctors []ctor
	add := func(name string, ct *contract.Contract, err error) { ctors = append(ctors, ctor{name, ct, err}) }
	ct, err := contract.CreateStandardContract(rp(0))
	add("CreateStandardContract", ct, err)
	ct, err = contract.CreateDepositContractByPubKey(rp(0))
	add("CreateDepositContractByPubKey", ct, err)
	ct, err = contract.CreateSchnorrContract(rp(1))
	add("CreateSchnorrContract", ct, err)
	for n := 1; n <= 4; n++ {
		for m := 1; m <= n; m++ {
			var pks []*crypto.PublicKey
			for i := 0; i < n; i++ {
				pks = append(pks, rp(2+i))
			}
			ct, err = contract.CreateMultiSigContract(m, pks)
			add(fmt.Sprintf("CreateMultiSigContract(%d of %d)", m, n), ct, err)
		}
	}
	// multisig deposit addresses (producers registered with a multi-signature owner) and a
	// multisig script paid to under the standard prefix: constructed by code
	for n := 2; n <= 4; n++ {
		for m := 1; m <= n; m++ {
			var pks []*crypto.PublicKey
			for i := 0; i < n; i++ {
				pks = append(pks, rp(2+i))
			}
			code, err := contract.CreateMultiSigRedeemScript(m, pks)
			if err != nil || code == nil {
				continue
			}
			ct, err = contract.CreateDepositContractByCode(code)
			add(fmt.Sprintf("CreateDepositContractByCode(multisig %d of %d)", m, n), ct, err)
			ct, err = contract.CreateStandardContractByCode(code)
			add(fmt.Sprintf("CreateStandardContractByCode(multisig %d of %d)", m, n), ct, err)
		}
	}
	for _, cn := range ctors {
		if cn.err != nil || cn.c == nil || cn.c.Code == nil {
			c.classes.Add("constructor-refused:" + cn.name)
			continue
		}
		lay, _, _ := layout(cn.c.Code)
		if lay == "unclassified" || lay == "crosschain" {
			c.r.Violate("C05|constructor-outside-layouts|"+strings.Split(cn.name, "(")[0], "an address constructor emits a script outside the layouts on which RunPrograms checks signatures",
				map[string]interface{}{"kind": "constructor", "name": cn.name, "code": hex.EncodeToString(cn.c.Code)})
			continue
		}
		constructorsOK++
		ph := *cn.c.ToProgramHash()
		for _, pn := range pnames {
			c.runOne("constructor-unsigned", ph, cn.c.Code, params[pn], data, false, cn.name+" param="+pn)
		}
	}
	return
}

// ---------------------------------------------------------------------------------------------
// part E: every transaction type x payload version 0..3 through checkTransactionSignature

// pinnedExemptions is the set of (transaction type, payload version) for which the tree's
// checkTransactionSignature verifies NO program, as observed on the unchanged tree at the time of
// writing. They are the classes the statement leaves room for: transactions assembled by the
// arbiters that spend nothing (NextTurnDPOSInfo) or spend only system-owned addresses whose use
// is restricted by the type's own SpecialContextCheck (CR assets / CRC foundation / stake pool /
// DPoS reward accumulation): no user address is spent, so no user program is due. Any other
// (type, version) must verify programs; any change of this set — one more exempted class, or one
// fewer — is reported as C05|signature-exemption-changed|type=..|pv=...
var pinnedExemptions = map[string]bool{
	"CRCProposalWithdraw/0": true, // version 0 spends the CRC foundation address only; version 1 spends ordinary UTXOs
	"CRAssetsRectify/0":     true, "CRAssetsRectify/1": true, "CRAssetsRectify/2": true, "CRAssetsRectify/3": true,
	"CRCProposalRealWithdraw/0": true, "CRCProposalRealWithdraw/1": true, "CRCProposalRealWithdraw/2": true, "CRCProposalRealWithdraw/3": true,
	"NextTurnDPOSInfo/0": true, "NextTurnDPOSInfo/1": true, "NextTurnDPOSInfo/2": true, "NextTurnDPOSInfo/3": true,
	"DposV2ClaimRewardRealWithdraw/0": true, "DposV2ClaimRewardRealWithdraw/1": true, "DposV2ClaimRewardRealWithdraw/2": true, "DposV2ClaimRewardRealWithdraw/3": true,
	"VotesRealWithdraw/0": true, "VotesRealWithdraw/1": true, "VotesRealWithdraw/2": true, "VotesRealWithdraw/3": true,
}

func (c *checker) partE() (types int, cases int64, exempt []string) {
	victim := addressKinds()[0] // standard(k0): the foreign address being spent
	foreignCode := keys.StandardCode(keys.Pub(9))
	seenPinned := map[string]bool{}
	for t := 0; t < 256; t++ {
		tt := ctypes.TxType(t)
		if _, err := transaction.GetTransaction(tt); err != nil {
			continue
		}
		types++
		for pv := byte(0); pv <= 3; pv++ {
			key := fmt.Sprintf("%s/%d", tt.Name(), pv)
			build := func() (interfaces.Transaction, map[*ctypes.Input]ctypes.Output, error) {
				pl, err := interfaces.GetPayload(tt, pv)
				if err != nil || pl == nil {
					return nil, nil, fmt.Errorf("no payload object")
				}
				var id common.Uint256
				id[0], id[1] = byte(t), 0xE5
				in := &ctypes.Input{Previous: ctypes.OutPoint{TxID: id, Index: 0}, Sequence: 0}
				to := common.Uint168(keys.ProgramHash(keys.PrefixStandard, foreignCode))
				tx := transaction.CreateTransaction(ctypes.TxVersion09, tt, pv, pl,
					[]*ctypes.Attribute{{Usage: ctypes.Nonce, Data: []byte{byte(t), pv}}}, []*ctypes.Input{in},
					[]*ctypes.Output{{AssetID: core.ELAAssetID, Value: 900, ProgramHash: to, Type: ctypes.OTNone, Payload: &outputpayload.DefaultOutput{}}}, 0, nil)
				return tx, map[*ctypes.Input]ctypes.Output{in: {AssetID: core.ELAAssetID, Value: 1000, ProgramHash: victim.hash()}}, nil
			}
			tx0, _, err := build()
			if err != nil {
				c.classes.Add("types:no-payload-object")
				continue
			}
			// the bytes the node signs over (serialisation errors are ignored by the node as well)
			var data []byte
			_, panicked, _ := guard(func() error {
				buf := new(bytes.Buffer)
				tx0.SerializeUnsigned(buf)
				data = append([]byte{}, buf.Bytes()...)
				return nil
			})
			if panicked {
				c.classes.Add("types:unsigned-serialisation-panics(zero payload)")
				continue
			}
			good := victim.sign(data)
			tampered := append([]byte{}, good...)
			tampered[40] ^= 0x01
			variants := []struct {
				name    string
				progs   []*pg.Program
				correct bool
			}{
				{"no-program", nil, false},
				{"foreign-program", []*pg.Program{{Code: foreignCode, Parameter: keys.SigParam(keys.Sign(9, data, 0))}}, false},
				{"tampered-signature", []*pg.Program{{Code: victim.code, Parameter: tampered}}, false},
				{"correct-program", []*pg.Program{{Code: victim.code, Parameter: good}}, true},
			}
			acceptedWrong, acceptedRight, failed := 0, false, false
			for _, v := range variants {
				tx, refs, _ := build()
				tx.SetPrograms(v.progs)
				atomic.AddInt64(&c.ct.evals, 1)
				cases++
				err, panicked, site := guard(func() error { return transaction.VerifCheckTransactionSignature(tx, refs) })
				switch {
				case panicked:
					atomic.AddInt64(&c.ct.panicked, 1)
					c.classes.Add("types:panic:" + site)
					failed = true
				case err != nil:
					atomic.AddInt64(&c.ct.rejected, 1)
				default:
					atomic.AddInt64(&c.ct.accepted, 1)
					if v.correct {
						acceptedRight = true
					} else {
						acceptedWrong++
					}
				}
			}
			if failed {
				continue
			}
			art := map[string]interface{}{"kind": "types", "type": tt.Name(), "type_code": t, "payload_version": pv,
				"accepted_without_correct_program": acceptedWrong, "accepted_with_correct_program": acceptedRight}
			isExempt := acceptedWrong == 3
			switch {
			case isExempt:
				exempt = append(exempt, key)
				if pinnedExemptions[key] {
					seenPinned[key] = true
					c.classes.Add("types:exempt(pinned)")
				} else {
					c.r.Violate(fmt.Sprintf("C05|signature-exemption-changed|type=%s|pv=%d", tt.Name(), pv),
						"a transaction type/payload version that must carry valid programs for the addresses it spends is accepted with no program, a foreign program and a tampered signature", art)
				}
			case acceptedWrong > 0:
				c.r.Violate(fmt.Sprintf("C05|accept-wrong-program-set|type=%s|pv=%d", tt.Name(), pv),
					"a spend of a foreign address was accepted without the address's correctly signed program", art)
			default:
				if pinnedExemptions[key] {
					c.r.Violate(fmt.Sprintf("C05|signature-exemption-changed|type=%s|pv=%d", tt.Name(), pv),
						"a class in the pinned exemption table now verifies programs (the table is the tree's own rule at the time of writing: update it together with the rule)", art)
				}
				if !acceptedRight {
					c.validRej.Add("types: " + key + ": correctly signed spend rejected")
				}
				c.classes.Add("types:verifies-programs")
			}
		}
	}
	for k := range pinnedExemptions {
		if !seenPinned[k] {
			// pinned but not observed at all (type removed / payload object missing): engine-level, not a verdict
			c.classes.Add("types:pinned-class-not-observed:" + k)
		}
	}
	sort.Strings(exempt)
	return
}

// ---------------------------------------------------------------------------------------------

func main() {
	r := evid.Start("C05", "exploration")
	scr := evid.Scratch("c05")
	hx.QuietLogs(scr)
	functions.GetTransactionByTxType = transaction.GetTransaction
	functions.GetTransactionByBytes = transaction.GetTransactionByBytes
	functions.CreateTransaction = transaction.CreateTransaction
	functions.GetTransactionParameters = transaction.GetTransactionparameters
	c := &checker{r: r, samples: &evid.Samples{N: 10}}
	if r.Replay != "" {
		replay(c)
		os.RemoveAll(scr)
		r.Finish(evid.Coverage{})
		return
	}
	sets, seqs := c.partA(3)
	muts := c.partB()
	mofn := c.partC(r.Thorough())
	ctorsOK := c.partD()
	nTypes, typeCases, exempt := c.partE()
	wd := c.partF(scr)
	os.RemoveAll(scr)

	if c.validRej.Len() > 0 && r.NumViolations() == 0 {
		var l []string
		for k := range c.validRej.Map() {
			l = append(l, k)
		}
		sort.Strings(l)
		if len(l) > 5 {
			l = l[:5]
		}
		evid.Fatalf("canonical valid spends were rejected (%d classes) — the accept-side oracle would be vacuous; first: %v", c.validRej.Len(), l)
	}
	// the (prefix, code layout) classes that end up accepted outside the owned-address region on
	// the unchanged tree, pinned: a class joining this set means a new kind of program is
	// accepted unverified (the table is the tree's own behaviour at the time of writing)
	pinnedUnverified := map[string]bool{
		"prefix=1f layout=crosschain bound_to_address=true signatures_valid=false":    true,
		"prefix=1f layout=unclassified bound_to_address=true signatures_valid=false":  true,
		"prefix=21 layout=crosschain bound_to_address=true signatures_valid=false":    true,
		"prefix=21 layout=unclassified bound_to_address=true signatures_valid=false":  true,
		"prefix=4b layout=crosschain bound_to_address=false signatures_valid=true":    true,
		"prefix=4b layout=crosschain bound_to_address=true signatures_valid=true":     true,
		"prefix=4b layout=unclassified bound_to_address=false signatures_valid=false": true,
		"prefix=4b layout=unclassified bound_to_address=true signatures_valid=false":  true,
	}
	var newClasses []string
	for k := range c.noSig.Map() {
		if !pinnedUnverified[k] {
			newClasses = append(newClasses, k)
		}
	}
	sort.Strings(newClasses)
	for _, k := range newClasses {
		r.Violate("C05|unverified-class-set-changed|"+k, "a (prefix, code layout) class that was not accepted unverified before is now accepted outside the signature rules", map[string]interface{}{"kind": "class", "class": k})
	}
	var noSig []string
	for k, v := range c.noSig.Map() {
		noSig = append(noSig, fmt.Sprintf("%s (x%d)", k, v))
	}
	sort.Strings(noSig)
	r.Assume = append(r.Assume,
		"accepted spends under the cross-chain prefix (RunPrograms does not bind the program to the address) and with unclassified code under the standard/deposit prefix (RunPrograms checks no signature) are listed in no_signature_check_classes and not alarmed: no wallet/contract constructor issues such an address (checked: every constructor output for n<=4 is inside the standard/multisig/Schnorr layouts and its unsigned spend is rejected); cross-chain UTXOs are protected at transaction level (C31/C33)",
		"the length byte in front of each 64-byte signature is not interpreted by the node; the reference verifier ignores it as well",
		"part E observes only the exemptions inside checkTransactionSignature; types whose SpecialContextCheck ends the context check before it (coinbase, evidence and arbiter-built types) are not observable through this seam. The pinned exemption table is the tree's own rule at the time of writing; whether the exempted types really spend only system-owned addresses is enforced by their SpecialContextCheck (state-dependent) and is not re-verified here",
		"ContextCheck's other gates (UTXO lookup, fee, deposit rules) are outside this check: checkTransactionSignature is driven directly through the verif hook with harness references",
		"panics met on the way (Schnorr parameter shorter than 64 bytes, truncated multisig code) are C03's findings; here they count as not accepted")
	r.Finish(evid.Coverage{
		"evaluations":         c.ct.evals,
		"distinct_nontrivial": c.ct.accepted,
		"rule": "A: address sets of size 1..3 over {standard k0, standard k1, deposit k0, multisig 1of2, multisig 2of3, Schnorr} x {plain, +second UTXO of one address, last address named by a Script attribute} x every sequence of length 0..|set|+1 over {valid program, badly signed twin of each needed address, one valid foreign program} through checkTransactionSignature; " +
			"B: every single-byte substitution (16-value alphabet) of code, parameter and signed bytes of each kind's valid spend, plus signatures over every proper prefix (and one-byte extension) of the signed bytes and every prefix presented with the full signature, through RunPrograms; " +
			"C: 1<=m<=n<=4 x every assignment of keys to script slots (incl. one key in several slots) x signer sequences of length 0..n+1 over {each script key (j-th use = j-th distinct signature), foreign key, garbage} (quick: n=4 as multisets in both orders) through VerifyMultisigSignatures and RunPrograms; " +
			"F: Schnorr WithdrawFromSideChain (payload v2) at a height past CrossChainUTXORestrictionHeight on a light node: arbiter sets {4 (MemberCount 4), 4 (MemberCount 6), 12 (MemberCount 12)} x every signer-index list of length 0..6 over 3 indexes + quorum-length {all distinct, alternating pair, alternating triple, first index repeated at the end} lists, each with the really producible aggregated-key program and signature, through SpecialContextCheck then checkTransactionSignature; accepted => distinct indexes >= quorum; " +
			"E: every transaction type of GetTransaction x payload version 0..3, spending a foreign standard address with {no program, foreign program, tampered signature, correct program} through checkTransactionSignature; the observed set of (type, version) classes that verify no program must equal the pinned table; " +
			"m==n multisig scripts (2of2, 3of3) and 1of2 under prefixes 0x12/0x21/0x1f and the cross-chain twin get the full mutation family plus zero-signature / dropped-signature / altered-data spends; part C also runs every m-of-n signer sequence under the standard and deposit prefixes (n<=3, and n=4 with distinct keys); constructors include multisig deposit and standard-by-code contracts for 1<=m<=n<=4; the set of classes accepted outside the owned region is pinned; " +
			"D: 7 prefixes x 15 code classes x 5 unsigned/foreign parameters x hash match/mismatch; all address constructors for n<=4. non-trivial = accepted spends, each judged by the independent verifier",
		"exhaustive":                 true,
		"address_set_skeletons":      sets,
		"program_sequences":          seqs,
		"mutations":                  muts,
		"mofn_signer_sequences":      mofn,
		"constructors_in_layout":     ctorsOK,
		"withdraw_v2_signer_lists":   wd.lists,
		"withdraw_v2_accepted":       wd.accepted,
		"withdraw_v2_rejected_by_special_check": wd.rejectedSpecial,
		"withdraw_v2_rejected_by_signature_check": wd.rejectedSignature,
		"transaction_types":          nTypes,
		"type_version_cases":         typeCases,
		"signature_exempt_classes_observed": exempt,
		"accepted":                   c.ct.accepted,
		"rejected":                   c.ct.rejected,
		"panicked_not_accepted":      c.ct.panicked,
		"accepted_outside_owned_region_reported": c.ct.reported,
		"no_signature_check_classes": noSig,
		"canonical_valid_rejected":   c.validRej.Len(),
		"outcome_classes":            c.classes.Map(),
		"samples":                    c.samples.Out,
	})
}

func replay(c *checker) {
	var a map[string]interface{}
	s := c.r.LoadReplay(&a)
	fmt.Printf("replaying %s\n", s)
	switch a["kind"] {
	case "single":
		hb, _ := hex.DecodeString(a["hash"].(string))
		code, _ := hex.DecodeString(a["code"].(string))
		param, _ := hex.DecodeString(a["param"].(string))
		data, _ := hex.DecodeString(a["data"].(string))
		ph, _ := common.Uint168FromBytes(hb)
		ok := c.runOne(fmt.Sprint(a["seam"]), *ph, code, param, data, false, fmt.Sprint(a["desc"]))
		lay, valid, reason := refVerdict(code, param, data)
		fmt.Printf("node accepted=%v; reference: layout=%s valid=%v %s\n", ok, lay, valid, reason)
	default:
		fmt.Println("artefacts of this kind are re-derived by the enumeration (deterministic); run ./run C05 quick")
	}
}
