package main

import (
	"crypto/elliptic"
	"encoding/hex"
	"fmt"
	"math/big"

	"github.com/elastos/Elastos.ELA/blockchain"
	"github.com/elastos/Elastos.ELA/common"
	"github.com/elastos/Elastos.ELA/common/config"
	"github.com/elastos/Elastos.ELA/core"
	"github.com/elastos/Elastos.ELA/core/checkpoint"
	pg "github.com/elastos/Elastos.ELA/core/contract/program"
	"github.com/elastos/Elastos.ELA/core/transaction"
	"github.com/elastos/Elastos.ELA/core/types"
	ctypes "github.com/elastos/Elastos.ELA/core/types/common"
	"github.com/elastos/Elastos.ELA/core/types/interfaces"
	"github.com/elastos/Elastos.ELA/core/types/outputpayload"
	"github.com/elastos/Elastos.ELA/core/types/payload"
	"github.com/elastos/Elastos.ELA/dpos/state"

	"verif/evid"
	"verif/keys"
)

// seam 5: the signer-index list of a Schnorr (payload v2) WithdrawFromSideChain transaction,
// through the transaction's own SpecialContextCheck (called by ContextCheck for mempool and block
// validation) after a wire round trip.
//
// Regimes: the emergency policy validates the indexes from CrossChainUTXORestrictionHeight on.
//   - mainnet parameters, current height (>= 2 256 724): validated;
//   - TestNet()/RegNet() parameter sets: the restriction height is disabled (MaxUint32), so the
//     unvalidated path is what such a node runs at its current height -> reachable, alarmed;
//   - mainnet parameters below the restriction height: historic blocks only; a peer cannot make a
//     synced node validate at those heights -> evaluated, counted, NOT alarmed.

type wdCounters struct {
	evals, accepted, rejected, panics, panicsHistoric int64
}

// aggCode is the Schnorr script of the sum of the listed arbiters' node keys (harness-side
// construction with crypto/elliptic so that the accept branch is exercised); nil if an index is
// out of range or a key does not decompress.
func aggCode(arbiters []*state.ArbiterInfo, l []uint8) []byte {
	curve := elliptic.P256()
	var sx, sy *big.Int
	for _, i := range l {
		if int(i) >= len(arbiters) {
			return nil
		}
		x, y := elliptic.UnmarshalCompressed(curve, arbiters[i].NodePublicKey)
		if x == nil {
			return nil
		}
		if sx == nil {
			sx, sy = x, y
		} else {
			sx, sy = curve.Add(sx, sy, x, y)
		}
	}
	if sx == nil {
		return nil
	}
	return keys.SchnorrCode(keys.Compress(sx, sy))
}

func withdrawTx(signers []uint8, code []byte) interfaces.Transaction {
	to := common.Uint168(keys.ProgramHash(keys.PrefixStandard, keys.StandardCode(keys.Pub(9))))
	if code == nil {
		code = keys.SchnorrCode(keys.Pub(1))
	}
	return transaction.CreateTransaction(ctypes.TxVersion09, ctypes.WithdrawFromSideChain, payload.WithdrawFromSideChainVersionV2,
		&payload.WithdrawFromSideChain{Signers: signers},
		[]*ctypes.Attribute{{Usage: ctypes.Nonce, Data: []byte{5}}},
		[]*ctypes.Input{{Previous: ctypes.OutPoint{TxID: u256(0x51), Index: 0}, Sequence: 0}},
		[]*ctypes.Output{{AssetID: core.ELAAssetID, Value: 100, ProgramHash: to, Type: ctypes.OTNone, Payload: &outputpayload.DefaultOutput{}}},
		0, []*pg.Program{{Code: code, Parameter: make([]byte, 64)}})
}

// installArbiters puts a real Arbiters object (mainnet parameters, best height 2 300 000) into the
// ledger; used by the withdraw and coinbase-context seams.
func installArbiters(f *fixture) *state.Arbiters {
	if a, ok := blockchain.DefaultLedger.Arbitrators.(*state.Arbiters); ok && a != nil {
		return a
	}
	ckp := checkpoint.NewManager(config.GetDefaultParams())
	arbiters, err := state.NewArbitrators(f.params, nil, nil, nil, nil, nil, nil, nil, nil, ckp)
	if err != nil {
		evid.Fatalf("NewArbitrators: %v", err)
	}
	arbiters.RegisterFunction(func() uint32 { return 2300000 }, func() *common.Uint256 { return &common.Uint256{} },
		func(uint32) (*types.Block, error) { return nil, nil }, nil)
	blockchain.DefaultLedger.Arbitrators = arbiters
	return arbiters
}

func runWithdraw(r *evid.Run, f *fixture, ct *wdCounters, classes *evid.Distinct, samples *evid.Samples) {
	arbiters := installArbiters(f)
	ccArbiters := arbiters.GetCrossChainArbiters()
	n := len(ccArbiters)
	if n == 0 || n >= 255 {
		evid.Fatalf("fixture: %d cross-chain arbiters", n)
	}
	xAddr := common.Uint168(keys.ProgramHash(keys.PrefixCrossChain, append(make([]byte, 32), keys.OpCrossChain)))

	testnet := config.GetDefaultParams().TestNet()
	regimes := []struct {
		name     string
		cfg      *config.Configuration
		height   uint32
		historic bool
	}{
		{"mainnet@2300000", f.params, 2300000, false},
		{"mainnet@restriction-1 (historic)", f.params, f.params.CrossChainUTXORestrictionHeight - 1, true},
		{"testnet-parameters@2000000 (restriction disabled)", testnet, 2000000, false},
	}
	alpha := []uint8{0, 1, uint8(n - 1), uint8(n), 255}
	need := int(f.params.CRConfiguration.MemberCount)*2/3 + 1
	var lists [][]uint8
	// pure alphabet lists of length 0..3 (too few signers: rejected before the indexes are read)
	lists = append(lists, []uint8{})
	for _, a := range alpha {
		lists = append(lists, []uint8{a})
		for _, b := range alpha {
			lists = append(lists, []uint8{a, b})
			for _, c := range alpha {
				lists = append(lists, []uint8{a, b, c})
			}
		}
	}
	// enough signers: valid cyclic indexes, the last three positions over the alphabet^3
	for _, a := range alpha {
		for _, b := range alpha {
			for _, c := range alpha {
				l := make([]uint8, 0, need)
				for i := 0; i < need-3; i++ {
					l = append(l, uint8((2+i)%n))
				}
				lists = append(lists, append(l, a, b, c))
			}
		}
	}
	for _, rg := range regimes {
		for _, l := range lists {
			raw, err := encodeTx(withdrawTx(l, aggCode(ccArbiters, l)))
			if err != nil {
				continue
			}
			tx, err := decodeTxBytes(raw)
			if err != nil {
				classes.Add("withdraw:undecodable")
				continue
			}
			in := tx.Inputs()[0]
			tx.SetParameters(&transaction.TransactionParameters{Transaction: tx, BlockHeight: rg.height, Config: rg.cfg, BlockChain: f.chain})
			tx.SetReferences(map[*ctypes.Input]ctypes.Output{in: {AssetID: core.ELAAssetID, Value: 1000, ProgramHash: xAddr}})
			ct.evals++
			var cerr error
			o := guard(func() {
				if e, _ := tx.SpecialContextCheck(); e != nil {
					cerr = e
				}
			})
			if o.Panicked {
				if rg.historic {
					ct.panicsHistoric++
					classes.Add("withdraw:panic-historic-height-only:" + o.Site)
					continue
				}
				ct.panics++
				classes.Add("withdraw:panic:" + o.Site)
				policy := "|signer-index-validation=off(restriction height disabled)"
				if rg.height >= rg.cfg.CrossChainUTXORestrictionHeight {
					policy = "|signer-index-validation=on"
				}
				r.Violate(sig(o)+policy, "WithdrawFromSideChain (Schnorr, payload v2) SpecialContextCheck panics on a decodable signer-index list",
					map[string]interface{}{"kind": "withdraw", "tx": hex.EncodeToString(raw), "signers": fmt.Sprint(l), "regime": rg.name, "arbiters": n, "panic": o.Value})
				continue
			}
			if cerr == nil {
				ct.accepted++
				classes.Add("withdraw:accept")
				samples.Add(map[string]interface{}{"withdraw_accept": fmt.Sprint(l), "regime": rg.name})
			} else {
				ct.rejected++
				m := cerr.Error()
				if len(m) > 56 {
					m = m[len(m)-56:]
				}
				classes.Add("withdraw:reject:..." + m)
			}
		}
	}
}
