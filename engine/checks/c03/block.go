package main

import (
	"bytes"
	"encoding/hex"
	"fmt"
	"os"

	"github.com/elastos/Elastos.ELA/auxpow"
	"github.com/elastos/Elastos.ELA/blockchain"
	"github.com/elastos/Elastos.ELA/common"
	"github.com/elastos/Elastos.ELA/core"
	pg "github.com/elastos/Elastos.ELA/core/contract/program"
	"github.com/elastos/Elastos.ELA/core/transaction"
	"github.com/elastos/Elastos.ELA/core/types"
	ctypes "github.com/elastos/Elastos.ELA/core/types/common"
	"github.com/elastos/Elastos.ELA/core/types/functions"
	"github.com/elastos/Elastos.ELA/core/types/interfaces"
	"github.com/elastos/Elastos.ELA/core/types/outputpayload"
	"github.com/elastos/Elastos.ELA/core/types/payload"
	"github.com/elastos/Elastos.ELA/crypto"

	"verif/evid"
	"verif/hx"
	"verif/keys"
)

func decodeTxBytes(raw []byte) (interfaces.Transaction, error) {
	rd := bytes.NewReader(raw)
	tx, err := functions.GetTransactionByBytes(rd)
	if err != nil {
		return nil, err
	}
	if err := tx.Deserialize(rd); err != nil {
		return nil, err
	}
	return tx, nil
}

func encodeTx(tx interfaces.Transaction) (raw []byte, err error) {
	o := guard(func() {
		buf := new(bytes.Buffer)
		err = tx.Serialize(buf)
		raw = buf.Bytes()
	})
	if o.Panicked {
		return nil, fmt.Errorf("harness could not serialize: %s", o.Value)
	}
	return
}

func programTx(code, param []byte) interfaces.Transaction {
	std := common.Uint168(keys.ProgramHash(keys.PrefixStandard, keys.StandardCode(keys.Pub(9))))
	return transaction.CreateTransaction(ctypes.TxVersion09, ctypes.TransferAsset, 0, &payload.TransferAsset{},
		[]*ctypes.Attribute{{Usage: ctypes.Nonce, Data: []byte{1}}},
		[]*ctypes.Input{{Previous: ctypes.OutPoint{TxID: u256(9), Index: 0}, Sequence: 0}},
		[]*ctypes.Output{{AssetID: core.ELAAssetID, Value: 100, ProgramHash: std, Type: ctypes.OTNone, Payload: &outputpayload.DefaultOutput{}}},
		0, []*pg.Program{{Code: code, Parameter: param}})
}

// sanityAccepts: does the node's own SanityCheck accept a TransferAsset carrying this program
// (after a wire round trip) at the given height? Returns the decoded program too, so the caller
// re-runs RunPrograms on exactly what the decoder produced.
func (f *fixture) sanityAccepts(code, param []byte, height uint32) (bool, string, *pg.Program) {
	raw, err := encodeTx(programTx(code, param))
	if err != nil {
		return false, err.Error(), nil
	}
	dec, err := decodeTxBytes(raw)
	if err != nil {
		return false, "undecodable: " + err.Error(), nil
	}
	var e error
	o := guard(func() {
		if ee := f.chain.CheckTransactionSanity(height, dec); ee != nil {
			e = ee
		}
	})
	if o.Panicked {
		return false, "sanity itself panicked: " + o.Value, nil
	}
	if e != nil {
		return false, e.Error(), nil
	}
	return true, "", dec.Programs()[0]
}

// ---------------------------------------------------------------------------------------------

type blkCounters struct {
	built, undecodable, evals, accepted, rejected, panics int64
}

type txSpec struct {
	name string
	tx   func(height uint32) interfaces.Transaction
}

func cbInput(mode string) []*ctypes.Input {
	ok := &ctypes.Input{Previous: ctypes.OutPoint{TxID: common.EmptyHash, Index: 0xffff}, Sequence: 0xffffffff}
	switch mode {
	case "ok":
		return []*ctypes.Input{ok}
	case "none":
		return []*ctypes.Input{}
	case "wrongseq":
		return []*ctypes.Input{{Previous: ctypes.OutPoint{TxID: common.EmptyHash, Index: 0xffff}, Sequence: 1}}
	case "two":
		return []*ctypes.Input{ok, {Previous: ctypes.OutPoint{TxID: u256(3), Index: 1}, Sequence: 0}}
	}
	return nil
}

func (f *fixture) coinbase(ver ctypes.TransactionVersion, nOut int, valMode, inMode string, nProg, contentLen int, withAttr bool) interfaces.Transaction {
	var outs []*ctypes.Output
	miner := common.Uint168(keys.ProgramHash(keys.PrefixStandard, keys.StandardCode(keys.Pub(8))))
	addrs := []common.Uint168{*f.params.FoundationProgramHash, miner, *f.params.DestroyELAProgramHash, miner, miner}
	vals := []common.Fixed64{30, 35, 35, 1, 1}
	for i := 0; i < nOut; i++ {
		v := vals[i] * 1000000
		switch valMode {
		case "zero":
			v = 0
		case "neg-first":
			if i == 0 {
				v = -1
			}
		case "max":
			v = common.Fixed64(1<<63 - 1)
		}
		outs = append(outs, &ctypes.Output{AssetID: core.ELAAssetID, Value: v, ProgramHash: addrs[i], Type: ctypes.OTNone, Payload: &outputpayload.DefaultOutput{}})
	}
	var attrs []*ctypes.Attribute
	if withAttr {
		attrs = []*ctypes.Attribute{{Usage: ctypes.Nonce, Data: []byte{1, 2, 3, 4}}}
	}
	progs := []*pg.Program{}
	for i := 0; i < nProg; i++ {
		progs = append(progs, &pg.Program{Code: keys.StandardCode(keys.Pub(8)), Parameter: []byte{}})
	}
	return transaction.CreateTransaction(ver, ctypes.CoinBase, 0, &payload.CoinBase{Content: make([]byte, contentLen)},
		attrs, cbInput(inMode), outs, 0, progs)
}

func transferTx(mod string) interfaces.Transaction {
	std := common.Uint168(keys.ProgramHash(keys.PrefixStandard, keys.StandardCode(keys.Pub(9))))
	attrs := []*ctypes.Attribute{{Usage: ctypes.Nonce, Data: []byte{7}}}
	ins := []*ctypes.Input{{Previous: ctypes.OutPoint{TxID: u256(9), Index: 0}, Sequence: 0}}
	outs := []*ctypes.Output{{AssetID: core.ELAAssetID, Value: 100, ProgramHash: std, Type: ctypes.OTNone, Payload: &outputpayload.DefaultOutput{}}}
	progs := []*pg.Program{{Code: keys.StandardCode(keys.Pub(9)), Parameter: make([]byte, 65)}}
	ver := ctypes.TxVersion09
	switch mod {
	case "ok":
	case "v0":
		ver = ctypes.TxVersionDefault
	case "no-inputs":
		ins = []*ctypes.Input{}
	case "no-outputs":
		outs = []*ctypes.Output{}
	case "no-programs":
		progs = []*pg.Program{}
	case "code22":
		progs = []*pg.Program{{Code: make([]byte, 22), Parameter: []byte{}}}
	case "code0":
		progs = []*pg.Program{{Code: []byte{}, Parameter: []byte{}}}
	case "bad-attr":
		attrs = []*ctypes.Attribute{{Usage: 0x55, Data: []byte{7}}}
	case "script-attr-short":
		attrs = []*ctypes.Attribute{{Usage: ctypes.Script, Data: []byte{1, 2, 3}}}
	case "dup-input":
		ins = append(ins, ins[0])
	case "coinbase-ref-input":
		ins = []*ctypes.Input{{Previous: ctypes.OutPoint{TxID: common.EmptyHash, Index: 0xffff}, Sequence: 0}}
	case "neg-output":
		outs[0].Value = -5
	case "bad-asset":
		outs[0].AssetID = u256(1)
	case "bad-prefix-output":
		outs[0].ProgramHash = common.Uint168{0x99}
	case "zero-hash-output":
		outs[0].ProgramHash = common.Uint168{}
	case "schnorr-short-param":
		progs = []*pg.Program{{Code: keys.SchnorrCode(keys.Pub(1)), Parameter: []byte{1, 2, 3}}}
	case "multisig-truncated":
		c := keys.MultiSigCode(1, keys.Pubs(1, 2)...)
		progs = []*pg.Program{{Code: c[:len(c)-1], Parameter: []byte{}}}
	}
	return transaction.CreateTransaction(ver, ctypes.TransferAsset, 0, &payload.TransferAsset{}, attrs, ins, outs, 0, progs)
}

var transferMods = []string{"ok", "v0", "no-inputs", "no-outputs", "no-programs", "code22", "code0", "bad-attr", "script-attr-short",
	"dup-input", "coinbase-ref-input", "neg-output", "bad-asset", "bad-prefix-output", "zero-hash-output", "schnorr-short-param", "multisig-truncated"}

// buildBlock assembles a block whose header commits to txs (unless badRoot), with a
// merged-mining proof that AuxPow.Check accepts and a parent nonce that meets the regnet limit.
func buildBlock(height uint32, txs []interfaces.Transaction, badRoot bool) (*types.Block, error) {
	var ids []common.Uint256
	var perr error
	o := guard(func() {
		for _, tx := range txs {
			ids = append(ids, tx.Hash())
		}
	})
	if o.Panicked {
		return nil, fmt.Errorf("harness: hash panicked: %s", o.Value)
	}
	var root common.Uint256
	if len(ids) > 0 {
		root, perr = crypto.ComputeRoot(ids)
		if perr != nil {
			return nil, perr
		}
	}
	if badRoot {
		root[0] ^= 1
	}
	b := &types.Block{Header: ctypes.Header{Version: 0, Previous: u256(0x11), MerkleRoot: root, Timestamp: 1500000000 + height,
		Bits: 0x207fffff, Nonce: 0, Height: height}, Transactions: txs}
	hash := b.Header.Hash()
	// empty aux branch: the committed root is the block hash itself (see auxpow.getBtcCoinbase)
	script := append([]byte{0xfa, 0xbe, 'm', 'm'}, hash[:]...)
	script = append(script, 1, 0, 0, 0, 0, 0, 0, 0)
	cb := auxpow.BtcTx{Version: 1, TxIn: []*auxpow.BtcTxIn{{SignatureScript: script}}, TxOut: []*auxpow.BtcTxOut{}}
	b.Header.AuxPow = auxpow.AuxPow{AuxMerkleBranch: []common.Uint256{}, ParCoinbaseTx: cb, ParCoinBaseMerkle: []common.Uint256{},
		ParBlockHeader: auxpow.BtcHeader{Version: 0x7fffffff, MerkleRoot: cb.Hash(), Timestamp: 1500000000}}
	target := blockchain.CompactToBig(0x207fffff)
	for n := uint32(0); n < 1000; n++ {
		b.Header.AuxPow.ParBlockHeader.Nonce = n
		ph := b.Header.AuxPow.ParBlockHeader.Hash()
		if blockchain.HashToBig(&ph).Cmp(target) <= 0 {
			return b, nil
		}
	}
	return nil, fmt.Errorf("harness: no parent nonce found")
}

func (f *fixture) evalBlock(r *evid.Run, desc string, height uint32, txs []interfaces.Transaction, badRoot bool, ct *blkCounters, classes *evid.Distinct, samples *evid.Samples) {
	b, err := buildBlock(height, txs, badRoot)
	if err != nil {
		ct.undecodable++
		classes.Add("block:unbuildable")
		return
	}
	ct.built++
	var raw []byte
	o := guard(func() {
		buf := new(bytes.Buffer)
		err = b.Serialize(buf)
		raw = buf.Bytes()
	})
	if o.Panicked || err != nil {
		ct.undecodable++
		classes.Add("block:unserializable")
		return
	}
	f.evalBlockBytes(r, desc, raw, ct, classes, samples)
}

func (f *fixture) evalBlockBytes(r *evid.Run, desc string, raw []byte, ct *blkCounters, classes *evid.Distinct, samples *evid.Samples) {
	var dec types.Block
	if err := dec.Deserialize(bytes.NewReader(raw)); err != nil {
		ct.undecodable++
		classes.Add("block:undecodable")
		return
	}
	ct.evals++
	var err error
	o := guard(func() { err = f.chain.CheckBlockSanity(&dec) })
	if o.Panicked {
		ct.panics++
		classes.Add("block:panic:" + o.Site)
		r.Violate(sig(o), "CheckBlockSanity panics on a decodable block",
			map[string]interface{}{"kind": "block", "block": hex.EncodeToString(raw), "desc": desc, "panic": o.Value})
		return
	}
	if err == nil {
		ct.accepted++
		classes.Add("block:accept")
		samples.Add(map[string]interface{}{"block_accept": desc})
	} else {
		ct.rejected++
		classes.Add("block:reject:" + shortErr(err))
	}
}

func (f *fixture) regimes() []uint32 {
	return []uint32{100, f.params.PublicDPOSHeight + 10, 2300000}
}

func runBlocks(r *evid.Run, f *fixture, ct *blkCounters, classes *evid.Distinct, samples *evid.Samples) {
	for _, h := range f.regimes() {
		// full product of coinbase shapes, no second transaction
		for _, ver := range []ctypes.TransactionVersion{ctypes.TxVersionDefault, ctypes.TxVersion09} {
			for nOut := 0; nOut <= 4; nOut++ {
				for _, vm := range []string{"split", "zero", "neg-first", "max"} {
					for _, im := range []string{"ok", "none", "wrongseq", "two"} {
						for nProg := 0; nProg <= 1; nProg++ {
							for _, cl := range []int{0, 4} {
								for _, at := range []bool{false, true} {
									cb := f.coinbase(ver, nOut, vm, im, nProg, cl, at)
									desc := fmt.Sprintf("h=%d coinbase ver=%d outs=%d vals=%s ins=%s progs=%d content=%d attr=%v", h, ver, nOut, vm, im, nProg, cl, at)
									f.evalBlock(r, desc, h, []interfaces.Transaction{cb}, false, ct, classes, samples)
								}
							}
						}
					}
				}
			}
		}
		// canonical coinbase + one deviating second transaction
		good := func() interfaces.Transaction { return f.coinbase(ctypes.TxVersion09, 3, "split", "ok", 0, 4, true) }
		for _, mod := range transferMods {
			f.evalBlock(r, fmt.Sprintf("h=%d second-tx=%s", h, mod), h, []interfaces.Transaction{good(), transferTx(mod)}, false, ct, classes, samples)
		}
		// structural shapes
		f.evalBlock(r, fmt.Sprintf("h=%d no-transactions", h), h, []interfaces.Transaction{}, false, ct, classes, samples)
		f.evalBlock(r, fmt.Sprintf("h=%d first-not-coinbase", h), h, []interfaces.Transaction{transferTx("ok")}, false, ct, classes, samples)
		f.evalBlock(r, fmt.Sprintf("h=%d two-coinbases", h), h, []interfaces.Transaction{good(), f.coinbase(ctypes.TxVersion09, 2, "split", "ok", 0, 0, false)}, false, ct, classes, samples)
		f.evalBlock(r, fmt.Sprintf("h=%d duplicate-tx", h), h, []interfaces.Transaction{good(), transferTx("ok"), transferTx("ok")}, false, ct, classes, samples)
		f.evalBlock(r, fmt.Sprintf("h=%d bad-merkle-root", h), h, []interfaces.Transaction{good()}, true, ct, classes, samples)
		// the merged-mining proof shapes of seam 3, end to end through CheckBlockSanity
		for _, am := range []string{"empty-parent-txin", "script-ends-after-size", "aux-branch-32", "aux-branch-31"} {
			b, err := buildBlock(h, []interfaces.Transaction{good()}, false)
			if err != nil {
				continue
			}
			ap := &b.Header.AuxPow
			hash := b.Header.Hash()
			switch am {
			case "empty-parent-txin":
				ap.ParCoinbaseTx.TxIn = []*auxpow.BtcTxIn{}
			case "script-ends-after-size":
				sc := ap.ParCoinbaseTx.TxIn[0].SignatureScript
				ap.ParCoinbaseTx.TxIn[0].SignatureScript = append([]byte{}, sc[:len(sc)-4]...)
			case "aux-branch-32", "aux-branch-31":
				n := 32
				if am == "aux-branch-31" {
					n = 31
				}
				ap.AuxMerkleBranch = make([]common.Uint256, n)
				ap.AuxMerkleIndex = int(expectedIndex(0, auxpow.AuxPowChainID, n))
				rev := common.BytesReverse(append([]byte{}, hash[:]...))
				rh, _ := common.Uint256FromBytes(rev)
				root := auxpow.GetMerkleRoot(*rh, ap.AuxMerkleBranch, ap.AuxMerkleIndex)
				sc := append([]byte{0xfa, 0xbe, 'm', 'm'}, common.BytesReverse(append([]byte{}, root[:]...))...)
				var size uint32
				if n < 32 {
					size = 1 << uint(n)
				}
				sc = append(sc, byte(size), byte(size>>8), byte(size>>16), byte(size>>24), 0, 0, 0, 0)
				ap.ParCoinbaseTx.TxIn[0].SignatureScript = sc
			}
			ap.ParBlockHeader.MerkleRoot = ap.ParCoinbaseTx.Hash()
			buf := new(bytes.Buffer)
			if err := b.Serialize(buf); err != nil {
				continue
			}
			ct.built++
			f.evalBlockBytes(r, fmt.Sprintf("h=%d auxpow=%s", h, am), buf.Bytes(), ct, classes, samples)
		}
	}
}

// ---------------------------------------------------------------------------------------------

func main() {
	r := evid.Start("C03", "exploration")
	scr := evid.Scratch("c03")
	cleanup := func() { os.RemoveAll(scr) }
	hx.QuietLogs(scr)
	f := newFixture(scr)
	if r.Replay != "" {
		replay(r, f)
		f.close()
		cleanup()
		r.Finish(evid.Coverage{})
		return
	}
	classes := &evid.Distinct{}
	samples := &evid.Samples{N: 12}

	var cc clsCounters
	nScripts := runClassifiers(r, &cc, classes, samples)

	var rc rpCounters
	cands := runRunPrograms(r, &rc, classes, samples)
	// reachability triage of every RunPrograms panic through the real sanity gate
	const height = 2300000
	var sanityOK, sanityRejected int64
	sanityReasons := &evid.Distinct{}
	for _, c := range cands {
		code, _ := hex.DecodeString(c.c.Code)
		param, _ := hex.DecodeString(c.c.Param)
		ok, why, prog := f.sanityAccepts(code, param, height)
		if !ok {
			sanityRejected++
			sanityReasons.Add(why)
			continue
		}
		// re-run on exactly the decoded program
		ph := common.Uint168(keys.ProgramHash(c.c.Prefix, code))
		if !c.c.Match {
			ph = common.Uint168(keys.ProgramHash(c.c.Prefix, []byte("some other code")))
		}
		o := guard(func() { blockchain.RunPrograms([]byte("verif C03 signed data .........................."), []common.Uint168{ph}, []*pg.Program{prog}) })
		if !o.Panicked {
			sanityRejected++
			sanityReasons.Add("no panic on the decoded program")
			continue
		}
		sanityOK++
		r.Violate(sig(o), "RunPrograms panics on a program that the node's SanityCheck accepts",
			map[string]interface{}{"kind": "runprograms", "case": c.c, "panic": o.Value, "sanity_height": height})
	}
	rc.panicsSanityRejected = sanityRejected

	var ac apCounters
	runAuxPow(r, &ac, classes, samples)

	var bc blkCounters
	runBlocks(r, f, &bc, classes, samples)

	var wc wdCounters
	runWithdraw(r, f, &wc, classes, samples)

	var kc cbCounters
	runCoinbaseContext(r, f, &kc, classes, samples)

	var xc xcCounters
	runCrossChain(r, f, &xc, classes, samples)

	f.close()
	cleanup()

	evals := xc.evals + cc.evals + rc.evals + ac.evals + bc.evals + wc.evals + kc.evals
	nontrivial := xc.ctxAccepted + xc.ctxRejected + xc.panics + kc.accepted + kc.panics + wc.accepted + wc.panics + cc.stdTrue + cc.schTrue + cc.msTrue + cc.panicsReach + rc.accepted + rc.panics + ac.accepted + ac.panics + bc.accepted + bc.panics
	r.Assume = append(r.Assume,
		"RunPrograms precondition = what DefaultChecker.CheckAttributeProgram guarantees (code >= 23 bytes, non-nil parameter, Schnorr code only from NormalSchnorrStartHeight); each panic is re-validated through BlockChain.CheckTransactionSanity at mainnet height 2300000 before it is reported",
		"classifier panics on code shorter than 23 bytes are counted (classifier_panics_unreachable) but not alarmed: no call site hands such code to the classifiers",
		"per-transaction-type SanityCheck/SpecialContextCheck on the light-node fixture (other than WithdrawFromSideChain v2) are not driven by this check",
		"checkCoinbaseTransactionContext is driven with an empty arbiter round-reward table and zero final round change (the H2 rule therefore expects exactly two outputs); panics on coinbases that CheckTransactionSanity rejects (fewer than two outputs) are counted (coinbasectx_panics_unreachable) and not alarmed",
		"WithdrawFromSideChain v2 signer indexes: panics at mainnet heights below CrossChainUTXORestrictionHeight are counted (withdraw_panics_historic_only) but not alarmed — only historic blocks are validated there; under the TestNet()/RegNet() parameter sets the restriction height is disabled, so the same path is live and is alarmed",
		"the block fixture uses mainnet parameters with a regnet proof-of-work limit so that headers can be solved")
	r.Finish(evid.Coverage{
		"evaluations":         evals,
		"distinct_nontrivial": nontrivial,
		"outcome_classes":     classes.Len(),
		"rule": "scripts: {m-encoding} x key slots 0..N x {n-encoding} x final opcode x trailing byte, all prefixes of each, through IsStandard/IsSchnorr/IsMultiSig/GetCodeType; " +
			"RunPrograms: 7 address prefixes x code kinds (valid/invalid standard, schnorr, multisig, cross-chain, all truncations >=23 bytes, garbage) x hash match/mismatch x parameter length 0..130 x {zero, valid-signature prefix} contents; " +
			"AuxPow.Check after a wire round trip: parent coinbase TxIn 0..2 x aux branch 0..40 x size field menu x script tail lengths x marker nibble offsets x aux index menu x nonce menu x parent merkle index menu; " +
			"WithdrawFromSideChain v2 SpecialContextCheck after a wire round trip: signer lists {0,1,n-1,n,255}^<=3 and (quorum-3 valid indexes)+{0,1,n-1,n,255}^3 x {mainnet current, mainnet below restriction height, TestNet parameters}; " +
			"TransferCrossChainAsset after a wire round trip: {mainnet <= NewCrossChainStartHeight, mainnet current, RegNet parameters low/high height} x payload version {0,1,2} x tx version {0,9} x outputs 1..3 x OutputIndexes lists of length 0..2 over {0,1,len-1,len,len+1,2^31-1,2^31,2^32-1,2^63-1,2^63,2^64-1} through SanityCheck -> SpecialContextCheck -> IsSmallTransfer, each step only if the previous one accepted; " +
			"checkCoinbaseTransactionContext (hook VerifCheckCoinbaseContext) after a wire round trip of the coinbase: 4 reward regimes {pre-DPoS, H2 with v2 not activated, H2 at the activation boundary, DPoSv2 active} x consensus {DPOS, POW} x fee totals {0,1,10000,123456789} x 3 exactly-correct base coinbases (v2 / H2 / pre-DPoS rule, plus a 4th extra output) x every ordered subset (0..4 outputs) x {exact, each present value +-1, address swaps, value swap}; a panic counts only if CheckTransactionSanity accepts the coinbase; " +
			"CheckBlockSanity after a wire round trip: 3 height regimes x coinbase {version, outputs 0..4, values, inputs, programs, content, attribute} full product + one deviating second transaction + structural shapes. " +
			"non-trivial = classifier-true + accepted + panicking inputs",
		"exhaustive":                      true,
		"scripts":                         nScripts,
		"classifier_calls":                cc.evals,
		"classifier_inputs_len_ge_23":     cc.reachable,
		"classifier_true":                 map[string]int64{"IsStandard": cc.stdTrue, "IsSchnorr": cc.schTrue, "IsMultiSig": cc.msTrue},
		"classifier_panics_reachable":     cc.panicsReach,
		"classifier_panics_unreachable":   cc.panicsUnreach,
		"runprograms_calls":               rc.evals,
		"runprograms_accepted":            rc.accepted,
		"runprograms_rejected":            rc.rejected,
		"runprograms_panics":              rc.panics,
		"runprograms_panics_sanity_ok":    sanityOK,
		"runprograms_panics_not_reachable": sanityRejected,
		"runprograms_unreachable_reasons": sanityReasons.Map(),
		"auxpow_checks":                   ac.evals,
		"auxpow_accepted":                 ac.accepted,
		"auxpow_rejected":                 ac.rejected,
		"auxpow_panics":                   ac.panics,
		"crosschain_checks":               xc.evals,
		"crosschain_sanity_rejected":      xc.sanityRejected,
		"crosschain_context_accepted":     xc.ctxAccepted,
		"crosschain_context_rejected":     xc.ctxRejected,
		"crosschain_panics":               xc.panics,
		"coinbasectx_checks":              kc.evals,
		"coinbasectx_accepted":            kc.accepted,
		"coinbasectx_rejected":            kc.rejected,
		"coinbasectx_panics":              kc.panics,
		"coinbasectx_panics_unreachable":  kc.panicsUnreachable,
		"withdraw_checks":                 wc.evals,
		"withdraw_accepted":               wc.accepted,
		"withdraw_rejected":               wc.rejected,
		"withdraw_panics":                 wc.panics,
		"withdraw_panics_historic_only":   wc.panicsHistoric,
		"blocks_built":                    bc.built,
		"blocks_undecodable":              bc.undecodable,
		"blocks_checked":                  bc.evals,
		"blocks_accepted":                 bc.accepted,
		"blocks_rejected":                 bc.rejected,
		"blocks_panics":                   bc.panics,
		"outcome_class_counts":            classes.Map(),
		"samples":                         samples.Out,
	})
}

func replay(r *evid.Run, f *fixture) {
	var a map[string]interface{}
	s := r.LoadReplay(&a)
	fmt.Printf("replaying %s\n", s)
	classes := &evid.Distinct{}
	samples := &evid.Samples{N: 1}
	switch a["kind"] {
	case "classifier":
		code, _ := hex.DecodeString(a["code"].(string))
		var cc clsCounters
		evalClassifiers(r, code, &cc, classes)
	case "runprograms":
		c := a["case"].(map[string]interface{})
		code, _ := hex.DecodeString(c["code"].(string))
		param, _ := hex.DecodeString(c["param"].(string))
		pre := byte(c["prefix"].(float64))
		ok, why, prog := f.sanityAccepts(code, param, 2300000)
		fmt.Printf("sanity accepts: %v %s\n", ok, why)
		if ok {
			ph := common.Uint168(keys.ProgramHash(pre, code))
			if m, _ := c["hash_matches_code"].(bool); !m {
				ph = common.Uint168(keys.ProgramHash(pre, []byte("some other code")))
			}
			o := guard(func() { blockchain.RunPrograms([]byte("verif C03 signed data .........................."), []common.Uint168{ph}, []*pg.Program{prog}) })
			if o.Panicked {
				fmt.Printf("panic: %s at %s\n", o.Value, o.Site)
				r.Violate(sig(o), "RunPrograms panics on a program that the node's SanityCheck accepts", a)
			}
		}
	case "auxpow":
		raw, _ := hex.DecodeString(a["auxpow"].(string))
		hb, _ := hex.DecodeString(a["block_hash"].(string))
		var dec auxpow.AuxPow
		if err := dec.Deserialize(bytes.NewReader(raw)); err != nil {
			evid.Fatalf("replay: proof does not decode: %v", err)
		}
		h, _ := common.Uint256FromBytes(hb)
		var ac apCounters
		evalAuxPow(r, &dec, *h, fmt.Sprint(a["desc"]), &ac, classes, samples)
	case "block":
		raw, _ := hex.DecodeString(a["block"].(string))
		var bc blkCounters
		f.evalBlockBytes(r, fmt.Sprint(a["desc"]), raw, &bc, classes, samples)
	case "crosschain":
		fmt.Println("cross-chain artefacts are re-derived by the enumeration: running seam 7 only")
		var xc xcCounters
		runCrossChain(r, f, &xc, classes, samples)
	case "coinbasectx":
		fmt.Println("coinbase-context artefacts are re-derived by the enumeration: running seam 6 only")
		installArbiters(f)
		var kc cbCounters
		runCoinbaseContext(r, f, &kc, classes, samples)
	case "withdraw":
		fmt.Println("withdraw artefacts are re-derived by the enumeration: running seam 5 only")
		var wc wdCounters
		runWithdraw(r, f, &wc, classes, samples)
	default:
		evid.Fatalf("unknown artefact kind %v", a["kind"])
	}
	for k, v := range classes.Map() {
		fmt.Printf("  outcome %s x%d\n", k, v)
	}
}
