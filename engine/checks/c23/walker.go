package main

import (
	"fmt"
	"os"
	"reflect"
	"runtime/debug"
	"sort"
	"strings"
	"unsafe"

	"verif/dposkit"
)

// Part (a): field-by-field round trip of every checkpoint type.
//
// For a target type T the walker builds, purely by reflection (unexported fields are written
// through unsafe pointers, so no accessor is needed in the repository):
//   - the all-populated instance P: every scalar leaf gets a non-zero sample, every map and
//     slice one element, every interface site the concrete type of the current variant;
//   - for EVERY line of the canonical rendering of P (i.e. every leaf field and every container
//     length) the singleton instance in which only that leaf is non-zero (containers on the way
//     to it hold one element whose other fields are zero; struct pointers are allocated).
// Each instance goes through Serialize -> bytes -> Deserialize into a fresh value; a leaf is
// preserved by an instance if its canonical line is present unchanged afterwards.
//
// Verdict (conservative): a leaf is reported only if NO instance in which it was non-zero
// preserves it (singleton and all-populated, over all interface variants in which it exists),
// and at least one such instance went through Serialize/Deserialize without error.

type target struct {
	name      string
	typ       reflect.Type
	roundTrip func(ptr reflect.Value) (out reflect.Value, err error)
	// generic leaf paths that are not part of the persisted state, with the reason
	notState map[string]string
	// concrete types for interface-typed fields, by variant
	variants []map[reflect.Type]reflect.Type
	// fixed (valid) values for discriminating fields: generic path -> value
	fixed map[string]interface{}
	// interface-typed fields that every instance must carry (the encoder dereferences them)
	always map[string]bool
}

type popCtx struct {
	t       *target
	variant map[reflect.Type]reflect.Type
	sel     string // "" = populate everything; else the only leaf path to populate
}

func (c *popCtx) on(path string) bool { // is the selected leaf at or beneath path?
	if c.sel == "" {
		return true
	}
	return c.sel == path || strings.HasPrefix(c.sel, path+".") || strings.HasPrefix(c.sel, path+"[") || strings.HasPrefix(c.sel, path+"{")
}

func writable(v reflect.Value) reflect.Value {
	if v.CanSet() {
		return v
	}
	return reflect.NewAt(v.Type(), unsafe.Pointer(v.UnsafeAddr())).Elem()
}

var backPointerTypes = map[string]bool{
	"state.Arbiters": true, "state.Committee": true, "mempool.TxPool": true, "state.State": true,
}

// sampleScalar sets a non-zero sample into a scalar leaf.
func sampleScalar(v reflect.Value) bool {
	switch v.Kind() {
	case reflect.Bool:
		v.SetBool(true)
	case reflect.Int, reflect.Int8, reflect.Int16, reflect.Int32, reflect.Int64:
		v.SetInt(7)
	case reflect.Uint, reflect.Uint8, reflect.Uint16, reflect.Uint32, reflect.Uint64:
		v.SetUint(7)
	case reflect.Float32, reflect.Float64:
		v.SetFloat(1.5)
	case reflect.String:
		v.SetString("s")
	case reflect.Slice:
		if v.Type().Elem().Kind() != reflect.Uint8 {
			return false
		}
		v.Set(reflect.MakeSlice(v.Type(), 3, 3))
		for i := 0; i < 3; i++ {
			v.Index(i).SetUint(uint64(i + 1))
		}
	case reflect.Array:
		if v.Type().Elem().Kind() != reflect.Uint8 {
			return false
		}
		for i := 0; i < v.Len(); i++ {
			v.Index(i).SetUint(uint64(i%250 + 1))
		}
	default:
		return false
	}
	return true
}

func isScalar(t reflect.Type) bool {
	switch t.Kind() {
	case reflect.Bool, reflect.Int, reflect.Int8, reflect.Int16, reflect.Int32, reflect.Int64,
		reflect.Uint, reflect.Uint8, reflect.Uint16, reflect.Uint32, reflect.Uint64, reflect.Float32, reflect.Float64, reflect.String:
		return true
	case reflect.Slice, reflect.Array:
		return t.Elem().Kind() == reflect.Uint8
	}
	return false
}

// fill populates v (addressable) at canonical path `path` / generic path gpath.
func (c *popCtx) fill(v reflect.Value, path, gpath string, depth int) {
	if depth > 14 {
		return
	}
	v = writable(v)
	if fx, ok := c.t.fixed[gpath]; ok {
		// discriminating field with a fixed valid value (part of every instance)
		v.Set(reflect.ValueOf(fx).Convert(v.Type()))
		return
	}
	t := v.Type()
	if isScalar(t) {
		if c.sel == "" || c.sel == path {
			sampleScalar(v)
		}
		return
	}
	switch t.Kind() {
	case reflect.Ptr:
		et := t.Elem()
		if et.Kind() == reflect.Struct && backPointerTypes[et.String()] {
			return
		}
		if et.Kind() == reflect.Struct || c.on(path) {
			nv := reflect.New(et)
			c.fill(nv.Elem(), path, gpath, depth+1)
			v.Set(nv)
		}
	case reflect.Interface:
		ct, ok := c.variant[t]
		if !ok || (!c.on(path) && !c.t.always[gpath]) {
			return
		}
		nv := reflect.New(ct)
		c.fill(nv.Elem(), path, gpath, depth+1)
		if reflect.PtrTo(ct).Implements(t) {
			v.Set(nv)
		} else {
			v.Set(nv.Elem())
		}
	case reflect.Struct:
		if strings.HasPrefix(t.PkgPath(), "sync") {
			return
		}
		for i := 0; i < t.NumField(); i++ {
			f := t.Field(i)
			c.fill(v.Field(i), path+"."+f.Name, gpath+"."+f.Name, depth+1)
		}
	case reflect.Map:
		v.Set(reflect.MakeMap(t))
		if !c.on(path) {
			return
		}
		k := reflect.New(t.Key()).Elem()
		kc := &popCtx{t: c.t, variant: c.variant}
		kc.fill(k, "", "", depth+1) // keys are always fully sampled
		ep := path + "[" + dposkit.InlineKey(k) + "]"
		e := reflect.New(t.Elem()).Elem()
		if c.sel != path+".len" {
			c.fill(e, ep, gpath+"[*]", depth+1)
		} else {
			(&popCtx{t: c.t, variant: c.variant, sel: "\x00none"}).fill(e, ep, gpath+"[*]", depth+1)
		}
		v.SetMapIndex(k, e)
	case reflect.Slice:
		if !c.on(path) {
			return
		}
		e := reflect.New(t.Elem()).Elem()
		ep := path + "[0]"
		if c.sel != path+".len" {
			c.fill(e, ep, gpath+"[*]", depth+1)
		} else {
			(&popCtx{t: c.t, variant: c.variant, sel: "\x00none"}).fill(e, ep, gpath+"[*]", depth+1)
		}
		v.Set(reflect.Append(reflect.MakeSlice(t, 0, 1), e))
	}
}

func (t *target) build(variant map[reflect.Type]reflect.Type, sel string) reflect.Value {
	p := reflect.New(t.typ)
	(&popCtx{t: t, variant: variant, sel: sel}).fill(p.Elem(), "", "", 0)
	return p
}

var walkCanon = &dposkit.CanonOpts{}

var debugLeaves = os.Getenv("C23_LEAVES") != ""

func linesOf(v reflect.Value) []string { return dposkit.Canon(v.Interface(), walkCanon) }

type leafStat struct {
	set, usable, preserved int
	example                string
}

type walkResult struct {
	instances, usable, leaves int
	lossy                     []string          // generic leaf paths never preserved
	why                       map[string]string // example text per lossy leaf
	unusable                  map[string]string // leaves whose every instance failed to round-trip (error text)
}

func safeRoundTrip(t *target, p reflect.Value) (out reflect.Value, err error) {
	defer func() {
		if e := recover(); e != nil {
			err = fmt.Errorf("panic: %v at %s", e, firstFrame(debug.Stack()))
		}
	}()
	return t.roundTrip(p)
}

func firstFrame(st []byte) string {
	for _, l := range strings.Split(string(st), "\n") {
		if strings.Contains(l, "Elastos.ELA/") && !strings.HasPrefix(l, "\t") {
			if i := strings.LastIndex(l, "("); i > 0 {
				l = l[:i]
			}
			return strings.TrimPrefix(l, "github.com/elastos/Elastos.ELA/")
		}
	}
	return "?"
}

func pathOfLine(l string) string {
	if i := dposkit.SepIndex(l); i >= 0 {
		return l[:i]
	}
	return l
}

// walk runs the whole procedure for one target.
func (t *target) walk() walkResult {
	res := walkResult{why: map[string]string{}, unusable: map[string]string{}}
	stats := map[string]*leafStat{} // by generic leaf path
	errs := map[string]string{}
	get := func(g string) *leafStat {
		if s, ok := stats[g]; ok {
			return s
		}
		s := &leafStat{}
		stats[g] = s
		return s
	}
	variants := t.variants
	if len(variants) == 0 {
		variants = []map[reflect.Type]reflect.Type{{}}
	}
	for _, variant := range variants {
		full := t.build(variant, "")
		fullLines := linesOf(full)
		// instances: the all-populated one plus one singleton per line
		type inst struct {
			v     reflect.Value
			leafs []string // lines that are non-zero on purpose in this instance
		}
		insts := []inst{{full, fullLines}}
		for _, l := range fullLines {
			if strings.HasSuffix(pathOfLine(l), ".(type)") {
				continue
			}
			sv := t.build(variant, pathOfLine(l))
			insts = append(insts, inst{sv, []string{l}})
		}
		for _, in := range insts {
			res.instances++
			before := linesOf(in.v)
			have := map[string]bool{}
			for _, l := range before {
				have[l] = true
			}
			out, err := safeRoundTrip(t, in.v)
			var after map[string]bool
			if err == nil {
				res.usable++
				after = map[string]bool{}
				for _, l := range linesOf(out) {
					after[l] = true
				}
			}
			for _, l := range in.leafs {
				if !have[l] {
					continue // the instance does not actually carry this leaf (fixed / unsettable)
				}
				p := pathOfLine(l)
				if strings.HasSuffix(p, ".(type)") {
					continue
				}
				if isZeroLine(l) {
					continue
				}
				g := dposkit.Generic(p)
				if notPersisted(t, g) {
					continue
				}
				s := get(g)
				s.set++
				if err != nil {
					if _, ok := errs[g]; !ok {
						errs[g] = err.Error()
					}
					continue
				}
				s.usable++
				if after[l] {
					s.preserved++
				} else if s.example == "" {
					s.example = l
				}
			}
		}
	}
	var gs []string
	for g := range stats {
		gs = append(gs, g)
	}
	sort.Strings(gs)
	for _, g := range gs {
		s := stats[g]
		if debugLeaves {
			fmt.Printf("    %s leaf %s: set %d usable %d preserved %d\n", t.name, g, s.set, s.usable, s.preserved)
		}
		res.leaves++
		if s.usable == 0 {
			res.unusable[g] = errs[g]
			continue
		}
		if s.preserved == 0 {
			res.lossy = append(res.lossy, g)
			res.why[g] = fmt.Sprintf("set in %d instance(s) that serialize and deserialize without error, never present afterwards (e.g. before: %s)", s.usable, s.example)
		}
	}
	return res
}

// notPersistedEverywhere: leaves that no checkpoint persists on purpose, matched as a suffix of
// the generic path.
var notPersistedEverywhere = map[string]string{
	".Info.Signature": "signature of the registration payload (CRInfo): checked when the transaction is accepted, never read from the state afterwards; the frames use SerializeUnsigned on purpose",
}

func notPersisted(t *target, g string) bool {
	if _, ok := t.notState[g]; ok {
		return true
	}
	for sfx := range notPersistedEverywhere {
		if strings.HasSuffix(g, sfx) {
			return true
		}
	}
	return false
}

// fieldGroup is the persisted field a leaf belongs to: the path up to the first container.
func fieldGroup(g string) string {
	g = strings.TrimSuffix(g, ".len")
	if i := strings.Index(g, "["); i >= 0 {
		g = g[:i]
	}
	return g
}

// isZeroLine: a canonical line that denotes an empty / zero value (not a populated leaf).
func isZeroLine(l string) bool {
	i := dposkit.SepIndex(l)
	if i < 0 {
		return true
	}
	switch l[i+3:] {
	case "0", "false", `""`, "0x", "nil":
		return true
	}
	return false
}
