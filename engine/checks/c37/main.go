// C37: wallet signatures verify, and only for the signed data; address / amount codecs round-trip.
//
// Enumerated (all through the repository's real functions):
//
//	A. account.SignStandardTransaction, account.SignMultiSignTransaction (one cosigner wallet per
//	   call, chained), account.SignMultiSignTransactionByM, crypto.AggregateSignatures over
//	   account.NewSchnorrAggregateAccount — for every 1 <= m <= n <= 4, every signer subset of size
//	   >= m in every signing order (size < m: must NOT pass), every non-empty subset of 4 keys for
//	   Schnorr, 3 transaction shapes — verified by blockchain.RunPrograms; then every single-byte
//	   substitution (position x 16-value alphabet) of the signed bytes must fail.
//	B. Uint168.ToAddress / Uint168FromAddress over every issued prefix x structured hashes.
//	C. Fixed64.String / StringToFixed64 over the amount alphabet, all d*10^k (d <= 999), negatives,
//	   MinInt64.
//
// Oracles: RunPrograms verdicts; an independent verifier (package keys: crypto/ecdsa, textbook
// Schnorr) must agree that the wallet's signatures are valid; an independent base58check encoder
// and an independent big.Int amount formatter give the expected strings.
package main

import (
	"bytes"
	"crypto/elliptic"
	"crypto/sha256"
	"encoding/hex"
	"fmt"
	"math"
	"math/big"
	"os"
	"runtime/debug"
	"sort"
	"strings"
	"sync"
	"sync/atomic"

	"github.com/elastos/Elastos.ELA/account"
	"github.com/elastos/Elastos.ELA/blockchain"
	"github.com/elastos/Elastos.ELA/common"
	"github.com/elastos/Elastos.ELA/core"
	pg "github.com/elastos/Elastos.ELA/core/contract/program"
	"github.com/elastos/Elastos.ELA/core/transaction"
	ctypes "github.com/elastos/Elastos.ELA/core/types/common"
	"github.com/elastos/Elastos.ELA/core/types/functions"
	"github.com/elastos/Elastos.ELA/core/types/interfaces"
	"github.com/elastos/Elastos.ELA/core/types/outputpayload"
	"github.com/elastos/Elastos.ELA/core/types/payload"
	"github.com/elastos/Elastos.ELA/crypto"

	"verif/evid"
	"verif/hx"
	"verif/keys"
	"verif/par"
)

type counters struct {
	signFlows, signRefused, verified, undersigned, mutations, mutRejected int64
	addr, addrTamper, amounts, amountsOK                              int64
}

type checker struct {
	r       *evid.Run
	ct      counters
	classes evid.Distinct
	samples *evid.Samples
}

func sha256d(b []byte) [32]byte {
	h := sha256.Sum256(b)
	return sha256.Sum256(h[:])
}

func guardErr(f func() error) (err error, panicked string) {
	defer func() {
		if e := recover(); e != nil {
			panicked = evid.PanicSite(debug.Stack()) + ": " + fmt.Sprint(e)
		}
	}()
	return f(), ""
}

// ---------------------------------------------------------------------------------------------
// transactions

func txShapes() []func() interfaces.Transaction {
	to := common.Uint168(keys.ProgramHash(keys.PrefixStandard, keys.StandardCode(keys.Pub(9))))
	to2 := common.Uint168(keys.ProgramHash(keys.PrefixMultiSig, keys.MultiSigCode(1, keys.Pubs(8, 9)...)))
	in := func(i byte) *ctypes.Input {
		var id common.Uint256
		id[0], id[31] = i, 0x37
		return &ctypes.Input{Previous: ctypes.OutPoint{TxID: id, Index: uint16(i)}, Sequence: uint32(i)}
	}
	out := func(v common.Fixed64, h common.Uint168) *ctypes.Output {
		return &ctypes.Output{AssetID: core.ELAAssetID, Value: v, ProgramHash: h, Type: ctypes.OTNone, Payload: &outputpayload.DefaultOutput{}}
	}
	return []func() interfaces.Transaction{
		func() interfaces.Transaction {
			return transaction.CreateTransaction(ctypes.TxVersion09, ctypes.TransferAsset, 0, &payload.TransferAsset{},
				[]*ctypes.Attribute{{Usage: ctypes.Nonce, Data: []byte{1}}}, []*ctypes.Input{in(1)}, []*ctypes.Output{out(100000000, to)}, 0, nil)
		},
		func() interfaces.Transaction {
			return transaction.CreateTransaction(ctypes.TxVersionDefault, ctypes.TransferAsset, 0, &payload.TransferAsset{},
				[]*ctypes.Attribute{{Usage: ctypes.Nonce, Data: []byte{9, 9}}, {Usage: ctypes.Memo, Data: []byte("memo")}},
				[]*ctypes.Input{in(2), in(3)}, []*ctypes.Output{out(1, to), out(math.MaxInt64, to2)}, 77, nil)
		},
		func() interfaces.Transaction {
			return transaction.CreateTransaction(ctypes.TxVersion09, ctypes.Record, 0, &payload.Record{Type: "verif", Content: []byte("C37 record payload")},
				[]*ctypes.Attribute{{Usage: ctypes.Nonce, Data: []byte{3}}}, []*ctypes.Input{in(4)}, []*ctypes.Output{out(5000, to)}, 0, nil)
		},
	}
}

func unsigned(tx interfaces.Transaction) []byte {
	buf := new(bytes.Buffer)
	if err := tx.SerializeUnsigned(buf); err != nil {
		evid.Fatalf("SerializeUnsigned: %v", err)
	}
	return append([]byte{}, buf.Bytes()...)
}

func alphabet(b byte) []byte {
	cand := []byte{0x00, 0x01, 0x7f, 0x80, 0xff, b ^ 0x01, b ^ 0x80, b + 1, b - 1, 0x21, 0x40, 0x41, 0x51, 0xac, 0xae, 0xaf, b ^ 0x02, 0x02, 0x03}
	seen := map[byte]bool{b: true}
	var out []byte
	for _, v := range cand {
		if !seen[v] && len(out) < 16 {
			seen[v] = true
			out = append(out, v)
		}
	}
	return out
}

// ---------------------------------------------------------------------------------------------
// wallets

var acctMu sync.Mutex
var accts = map[int]*account.Account{}

func acct(i int) *account.Account {
	acctMu.Lock()
	defer acctMu.Unlock()
	if a, ok := accts[i]; ok {
		return a
	}
	a, err := account.NewAccountWithPrivateKey(keys.Priv(i))
	if err != nil {
		evid.Fatalf("NewAccountWithPrivateKey: %v", err)
	}
	accts[i] = a
	return a
}

func walletOf(idx ...int) map[common.Uint160]*account.Account {
	m := map[common.Uint160]*account.Account{}
	for _, i := range idx {
		a := acct(i)
		m[a.ProgramHash.ToCodeHash()] = a
	}
	return m
}

// refValid: independent verdict on (code, param, data) for the three wallet layouts.
func refValid(code, param, data []byte) bool {
	switch {
	case len(code) == 35 && code[0] == 0x21 && code[34] == keys.OpCheckSig:
		return len(param) == 65 && keys.VerifyECDSA(code[1:34], data, param[1:])
	case len(code) == 35 && code[0] == keys.OpPush1 && code[1] == 0x21:
		return len(param) >= 64 && keys.VerifySchnorr(code[2:], sha256d(data), param[:64])
	case len(code) >= 37 && code[len(code)-1] == keys.OpCheckMultiSig:
		n := (len(code) - 3) / 34
		m := int(code[0]) - 0x50
		if len(param)%65 != 0 {
			return false
		}
		seen := map[int]bool{}
		for i := 0; i+65 <= len(param); i += 65 {
			for k := 0; k < n; k++ {
				if keys.VerifyECDSA(code[2+34*k:2+34*k+33], data, param[i+1:i+65]) {
					seen[k] = true
				}
			}
		}
		return m >= 1 && len(seen) >= m
	}
	return false
}

type signedCase struct {
	kind  string // standard | multisig m/n | schnorr k
	desc  string
	hash  common.Uint168
	prog  *pg.Program
	data  []byte
	shape int
}

// verify runs the node's check on a wallet-signed program; expectPass=false for undersigned ones.
func (c *checker) verify(sc signedCase, expectPass bool) bool {
	err, pan := guardErr(func() error { return blockchain.RunPrograms(sc.data, []common.Uint168{sc.hash}, []*pg.Program{sc.prog}) })
	art := map[string]interface{}{"kind": "signed", "what": sc.kind, "desc": sc.desc, "hash": hex.EncodeToString(sc.hash[:]),
		"code": hex.EncodeToString(sc.prog.Code), "param": hex.EncodeToString(sc.prog.Parameter), "data": hex.EncodeToString(sc.data)}
	ref := refValid(sc.prog.Code, sc.prog.Parameter, sc.data)
	if expectPass {
		atomic.AddInt64(&c.ct.verified, 1)
		if !ref {
			c.r.Violate("C37|wallet-signature-invalid|"+kindClass(sc.kind), "the independent verifier rejects a signature set produced by the wallet", art)
		}
		if err != nil || pan != "" {
			art["error"] = fmt.Sprint(err, pan)
			c.r.Violate("C37|wallet-signature-rejected|"+kindClass(sc.kind), "a wallet-signed transaction does not pass the node's signature check", art)
			return false
		}
		c.classes.Add("signed-accepted:" + kindClass(sc.kind))
		return true
	}
	atomic.AddInt64(&c.ct.undersigned, 1)
	if err == nil && pan == "" {
		c.r.Violate("C37|undersigned-accepted|"+kindClass(sc.kind), "a multisig transaction with fewer than m wallet signatures passes the node's signature check", art)
	} else {
		c.classes.Add("undersigned-rejected:" + kindClass(sc.kind))
	}
	return false
}

func kindClass(k string) string {
	if i := strings.Index(k, " "); i > 0 {
		return k[:i]
	}
	return k
}

// mutate: every single-byte substitution of the signed bytes must be rejected.
func (c *checker) mutate(sc signedCase) {
	for pos := range sc.data {
		for _, v := range alphabet(sc.data[pos]) {
			d := append([]byte{}, sc.data...)
			d[pos] = v
			atomic.AddInt64(&c.ct.mutations, 1)
			p := &pg.Program{Code: append([]byte{}, sc.prog.Code...), Parameter: append([]byte{}, sc.prog.Parameter...)}
			err, pan := guardErr(func() error { return blockchain.RunPrograms(d, []common.Uint168{sc.hash}, []*pg.Program{p}) })
			if err == nil && pan == "" {
				c.r.Violate("C37|mutated-data-accepted|"+kindClass(sc.kind), "a wallet signature still verifies after one byte of the signed content was changed",
					map[string]interface{}{"kind": "mutation", "what": sc.kind, "desc": sc.desc, "pos": pos, "value": v, "hash": hex.EncodeToString(sc.hash[:]),
						"code": hex.EncodeToString(sc.prog.Code), "param": hex.EncodeToString(sc.prog.Parameter), "data": hex.EncodeToString(d)})
			} else {
				atomic.AddInt64(&c.ct.mutRejected, 1)
			}
		}
	}
}

// otherPrefixes: a wallet-signed multisig program is also what spends a multisig DEPOSIT address
// (prefix 0x1f) or a multisig script paid to under the standard prefix (0x21): RunPrograms
// decides by code kind there. The same program must pass under those prefixes, and altered data,
// all-zero signatures and a dropped signature must fail under every prefix RunPrograms routes
// (0x12, 0x21, 0x1f and the cross-chain prefix 0x4b).
func (c *checker) otherPrefixes(sc signedCase) {
	if !strings.HasPrefix(sc.kind, "multisig ") {
		return
	}
	run := func(pre byte, param, data []byte) bool {
		h := common.Uint168(keys.ProgramHash(pre, sc.prog.Code))
		p := &pg.Program{Code: append([]byte{}, sc.prog.Code...), Parameter: append([]byte{}, param...)}
		err, pan := guardErr(func() error { return blockchain.RunPrograms(data, []common.Uint168{h}, []*pg.Program{p}) })
		return err == nil && pan == ""
	}
	art := func(pre byte, what string, param, data []byte) map[string]interface{} {
		h := keys.ProgramHash(pre, sc.prog.Code)
		return map[string]interface{}{"kind": "mutation", "what": sc.kind, "desc": sc.desc + " " + what, "hash": hex.EncodeToString(h[:]),
			"code": hex.EncodeToString(sc.prog.Code), "param": hex.EncodeToString(param), "data": hex.EncodeToString(data)}
	}
	n := (len(sc.prog.Code) - 3) / 34
	for _, pre := range []byte{keys.PrefixMultiSig, keys.PrefixStandard, keys.PrefixDeposit, keys.PrefixCrossChain} {
		tag := fmt.Sprintf("multisig|prefix=%02x", pre)
		if pre == keys.PrefixStandard || pre == keys.PrefixDeposit {
			atomic.AddInt64(&c.ct.verified, 1)
			if n >= 2 && !run(pre, sc.prog.Parameter, sc.data) {
				c.r.Violate("C37|wallet-signature-rejected|"+tag, "a wallet-signed multisig program does not pass under the deposit/standard prefix of the same script", art(pre, "valid", sc.prog.Parameter, sc.data))
			} else {
				c.classes.Add("signed-accepted:" + tag)
			}
			for pos := range sc.data {
				for _, v := range alphabet(sc.data[pos])[:2] {
					d := append([]byte{}, sc.data...)
					d[pos] = v
					atomic.AddInt64(&c.ct.mutations, 1)
					if run(pre, sc.prog.Parameter, d) {
						c.r.Violate("C37|mutated-data-accepted|"+tag, "a wallet signature still verifies after one byte of the signed content was changed", art(pre, fmt.Sprintf("pos=%d", pos), sc.prog.Parameter, d))
					} else {
						atomic.AddInt64(&c.ct.mutRejected, 1)
					}
				}
			}
		}
		zero := make([]byte, len(sc.prog.Parameter))
		for i := 0; i < len(zero); i += 65 {
			zero[i] = 0x40
		}
		fewer := sc.prog.Parameter[:len(sc.prog.Parameter)-65]
		other := append([]byte{}, sc.data...)
		other[len(other)-1] ^= 0xff
		for _, v := range []struct {
			name        string
			param, data []byte
		}{{"zero-signatures", zero, sc.data}, {"fewer-signatures", fewer, sc.data}, {"zero-signatures+altered-data", zero, other}, {"altered-data", sc.prog.Parameter, other}} {
			atomic.AddInt64(&c.ct.mutations, 1)
			if run(pre, v.param, v.data) {
				c.r.Violate("C37|unsigned-accepted|"+tag, "a multisig program without the wallet's valid signatures over these bytes passes the node's signature check", art(pre, v.name, v.param, v.data))
			} else {
				atomic.AddInt64(&c.ct.mutRejected, 1)
			}
		}
	}
}

func permutations(a []int) [][]int {
	if len(a) <= 1 {
		return [][]int{append([]int{}, a...)}
	}
	var out [][]int
	for i := range a {
		rest := append(append([]int{}, a[:i]...), a[i+1:]...)
		for _, p := range permutations(rest) {
			out = append(out, append([]int{a[i]}, p...))
		}
	}
	return out
}

func subsets(n int) [][]int {
	var out [][]int
	for mask := 0; mask < 1<<uint(n); mask++ {
		var s []int
		for i := 0; i < n; i++ {
			if mask&(1<<uint(i)) != 0 {
				s = append(s, i)
			}
		}
		out = append(out, s)
	}
	return out
}

func (c *checker) partA() {
	shapes := txShapes()
	var toMutate []signedCase
	var mu sync.Mutex
	addMut := func(sc signedCase) { mu.Lock(); toMutate = append(toMutate, sc); mu.Unlock() }

	// standard accounts
	for si, mk := range shapes {
		for k := 0; k < 4; k++ {
			tx := mk()
			a := acct(k)
			atomic.AddInt64(&c.ct.signFlows, 1)
			var sp *pg.Program
			err, pan := guardErr(func() (e error) {
				sp, e = account.SignStandardTransaction(tx, &pg.Program{Code: a.RedeemScript}, walletOf(k))
				return
			})
			if err != nil || pan != "" {
				c.r.Violate("C37|wallet-sign-failed|standard", "the wallet cannot sign for its own standard account", map[string]interface{}{"kind": "sign", "error": fmt.Sprint(err, pan)})
				continue
			}
			sc := signedCase{"standard", fmt.Sprintf("key=%d shape=%d", k, si), a.ProgramHash, sp, unsigned(tx), si}
			if c.verify(sc, true) && k == 0 {
				addMut(sc)
			}
		}
	}

	// multisig accounts
	for n := 1; n <= 4; n++ {
		for m := 1; m <= n; m++ {
			var pks []*crypto.PublicKey
			for i := 0; i < n; i++ {
				pks = append(pks, acct(i).PublicKey)
			}
			ma, err := account.NewMultiSigAccount(m, pks)
			if err != nil || ma == nil || ma.RedeemScript == nil {
				c.classes.Add(fmt.Sprintf("wallet-refuses-account:multisig %d/%d", m, n))
				atomic.AddInt64(&c.ct.signRefused, 1)
				continue
			}
			kind := fmt.Sprintf("multisig %d/%d", m, n)
			mutated := map[int]bool{}
			for _, sub := range subsets(n) {
				if len(sub) == 0 {
					continue
				}
				for _, order := range permutations(sub) {
					for si, mk := range shapes {
						tx := mk()
						atomic.AddInt64(&c.ct.signFlows, 1)
						p := &pg.Program{Code: ma.RedeemScript}
						var serr error
						var span string
						for _, signer := range order {
							// one cosigner's wallet holds only its own key
							var np *pg.Program
							serr, span = guardErr(func() (e error) {
								np, e = account.SignMultiSignTransaction(tx, p, walletOf(signer))
								return
							})
							if serr != nil || span != "" {
								break
							}
							p = np
						}
						if serr != nil || span != "" {
							atomic.AddInt64(&c.ct.signRefused, 1)
							c.classes.Add("wallet-cannot-sign:" + kind + ": " + shortS(fmt.Sprint(serr, span)))
							continue
						}
						sc := signedCase{kind, fmt.Sprintf("signers=%v shape=%d", order, si), ma.ProgramHash, p, unsigned(tx), si}
						if len(order) >= m {
							ok := c.verify(sc, true)
							// mutate one canonical flow per (m,n,shape): the first subset of exactly m signers
							if ok && len(order) == m && !mutated[si] {
								mutated[si] = true
								addMut(sc)
							}
						} else {
							c.verify(sc, false)
						}
					}
				}
			}
			// whole-wallet flow: SignMultiSignTransactionByM with all n keys in one wallet
			all := make([]int, n)
			for i := range all {
				all[i] = i
			}
			for si, mk := range shapes {
				tx := mk()
				atomic.AddInt64(&c.ct.signFlows, 1)
				var sp *pg.Program
				err, pan := guardErr(func() (e error) {
					sp, e = account.SignMultiSignTransactionByM(m, tx, &pg.Program{Code: ma.RedeemScript}, walletOf(all...))
					return
				})
				if err != nil || pan != "" {
					atomic.AddInt64(&c.ct.signRefused, 1)
					c.classes.Add("wallet-cannot-sign:ByM " + kind + ": " + shortS(fmt.Sprint(err, pan)))
					continue
				}
				c.verify(signedCase{"multisigByM " + fmt.Sprintf("%d/%d", m, n), fmt.Sprintf("shape=%d", si), ma.ProgramHash, sp, unsigned(tx), si}, true)
			}
		}
	}

	// aggregated Schnorr accounts
	for _, sub := range subsets(4) {
		if len(sub) == 0 {
			continue
		}
		var as []*account.Account
		for _, i := range sub {
			as = append(as, acct(i))
		}
		sa := account.NewSchnorrAggregateAccount(as)
		if sa == nil || sa.RedeemScript == nil || sa.ProgramHash == nil {
			c.classes.Add("wallet-refuses-account:schnorr")
			continue
		}
		for si, mk := range shapes {
			tx := mk()
			data := unsigned(tx)
			atomic.AddInt64(&c.ct.signFlows, 1)
			var sig [64]byte
			err, pan := guardErr(func() (e error) { sig, e = crypto.AggregateSignatures(sa.PrivateKeys, common.Sha256D(data)); return })
			if err != nil || pan != "" {
				c.r.Violate("C37|wallet-sign-failed|schnorr", "crypto.AggregateSignatures fails for valid private keys", map[string]interface{}{"kind": "sign", "keys": sub, "error": fmt.Sprint(err, pan)})
				continue
			}
			sc := signedCase{fmt.Sprintf("schnorr %d", len(sub)), fmt.Sprintf("keys=%v shape=%d", sub, si), *sa.ProgramHash,
				&pg.Program{Code: sa.RedeemScript, Parameter: append([]byte{}, sig[:]...)}, data, si}
			if c.verify(sc, true) && (len(sub) == 1 && sub[0] == 0 || len(sub) == 4 || len(sub) == 2 && sub[0] == 0 && sub[1] == 1 || len(sub) == 3 && sub[0] == 0 && sub[2] == 2) {
				addMut(sc)
			}
		}
	}

	sort.Slice(toMutate, func(i, j int) bool {
		if toMutate[i].kind != toMutate[j].kind {
			return toMutate[i].kind < toMutate[j].kind
		}
		return toMutate[i].desc < toMutate[j].desc
	})
	par.Go(len(toMutate), func(i int) { c.mutate(toMutate[i]); c.otherPrefixes(toMutate[i]) })
	c.samples.Add(map[string]interface{}{"mutated_flows": len(toMutate)})
	for i := 0; i < len(toMutate) && i < 4; i++ {
		c.samples.Add(map[string]interface{}{"signed": toMutate[i].kind, "desc": toMutate[i].desc, "signed_bytes": len(toMutate[i].data)})
	}
}

func shortS(s string) string {
	if len(s) > 60 {
		s = s[:60]
	}
	return s
}

// ---------------------------------------------------------------------------------------------
// A2: many distinct signatures through the wallet's real signing path, so that every encoding
// case of (r, s) occurs: r or s shorter than 32 bytes (leading zero byte, probability 2^-8 each)
// must still be laid out right-aligned and verify. Rounds of 4096 distinct transactions (lock
// time = counter, 4 keys) signed by account.SignStandardTransaction, plus 4096 distinct raw
// messages signed by Account.Sign, until short-r and short-s have each been produced >= 4 times
// on the transaction path (hard cap on rounds). Each signature is checked by
// blockchain.RunPrograms / crypto.Verify and by the independent verifier.

type sigStats struct {
	txSigs, rawSigs, shortR, shortS, shortRraw, shortSraw int64
}

func (c *checker) partA2() sigStats {
	var st sigStats
	to := common.Uint168(keys.ProgramHash(keys.PrefixStandard, keys.StandardCode(keys.Pub(9))))
	const perRound = 4096
	maxRounds := c.r.Pick(12, 64)
	for round := 0; round < maxRounds; round++ {
		par.Go(64, func(shard int) {
			for i := shard; i < perRound; i += 64 {
				ctr := uint32(round*perRound + i)
				k := i % 4
				a := acct(k)
				// transaction path
				var id common.Uint256
				id[0], id[1], id[2], id[3] = byte(ctr), byte(ctr>>8), byte(ctr>>16), 0xA2
				tx := transaction.CreateTransaction(ctypes.TxVersion09, ctypes.TransferAsset, 0, &payload.TransferAsset{},
					[]*ctypes.Attribute{{Usage: ctypes.Nonce, Data: []byte{byte(ctr), byte(ctr >> 8)}}},
					[]*ctypes.Input{{Previous: ctypes.OutPoint{TxID: id, Index: uint16(ctr)}, Sequence: ctr}},
					[]*ctypes.Output{{AssetID: core.ELAAssetID, Value: common.Fixed64(ctr) + 1, ProgramHash: to, Type: ctypes.OTNone, Payload: &outputpayload.DefaultOutput{}}},
					ctr, nil)
				var sp *pg.Program
				err, pan := guardErr(func() (e error) {
					sp, e = account.SignStandardTransaction(tx, &pg.Program{Code: a.RedeemScript}, walletOf(k))
					return
				})
				if err != nil || pan != "" || sp == nil {
					c.r.Violate("C37|wallet-sign-failed|standard", "the wallet cannot sign for its own standard account", map[string]interface{}{"kind": "sign", "error": fmt.Sprint(err, pan)})
					continue
				}
				atomic.AddInt64(&st.txSigs, 1)
				if len(sp.Parameter) == 65 {
					if sp.Parameter[1] == 0 {
						atomic.AddInt64(&st.shortR, 1)
					}
					if sp.Parameter[33] == 0 {
						atomic.AddInt64(&st.shortS, 1)
					}
				}
				c.verify(signedCase{"standard", fmt.Sprintf("many-signatures key=%d counter=%d", k, ctr), a.ProgramHash, sp, unsigned(tx), 0}, true)
				// raw message path: Account.Sign -> crypto.Sign, checked by crypto.Verify + reference
				msg := []byte(fmt.Sprintf("verif C37 message %d / key %d / %s", ctr, k, strings.Repeat("x", int(ctr%97))))
				var sig []byte
				err, pan = guardErr(func() (e error) { sig, e = a.Sign(msg); return })
				if err != nil || pan != "" {
					c.r.Violate("C37|wallet-sign-failed|raw", "Account.Sign fails", map[string]interface{}{"kind": "sign", "error": fmt.Sprint(err, pan)})
					continue
				}
				atomic.AddInt64(&st.rawSigs, 1)
				if len(sig) == 64 {
					if sig[0] == 0 {
						atomic.AddInt64(&st.shortRraw, 1)
					}
					if sig[32] == 0 {
						atomic.AddInt64(&st.shortSraw, 1)
					}
				}
				verr, vpan := guardErr(func() error { return crypto.Verify(*a.PublicKey, msg, sig) })
				ref := keys.VerifyECDSA(keys.Pub(k), msg, sig)
				if verr != nil || vpan != "" || !ref {
					c.r.Violate("C37|wallet-signature-rejected|raw", "a signature produced by Account.Sign does not verify (crypto.Verify / independent verifier)",
						map[string]interface{}{"kind": "rawsig", "key": k, "msg": hex.EncodeToString(msg), "sig": hex.EncodeToString(sig), "node_error": fmt.Sprint(verr, vpan), "reference_valid": ref})
				}
			}
		})
		if (st.shortR >= 4 && st.shortS >= 4) || c.r.NumViolations() > 0 {
			break // enough encodings seen, or a violation already decides the run
		}
	}
	return st
}

// ---------------------------------------------------------------------------------------------
// A3: many Schnorr key sets, so that every encoding case of the (aggregated) public key occurs:
// an x coordinate shorter than 32 bytes (leading zero byte, probability 2^-8) must still be
// published right-aligned, otherwise the account's script names a different point and nothing it
// signs verifies. Private keys d_i = H(i); key sets {i}, {i,i+1}, {i,i+1,i+2} through the wallet's
// real path (account.NewSchnorrAggregateAccount, crypto.AggregatePublickeys,
// crypto.AggregateSignatures), verified by blockchain.RunPrograms and the independent verifier
// against the independently summed public key. Rounds of 512 i until single keys and aggregated
// keys with a leading-zero x have each been seen >= 3 times (hard cap on rounds).

type schnorrStats struct {
	sets, singleShortX, aggShortX int64
}

func manyKey(i int) []byte {
	n := elliptic.P256().Params().N
	h := sha256.Sum256([]byte(fmt.Sprintf("verif-c37-schnorr-key-%d", i)))
	d := new(big.Int).SetBytes(h[:])
	d.Mod(d, new(big.Int).Sub(n, big.NewInt(1)))
	d.Add(d, big.NewInt(1))
	out := make([]byte, 32)
	b := d.Bytes()
	copy(out[32-len(b):], b)
	return out
}

func (c *checker) partA3() schnorrStats {
	var st schnorrStats
	curve := elliptic.P256()
	data := unsigned(txShapes()[0]())
	const perRound = 512
	maxRounds := c.r.Pick(16, 64)
	for round := 0; round < maxRounds; round++ {
		base := 1 + round*perRound
		accts := make([]*account.Account, perRound+2)
		xs := make([]*big.Int, perRound+2)
		ys := make([]*big.Int, perRound+2)
		par.Go(perRound+2, func(k int) {
			priv := manyKey(base + k)
			a, err := account.NewAccountWithPrivateKey(priv)
			if err != nil {
				evid.Fatalf("NewAccountWithPrivateKey: %v", err)
			}
			accts[k] = a
			xs[k], ys[k] = curve.ScalarBaseMult(priv)
		})
		par.Go(perRound, func(k int) {
			for size := 1; size <= 3; size++ {
				set := accts[k : k+size]
				// independent sum of the public points
				sx, sy := xs[k], ys[k]
				for j := 1; j < size; j++ {
					sx, sy = curve.Add(sx, sy, xs[k+j], ys[k+j])
				}
				want := keys.Compress(sx, sy)
				atomic.AddInt64(&st.sets, 1)
				if want[1] == 0 {
					if size == 1 {
						atomic.AddInt64(&st.singleShortX, 1)
					} else {
						atomic.AddInt64(&st.aggShortX, 1)
					}
				}
				desc := fmt.Sprintf("schnorr key set H(%d..%d)", base+k, base+k+size-1)
				art := map[string]interface{}{"kind": "schnorr-keyset", "first_key_index": base + k, "size": size, "expected_aggregate_key": hex.EncodeToString(want)}
				var sa *account.SchnorAccount
				_, pan := guardErr(func() error { sa = account.NewSchnorrAggregateAccount(set); return nil })
				if pan != "" || sa == nil || sa.ProgramHash == nil {
					art["error"] = pan
					c.r.Violate("C37|wallet-sign-failed|schnorr", "NewSchnorrAggregateAccount fails for valid private keys", art)
					continue
				}
				if !bytes.Equal(sa.SumPublicKey[:], want) || !bytes.Equal(sa.RedeemScript, keys.SchnorrCode(want)) {
					art["got"] = hex.EncodeToString(sa.SumPublicKey[:])
					c.r.Violate("C37|schnorr-aggregate-key-differs|NewSchnorrAggregateAccount", "the aggregated public key published by the wallet is not the compressed sum of the members' public keys", art)
				}
				var pubs [][]byte
				for j := 0; j < size; j++ {
					pubs = append(pubs, keys.Compress(xs[k+j], ys[k+j]))
				}
				var agg []byte
				_, pan = guardErr(func() (e error) { agg, e = crypto.AggregatePublickeys(pubs); return })
				if pan != "" || !bytes.Equal(agg, want) {
					art["got"] = hex.EncodeToString(agg)
					c.r.Violate("C37|schnorr-aggregate-key-differs|AggregatePublickeys", "crypto.AggregatePublickeys is not the compressed sum of the public keys", art)
				}
				var sig [64]byte
				err, pan := guardErr(func() (e error) { sig, e = crypto.AggregateSignatures(sa.PrivateKeys, common.Sha256D(data)); return })
				if err != nil || pan != "" {
					art["error"] = fmt.Sprint(err, pan)
					c.r.Violate("C37|wallet-sign-failed|schnorr", "crypto.AggregateSignatures fails for valid private keys", art)
					continue
				}
				sc := signedCase{fmt.Sprintf("schnorr %d", size), desc, *sa.ProgramHash, &pg.Program{Code: sa.RedeemScript, Parameter: append([]byte{}, sig[:]...)}, data, 0}
				c.verify(sc, true)
				// the signature must also verify under the independently summed key
				if !keys.VerifySchnorr(want, sha256d(data), sig[:]) {
					c.r.Violate("C37|wallet-signature-invalid|schnorr", "the independent verifier rejects a signature set produced by the wallet", art)
				}
			}
		})
		if (st.singleShortX >= 3 && st.aggShortX >= 3) || c.r.NumViolations() > 0 {
			break
		}
	}
	return st
}

// ---------------------------------------------------------------------------------------------
// B: addresses

const b58 = "123456789ABCDEFGHJKLMNPQRSTUVWXYZabcdefghijkmnopqrstuvwxyz"

// refAddress: base58( hash21 || first 4 bytes of sha256d(hash21) ) read as one big-endian
// number (no leading-zero handling is needed: issued prefixes are non-zero).
func refAddress(h [21]byte) string {
	ck := sha256d(h[:])
	x := new(big.Int).SetBytes(append(append([]byte{}, h[:]...), ck[:4]...))
	var out []byte
	zero, base, mod := big.NewInt(0), big.NewInt(58), new(big.Int)
	for x.Cmp(zero) > 0 {
		x.DivMod(x, base, mod)
		out = append(out, b58[mod.Int64()])
	}
	for i, j := 0, len(out)-1; i < j; i, j = i+1, j-1 {
		out[i], out[j] = out[j], out[i]
	}
	return string(out)
}

func structuredHashes(thorough bool) [][20]byte {
	var out [][20]byte
	var z, f [20]byte
	for i := range f {
		f[i] = 0xff
	}
	out = append(out, z, f)
	for bit := 0; bit < 160; bit++ {
		a, b := z, f
		a[bit/8] |= 1 << uint(bit%8)
		b[bit/8] &^= 1 << uint(bit%8)
		out = append(out, a, b)
	}
	step := 1
	if !thorough {
		step = 5
	}
	for pos := 0; pos < 20; pos++ {
		for v := 0; v < 256; v += step {
			a := z
			a[pos] = byte(v)
			out = append(out, a)
		}
	}
	for i := 0; i < 200; i++ {
		h := sha256.Sum256([]byte(fmt.Sprintf("verif-c37-hash-%d", i)))
		var a [20]byte
		copy(a[:], h[:20])
		out = append(out, a)
	}
	return out
}

func (c *checker) partB() {
	prefixes := []byte{keys.PrefixStandard, keys.PrefixMultiSig, keys.PrefixCrossChain, keys.PrefixDeposit, keys.PrefixCRDID, keys.PrefixDPoSV2}
	hashes := structuredHashes(c.r.Thorough())
	par.Go(len(prefixes), func(pi int) {
		pre := prefixes[pi]
		for hi, ch := range hashes {
			var h common.Uint168
			h[0] = pre
			copy(h[1:], ch[:])
			atomic.AddInt64(&c.ct.addr, 1)
			art := map[string]interface{}{"kind": "address", "hash": hex.EncodeToString(h[:])}
			var addr string
			err, pan := guardErr(func() (e error) { addr, e = h.ToAddress(); return })
			if err != nil || pan != "" {
				c.r.Violate(fmt.Sprintf("C37|address-encode-failed|prefix=%02x", pre), "ToAddress fails on an issued prefix", art)
				continue
			}
			if want := refAddress([21]byte(h)); addr != want {
				art["got"], art["want"] = addr, want
				c.r.Violate(fmt.Sprintf("C37|address-encoding-differs|prefix=%02x", pre), "ToAddress differs from base58check(prefix||hash)", art)
			}
			var back *common.Uint168
			err, pan = guardErr(func() (e error) { back, e = common.Uint168FromAddress(addr); return })
			if err != nil || pan != "" || back == nil || *back != h {
				art["address"], art["error"] = addr, fmt.Sprint(err, pan)
				c.r.Violate(fmt.Sprintf("C37|address-roundtrip|prefix=%02x", pre), "Uint168FromAddress(ToAddress(h)) is not h", art)
				continue
			}
			c.classes.Add(fmt.Sprintf("address-roundtrip-ok:prefix=%02x first-char=%c len=%d", pre, addr[0], len(addr)))
			// integrity: every single-character substitution of a few addresses is rejected (or
			// decodes to the same hash) — an address string never silently names another hash
			if hi < 3 {
				for pos := 0; pos < len(addr); pos++ {
					for k := 0; k < len(b58); k++ {
						if b58[k] == addr[pos] {
							continue
						}
						t := []byte(addr)
						t[pos] = b58[k]
						atomic.AddInt64(&c.ct.addrTamper, 1)
						var got *common.Uint168
						err, pan := guardErr(func() (e error) { got, e = common.Uint168FromAddress(string(t)); return })
						if err == nil && pan == "" && got != nil && *got != h {
							c.r.Violate("C37|address-substitution-accepted", "a one-character change of an address string parses to a different program hash",
								map[string]interface{}{"kind": "address-tamper", "address": string(t), "original": addr})
						}
					}
				}
			}
		}
	})
}

// ---------------------------------------------------------------------------------------------
// C: amounts

func refAmount(v int64) string {
	x := big.NewInt(v)
	neg := x.Sign() < 0
	x.Abs(x)
	q, rem := new(big.Int).DivMod(x, big.NewInt(100000000), new(big.Int))
	s := q.String()
	if rem.Sign() > 0 {
		s += "." + fmt.Sprintf("%08d", rem.Int64())
	}
	if neg {
		s = "-" + s
	}
	return s
}

func amountValues() []int64 {
	set := map[int64]bool{}
	add := func(v int64) { set[v] = true; set[-v] = true }
	for _, v := range []int64{0, 1, 99, 100, 101, 99999999, 100000000, 100000001, 1 << 31, 1<<31 - 1, 1<<53 + 1, 1<<62 - 1, 1 << 62, 1<<62 + 1,
		math.MaxInt64, math.MaxInt64 - 100, 3300000000000000, 999999999999999, 1000000000000000, 9999999999999999, 10000000000000000, 10000000000000001} {
		add(v)
	}
	p := int64(1)
	for k := 0; k <= 18; k++ {
		for d := int64(1); d <= 999; d++ {
			if d > math.MaxInt64/p {
				break
			}
			add(d * p)
		}
		if k < 18 {
			p *= 10
		}
	}
	set[math.MinInt64] = true
	var out []int64
	for v := range set {
		out = append(out, v)
	}
	sort.Slice(out, func(i, j int) bool { return out[i] < out[j] })
	return out
}

func (c *checker) partC() {
	for _, v := range amountValues() {
		c.ct.amounts++
		f := common.Fixed64(v)
		var s string
		_, pan := guardErr(func() error { s = f.String(); return nil })
		art := map[string]interface{}{"kind": "amount", "value": fmt.Sprint(v)}
		if pan != "" {
			c.r.Violate("C37|amount-format-panic", "Fixed64.String panics", art)
			continue
		}
		if want := refAmount(v); s != want {
			art["got"], art["want"] = s, want
			c.r.Violate("C37|amount-format", "Fixed64.String differs from sign, integer part, '.', 8 fraction digits", art)
			continue
		}
		var back *common.Fixed64
		err, pan := guardErr(func() (e error) { back, e = common.StringToFixed64(s); return })
		art["string"] = s
		cls := fmt.Sprintf("dot=%v|len>=9=%v", strings.Contains(s, "."), len(s) >= 9)
		if err != nil || pan != "" {
			art["error"] = fmt.Sprint(err, pan)
			c.r.Violate("C37|amount-roundtrip|parse-error|"+cls, "StringToFixed64 rejects a string produced by Fixed64.String", art)
			c.classes.Add("amount-parse-error:" + cls)
			continue
		}
		if back == nil || int64(*back) != v {
			art["back"] = fmt.Sprint(back)
			c.r.Violate("C37|amount-roundtrip|different-value|"+cls, "StringToFixed64(Fixed64.String(v)) is not v", art)
			continue
		}
		c.ct.amountsOK++
		c.classes.Add("amount-roundtrip-ok:" + cls)
	}
}

// ---------------------------------------------------------------------------------------------

func main() {
	r := evid.Start("C37", "exploration")
	scr := evid.Scratch("c37")
	hx.QuietLogs(scr)
	functions.GetTransactionByTxType = transaction.GetTransaction
	functions.GetTransactionByBytes = transaction.GetTransactionByBytes
	functions.CreateTransaction = transaction.CreateTransaction
	functions.GetTransactionParameters = transaction.GetTransactionparameters
	keys.FixRand() // reproducible wallet signatures (crypto/rand and math/rand feed only nonces)
	c := &checker{r: r, samples: &evid.Samples{N: 8}}
	// the wallet prints progress lines with fmt.Print; keep stdout for verdict lines only
	stdout := os.Stdout
	if null, err := os.OpenFile(os.DevNull, os.O_WRONLY, 0); err == nil {
		os.Stdout = null
	}
	if r.Replay != "" {
		replay(c)
		os.Stdout = stdout
		os.RemoveAll(scr)
		r.Finish(evid.Coverage{})
		return
	}
	c.partA()
	st := c.partA2()
	if (st.shortR < 4 || st.shortS < 4) && r.NumViolations() == 0 {
		os.Stdout = stdout
		evid.Fatalf("many-signatures family did not produce enough short r/s encodings (short r %d, short s %d in %d signatures) — vacuous", st.shortR, st.shortS, st.txSigs)
	}
	ks := c.partA3()
	if (ks.singleShortX < 3 || ks.aggShortX < 3) && r.NumViolations() == 0 {
		os.Stdout = stdout
		evid.Fatalf("Schnorr key-set family did not produce enough leading-zero x coordinates (single %d, aggregated %d in %d sets) — vacuous", ks.singleShortX, ks.aggShortX, ks.sets)
	}
	c.partB()
	c.partC()
	os.Stdout = stdout
	os.RemoveAll(scr)
	r.Assume = append(r.Assume,
		"crypto/rand.Reader is replaced by a constant stream and math/rand is seeded so that the wallet's signatures are the same bytes on every run; verdicts do not depend on it",
		"single-byte mutations are applied to one canonical signing flow per (account kind, m, n, transaction shape); all other flows are verified unmutated",
		"the wallet cannot sign for a 1-of-1 multisig account it creates (GetSigners needs a script of >= 71 bytes); no signature is produced, so the property makes no claim — recorded under outcome classes",
		"keystore files, password handling and key generation are C38's subject")
	r.Finish(evid.Coverage{
		"evaluations":         st.rawSigs + c.ct.verified + c.ct.undersigned + c.ct.mutations + c.ct.addr + c.ct.addrTamper + c.ct.amounts,
		"distinct_nontrivial": c.ct.verified + c.ct.mutRejected + c.ct.addr + c.ct.amountsOK,
		"rule": "A: standard (4 keys), multisig 1<=m<=n<=4 x every non-empty signer subset x every signing order (chained single-key wallets) + SignMultiSignTransactionByM, Schnorr over every non-empty subset of 4 keys; 3 transaction shapes; RunPrograms must accept (>= m signers) / reject (< m); every single-byte substitution (16-value alphabet) of the signed bytes of the canonical flows must be rejected. " +
			"every canonical multisig flow (m<n and m==n) additionally under the standard (0x21) and deposit (0x1f) prefixes of the same script: valid must pass, 2 substitutions per byte of the signed bytes must fail; zero signatures, a dropped signature and altered data must fail under prefixes 0x12, 0x21, 0x1f and 0x4b. " +
			"A2: rounds of 4096 distinct transactions (4 keys, counter in lock time/input/output/attribute) through SignStandardTransaction + RunPrograms, and 4096 distinct raw messages through Account.Sign + crypto.Verify, both cross-checked by the independent verifier, until signatures with a leading-zero r and a leading-zero s have each occurred >= 4 times on the transaction path (hard cap on rounds; fewer = engine error). " +
			"A3: Schnorr key sets {i}, {i,i+1}, {i,i+1,i+2} over private keys H(i), rounds of 512 i, through NewSchnorrAggregateAccount / AggregatePublickeys / AggregateSignatures + RunPrograms, the published aggregate key compared with the independently summed compressed key and the signature verified under it, until single and aggregated keys with a leading-zero x coordinate have each occurred >= 3 times (hard cap; fewer = engine error). " +
			"B: 6 issued prefixes x {zero, ff, 160 single bits set/cleared, single-byte values, 200 digests}; single-character substitutions of 3 addresses per prefix. " +
			"C: amount alphabet + d*10^k (d<=999, k<=18) with negatives + MinInt64. non-trivial = accepted wallet signatures + rejected mutations + round-tripped addresses and amounts",
		"exhaustive":                  true,
		"schnorr_key_sets":            ks.sets,
		"schnorr_keys_with_short_x":   map[string]int64{"single": ks.singleShortX, "aggregated": ks.aggShortX},
		"many_signatures_tx_path":     st.txSigs,
		"many_signatures_raw_path":    st.rawSigs,
		"signatures_with_short_r":     map[string]int64{"tx": st.shortR, "raw": st.shortRraw},
		"signatures_with_short_s":     map[string]int64{"tx": st.shortS, "raw": st.shortSraw},
		"signing_flows":               c.ct.signFlows,
		"signing_refused_by_wallet":   c.ct.signRefused,
		"signed_and_verified":         c.ct.verified,
		"undersigned_checked":         c.ct.undersigned,
		"mutations":                   c.ct.mutations,
		"mutations_rejected":          c.ct.mutRejected,
		"addresses":                   c.ct.addr,
		"address_substitutions":       c.ct.addrTamper,
		"amounts":                     c.ct.amounts,
		"amounts_roundtrip_ok":        c.ct.amountsOK,
		"outcome_classes":             c.classes.Map(),
		"samples":                     c.samples.Out,
	})
}

func replay(c *checker) {
	var a map[string]interface{}
	s := c.r.LoadReplay(&a)
	fmt.Fprintf(os.Stderr, "replaying %s\n", s)
	switch a["kind"] {
	case "amount":
		var v int64
		fmt.Sscan(a["value"].(string), &v)
		str := common.Fixed64(v).String()
		back, err := common.StringToFixed64(str)
		fmt.Fprintf(os.Stderr, "Fixed64(%d).String() = %q; StringToFixed64 -> %v, %v\n", v, str, back, err)
		if err != nil {
			cls := fmt.Sprintf("dot=%v|len>=9=%v", strings.Contains(str, "."), len(str) >= 9)
			c.r.Violate("C37|amount-roundtrip|parse-error|"+cls, "StringToFixed64 rejects a string produced by Fixed64.String", a)
		} else if int64(*back) != v {
			c.r.Violate("C37|amount-roundtrip|different-value", "StringToFixed64(Fixed64.String(v)) is not v", a)
		}
	case "signed", "mutation":
		hb, _ := hex.DecodeString(a["hash"].(string))
		code, _ := hex.DecodeString(a["code"].(string))
		param, _ := hex.DecodeString(a["param"].(string))
		data, _ := hex.DecodeString(a["data"].(string))
		ph, _ := common.Uint168FromBytes(hb)
		err, pan := guardErr(func() error { return blockchain.RunPrograms(data, []common.Uint168{*ph}, []*pg.Program{{Code: code, Parameter: param}}) })
		fmt.Fprintf(os.Stderr, "RunPrograms -> %v %s; independent verifier valid=%v\n", err, pan, refValid(code, param, data))
		if a["kind"] == "mutation" && err == nil && pan == "" {
			c.r.Violate("C37|mutated-data-accepted|"+kindClass(fmt.Sprint(a["what"])), "a wallet signature still verifies after one byte of the signed content was changed", a)
		}
	case "address":
		hb, _ := hex.DecodeString(a["hash"].(string))
		ph, _ := common.Uint168FromBytes(hb)
		addr, err := ph.ToAddress()
		back, err2 := common.Uint168FromAddress(addr)
		fmt.Fprintf(os.Stderr, "ToAddress=%s %v; back=%v %v\n", addr, err, back, err2)
	default:
		fmt.Fprintln(os.Stderr, "re-run ./run C37 quick for this artefact kind")
	}
}
