// C14: queryable UTXO views agree with the ledger.
//
// Explicit-state search on the store tier (verif/storekit, real ChainStore.SaveBlock /
// RollbackBlock). Alphabet: connect(B) for B in a menu of blocks made of transfers among three
// addresses (split, fan-out, fan-in, partial and complete spending of a fan-out, zero-value
// outputs created and spent, two transfers of one address in one block, spending a coinbase,
// empty block; every block carries a coinbase paying one of the addresses) and disconnect(tip).
// As in C13 every history over this alphabet is a stack walk, so the explorer enumerates every
// enabled connect sequence up to the depth bound depth-first and executes connect(B) …
// disconnect(B) in place at every node.
//
// Oracle (after every connect and after every disconnect): a map-based replay of the active
// chain (reference model below: outpoint → (address, value), tx → height) gives, for every
// transaction id and address that the menu can ever produce, the expected answers of
// GetUnspent, GetUTXO, Ledger.GetAmount and GetTransaction; lists are compared as multisets and
// zero-value outputs must never be listed per address. The instance is reused for the next
// sibling only when the answers after disconnect(B) equal the model of the parent state —
// otherwise a violation is recorded and the state is rebuilt by a clean replay.
// A second pass ("cold") does the same with the store closed and reopened from disk after every
// transition, so that every answer comes from persisted data with empty TxCache / block cache.
package main

import (
	"encoding/hex"
	"fmt"
	"os"
	"runtime/debug"
	"sort"
	"strings"
	"sync"
	"sync/atomic"

	"github.com/elastos/Elastos.ELA/blockchain"
	"github.com/elastos/Elastos.ELA/common"
	"github.com/elastos/Elastos.ELA/core/types"
	common2 "github.com/elastos/Elastos.ELA/core/types/common"
	"github.com/elastos/Elastos.ELA/core/types/interfaces"

	"verif/evid"
	"verif/par"
	sk "verif/storekit"
)

var (
	addrA = sk.Addr(0xa1)
	addrB = sk.Addr(0xb2)
	addrC = sk.Addr(0xc3)
)

type op struct {
	name  string
	txs   []interfaces.Transaction
	needs []string
	miner common.Uint168 // coinbase recipient of the block
}

type menuT struct {
	fund  interfaces.Transaction
	ops   []*op
	by    map[string]*op
	addrs []common.Uint168
	txids []common.Uint256 // static ids (menu transactions, funding, genesis coinbase)
}

func ins(id common.Uint256, idx ...uint16) []*common2.Input {
	var out []*common2.Input
	for _, i := range idx {
		out = append(out, sk.In(id, i))
	}
	return out
}

func outs(o ...*common2.Output) []*common2.Output { return o }

// fundCoinbaseTag fixes the coinbase of the funding block so that a menu transaction can spend it.
var fundCoinbaseTag = []byte("funding!")

func menu(genesisCoinbase common.Uint256) (*menuT, interfaces.Transaction) {
	m := &menuT{by: map[string]*op{}}
	fo := []*common2.Output{
		sk.Out(addrA, 1000), sk.Out(addrA, 1000), sk.Out(addrB, 1000), sk.Out(addrC, 1000),
		sk.Out(addrA, 500), sk.Out(addrA, 1000), sk.Out(addrA, 1000), sk.Out(addrB, 0),
		sk.Out(addrA, 1000), sk.Out(addrB, 1000), sk.Out(addrC, 1000), sk.Out(addrA, 1000),
		sk.Out(addrC, 900),
	}
	m.fund = sk.Transfer(0xf0, ins(genesisCoinbase, 0), fo)
	f := m.fund.Hash()
	fundCb := sk.Coinbase(1, fundCoinbaseTag, sk.Out(addrA, 100), sk.Out(addrC, 0))
	add := func(o *op) { m.ops = append(m.ops, o); m.by[o.name] = o }
	one := func(t interfaces.Transaction) []interfaces.Transaction { return []interfaces.Transaction{t} }

	add(&op{name: "empty", miner: addrC})
	t1 := sk.Transfer(1, ins(f, 0), outs(sk.Out(addrA, 400), sk.Out(addrB, 500), sk.Out(addrA, 100)))
	add(&op{name: "split", txs: one(t1), miner: addrA})
	t2 := sk.Transfer(2, ins(f, 1), outs(sk.Out(addrB, 0), sk.Out(addrC, 1000)))
	add(&op{name: "zero", txs: one(t2), miner: addrB})
	t3 := sk.Transfer(3, ins(t1.Hash(), 0, 1), outs(sk.Out(addrC, 900)))
	add(&op{name: "join", txs: one(t3), needs: []string{"split"}, miner: addrC})
	t4 := sk.Transfer(4, ins(f, 2, 3), outs(sk.Out(addrA, 2000)))
	add(&op{name: "fanin", txs: one(t4), miner: addrA})
	t5 := sk.Transfer(5, ins(t2.Hash(), 0, 1), outs(sk.Out(addrA, 1000), sk.Out(addrA, 0)))
	add(&op{name: "zerospend", txs: one(t5), needs: []string{"zero"}, miner: addrB})
	t6 := sk.Transfer(6, ins(f, 4), outs(sk.Out(addrA, 100), sk.Out(addrA, 100), sk.Out(addrA, 100), sk.Out(addrA, 100), sk.Out(addrA, 100)))
	add(&op{name: "fanout", txs: one(t6), miner: addrC})
	t7 := sk.Transfer(7, ins(t6.Hash(), 0, 2, 4), outs(sk.Out(addrB, 300)))
	add(&op{name: "part1", txs: one(t7), needs: []string{"fanout"}, miner: addrA})
	t8 := sk.Transfer(8, ins(t6.Hash(), 1, 3), outs(sk.Out(addrC, 200)))
	add(&op{name: "part2", txs: one(t8), needs: []string{"fanout"}, miner: addrB})
	t9 := sk.Transfer(9, ins(fundCb.Hash(), 0, 1), outs(sk.Out(addrB, 100)))
	add(&op{name: "cbspend", txs: one(t9), miner: addrC})
	add(&op{name: "nextturn", txs: one(sk.NextTurn(12, 100)), miner: addrB})
	p1 := sk.Transfer(10, ins(f, 5), outs(sk.Out(addrA, 500), sk.Out(addrB, 500)))
	p2 := sk.Transfer(11, ins(f, 6, 7), outs(sk.Out(addrA, 1000)))
	add(&op{name: "two", txs: []interfaces.Transaction{p1, p2}, miner: addrA})

	// three transfers in one block in both directions among the addresses (A→B, B→C+A, C→A),
	// all spending outputs of an earlier block
	add(&op{name: "three", txs: []interfaces.Transaction{
		sk.Transfer(20, ins(f, 8), outs(sk.Out(addrB, 1000))),
		sk.Transfer(21, ins(f, 9), outs(sk.Out(addrC, 500), sk.Out(addrA, 500))),
		sk.Transfer(22, ins(f, 10), outs(sk.Out(addrA, 1000)))}, miner: addrB})

	// one address spends outputs created at two different heights in one transaction (its
	// share of split and a funding output) while other outputs of it stay at both heights
	add(&op{name: "twoheights", txs: one(sk.Transfer(23, append(ins(t1.Hash(), 2), ins(f, 11)...), outs(sk.Out(addrC, 1100)))), needs: []string{"split"}, miner: addrC})

	// more than 256 outputs in one transaction, and a spend of outputs 7 and 263
	big := sk.FanOut(24, ins(f, 12), addrB, 300, 3)
	add(&op{name: "big300", txs: one(big), miner: addrC})
	add(&op{name: "bigspend", txs: one(sk.Transfer(25, ins(big.Hash(), 7, 263), outs(sk.Out(addrC, 6)))), needs: []string{"big300"}, miner: addrA})

	m.addrs = []common.Uint168{addrA, addrB, addrC}
	m.txids = []common.Uint256{genesisCoinbase, f, fundCb.Hash()}
	for _, o := range m.ops {
		for _, t := range o.txs {
			m.txids = append(m.txids, t.Hash())
		}
	}
	return m, fundCb
}

func (m *menuT) enabled(path []string, name string) bool {
	on := map[string]bool{}
	for _, p := range path {
		on[p] = true
	}
	if on[name] {
		return false
	}
	for _, n := range m.by[name].needs {
		if !on[n] {
			return false
		}
	}
	return true
}

// ---------------------------------------------------------------------------------------------
// reference model: replay of the active chain in maps

type outT struct {
	addr  common.Uint168
	value int64
}

type model struct {
	utxo   map[common2.OutPoint]outT
	height map[common.Uint256]uint32
}

func replayModel(blocks []*types.Block) *model {
	m := &model{utxo: map[common2.OutPoint]outT{}, height: map[common.Uint256]uint32{}}
	for _, b := range blocks {
		for _, t := range b.Transactions {
			if t.TxType() == common2.RegisterAsset {
				// the asset registration of the genesis block has neither inputs nor outputs
				m.height[t.Hash()] = b.Height
				continue
			}
			if !t.IsCoinBaseTx() {
				for _, in := range t.Inputs() {
					delete(m.utxo, in.Previous)
				}
			}
			id := t.Hash()
			m.height[id] = b.Height
			for i, o := range t.Outputs() {
				m.utxo[common2.OutPoint{TxID: id, Index: uint16(i)}] = outT{o.ProgramHash, int64(o.Value)}
			}
		}
	}
	return m
}

// expected renders the model's answers in the same textual form as observe.
func (m *model) expected(ids []common.Uint256, addrs []common.Uint168) []string {
	var out []string
	for _, id := range ids {
		short := hex.EncodeToString(id[:4])
		var idx []int
		for op := range m.utxo {
			if op.TxID == id {
				idx = append(idx, int(op.Index))
			}
		}
		sort.Ints(idx)
		out = append(out, fmt.Sprintf("GetUnspent %s=%v", short, idx))
		if h, ok := m.height[id]; ok {
			out = append(out, fmt.Sprintf("GetTransaction %s=height%d", short, h))
		} else {
			out = append(out, "GetTransaction "+short+"=notfound")
		}
	}
	for _, a := range addrs {
		var items []string
		var sum int64
		for op, o := range m.utxo {
			if o.addr == a && o.value != 0 {
				items = append(items, fmt.Sprintf("%s:%d:%d", hex.EncodeToString(op.TxID[:4]), op.Index, o.value))
				sum += o.value
			}
		}
		sort.Strings(items)
		out = append(out, fmt.Sprintf("GetUTXO %s=%v", hex.EncodeToString(a[:2]), items))
		out = append(out, fmt.Sprintf("GetAmount %s=%d", hex.EncodeToString(a[:2]), sum))
	}
	return out
}

// observe asks the implementation.
func observe(s *sk.Store, ids []common.Uint256, addrs []common.Uint168) []string {
	var out []string
	ffl := s.CS.GetFFLDB()
	ledger := &blockchain.Ledger{Store: s.CS}
	for _, id := range ids {
		short := hex.EncodeToString(id[:4])
		u, err := ffl.GetUnspent(id)
		if err != nil {
			out = append(out, "GetUnspent "+short+"=error:"+errClass(err))
		} else {
			v := make([]int, 0, len(u))
			for _, x := range u {
				v = append(v, int(x))
			}
			sort.Ints(v)
			out = append(out, fmt.Sprintf("GetUnspent %s=%v", short, v))
		}
		tx, h, err := s.CS.GetTransaction(id)
		switch {
		case err != nil || tx == nil:
			out = append(out, "GetTransaction "+short+"=notfound")
		case tx.Hash() != id:
			out = append(out, "GetTransaction "+short+"=wrong-transaction")
		default:
			out = append(out, fmt.Sprintf("GetTransaction %s=height%d", short, h))
		}
	}
	for _, a := range addrs {
		a := a
		us, err := ffl.GetUTXO(&a)
		if err != nil {
			out = append(out, "GetUTXO "+hex.EncodeToString(a[:2])+"=error:"+errClass(err))
		} else {
			out = append(out, fmt.Sprintf("GetUTXO %s=%v", hex.EncodeToString(a[:2]), sk.UTXOs(us)))
		}
		amt, err := ledger.GetAmount(a)
		if err != nil {
			out = append(out, "GetAmount "+hex.EncodeToString(a[:2])+"=error:"+errClass(err))
		} else {
			out = append(out, fmt.Sprintf("GetAmount %s=%d", hex.EncodeToString(a[:2]), int64(amt)))
		}
	}
	return out
}

func errClass(err error) string {
	s := err.Error()
	if len(s) > 40 {
		s = s[:40]
	}
	return s
}

type fail struct{ sig, what string }

// classify turns answer mismatches into failures. kind of mismatch per query:
// GetUTXO: stale (listed but not in the ledger), missing, zero-value-listed, duplicate;
// GetUnspent: extra / missing; GetTransaction: stale / missing / wrong-height; GetAmount: differs.
func classify(exp, got []string, after, temp string) []fail {
	var fs []fail
	seen := map[string]bool{}
	for i := range exp {
		if exp[i] == got[i] {
			continue
		}
		q, _, _ := strings.Cut(exp[i], " ")
		_, ev, _ := strings.Cut(exp[i], "=")
		_, gv, _ := strings.Cut(got[i], "=")
		kind := "differs"
		switch q {
		case "GetUTXO", "GetUnspent":
			kind = listKind(ev, gv)
		case "GetTransaction":
			switch {
			case ev == "notfound":
				kind = "stale"
			case gv == "notfound":
				kind = "missing"
			case gv == "wrong-transaction":
				kind = "wrong-transaction"
			default:
				kind = "wrong-height"
			}
		}
		if strings.HasPrefix(gv, "error:") {
			kind = "error"
		}
		sig := fmt.Sprintf("C14|%s|%s|after=%s|%s", q, kind, after, temp)
		if !seen[sig] {
			seen[sig] = true
			fs = append(fs, fail{sig, fmt.Sprintf("ledger replay: %s; store (%s): %s", exp[i], temp, got[i])})
		}
	}
	return fs
}

func listKind(ev, gv string) string {
	parse := func(s string) []string {
		s = strings.TrimSuffix(strings.TrimPrefix(s, "["), "]")
		if s == "" {
			return nil
		}
		return strings.Fields(s)
	}
	e, g := parse(ev), parse(gv)
	em := map[string]int{}
	for _, x := range e {
		em[x]++
	}
	gm := map[string]int{}
	dup, zero := false, false
	for _, x := range g {
		gm[x]++
		if gm[x] > 1 {
			dup = true
		}
		if strings.HasSuffix(x, ":0") {
			zero = true
		}
	}
	extra, missing := false, false
	for x, n := range gm {
		if n > em[x] {
			extra = true
		}
	}
	for x, n := range em {
		if n > gm[x] {
			missing = true
		}
	}
	switch {
	case zero:
		return "zero-value-listed"
	case dup:
		return "duplicate"
	case extra && missing:
		return "stale+missing"
	case extra:
		return "stale"
	case missing:
		return "missing"
	}
	return "differs"
}

// ---------------------------------------------------------------------------------------------
// explorer

type found struct {
	hist  []string
	what  string
	count int
}

type explorer struct {
	r        *evid.Run
	base     string
	m        *menuT
	fundCb   interfaces.Transaction
	ops      []string
	maxDepth int
	cold     bool

	seq         int64
	nodes       int64
	transitions int64
	checks      int64
	instances   int64
	reopens     int64
	rebuilt     int64
	mu          sync.Mutex
	confirmed   map[string]bool
	found       map[string]*found
	states      map[string]bool
	perDepth    []int64
	nontrivial  evid.Distinct
	samples     evid.Samples
	expired     int32
}

type ctx struct{ s *sk.Store }

func (e *explorer) temp() string {
	if e.cold {
		return "reopened"
	}
	return "warm"
}

func (e *explorer) block(s *sk.Store, name string) *types.Block {
	o := e.m.by[name]
	tip := s.Tip()
	tag := tip.Hash()
	cb := sk.Coinbase(tip.Height+1, append([]byte(name), tag[:6]...), sk.Out(o.miner, 100), sk.Out(o.miner, 0))
	return s.RawBlock(append([]interfaces.Transaction{cb}, o.txs...))
}

func (e *explorer) fresh() *sk.Store {
	n := atomic.AddInt64(&e.seq, 1)
	s, err := sk.Create(sk.Fresh(e.base, "s", int(n)), nil)
	if err != nil {
		evid.Fatalf("create store: %v", err)
	}
	atomic.AddInt64(&e.instances, 1)
	if err := s.Connect(s.RawBlock([]interfaces.Transaction{e.fundCb, e.m.fund}), nil); err != nil {
		evid.Fatalf("connect funding block: %v", err)
	}
	return s
}

func (e *explorer) build(hist []string) *sk.Store {
	s := e.fresh()
	for _, h := range hist {
		if h == "~" {
			if _, err := s.DisconnectTip(nil); err != nil {
				evid.Fatalf("replay of %v: disconnect: %v", hist, err)
			}
			continue
		}
		if err := s.Connect(e.block(s, h), nil); err != nil {
			evid.Fatalf("replay of %v: connect %s: %v", hist, h, err)
		}
	}
	return s
}

// ids = static ids + coinbases of the active chain + extra coinbases (of a just removed block).
func (e *explorer) ids(s *sk.Store, extra ...*types.Block) []common.Uint256 {
	ids := append([]common.Uint256{}, e.m.txids...)
	for _, b := range s.Blocks[2:] {
		ids = append(ids, b.Transactions[0].Hash())
	}
	for _, b := range extra {
		ids = append(ids, b.Transactions[0].Hash())
	}
	return ids
}

// check compares the store with the replay of its active chain.
func (e *explorer) check(c *ctx, after string, extra ...*types.Block) ([]fail, string) {
	if e.cold {
		if err := c.s.Reopen(); err != nil {
			evid.Fatalf("reopen: %v", err)
		}
		atomic.AddInt64(&e.reopens, 1)
	}
	ids := e.ids(c.s, extra...)
	exp := replayModel(c.s.Blocks).expected(ids, e.m.addrs)
	got := observe(c.s, ids, e.m.addrs)
	atomic.AddInt64(&e.checks, 1)
	return classify(exp, got, after, e.temp()), strings.Join(got, "\n")
}

func sigs(fs []fail) string {
	var s []string
	for _, f := range fs {
		s = append(s, f.sig)
	}
	sort.Strings(s)
	return strings.Join(s, " ; ")
}

func less(a, b []string) bool {
	if len(a) != len(b) {
		return len(a) < len(b)
	}
	return strings.Join(a, ",") < strings.Join(b, ",")
}

// report records failures observed after executing full; the first time a signature is seen
// the history is re-executed on a fresh store and must fail identically.
func (e *explorer) report(full []string, fs []fail) {
	need := false
	e.mu.Lock()
	for _, f := range fs {
		if !e.confirmed[f.sig] {
			need = true
		}
	}
	e.mu.Unlock()
	if need {
		got := e.replayHistory(full)
		if a, b := sigs(fs), sigs(got); a != b {
			evid.Fatalf("failure of %v does not reproduce on a fresh store: first %s then %s", full, a, b)
		}
		e.mu.Lock()
		for _, f := range fs {
			e.confirmed[f.sig] = true
		}
		e.mu.Unlock()
	}
	e.mu.Lock()
	for _, f := range fs {
		cur := e.found[f.sig]
		if cur == nil {
			cur = &found{}
			e.found[f.sig] = cur
		}
		cur.count++
		if cur.hist == nil || less(full, cur.hist) {
			cur.hist, cur.what = full, f.what
		}
	}
	e.mu.Unlock()
}

// replayHistory executes full on a fresh store and evaluates the oracle after its last step.
func (e *explorer) replayHistory(full []string) []fail {
	if len(full) == 0 {
		c := &ctx{e.build(nil)}
		defer func() { c.s.Destroy() }()
		fs, _ := e.check(c, "connect")
		return fs
	}
	s := e.build(full[:len(full)-1])
	c := &ctx{s}
	defer func() { c.s.Destroy() }()
	last := full[len(full)-1]
	if last == "~" {
		b, err := c.s.DisconnectTip(nil)
		if err != nil {
			return []fail{{"C14|disconnect-error|" + e.temp(), err.Error()}}
		}
		fs, _ := e.check(c, "disconnect", b)
		return fs
	}
	if err := c.s.Connect(e.block(c.s, last), nil); err != nil {
		evid.Fatalf("connect %s: %v", last, err)
	}
	fs, _ := e.check(c, "connect")
	return fs
}

func (e *explorer) flush() {
	var ks []string
	for k := range e.found {
		ks = append(ks, k)
	}
	sort.Strings(ks)
	for _, k := range ks {
		f := e.found[k]
		e.r.MergeViolation(evid.Violation{Signature: k, What: f.what, Count: f.count,
			Artefact: map[string]interface{}{"system": "c14-store", "cold": e.cold, "history": f.hist}})
	}
}

func (e *explorer) note(depth int, digest string) {
	e.mu.Lock()
	if !e.states[digest] {
		e.states[digest] = true
		for len(e.perDepth) <= depth {
			e.perDepth = append(e.perDepth, 0)
		}
		e.perDepth[depth]++
	}
	e.mu.Unlock()
}

// expand explores all children of the node reached by the connect sequence path; the store is in
// that state on entry and on return.
func (e *explorer) expand(c *ctx, path []string, budget int, stopAt int) {
	if budget <= 0 {
		return
	}
	if atomic.LoadInt32(&e.expired) != 0 || e.r.Expired() {
		atomic.StoreInt32(&e.expired, 1)
		return
	}
	for _, name := range e.ops {
		if !e.m.enabled(path, name) {
			continue
		}
		child := append(append([]string{}, path...), name)
		b := e.block(c.s, name)
		if err := c.s.Connect(b, nil); err != nil {
			evid.Fatalf("connect %s after %v failed: %v (menu blocks are valid; harness error)", name, path, err)
		}
		atomic.AddInt64(&e.transitions, 1)
		atomic.AddInt64(&e.nodes, 1)
		fs, digest := e.check(c, "connect")
		e.note(len(child), digest)
		e.nontrivial.Add(name)
		if len(child) == e.maxDepth {
			e.samples.Add(child)
		}
		if len(fs) > 0 {
			e.report(child, fs)
		}
		if stopAt == 0 || len(child) < stopAt {
			e.expand(c, child, budget-1, stopAt)
		}
		undo := append(append([]string{}, child...), "~")
		rb, err := c.s.DisconnectTip(nil)
		var fs2 []fail
		if err != nil {
			fs2 = []fail{{"C14|disconnect-error|" + e.temp(), fmt.Sprintf("RollbackBlock of the tip failed: %v", err)}}
		} else {
			atomic.AddInt64(&e.transitions, 1)
			fs2, _ = e.check(c, "disconnect", rb)
		}
		if len(fs2) > 0 {
			if err == nil {
				e.report(undo, fs2)
			} else {
				e.mu.Lock()
				cur := e.found[fs2[0].sig]
				if cur == nil {
					cur = &found{hist: undo, what: fs2[0].what}
					e.found[fs2[0].sig] = cur
				}
				cur.count++
				e.mu.Unlock()
			}
			// the store no longer agrees with the ledger of path: rebuild by a clean replay
			atomic.AddInt64(&e.rebuilt, 1)
			c.s.Destroy()
			c.s = e.build(path)
		}
	}
}

func (e *explorer) task(prefix []string, stopAt int) {
	defer func() {
		if p := recover(); p != nil {
			evid.Fatalf("panic in task %v: %v\n%s", prefix, p, debug.Stack())
		}
	}()
	c := &ctx{e.build(prefix)}
	if len(prefix) == 0 {
		fs, digest := e.check(c, "connect")
		e.note(0, digest)
		if len(fs) > 0 {
			e.report([]string{}, fs)
		}
	}
	e.expand(c, prefix, e.maxDepth-len(prefix), stopAt)
	c.s.Destroy()
}

func (e *explorer) prefixes(n int) [][]string {
	out := [][]string{{}}
	for d := 0; d < n; d++ {
		var next [][]string
		for _, p := range out {
			for _, name := range e.ops {
				if e.m.enabled(p, name) {
					next = append(next, append(append([]string{}, p...), name))
				}
			}
		}
		out = next
	}
	return out
}

func (e *explorer) explore() {
	split := 2
	if e.maxDepth <= 2 {
		e.task(nil, 0)
		return
	}
	tasks := e.prefixes(split)
	par.Go(len(tasks)+1, func(i int) {
		if i == 0 {
			e.task(nil, split)
			return
		}
		e.task(tasks[i-1], 0)
	})
}

// ---------------------------------------------------------------------------------------------
// restart scenarios: reorganisation, restart, more blocks
//
// Family (L, d, k): build a chain of L blocks, disconnect the last d, connect d+1 different
// blocks, close and reopen the store (the index manager's Init runs as at node start, including
// TxIndex.Init's search for the highest internal block id), connect k more blocks. After every
// step every transaction ever created (on or off the active chain) and the three addresses are
// checked against the replay of the active chain. Each block holds a coinbase and one transfer
// spending the transfer of its parent block.

type scenario struct{ L, D, K int }

func runScenario(e *explorer, sc scenario) []fail {
	s := e.fresh()
	defer func() { s.Destroy() }()
	c := &ctx{s}
	type link struct{ op common2.OutPoint }
	stack := []link{{common2.OutPoint{TxID: e.m.fund.Hash(), Index: 0}}}
	addrs := []common.Uint168{addrA, addrB, addrC}
	var ids []common.Uint256
	ids = append(ids, e.m.txids[:3]...)
	ctr := 0
	step := func(kind string) []fail {
		exp := replayModel(c.s.Blocks).expected(ids, e.m.addrs)
		got := observe(c.s, ids, e.m.addrs)
		atomic.AddInt64(&e.checks, 1)
		return classify(exp, got, kind, "restart-scenario")
	}
	connect := func() []fail {
		ctr++
		prev := stack[len(stack)-1].op
		t := sk.Transfer(byte(ctr), []*common2.Input{sk.In(prev.TxID, prev.Index)}, outs(sk.Out(addrs[ctr%3], 1000), sk.Out(addrs[(ctr+1)%3], 0)))
		t.SetLockTime(uint32(1000 + ctr))
		tip := c.s.Tip()
		cb := sk.Coinbase(tip.Height+1, []byte{byte(ctr), 0x5c}, sk.Out(addrs[(ctr+2)%3], 100))
		b := c.s.RawBlock([]interfaces.Transaction{cb, t})
		if err := c.s.Connect(b, nil); err != nil {
			evid.Fatalf("restart scenario %+v: connect: %v", sc, err)
		}
		atomic.AddInt64(&e.transitions, 1)
		ids = append(ids, cb.Hash(), t.Hash())
		stack = append(stack, link{common2.OutPoint{TxID: t.Hash(), Index: 0}})
		return step("connect")
	}
	for i := 0; i < sc.L; i++ {
		if fs := connect(); len(fs) > 0 {
			return fs
		}
	}
	for i := 0; i < sc.D; i++ {
		if _, err := c.s.DisconnectTip(nil); err != nil {
			return []fail{{"C14|disconnect-error|restart-scenario", err.Error()}}
		}
		atomic.AddInt64(&e.transitions, 1)
		stack = stack[:len(stack)-1]
		if fs := step("disconnect"); len(fs) > 0 {
			return fs
		}
	}
	for i := 0; i < sc.D+1; i++ {
		if fs := connect(); len(fs) > 0 {
			return fs
		}
	}
	if err := c.s.Reopen(); err != nil {
		evid.Fatalf("restart scenario %+v: reopen: %v", sc, err)
	}
	atomic.AddInt64(&e.reopens, 1)
	if fs := step("restart"); len(fs) > 0 {
		return fs
	}
	for i := 0; i < sc.K; i++ {
		fs := connect()
		for j := range fs {
			fs[j].sig = strings.Replace(fs[j].sig, "after=connect", "after=connect-after-restart", 1)
		}
		if len(fs) > 0 {
			return fs
		}
	}
	atomic.AddInt64(&e.nodes, 1)
	return nil
}

func (e *explorer) scenarios(list []scenario) {
	par.Go(len(list), func(i int) {
		fs := runScenario(e, list[i])
		if len(fs) == 0 {
			return
		}
		// confirm once more on a fresh store
		if a, b := sigs(fs), sigs(runScenario(e, list[i])); a != b {
			evid.Fatalf("restart scenario %+v does not reproduce: first %s then %s", list[i], a, b)
		}
		name := []string{fmt.Sprintf("L=%d", list[i].L), fmt.Sprintf("d=%d", list[i].D), fmt.Sprintf("k=%d", list[i].K)}
		e.mu.Lock()
		for _, f := range fs {
			cur := e.found[f.sig]
			if cur == nil {
				cur = &found{}
				e.found[f.sig] = cur
			}
			cur.count++
			if cur.hist == nil || strings.Join(name, ",") < strings.Join(cur.hist, ",") {
				cur.hist, cur.what = name, fmt.Sprintf("scenario L=%d d=%d k=%d: %s", list[i].L, list[i].D, list[i].K, f.what)
			}
		}
		e.mu.Unlock()
	})
	var ks []string
	for k := range e.found {
		ks = append(ks, k)
	}
	sort.Strings(ks)
	for _, k := range ks {
		f := e.found[k]
		var sc scenario
		fmt.Sscanf(strings.Join(f.hist, " "), "L=%d d=%d k=%d", &sc.L, &sc.D, &sc.K)
		e.r.MergeViolation(evid.Violation{Signature: k, What: f.what, Count: f.count,
			Artefact: map[string]interface{}{"system": "c14-restart", "L": sc.L, "d": sc.D, "k": sc.K}})
	}
}

func newExplorer(r *evid.Run, base string, m *menuT, fundCb interfaces.Transaction, ops []string, depth int, cold bool) *explorer {
	e := &explorer{r: r, base: base, m: m, fundCb: fundCb, ops: ops, maxDepth: depth, cold: cold,
		confirmed: map[string]bool{}, found: map[string]*found{}, states: map[string]bool{}}
	e.samples.N = 4
	return e
}

func main() {
	r := evid.Start("C14", "model_checking")
	base := evid.Scratch("c14")
	defer os.RemoveAll(base)
	sk.Setup(base + "/logs")
	g := sk.Params().GenesisBlock
	m, fundCb := menu(g.Transactions[0].Hash())
	var all []string
	for _, o := range m.ops {
		all = append(all, o.name)
	}

	if r.Replay != "" {
		var a struct {
			System  string   `json:"system"`
			History []string `json:"history"`
			Cold    bool     `json:"cold"`
			L       int      `json:"L"`
			D       int      `json:"d"`
			K       int      `json:"k"`
		}
		want := r.LoadReplay(&a)
		if a.System == "c14-restart" {
			e := newExplorer(r, base, m, fundCb, all, 0, false)
			fs := runScenario(e, scenario{a.L, a.D, a.K})
			fmt.Printf("replay restart scenario L=%d d=%d k=%d (expected %s):\n", a.L, a.D, a.K, want)
			for _, f := range fs {
				fmt.Printf("  FAIL %s — %s\n", f.sig, f.what)
				r.Violate(f.sig, f.what, map[string]interface{}{"system": "c14-restart", "L": a.L, "d": a.D, "k": a.K})
			}
			if len(fs) == 0 {
				fmt.Println("  ok")
			}
			os.RemoveAll(base)
			r.Finish(evid.Coverage{})
		}
		e := newExplorer(r, base, m, fundCb, all, len(a.History), a.Cold)
		fs := e.replayHistory(a.History)
		fmt.Printf("replay %v cold=%v (expected %s):\n", a.History, a.Cold, want)
		for _, f := range fs {
			fmt.Printf("  FAIL %s — %s\n", f.sig, f.what)
			r.Violate(f.sig, f.what, map[string]interface{}{"system": "c14-store", "cold": a.Cold, "history": a.History})
		}
		if len(fs) == 0 {
			fmt.Println("  ok: every answer equals the ledger replay")
		}
		os.RemoveAll(base)
		r.Finish(evid.Coverage{})
	}

	type phase struct {
		name  string
		ops   []string
		depth int
		cold  bool
	}
	phases := []phase{
		{"warm", all, r.Pick(5, 7), false},
		{"reopened", all, r.Pick(3, 5), true},
	}
	var totNodes, totTrans, totChecks, totInst, totReopen, totRebuilt int64
	states := map[string]bool{}
	exhaustive := true
	var phaseInfo []map[string]interface{}
	samples := []interface{}{}
	nontrivial := map[string]int{}
	for _, ph := range phases {
		e := newExplorer(r, base, m, fundCb, ph.ops, ph.depth, ph.cold)
		e.explore()
		e.flush()
		if e.expired != 0 {
			exhaustive = false
		}
		totNodes += e.nodes
		totTrans += e.transitions
		totChecks += e.checks
		totInst += e.instances
		totReopen += e.reopens
		totRebuilt += e.rebuilt
		for k := range e.states {
			states[k] = true
		}
		for k, v := range e.nontrivial.Map() {
			nontrivial[k] += v
		}
		samples = append(samples, e.samples.Out...)
		phaseInfo = append(phaseInfo, map[string]interface{}{"phase": ph.name, "alphabet": ph.ops, "depth": ph.depth, "reopen_after_every_transition": ph.cold,
			"connect_sequences": e.nodes, "oracle_evaluations": e.checks, "states_per_depth": e.perDepth, "completed": e.expired == 0})
	}
	// restart scenarios
	{
		var list []scenario
		lo, hi, dk := 5, 7, 3
		if r.Thorough() {
			lo, hi, dk = 3, 9, 4
		}
		for L := lo; L <= hi; L++ {
			for d := 1; d <= dk && d < L; d++ {
				for k := 1; k <= dk; k++ {
					list = append(list, scenario{L, d, k})
				}
			}
		}
		e := newExplorer(r, base, m, fundCb, all, 0, false)
		e.scenarios(list)
		totNodes += e.nodes
		totTrans += e.transitions
		totChecks += e.checks
		totInst += e.instances
		totReopen += e.reopens
		phaseInfo = append(phaseInfo, map[string]interface{}{"phase": "restart-scenarios", "scenarios": len(list), "completed_without_failure": e.nodes,
			"space": fmt.Sprintf("chain of L in %d..%d blocks, disconnect d in 1..%d, connect d+1 new blocks, reopen the store, connect k in 1..%d more; oracle after every step over every transaction ever created", lo, hi, dk, dk)})
	}
	if len(samples) == 0 {
		samples = append(samples, []string{})
	}
	cov := evid.Coverage{
		"states":                        len(states),
		"transitions":                   totTrans,
		"traces_validated_against_impl": totNodes,
		"oracle_evaluations":            totChecks,
		"fresh_store_instances":         totInst,
		"reopens":                       totReopen,
		"rebuilds_after_violation":      totRebuilt,
		"connects_per_block_kind":       nontrivial,
		"phases":                        phaseInfo,
		"exhaustive":                    exhaustive,
		"samples":                       samples,
		"rule": "depth-first enumeration of every enabled connect sequence over the transfer-block menu up to the depth bound on a real chain store (ChainStore.SaveBlock/RollbackBlock); " +
			"after every connect and every disconnect: GetUnspent/GetTransaction for every transaction id the menu can produce (+ coinbases of the path) and GetUTXO/Ledger.GetAmount for the three addresses " +
			"== map-based replay of the active chain (multiset comparison, zero-value outputs never listed per address); second pass with the store reopened from disk after every transition; " +
			"states = distinct answer vectors; traces = connect sequences executed on the implementation",
	}
	r.Assume = append(r.Assume,
		"blocks are synthetic (no signatures, no proof of work, zero AuxPow); the store seam does not validate them",
		"menu rules keep blocks consensus-valid as far as the indexes are concerned: no output spent twice, no transaction twice on the active chain, inputs only from earlier blocks "+
			"(a block spending an output created in the same block is rejected by block validation — checkTxsContext resolves inputs against the committed store — and is therefore not in the alphabet)",
		"after a verified disconnect the instance is reused for the next sibling (the answers equal the ledger replay of the parent state); after a violation the state is rebuilt by a clean replay",
	)
	os.RemoveAll(base)
	r.Finish(cov)
}
