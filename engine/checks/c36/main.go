// C36: JSON-RPC access control and service levels — bounded-exhaustive enumeration against the
// real HTTP handlers (no listening socket; requests are handed to the handler with
// net/http/httptest).
//
// Part (a) — access control. The node's JSON-RPC server is servers/httpjsonrpc (main.go starts
// httpjsonrpc.StartRPCServer; its handler is httpjsonrpc.Handle). utils/http/jsonrpc.Server is
// only used by the node as a client library (cmd/common → jsonrpc.Call) but is named in the
// property's anchors and carries the same two gates, so it is driven with the same matrix.
// Space: remote address × whitelist × configured credentials × Authorization header(s) ×
// spoofable forwarding headers. Oracle (written from the statement, independent of the code):
//
//	served ⇔ (loopback(addr) ∨ whitelisted(addr)) ∧ (no credentials ∨ the one Authorization value == "Basic "+b64(user:pass))
//
// with three declared don't-care regions (reported, never alarmed): a remote address that is
// not an IP under the repository's documented "0.0.0.0 = everybody" wildcard; two
// Authorization headers of which exactly one is right.
//
// Part (b) — service levels. Every method registered in the production table (enumerated at run
// time through the verif hook) × every service level name. Methods of the statement's four
// classes (table below) must answer the out-of-service-level refusal whenever the level
// forbids their class; node globals are nil, so a handler that does anything else first shows
// up as a panic / other response / dead worker. Unclassified methods are only listed.
package main

import (
	"bytes"
	"encoding/base64"
	"encoding/hex"
	"encoding/json"
	"fmt"
	"net/http"
	"net/http/httptest"
	"os"
	"path/filepath"
	"runtime"
	"runtime/debug"
	"sort"
	"strconv"
	"strings"
	"time"

	"github.com/elastos/Elastos.ELA/auxpow"
	"github.com/elastos/Elastos.ELA/common"
	"github.com/elastos/Elastos.ELA/common/config"
	ctypes "github.com/elastos/Elastos.ELA/core/types/common"
	"github.com/elastos/Elastos.ELA/core/types/functions"
	"github.com/elastos/Elastos.ELA/core/types/outputpayload"
	"github.com/elastos/Elastos.ELA/core/types/payload"
	"github.com/elastos/Elastos.ELA/core/transaction"
	"github.com/elastos/Elastos.ELA/servers"
	"github.com/elastos/Elastos.ELA/servers/httpjsonrpc"
	htp "github.com/elastos/Elastos.ELA/utils/http"
	"github.com/elastos/Elastos.ELA/utils/http/jsonrpc"

	"verif/evid"
	"verif/hx"
	"verif/par"
)

// ---------------------------------------------------------------------------------------------
// part (a): access control

type addrCase struct {
	Name     string // class used in signatures
	Remote   string // http.Request.RemoteAddr
	IP       string // canonical text of the address ("" = not an IP address)
	Loopback bool   // by definition: 127.0.0.0/8 (also IPv4-mapped) or ::1
}

func addrMenu(thorough bool) []addrCase {
	m := []addrCase{
		{"loopback-v4", "127.0.0.1:51000", "127.0.0.1", true},
		{"loopback-v6", "[::1]:51000", "::1", true},
		{"loopback-v4-other", "127.0.0.2:51000", "127.0.0.2", true},
		{"loopback-v4-mapped", "[::ffff:127.0.0.1]:51000", "127.0.0.1", true},
		{"private-v4", "10.0.0.1:51000", "10.0.0.1", false},
		{"private-v4-mapped", "[::ffff:10.0.0.1]:51000", "10.0.0.1", false},
		{"public-v4", "8.8.8.8:51000", "8.8.8.8", false},
		{"public-v6", "[2001:4860:4860::8888]:51000", "2001:4860:4860::8888", false},
		{"unspecified-v4", "0.0.0.0:51000", "0.0.0.0", false},
		{"unspecified-v6", "[::]:51000", "::", false},
		{"malformed-empty", "", "", false},
		{"malformed-name", "not-an-ip:51000", "", false},
		{"malformed-octet", "999.1.1.1:51000", "", false},
		{"malformed-loopback-prefix", "127.0.0.1.evil.example:51000", "", false},
		{"malformed-bracket", "[::1", "", false},
	}
	if thorough {
		m = append(m,
			addrCase{"below-loopback-v4", "126.255.255.255:51000", "126.255.255.255", false},
			addrCase{"loopback-v4-last", "127.255.255.255:51000", "127.255.255.255", true},
			addrCase{"above-loopback-v4", "128.0.0.0:51000", "128.0.0.0", false},
			addrCase{"near-loopback-v6", "[::2]:51000", "::2", false},
			addrCase{"linklocal-v6", "[fe80::1]:51000", "fe80::1", false},
			addrCase{"private-v4-b", "192.168.1.1:51000", "192.168.1.1", false},
		)
	}
	return m
}

type wlCase struct {
	Name        string
	List        []string
	Whitelisted bool // by definition: list contains the canonical address text or the wildcard
	Wildcard    bool
}

const otherIP = "192.0.2.77"

func wlMenu(a addrCase) []wlCase {
	m := []wlCase{
		{"empty", nil, false, false},
		{"other", []string{otherIP}, false, false},
		{"wildcard", []string{"0.0.0.0"}, true, true},
		{"other+wildcard", []string{otherIP, "0.0.0.0"}, true, true},
		{"loopback-only", []string{"127.0.0.1", "::1"}, a.IP == "127.0.0.1" || a.IP == "::1", false},
	}
	if a.IP != "" {
		m = append(m,
			wlCase{"that", []string{a.IP}, true, a.IP == "0.0.0.0"},
			wlCase{"other+that", []string{otherIP, a.IP}, true, a.IP == "0.0.0.0"},
		)
		// near misses: one character more / one character less than the address
		near := []string{a.IP + "1", a.IP[:len(a.IP)-1]}
		ok := true
		for _, n := range near {
			if n == a.IP || n == "0.0.0.0" {
				ok = false
			}
		}
		if ok {
			m = append(m, wlCase{"near-miss", near, false, false})
		}
	}
	return m
}

type credCase struct {
	Name, User, Pass string
}

var credMenu = []credCase{
	{"none", "", ""},
	{"user-only", "rpcuser", ""},
	{"pass-only", "", "s3cret"},
	{"user+pass", "rpcuser", "s3cret"},
}

func basic(u, p string) string {
	return "Basic " + base64.StdEncoding.EncodeToString([]byte(u+":"+p))
}

type hdrCase struct {
	Name   string
	Values []string // Authorization header values (nil = header absent)
	// Verdict by definition for configured credentials: +1 equals the configured value, -1 does
	// not, 0 = declared don't-care (two headers, exactly one right).
	Verdict int
}

func hdrMenu(c credCase, thorough bool) []hdrCase {
	exact := basic(c.User, c.Pass)
	wrongPass := basic(c.User, c.Pass+"x")
	wrongUser := basic(c.User+"x", c.Pass)
	m := []hdrCase{
		{"absent", nil, -1},
		{"exact", []string{exact}, +1},
		{"wrong-pass", []string{wrongPass}, -1},
		{"wrong-user", []string{wrongUser}, -1},
		{"swapped", []string{basic(c.Pass, c.User)}, -1},
		{"lowercase-scheme", []string{"basic" + exact[5:]}, -1},
		{"trailing-space", []string{exact + " "}, -1},
		{"leading-space", []string{" " + exact}, -1},
		{"prefix", []string{exact[:len(exact)-1]}, -1},
		{"extended", []string{exact + "A"}, -1},
		{"empty-value", []string{""}, -1},
		{"scheme-only", []string{"Basic "}, -1},
		{"bearer", []string{"Bearer" + exact[5:]}, -1},
		{"raw-login", []string{c.User + ":" + c.Pass}, -1},
		{"two-exact", []string{exact, exact}, +1},
		{"two-wrong", []string{wrongPass, wrongUser}, -1},
		{"two-right-first", []string{exact, wrongPass}, 0},
		{"two-right-second", []string{wrongPass, exact}, 0},
	}
	if c.User == c.Pass { // swapped == exact
		m[4].Verdict = +1
	}
	if thorough {
		// every proper prefix and every single-character substitution of the exact value
		for i := 0; i < len(exact); i++ {
			m = append(m, hdrCase{"prefix-family", []string{exact[:i]}, -1})
			for _, ch := range []byte{'A', 'b', '0', '=', ' '} {
				if exact[i] == ch {
					continue
				}
				b := []byte(exact)
				b[i] = ch
				m = append(m, hdrCase{"substitution-family", []string{string(b)}, -1})
			}
		}
	}
	return m
}

type accessCase struct {
	Server   string   `json:"server"`
	Addr     string   `json:"addr_class"`
	Remote   string   `json:"remote"`
	WL       string   `json:"whitelist_class"`
	List     []string `json:"whitelist"`
	Cred     string   `json:"cred_class"`
	User     string   `json:"user"`
	Pass     string   `json:"pass"`
	Hdr      string   `json:"header_class"`
	Auth     []string `json:"authorization"`
	Spoof    bool     `json:"forwarding_headers_claim_loopback"`
	Kind     string   `json:"kind"`
	wantIP   bool
	wantAuth int
	dontCare bool
}

const probeResult = "createauxblock==submitauxblock" // answer of the registered method "help"

var devNull, _ = os.OpenFile(os.DevNull, os.O_WRONLY, 0)

// drive hands one request to the real handler and classifies the answer.
func drive(c *accessCase) (served bool, status int, panicked string) {
	config.Parameters.RpcConfiguration.User = c.User
	config.Parameters.RpcConfiguration.Pass = c.Pass
	config.Parameters.RpcConfiguration.WhiteIPList = c.List
	body := `{"jsonrpc":"2.0","id":7,"method":"help","params":{}}`
	req := httptest.NewRequest("POST", "/", strings.NewReader(body))
	req.RemoteAddr = c.Remote
	req.Header.Set("Content-Type", "application/json")
	if c.Auth != nil {
		req.Header["Authorization"] = append([]string{}, c.Auth...)
	}
	if c.Spoof {
		req.Header.Set("X-Forwarded-For", "127.0.0.1")
		req.Header.Set("X-Real-Ip", "127.0.0.1")
		req.Header.Set("Forwarded", "for=127.0.0.1")
	}
	w := httptest.NewRecorder()
	func() {
		// utils/http/jsonrpc reports refused clients with fmt.Printf: keep the run's output clean
		saved := os.Stdout
		os.Stdout = devNull
		defer func() {
			os.Stdout = saved
			if e := recover(); e != nil {
				panicked = fmt.Sprint(e)
			}
		}()
		switch c.Server {
		case "httpjsonrpc":
			httpjsonrpc.Handle(w, req)
		case "utils-jsonrpc":
			// the server copies its Config at construction: one instance per configuration
			s := jsonrpc.NewServer(&jsonrpc.Config{User: c.User, Pass: c.Pass, WhiteList: c.List})
			s.RegisterAction("help", func(htp.Params) (interface{}, error) { return probeResult, nil })
			s.ServeHTTP(w, req)
		}
	}()
	status = w.Code
	var resp struct {
		Result interface{} `json:"result"`
	}
	if status == 200 && json.Unmarshal(w.Body.Bytes(), &resp) == nil && resp.Result == probeResult {
		served = true
	}
	return
}

func checkAccess(r *evid.Run, c *accessCase, cnt *counters) {
	served, status, pan := drive(c)
	cnt.evals++
	if pan != "" {
		r.Violate("C36|panic|server="+c.Server+"|addr="+c.Addr, "handler panicked on an access-control input: "+pan, c)
		return
	}
	if c.dontCare {
		cnt.dontCare++
		return
	}
	want := c.wantIP && c.wantAuth > 0
	cnt.outcome[fmt.Sprintf("%s status=%d served=%v", c.Server, status, served)]++
	if status == 401 || status == 200 {
		cnt.nontrivial[fmt.Sprintf("%s|%s|%s|%s|%s|%v", c.Server, c.Addr, c.WL, c.Cred, c.Hdr, c.Spoof)] = true
	}
	switch {
	case served && !c.wantIP:
		r.Violate(fmt.Sprintf("C36|served-unauthorised|ip|server=%s|addr=%s|wl=%s", c.Server, c.Addr, c.WL),
			fmt.Sprintf("request from %q served although the address is neither loopback nor in the whitelist %v", c.Remote, c.List), c)
	case served && c.wantAuth < 0:
		r.Violate(fmt.Sprintf("C36|served-unauthorised|auth|server=%s|cred=%s|hdr=%s", c.Server, c.Cred, c.Hdr),
			fmt.Sprintf("request served although credentials are configured and Authorization %q is not the configured Basic value", c.Auth), c)
	case !served && want:
		stage := "auth"
		if status == 403 {
			stage = "ip"
		}
		r.Violate(fmt.Sprintf("C36|refused-authorised|%s|server=%s|addr=%s|wl=%s|cred=%s|hdr=%s", stage, c.Server, c.Addr, c.WL, c.Cred, c.Hdr),
			fmt.Sprintf("request from %q (whitelist %v) with the right credentials refused with HTTP %d", c.Remote, c.List, status), c)
	}
	if served {
		cnt.served++
	} else {
		cnt.refused++
	}
}

type counters struct {
	evals, served, refused, dontCare int
	outcome                          map[string]int
	nontrivial                       map[string]bool
}

func enumerateAccess(r *evid.Run, cnt *counters, samples *evid.Samples) {
	thorough := r.Thorough()
	for _, server := range []string{"httpjsonrpc", "utils-jsonrpc"} {
		for _, a := range addrMenu(thorough) {
			for _, wl := range wlMenu(a) {
				for _, cr := range credMenu {
					for _, h := range hdrMenu(cr, thorough) {
						for _, spoof := range []bool{false, true} {
							c := &accessCase{Kind: "access", Server: server, Addr: a.Name, Remote: a.Remote, WL: wl.Name, List: wl.List,
								Cred: cr.Name, User: cr.User, Pass: cr.Pass, Hdr: h.Name, Auth: h.Values, Spoof: spoof}
							c.wantIP = a.Loopback || (wl.Whitelisted && a.IP != "")
							if a.IP == "" && wl.Wildcard {
								c.dontCare = true // not an address, but "0.0.0.0" is documented as "everybody"
							}
							if cr.User == "" && cr.Pass == "" {
								c.wantAuth = +1
							} else {
								c.wantAuth = h.Verdict
								if h.Verdict == 0 && c.wantIP {
									c.dontCare = true
								}
							}
							checkAccess(r, c, cnt)
							if spoof == false && (h.Name == "exact" || h.Name == "prefix") && wl.Name == "that" {
								samples.Add(c)
							}
						}
					}
				}
			}
		}
	}
}

// ---------------------------------------------------------------------------------------------
// part (b): service levels

// The five level names of common/config (RPCServiceLevel); the string is what an operator
// configures. Two more spellings the node does not recognise are run for information only.
var levelNames = []string{"ConfigurationPermitted", "MiningPermitted", "TransactionPermitted", "WalletPermitted", "QueryOnly"}
var infoLevels = []string{"", "queryonly"}

// Classification from the statement's four classes. forbiddenAt comes from the repository's own
// level definitions (config.go: Configuration ⊃ Mining ⊃ Transaction ⊃ Wallet ⊃ QueryOnly; a
// class is allowed at its own level and at every more permissive one), written out as a table.
// togglemining both mines and changes a setting: it is held to the weaker (mining) obligation.
var classOf = map[string]string{
	"setloglevel":                "settings",
	"createauxblock":             "mine",
	"submitauxblock":             "mine",
	"discretemining":             "mine",
	"togglemining":               "mine",
	"sendrawtransaction":         "submit",
	"submitsidechainillegaldata": "submit",
	"createrawtransaction":       "wallet",
	"signrawtransactionwithkey":  "wallet",
	"listunspent":                "wallet",
	"getutxosbyamount":           "wallet",
	"getamountbyinputs":          "wallet",
	"decoderawtransaction":       "wallet",
}

var forbiddenAt = map[string]map[string]bool{
	"settings": {"MiningPermitted": true, "TransactionPermitted": true, "WalletPermitted": true, "QueryOnly": true},
	"mine":     {"TransactionPermitted": true, "WalletPermitted": true, "QueryOnly": true},
	"submit":   {"WalletPermitted": true, "QueryOnly": true},
	"wallet":   {"QueryOnly": true},
}

func testAddress() string {
	var u common.Uint168
	u[0] = 0x21
	for i := 1; i < len(u); i++ {
		u[i] = byte(i)
	}
	s, err := u.ToAddress()
	if err != nil {
		evid.Fatalf("address: %v", err)
	}
	return s
}

func installTxFunctions() {
	// what the node does at start-up (common/config/settings)
	functions.GetTransactionByTxType = transaction.GetTransaction
	functions.GetTransactionByBytes = transaction.GetTransactionByBytes
	functions.CreateTransaction = transaction.CreateTransaction
}

func rawTransferHex() string {
	var prev common.Uint256
	prev[0] = 9
	var ph common.Uint168
	ph[0] = 0x21
	tx := functions.CreateTransaction(ctypes.TxVersionDefault, ctypes.TransferAsset, 0, &payload.TransferAsset{}, nil,
		[]*ctypes.Input{{Previous: ctypes.OutPoint{TxID: prev, Index: 0}, Sequence: 0}},
		[]*ctypes.Output{{Value: 100, ProgramHash: ph, Type: ctypes.OTNone, Payload: &outputpayload.DefaultOutput{}}}, 0, nil)
	var b bytes.Buffer
	if err := tx.Serialize(&b); err != nil {
		evid.Fatalf("serialize transfer: %v", err)
	}
	// must be accepted by the decoder the handlers use
	rd := bytes.NewReader(b.Bytes())
	t2, err := functions.GetTransactionByBytes(rd)
	if err != nil {
		evid.Fatalf("decode transfer: %v", err)
	}
	if err := t2.Deserialize(rd); err != nil {
		evid.Fatalf("decode transfer: %v", err)
	}
	return hex.EncodeToString(b.Bytes())
}

// wellFormed returns parameters that pass the method's own parameter parsing, so that a
// handler without an effective gate proceeds to the node globals (nil here).
func wellFormed(method string) map[string]interface{} {
	addr := testAddress()
	switch method {
	case "setloglevel":
		return map[string]interface{}{"level": 6}
	case "createauxblock":
		return map[string]interface{}{"paytoaddress": addr}
	case "submitauxblock":
		var h common.Uint256
		ap := auxpow.GenerateAuxPow(h)
		var b bytes.Buffer
		if err := ap.Serialize(&b); err != nil {
			evid.Fatalf("auxpow: %v", err)
		}
		var back auxpow.AuxPow
		if err := back.Deserialize(bytes.NewReader(b.Bytes())); err != nil {
			evid.Fatalf("auxpow round trip: %v", err)
		}
		return map[string]interface{}{"blockhash": strings.Repeat("00", 32), "auxpow": hex.EncodeToString(b.Bytes())}
	case "discretemining":
		return map[string]interface{}{"count": 1}
	case "togglemining":
		return map[string]interface{}{"mining": false}
	case "sendrawtransaction", "decoderawtransaction":
		return map[string]interface{}{"data": rawTransferHex()}
	case "submitsidechainillegaldata":
		return map[string]interface{}{"illegaldata": "00"}
	case "createrawtransaction":
		return map[string]interface{}{
			"inputs":   `[{"txid":"` + strings.Repeat("ab", 32) + `","vout":0}]`,
			"outputs":  `[{"address":"` + addr + `","amount":"1"}]`,
			"locktime": 0,
		}
	case "signrawtransactionwithkey":
		return map[string]interface{}{"data": rawTransferHex(), "codes": `[]`, "privkeys": `["` + strings.Repeat("11", 32) + `"]`}
	case "listunspent":
		return map[string]interface{}{"addresses": []interface{}{addr}}
	case "getutxosbyamount":
		return map[string]interface{}{"address": addr, "amount": "1"}
	case "getamountbyinputs":
		// one input
		return map[string]interface{}{"inputs": "01" + strings.Repeat("ab", 32) + "0000" + "00000000"}
	}
	return nil
}

type cell struct {
	Method string                 `json:"method"`
	Level  string                 `json:"level"`
	Shape  string                 `json:"params_shape"` // nil | well-formed
	Params map[string]interface{} `json:"params"`
}

type cellResult struct {
	Cell    cell   `json:"cell"`
	Outcome string `json:"outcome"` // refused | panic:<site> | error:<code> | success | http:<status>
	Detail  string `json:"detail"`
}

func cellsFor(method string) []cell {
	var cs []cell
	wf := wellFormed(method)
	for _, lv := range append(append([]string{}, levelNames...), infoLevels...) {
		cs = append(cs, cell{method, lv, "nil", nil})
		if wf != nil {
			cs = append(cs, cell{method, lv, "well-formed", wf})
		}
	}
	return cs
}

func initNodeSide() {
	config.Parameters = &config.Configuration{}
	installTxFunctions()
	httpjsonrpc.VerifRegisterMethods()
}

// runCell posts one JSON-RPC call to the real handler from loopback without credentials.
func runCell(c cell) cellResult {
	servers.ChainParams = &config.Configuration{RPCServiceLevel: c.Level}
	config.Parameters.RpcConfiguration = config.RpcConfiguration{}
	reqBody, _ := json.Marshal(map[string]interface{}{"jsonrpc": "2.0", "id": 1, "method": c.Method, "params": c.Params})
	req := httptest.NewRequest("POST", "/", bytes.NewReader(reqBody))
	req.RemoteAddr = "127.0.0.1:51000"
	req.Header.Set("Content-Type", "application/json")
	w := httptest.NewRecorder()
	res := cellResult{Cell: c}
	base := runtime.NumGoroutine()
	func() {
		defer func() {
			if e := recover(); e != nil {
				res.Outcome = "panic:" + evid.PanicSite(debug.Stack())
				res.Detail = fmt.Sprint(e)
			}
		}()
		httpjsonrpc.Handle(w, req)
	}()
	// a handler may have started goroutines on nil node objects (they kill the process): let
	// them run before the next case is announced, so a death is attributed to this one.
	for i := 0; i < 300 && runtime.NumGoroutine() > base; i++ {
		time.Sleep(time.Millisecond)
	}
	if res.Outcome != "" {
		return res
	}
	if w.Code != http.StatusOK {
		res.Outcome = "http:" + strconv.Itoa(w.Code)
		return res
	}
	var resp struct {
		Result interface{} `json:"result"`
		Error  *struct {
			Code    interface{} `json:"code"`
			Message interface{} `json:"message"`
		} `json:"error"`
	}
	if err := json.Unmarshal(w.Body.Bytes(), &resp); err != nil {
		res.Outcome = "unparsable"
		res.Detail = err.Error()
		return res
	}
	if resp.Error == nil {
		res.Outcome = "success"
		return res
	}
	msg := fmt.Sprint(resp.Error.Message)
	code := fmt.Sprint(resp.Error.Code)
	res.Detail = msg
	if strings.Contains(msg, "service level") || code == "42001" {
		res.Outcome = "refused"
	} else {
		res.Outcome = "error:" + code
	}
	return res
}

type workerOut struct {
	Done    bool         `json:"done"`
	Methods []string     `json:"methods,omitempty"`
	Results []cellResult `json:"results"`
}

func workerMain(job string) {
	// scratch inside the parent's scratch directory: removed by the parent even when a handler
	// kills this process
	scr := filepath.Join(filepath.Dir(os.Getenv("VERIF_OUT")), fmt.Sprintf("w-%d", os.Getpid()))
	defer os.RemoveAll(scr)
	hx.QuietLogs(scr)
	initNodeSide()
	if job == "list" {
		par.Emit(workerOut{Done: true, Methods: httpjsonrpc.VerifMethodNames()})
		return
	}
	// job = method|start
	method, s, _ := strings.Cut(job, "|")
	start, _ := strconv.Atoi(s)
	cells := cellsFor(method)
	out := workerOut{}
	for i := start; i < len(cells); i++ {
		par.Announce(strconv.Itoa(i))
		out.Results = append(out.Results, runCell(cells[i]))
		par.Emit(out)
	}
	out.Done = true
	par.Emit(out)
}

// runMethod runs all cells of one method in worker subprocesses, restarting after a death.
func runMethod(method, scratch string) []cellResult {
	cells := cellsFor(method)
	var all []cellResult
	start := 0
	for start < len(cells) {
		rs := par.Procs([]string{method + "|" + strconv.Itoa(start)}, scratch, par.Opts{Timeout: 60 * time.Second, Parallel: 1})
		var out workerOut
		if rs[0].Out != nil {
			if err := json.Unmarshal(rs[0].Out, &out); err != nil {
				evid.Fatalf("worker output: %v", err)
			}
		}
		all = append(all, out.Results...)
		if out.Done {
			break
		}
		// the worker died in (or right after) cell start+len(out.Results), or after the last
		// recorded one; attribute to the announced cell.
		k := start + len(out.Results)
		if a, err := strconv.Atoi(rs[0].Announced); err == nil && rs[0].Died {
			k = a
		}
		if k >= len(cells) {
			break
		}
		tail := rs[0].Stderr
		if i := strings.Index(tail, "panic:"); i >= 0 {
			tail = tail[i:]
		}
		if i := strings.IndexByte(tail, '\n'); i >= 0 {
			tail = tail[:i]
		}
		if len(tail) > 200 {
			tail = tail[:200]
		}
		why := "worker-died"
		if rs[0].TimedOut {
			why = "worker-timeout"
		}
		// replace a result already recorded for k (death right after it was emitted)
		if n := len(all); n > 0 && all[n-1].Cell.Level == cells[k].Level && all[n-1].Cell.Shape == cells[k].Shape {
			all = all[:n-1]
		}
		all = append(all, cellResult{Cell: cells[k], Outcome: why, Detail: tail})
		start = k + 1
	}
	return all
}

func main() {
	if job, ok := par.Worker(); ok {
		workerMain(job)
		return
	}
	r := evid.Start("C36", "exploration")
	scr := evid.Scratch("c36")
	defer os.RemoveAll(scr)
	hx.QuietLogs(scr)

	if r.Replay != "" {
		replay(r, scr)
		return
	}

	// ---- part (a)
	initNodeSide()
	cnt := &counters{outcome: map[string]int{}, nontrivial: map[string]bool{}}
	samples := &evid.Samples{N: 4}
	enumerateAccess(r, cnt, samples)

	// ---- part (b)
	methods := httpjsonrpc.VerifMethodNames()
	if len(methods) == 0 {
		evid.Fatalf("no registered JSON-RPC methods found")
	}
	for m := range classOf {
		found := false
		for _, n := range methods {
			if n == m {
				found = true
			}
		}
		if !found {
			r.Assume = append(r.Assume, "classified method "+m+" is no longer registered (nothing to check for it)")
		}
	}
	for _, lv := range levelNames {
		if config.RPCServiceLevelFromString(lv).String() != lv {
			evid.Fatalf("service level %q is not recognised by the repository any more: level table of the check is out of date", lv)
		}
	}
	results := make([][]cellResult, len(methods))
	par.Go(len(methods), func(i int) {
		d := fmt.Sprintf("%s/m%d", scr, i)
		os.MkdirAll(d, 0o755)
		results[i] = runMethod(methods[i], d)
	})
	var cellsRun, obligations, refusedForbidden, gateOpens int
	unclassified := map[string]string{}
	levelOutcomes := map[string]int{}
	var bSamples []interface{}
	for i, m := range methods {
		class := classOf[m]
		perLevel := map[string][]string{}
		for _, res := range results[i] {
			cellsRun++
			perLevel[res.Cell.Level] = append(perLevel[res.Cell.Level], res.Outcome)
			if class == "" {
				continue
			}
			levelOutcomes[class+" "+res.Cell.Level+" "+res.Cell.Shape+" -> "+strings.SplitN(res.Outcome, ":", 2)[0]]++
			if !forbiddenAt[class][res.Cell.Level] {
				if res.Outcome != "refused" {
					gateOpens++
				}
				continue
			}
			obligations++
			ok := res.Outcome == "refused"
			// with no parameters at all a parameter error is tolerated (nothing privileged was
			// done); the well-formed call decides.
			if !ok && res.Cell.Shape == "nil" && res.Outcome == "error:"+invalidParamsCode {
				ok = true
			}
			if ok {
				refusedForbidden++
				if len(bSamples) < 4 && res.Cell.Shape == "well-formed" {
					bSamples = append(bSamples, res)
				}
				continue
			}
			r.Violate(fmt.Sprintf("C36|service-level|method=%s|class=%s", m, class),
				fmt.Sprintf("%s (%s) at service level %s with %s params answered %q (%s) instead of the out-of-service-level refusal", m, class, res.Cell.Level, res.Cell.Shape, res.Outcome, res.Detail),
				map[string]interface{}{"kind": "level", "cell": res.Cell})
		}
		if class == "" {
			var gated []string
			for _, lv := range levelNames {
				allRef := len(perLevel[lv]) > 0
				for _, o := range perLevel[lv] {
					if o != "refused" {
						allRef = false
					}
				}
				if allRef {
					gated = append(gated, lv)
				}
			}
			if len(gated) == 0 {
				unclassified[m] = "no service-level refusal at any level"
			} else {
				unclassified[m] = "refuses at " + strings.Join(gated, ",")
			}
		}
	}
	if obligations == 0 || refusedForbidden == 0 {
		evid.Fatalf("vacuous: no forbidden (method, level) cell was refused (obligations=%d)", obligations)
	}
	if gateOpens == 0 {
		evid.Fatalf("vacuous: no classified method got past its gate at a permitting level")
	}

	var smp []interface{}
	smp = append(smp, samples.Out...)
	smp = append(smp, bSamples...)
	var classified []string
	for _, m := range methods {
		if classOf[m] != "" {
			classified = append(classified, m+"="+classOf[m])
		}
	}
	r.Assume = append(r.Assume,
		"classification table (which registered methods mine / submit transactions / change settings / use wallet data) is the check's reading of the statement and of the repository's own gate levels; every other registered method is unclassified and never alarmed on",
		"requests are handed to the handler directly (httptest): header values are seen exactly as given (no wire-level trimming)",
		"utils/http/jsonrpc.Server is not started by the node (client library only); it is driven because the property names it")
	os.RemoveAll(scr)
	r.Finish(evid.Coverage{
		"evaluations":         cnt.evals + cellsRun,
		"distinct_nontrivial": len(cnt.nontrivial) + obligations,
		"rule": "(a) 2 servers x remote addresses x whitelists (empty, other, wildcard, other+wildcard, loopback-only, that, other+that, near-miss) x 4 credential pairs x Authorization header menu x {no forwarding headers, X-Forwarded-For/X-Real-Ip/Forwarded claiming 127.0.0.1}, POST help through the real handler; oracle served <=> (loopback or whitelisted) and (no credentials or header == Basic b64(user:pass)). " +
			"(b) every registered method x 5 level names (+2 unrecognised spellings, information only) x {no params, well-formed params} posted through httpjsonrpc.Handle with nil node globals in worker subprocesses; classified methods must answer the service-level refusal in every forbidden cell. " +
			"non-trivial = distinct access cases that passed the IP filter (HTTP 200/401) + forbidden (method, level, shape) cells",
		"exhaustive":              true,
		"access_cases":            cnt.evals,
		"access_served":           cnt.served,
		"access_refused":          cnt.refused,
		"access_dont_care":        cnt.dontCare,
		"access_outcomes":         cnt.outcome,
		"registered_methods":      len(methods),
		"classified_methods":      classified,
		"unclassified_methods":    unclassified,
		"level_cells_run":         cellsRun,
		"level_obligations":       obligations,
		"level_refused_forbidden": refusedForbidden,
		"level_gate_open_cells":   gateOpens,
		"level_outcomes":          levelOutcomes,
		"samples":                 smp,
	})
}

const invalidParamsCode = "42002" // servers/errors.InvalidParams

func replay(r *evid.Run, scr string) {
	var raw map[string]json.RawMessage
	sig := r.LoadReplay(&raw)
	var kind string
	json.Unmarshal(raw["kind"], &kind)
	fmt.Printf("replaying %s (%s)\n", sig, kind)
	switch kind {
	case "access":
		initNodeSide()
		var c accessCase
		r.LoadReplay(&c)
		// recompute the oracle from the stored classes
		found := false
		cnt := &counters{outcome: map[string]int{}, nontrivial: map[string]bool{}}
		for _, a := range addrMenu(true) {
			for _, wl := range wlMenu(a) {
				for _, cr := range credMenu {
					for _, h := range hdrMenu(cr, false) {
						if a.Name == c.Addr && wl.Name == c.WL && cr.Name == c.Cred && h.Name == c.Hdr && !found {
							found = true
							c.wantIP = a.Loopback || (wl.Whitelisted && a.IP != "")
							c.wantAuth = h.Verdict
							if cr.User == "" && cr.Pass == "" {
								c.wantAuth = +1
							}
							served, status, pan := drive(&c)
							fmt.Printf("  served=%v status=%d panic=%q; oracle: ip-ok=%v auth=%d\n", served, status, pan, c.wantIP, c.wantAuth)
							checkAccess(r, &c, cnt)
						}
					}
				}
			}
		}
		if !found {
			fmt.Println("  case is outside the quick header menu; re-run `./run C36 thorough`")
		}
	case "level":
		var a struct {
			Cell cell `json:"cell"`
		}
		r.LoadReplay(&a)
		installTxFunctions()
		cells := cellsFor(a.Cell.Method)
		for i, c := range cells {
			if c.Level == a.Cell.Level && c.Shape == a.Cell.Shape {
				// run just this cell in a worker (the handler may kill the process)
				rs := runMethodRange(a.Cell.Method, i, scr)
				class := classOf[a.Cell.Method]
				fmt.Printf("  %s at %s (%s params): %s %s\n", c.Method, c.Level, c.Shape, rs.Outcome, rs.Detail)
				if forbiddenAt[class][c.Level] && rs.Outcome != "refused" && !(c.Shape == "nil" && rs.Outcome == "error:"+invalidParamsCode) {
					r.Violate(fmt.Sprintf("C36|service-level|method=%s|class=%s", c.Method, class), "replayed: "+rs.Outcome, a)
				}
			}
		}
	}
	os.RemoveAll(scr)
	r.Finish(evid.Coverage{})
}

func runMethodRange(method string, idx int, scr string) cellResult {
	all := runMethod(method, scr)
	cells := cellsFor(method)
	for _, res := range all {
		if res.Cell.Level == cells[idx].Level && res.Cell.Shape == cells[idx].Shape {
			return res
		}
	}
	return cellResult{Cell: cells[idx], Outcome: "not-run"}
}

var _ = sort.Strings
