package main

// Mutable treap: explicit-state BFS (engine mc) over all put/delete sequences. One instance =
// one real treap.Mutable + the model + iterators that were created before the latest update.
//
// Priorities: the treap draws rand.Int() from the process-global source for every new node. New()
// seeds that source with the job's seed, so a history always sees the same priorities. After every
// operation one extra value is drawn and located in the (precomputed) stream of that seed: this
// measures how many values the operation consumed, so the stream position is known exactly and is
// part of the state digest (two histories are merged only if contents, the priorities of the
// present keys and the position in the priority stream all agree, i.e. the treaps have the same
// shape and will draw the same future priorities).

import (
	"fmt"
	"math/rand"
	"strings"

	"github.com/elastos/Elastos.ELA/database"

	"verif/mc"
)

var (
	jobSeed int64
	stream  []int // first values of the global source after rand.Seed(jobSeed)
)

func initStream(seed int64, n int) {
	jobSeed = seed
	rand.Seed(seed)
	stream = make([]int, n)
	for i := range stream {
		stream[i] = rand.Int()
	}
}

type genIter struct {
	it  database.VerifTreapIterator // by value: no allocation per step
	idx int                         // universe key it is positioned at; -1 exhausted; -2 new (never positioned)
}

type mutInst struct {
	t    *database.VerifTreapMutable
	m    model
	prio [4]int // priority of each present key as read from the seeded stream (-1 absent/unknown)
	pos  int    // position in the priority stream

	gen    [6]genIter // created after the previous step (checked after the next update)
	ngen   int
	walker genIter // long-lived forward walker: one Next() per step, ForceReseek after each update
	hist   []string
	hcode  uint64 // exact code of the history: base-12 digits of the operation indices, then the length
}

// checked: histories whose oracles have been evaluated already in this process. BFS reaches a
// state by replaying its history from a fresh instance; the state-evolving part of a step is
// always executed, the (pure) oracle part only the first time a history is seen.
var checked = map[uint64]*mc.Fail{} // history code -> contents verdict of its last step

// pool of instances (the search is serial inside a worker): avoids allocating and clearing ~8 KiB
// of iterator storage per replay.
var pool []*mutInst

func (in *mutInst) Close() { pool = append(pool, in) }

func newMut() mc.Instance {
	rand.Seed(jobSeed)
	var in *mutInst
	if n := len(pool); n > 0 {
		in, pool = pool[n-1], pool[:n-1]
		in.pos, in.ngen, in.hist, in.hcode = 0, 0, in.hist[:0], 0
	} else {
		in = &mutInst{}
	}
	in.t, in.m, in.prio = database.VerifNewTreapMutable(), emptyModel(), [4]int{-1, -1, -1, -1}
	in.walker = genIter{it: newIter(in.t, nil, nil), idx: -2}
	return in
}

func (in *mutInst) Ops() []string { return allOps }

func (in *mutInst) makeGen() {
	in.gen[0] = genIter{it: newIter(in.t, nil, nil), idx: -2}
	in.gen[1] = genIter{it: in.gen[0].it, idx: -1} // copies of a never-positioned iterator are fresh iterators
	ex := &in.gen[1].it
	ex.First()
	for ex.Next() {
	}
	in.ngen = 2
	for i, v := range in.m {
		if v >= 0 {
			in.gen[in.ngen] = genIter{it: in.gen[0].it, idx: i}
			in.gen[in.ngen].it.Seek(keys[i])
			in.ngen++
		}
	}
}

// succ/pred in the model relative to universe position idx (idx itself need not be present).
func (m model) succ(idx int) int {
	for i := idx + 1; i < 4; i++ {
		if m[i] >= 0 {
			return i
		}
	}
	return -1
}
func (m model) pred(idx int) int {
	for i := idx - 1; i >= 0; i-- {
		if m[i] >= 0 {
			return i
		}
	}
	return -1
}

// softFail records a violated class without stopping the exploration (a class that fails in
// every state must not hide the others); the history is kept by the instance.
var softFail func(sig, what string, hist []string)

// lastMutHist is the history of the step in progress (for the watchdog).
var lastMutHist []string

func (in *mutInst) Apply(op string) *mc.Fail {
	in.hist = append(in.hist, op)
	lastMutHist = in.hist
	progress++
	in.hcode = in.hcode*12 + uint64(opIndex(op))
	hkey := in.hcode<<4 | uint64(len(in.hist))
	prevVerdict, seen := checked[hkey]
	first := !seen
	if first {
		in.makeGen() // iterators created BEFORE the update
	} else {
		in.ngen = 0
	}
	put, k, v := parseOp(op)
	wasAbsent := in.m[k] < 0
	if put {
		in.t.Put(keys[k], vals[v])
		in.m[k] = v
	} else {
		in.t.Delete(keys[k])
		in.m[k] = -1
		in.prio[k] = -1
	}
	// measure the draws of the operation
	g := rand.Int()
	j := in.pos
	for j < len(stream) && stream[j] != g {
		j++
	}
	if j >= len(stream) {
		return mc.Failf("C19|mutable|priority-stream", "after %s: marker not found in the priority stream (position %d)", op, in.pos)
	}
	if put && wasAbsent && j == in.pos+1 {
		in.prio[k] = stream[in.pos]
	}
	in.pos = j + 1
	m := in.m
	var f failures
	ctx := "after " + op

	// iterators created before this update: notify, then continue in both directions
	for i := 0; i < in.ngen; i++ {
		in.gen[i].it.ForceReseek()
	}
	in.walker.it.ForceReseek()
	var cont, repoF, repoL, repoS string
	for gx := 0; gx < in.ngen && first; gx++ {
		gi := &in.gen[gx]
		var wantN, wantP int
		switch gi.idx {
		case -2:
			wantN, wantP = m.succ(-1), m.pred(4)
		case -1:
			wantN, wantP = -1, -1
		default:
			wantN, wantP = m.succ(gi.idx), m.pred(gi.idx)
		}
		if cont == "" {
			c := gi.it
			ok := c.Next()
			for w := wantN; ; w = m.succ(w) {
				if !atOK(&c, ok, m, w) {
					cont = fmt.Sprintf("next|iterator state %d", gi.idx)
					break
				}
				if w < 0 {
					break
				}
				ok = c.Next()
			}
		}
		if cont == "" {
			c := gi.it
			ok := c.Prev()
			for w := wantP; ; w = m.pred(w) {
				if !atOK(&c, ok, m, w) {
					cont = fmt.Sprintf("prev|iterator state %d", gi.idx)
					break
				}
				if w < 0 {
					break
				}
				ok = c.Prev()
			}
		}
		// notified iterator that is then repositioned absolutely and moved on
		if repoF == "" {
			c := gi.it
			ok := c.First()
			if !entryOK(&c, ok, m, m.succ(-1)) {
				repoF = fmt.Sprintf("first|iterator state %d", gi.idx)
			} else if ok && !atOK(&c, c.Next(), m, m.succ(m.succ(-1))) {
				repoF = fmt.Sprintf("first-next|iterator state %d: First then Next does not yield the second key", gi.idx)
			}
		}
		if repoL == "" {
			c := gi.it
			ok := c.Last()
			if !entryOK(&c, ok, m, m.pred(4)) {
				repoL = fmt.Sprintf("last|iterator state %d", gi.idx)
			} else if ok && !atOK(&c, c.Prev(), m, m.pred(m.pred(4))) {
				repoL = fmt.Sprintf("last-prev|iterator state %d: Last then Prev does not yield the second-to-last key", gi.idx)
			}
		}
		repo := &repoS
		for i := 0; i < 4 && *repo == ""; i++ {
			c := gi.it
			w := i
			if m[i] < 0 {
				w = m.succ(i)
			}
			ok := c.Seek(keys[i])
			if !atOK(&c, ok, m, w) {
				*repo = fmt.Sprintf("seek|iterator state %d Seek(%s)", gi.idx, keys[i])
			} else if ok && !atOK(&c, c.Next(), m, m.succ(w)) {
				*repo = fmt.Sprintf("seek-next|iterator state %d: Seek(%s) then Next does not yield the successor", gi.idx, keys[i])
			} else if c.Seek(keys[i]); ok && !atOK(&c, c.Prev(), m, m.pred(w)) {
				*repo = fmt.Sprintf("seek-prev|iterator state %d: Seek(%s) then Prev does not yield the predecessor", gi.idx, keys[i])
			}
		}
	}
	if cont != "" {
		cl, txt, _ := strings.Cut(cont, "|")
		f.add("reseek-continue|"+cl, "%s (model %v): iterator created before the update, notified with ForceReseek, does not continue with its neighbours (%s)", ctx, m, txt)
	}
	for _, repo := range []string{repoF, repoL, repoS} {
		if repo != "" {
			cl, txt, _ := strings.Cut(repo, "|")
			f.add("reseek-reposition|"+cl, "%s (model %v): iterator created before the update, notified with ForceReseek, then repositioned (%s)", ctx, m, txt)
		}
	}
	// long-lived walker
	{
		w := &in.walker
		want := -1
		switch w.idx {
		case -2:
			want = m.succ(-1)
		default:
			want = m.succ(w.idx)
		}
		if !atOK(&w.it, w.it.Next(), m, want) {
			f.add("reseek-continue|walker", "%s (model %v): long-lived iterator (last at %d), ForceReseek after every update, Next does not yield the successor", ctx, m, w.idx)
			want = -1
		}
		if want < 0 {
			*w = genIter{it: newIter(in.t, nil, nil), idx: -2}
		} else {
			w.idx = want
		}
	}
	if first {
		if fullReadNeeded(0, opIndex(op), m, in.prio) {
			readFull(in.t, m, &f, ctx)
		} else if c := readBasic(in.t, m, work0(in.t)); c != "" {
			f.add(c, "%s: treap disagrees with the sorted-map model %v (%s)", ctx, m, c)
		}
	}
	var hard *mc.Fail
	for _, x := range f.list {
		sig := "C19|mutable|" + x[0]
		if strings.HasPrefix(x[0], "contents|") {
			// implementation and model have diverged: nothing below this state is meaningful
			if hard == nil {
				hard = &mc.Fail{Signature: sig, What: x[1]}
			}
			continue
		}
		softFail(sig, x[1], in.hist)
	}
	if first {
		checked[hkey] = hard
		return hard
	}
	return prevVerdict // replay of a history whose last step has been evaluated before
}

func work0(t reader) *database.VerifTreapIterator {
	*work = newIter(t, nil, nil)
	return work
}

func (in *mutInst) Digest() string {
	return fmt.Sprintf("%v|%v|%d|%d|%d/%d", in.m, in.prio, in.pos, in.walker.idx, in.t.Len(), in.t.Size())
}
