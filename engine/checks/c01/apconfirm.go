package main

// (a'') light-node confirmation for the ActivateProducer finding: a registered producer that
// has been set inactive activates itself with a transaction whose outputs contain a negative
// amount (the type's per-output check validates nothing after NFTStartHeight and its fee check
// only wants fee == 0).

import (
	"bytes"
	"fmt"
	"math"
	"path/filepath"

	"github.com/elastos/Elastos.ELA/common"
	"github.com/elastos/Elastos.ELA/core/contract"
	"github.com/elastos/Elastos.ELA/core/contract/program"
	"github.com/elastos/Elastos.ELA/core/transaction"
	"github.com/elastos/Elastos.ELA/core/types"
	common2 "github.com/elastos/Elastos.ELA/core/types/common"
	"github.com/elastos/Elastos.ELA/core/types/interfaces"
	"github.com/elastos/Elastos.ELA/core/types/payload"
	crstate "github.com/elastos/Elastos.ELA/cr/state"
	"github.com/elastos/Elastos.ELA/crypto"

	"verif/evid"
	"verif/lightnode"
)

type apRes struct {
	Name     string  `json:"name"`
	Outputs  amounts `json:"outputs"`
	Input    int64   `json:"input_value"` // value of the DISTINCT outputs spent
	Inputs   int     `json:"inputs_listed"`
	Distinct int     `json:"distinct_outpoints"`
	Sanity   string  `json:"sanity"`
	Context  string  `json:"context"`
	Accepted bool    `json:"accepted"`
	Producer string  `json:"producer_state"`
	Path     string  `json:"path"` // producer | cr-member
	H        uint32  `json:"h"`
	Control  bool    `json:"control"`
	Foreign  bool    `json:"foreign_input"`
}

type apFixture struct {
	n        *lightnode.Node
	fund     interfaces.Transaction
	payer    lightnode.Key
	attacker lightnode.Key
	next     int
}

func runAPConfirm(scr string) []apRes {
	n, err := lightnode.New(filepath.Join(scr, "node"), lightnode.Options{})
	if err != nil {
		evid.Fatalf("light node: %v", err)
	}
	defer n.Close()
	owner := lightnode.FixedKey("c01-producer-owner", 0)
	nodeKey := lightnode.FixedKey("c01-producer-node", 0)
	payer := lightnode.FixedKey("c01-owner", 0)
	dep, err := contract.CreateDepositContractByPubKey(owner.Pub)
	if err != nil {
		evid.Fatalf("deposit contract: %v", err)
	}
	st := n.Chain.GetState()
	info := &payload.ProducerInfo{OwnerKey: owner.Compressed, NodePublicKey: nodeKey.Compressed,
		NickName: "verif", Url: "http://verif", Location: 1, NetAddress: "127.0.0.1:20338"}
	reg := transaction.CreateTransaction(common2.TxVersion09, common2.RegisterProducer, 0, info, []*common2.Attribute{},
		[]*common2.Input{}, []*common2.Output{lightnode.Output(*dep.ToProgramHash(), 6000*100000000)}, 0, []*program.Program{})
	const h0 = 2000000
	st.ProcessBlock(&types.Block{Header: common2.Header{Height: h0}, Transactions: []interfaces.Transaction{reg}}, nil, 0)
	for i := uint32(1); i <= 7; i++ {
		st.ProcessBlock(&types.Block{Header: common2.Header{Height: h0 + i}}, nil, 0)
	}
	st.ProcessSpecialTxPayload(&payload.InactiveArbitrators{Arbitrators: [][]byte{nodeKey.Compressed}}, h0+8)
	pstate := "unknown"
	if p := st.GetProducer(nodeKey.Compressed); p != nil {
		pstate = p.State().String()
	}
	var fundOuts []*common2.Output
	for i := 0; i < 120; i++ {
		fundOuts = append(fundOuts, lightnode.Output(payer.StandardHash(), 1000))
	}
	fund, err := n.Fund("c01-ap", fundOuts...)
	if err != nil {
		evid.Fatalf("fund: %v", err)
	}
	nft := n.Params.DPoSConfiguration.NFTStartHeight
	late := uint32(h0 + 20)
	f := &apFixture{n: n, fund: fund, payer: payer, attacker: lightnode.FixedKey("c01-attacker", 0)}
	type vec = apVec
	one := []inRef{{0, 0}}
	none := []inRef{}
	vectors := []vec{
		{"control: 1000 -> 1000 (fee 0)", late, []int64{1000}, one, false, true, false},
		{"negative output: 1000 -> 1000000, -999000", late, []int64{1000000, -999000}, one, false, false, false},
		{"wrapping outputs: 1000 -> 2^62 x4, 1000", late, []int64{1 << 62, 1 << 62, 1 << 62, 1 << 62, 1000}, one, false, false, false},
		{"control: two distinct inputs -> 2000", late, []int64{2000}, []inRef{{0, 0}, {1, 0}}, false, true, false},
		{"same outpoint twice (equal sequence) -> 2000", late, []int64{2000}, []inRef{{0, 0}, {0, 0}}, false, false, false},
		{"same outpoint twice (different sequence) -> 2000", late, []int64{2000}, []inRef{{0, 0}, {0, 1}}, false, false, false},
		{"same outpoint three times -> 3000", late, []int64{3000}, []inRef{{0, 0}, {0, 1}, {0, 2}}, false, false, false},
		{"A,B,A' -> 3000", late, []int64{3000}, []inRef{{0, 0}, {1, 0}, {0, 1}}, false, false, false},
	}
	// the height gate of this type: NFTStartHeight -1 / = / +1, with and without inputs
	for _, h := range []uint32{nft - 1, nft, nft + 1} {
		tag := fmt.Sprintf("h=NFTStartHeight%+d", int64(h)-int64(nft))
		vectors = append(vectors,
			vec{tag + ": zero cost shape (nothing in, nothing out)", h, nil, none, true, h <= nft, false},
			vec{tag + ": no inputs, output 5000, bare", h, []int64{5000}, none, true, false, false},
			vec{tag + ": no inputs, output 5000, with attribute", h, []int64{5000}, none, false, false, false},
			vec{tag + ": no inputs, outputs 1 and 2^62", h, []int64{1, 1 << 62}, none, true, false, false},
			vec{tag + ": no inputs, four outputs of 2^62 (sum wraps to 0)", h, []int64{1 << 62, 1 << 62, 1 << 62, 1 << 62}, none, true, false, false},
			vec{tag + ": no inputs, four outputs of 2^62, with attribute", h, []int64{1 << 62, 1 << 62, 1 << 62, 1 << 62}, none, false, false, false},
			vec{tag + ": no inputs, 2^63-1, 2^63-1, 2 (sum wraps to 0)", h, []int64{math.MaxInt64, math.MaxInt64, 2}, none, true, false, false},
			vec{tag + ": no inputs, 2^63-1, 2^63-1, 1, 1 (sum wraps to 0)", h, []int64{math.MaxInt64, math.MaxInt64, 1, 1}, none, true, false, false},
			vec{tag + ": 1000 -> 1000", h, []int64{1000}, one, false, h > nft, false},
			vec{tag + ": 1000 -> 1000000", h, []int64{1000000}, one, false, false, false},
			vec{tag + ": 1000 -> 900", h, []int64{900}, one, false, false, false},
		)
	}
	vectors = append(vectors,
		vec{"late height: no inputs, four outputs of 2^62 (sum wraps to 0)", late, []int64{1 << 62, 1 << 62, 1 << 62, 1 << 62}, none, true, false, false},
		vec{"late height: no inputs, 2^63-1, 2^63-1, 2 (sum wraps to 0)", late, []int64{math.MaxInt64, math.MaxInt64, 2}, none, false, false, false})
	out := f.runVectors("producer", nodeKey, pstate, vectors, 0)

	// ---- the council-member path of SpecialContextCheck: in the election period an inactive
	// member activates through the same transaction type
	crKey := lightnode.FixedKey("c01-cr-node", 0)
	committee := n.Chain.GetCRCommittee()
	var cid common.Uint168
	cid[0] = 0x67
	cid[1] = 0xC1
	committee.InElectionPeriod = true
	committee.Members[cid] = &crstate.CRMember{Info: payload.CRInfo{CID: cid, NickName: "verif"}, MemberState: crstate.MemberInactive, DPOSPublicKey: crKey.Compressed}
	var crVectors []vec
	for _, h := range []uint32{nft - 1, nft, nft + 1, late} {
		tag := fmt.Sprintf("cr-member h=NFTStartHeight%+d", int64(h)-int64(nft))
		crVectors = append(crVectors,
			vec{tag + ": zero cost shape (nothing in, nothing out)", h, nil, none, true, h <= nft, false},
			vec{tag + ": no inputs, output 5000, bare", h, []int64{5000}, none, true, false, false},
			vec{tag + ": no inputs, four outputs of 2^62 (sum wraps to 0)", h, []int64{1 << 62, 1 << 62, 1 << 62, 1 << 62}, none, true, false, false},
			vec{tag + ": 1000 -> 1000", h, []int64{1000}, one, false, false, false},
			vec{tag + ": 1000 -> 1000000", h, []int64{1000000}, one, false, false, false},
			vec{tag + ": somebody else's 1000 -> 900 (no valid signature)", h, []int64{900}, one, false, false, true},
		)
	}
	out = append(out, f.runVectors("cr-member", crKey, "MemberInactive", crVectors, 100)...)
	return out
}

type apVec struct {
	name    string
	h       uint32
	outs    []int64
	ins     []inRef // empty = no inputs
	bare    bool    // no attributes and no programs (the zero cost shape)
	control bool
	foreign bool // the input is not the signer's: the program is signed by another key
}

func (f *apFixture) runVectors(path string, nodeKey lightnode.Key, pstate string, vectors []apVec, base int) []apRes {
	n := f.n
	var out []apRes
	for i, vct := range vectors {
		ap := &payload.ActivateProducer{NodePublicKey: nodeKey.Compressed}
		buf := new(bytes.Buffer)
		ap.SerializeUnsigned(buf, 0)
		sig, err := crypto.Sign(nodeKey.Priv, buf.Bytes())
		if err != nil {
			evid.Fatalf("sign: %v", err)
		}
		ap.Signature = sig
		var outs []*common2.Output
		for _, v := range vct.outs {
			outs = append(outs, lightnode.Output(f.attacker.StandardHash(), common.Fixed64(v)))
		}
		attrs := []*common2.Attribute{}
		if !vct.bare {
			attr := common2.NewAttribute(common2.Nonce, []byte(fmt.Sprintf("c01-ap-%d", base+i)))
			attrs = append(attrs, &attr)
		}
		var ins []*common2.Input
		distinct := map[int]bool{}
		for _, ir := range vct.ins {
			in := lightnode.Input(f.fund, f.next+ir.Slot)
			in.Sequence = ir.Seq
			ins = append(ins, in)
			distinct[ir.Slot] = true
		}
		f.next += len(distinct)
		if f.next > 110 {
			evid.Fatalf("C01 ActivateProducer fixture: not enough funded outputs")
		}
		tx := transaction.CreateTransaction(common2.TxVersion09, common2.ActivateProducer, 0, ap, attrs, ins, outs, 0, []*program.Program{})
		if !vct.bare && len(ins) > 0 {
			signer := f.payer
			if vct.foreign {
				signer = f.attacker
			}
			p, err := lightnode.SignStandard(tx, signer)
			if err != nil {
				evid.Fatalf("sign: %v", err)
			}
			tx.SetPrograms([]*program.Program{p})
		}
		r := apRes{Name: vct.name, Path: path, H: vct.h, Outputs: vct.outs, Input: 1000 * int64(len(distinct)), Inputs: len(ins), Distinct: len(distinct),
			Producer: pstate, Control: vct.control, Foreign: vct.foreign}
		s := n.SanityCheck(tx, vct.h, nil)
		r.Sanity = s.String()
		r.Context = "-"
		if s.Accepted() {
			_, c := n.ContextCheck(tx, vct.h, nil)
			r.Context = c.String()
			r.Accepted = c.Accepted()
		}
		out = append(out, r)
	}
	return out
}
