package main

import (
	"bytes"
	"fmt"
	"sort"
	"sync/atomic"
	"time"

	"github.com/elastos/Elastos.ELA/dpos/manager"
	"github.com/elastos/Elastos.ELA/dpos/state"

	"verif/dposkit"
	"verif/evid"
	"verif/par"
)

// Family B: a long-lived view object evaluated across a change of the arbiter set size.
//
// The SAME view object (and the same state.Arbitrators object, whose arbiter list is replaced)
// is evaluated once at t1 under n1 arbiters, then the set changes to n2 arbiters, optionally
// the view is reset as Consensus does for a new block (ResetView(now), offset 0), and it is
// evaluated at t2. A FRESH view object that only ever saw the n2 set, started from the long-lived
// object's (offset, view start time) at the moment of the change, is evaluated once at t2. Offset,
// carried remainder and — when the evaluation moved the offset — the on-duty flag must agree:
// nothing a view remembers from an earlier arbiter set may influence the schedule.

type nchangeCase struct {
	Kind    string `json:"kind"` // "nchange"
	Ver     int    `json:"version"`
	N1      int    `json:"arbiters_before"`
	N2      int    `json:"arbiters_after"`
	Offset  uint32 `json:"start_offset"`
	T1      int64  `json:"evaluate_before_change_ns"`
	Reset   bool   `json:"reset_view_at_change"`
	T2      int64  `json:"evaluate_after_change_ns"`
	comment string
}

func members(n int, all []*dposkit.Key) []state.ArbiterMember {
	ms := make([]state.ArbiterMember, n)
	for i := 0; i < n; i++ {
		m, err := state.NewOriginArbiter(all[i].PK)
		if err != nil {
			evid.Fatalf("origin arbiter: %v", err)
		}
		ms[i] = m
	}
	return ms
}

const nchangeMaxT = 1200 * time.Second

type nchangeOutcome struct {
	Offset  uint32
	Rem     time.Duration
	OnDuty  bool
	Changed bool
}

// runNChange executes one case; ms caches the member lists by size.
func runNChange(c *nchangeCase, all []*dposkit.Key, ms map[int][]state.ArbiterMember) (long, fresh nchangeOutcome) {
	eval := func(v *manager.VerifView, off *uint32, at time.Duration) bool {
		before := *off
		if c.Ver == 0 {
			v.ChangeView(off, t0.Add(at))
		} else {
			v.ChangeViewV1(off, t0.Add(at))
		}
		return *off != before
	}
	// long-lived object
	arbs := state.NewArbitratorsMock(ms[c.N1], 0, c.N1*2/3)
	lv := manager.VerifNewView(arbs, all[0].PK, tolerance, t0, &listener{})
	off := c.Offset
	eval(lv, &off, time.Duration(c.T1))
	// the arbiter set changes size
	arbs.CurrentArbitrators = ms[c.N2]
	arbs.MajorityCount = c.N2 * 2 / 3
	if c.Reset {
		lv.ResetView(t0.Add(time.Duration(c.T1)))
		off = 0
	}
	// fresh object: same offset and view start time, has only ever seen the new set
	fv := manager.VerifNewView(state.NewArbitratorsMock(ms[c.N2], 0, c.N2*2/3), all[0].PK, tolerance, lv.GetViewStartTime(), &listener{})
	foff := off
	long.Changed = eval(lv, &off, time.Duration(c.T2))
	fresh.Changed = eval(fv, &foff, time.Duration(c.T2))
	long.Offset, fresh.Offset = off, foff
	long.Rem = t0.Add(time.Duration(c.T2)).Sub(lv.GetViewStartTime())
	fresh.Rem = t0.Add(time.Duration(c.T2)).Sub(fv.GetViewStartTime())
	long.OnDuty, fresh.OnDuty = lv.IsOnDuty(), fv.IsOnDuty()
	return
}

func checkNChange(sk *sink, c *nchangeCase, all []*dposkit.Key, ms map[int][]state.ArbiterMember) (moved bool) {
	long, fresh := runNChange(c, all, ms)
	bad := long.Offset != fresh.Offset || long.Rem != fresh.Rem || long.Changed != fresh.Changed
	if !bad && fresh.Changed {
		want := bytes.Equal(all[int(fresh.Offset)%c.N2].PK, all[0].PK)
		bad = long.OnDuty != fresh.OnDuty || fresh.OnDuty != want
	}
	if bad {
		sk.Violate(fmt.Sprintf("C26|long-lived-view-vs-fresh-view|%s|arbiter-count-changed|reset=%v", verName(c.Ver), c.Reset),
			fmt.Sprintf("%s: a view evaluated at %v under %d arbiters, then (reset=%v) at %v under %d arbiters ends at offset %d remainder %v onDuty %v; a fresh view given the same offset and start time and only the %d-arbiter set ends at offset %d remainder %v onDuty %v (start offset %d)",
				verName(c.Ver), time.Duration(c.T1), c.N1, c.Reset, time.Duration(c.T2), c.N2, long.Offset, long.Rem, long.OnDuty, c.N2, fresh.Offset, fresh.Rem, fresh.OnDuty, c.Offset), *c)
	}
	return fresh.Changed
}

// nchangeFamily enumerates family B; returns evaluations, cases in which the post-change
// evaluation moved the offset, and one sample.
func nchangeFamily(r *evid.Run, ns []int, all []*dposkit.Key, gridS int) (cases, movedCases int64, sample interface{}) {
	ms := map[int][]state.ArbiterMember{}
	worlds := map[int]*world{}
	for _, n := range ns {
		ms[n] = members(n, all)
		worlds[n] = newWorld(n, all)
	}
	type job struct {
		ver, n1, n2 int
	}
	var jobs []job
	for ver := 0; ver < 2; ver++ {
		for _, n1 := range ns {
			for _, n2 := range ns {
				if n1 != n2 {
					jobs = append(jobs, job{ver, n1, n2})
				}
			}
		}
	}
	sinks := make([]sink, len(jobs))
	par.Go(len(jobs), func(i int) {
		j := jobs[i]
		offs := map[uint32]bool{}
		for _, o := range []int{0, 1, j.n1 - 1, j.n1, j.n1 + 1, j.n2 - 1, j.n2, j.n2 + 1, 2 * j.n1, 3 * j.n1} {
			if o >= 0 {
				offs[uint32(o)] = true
			}
		}
		var ol []uint32
		for o := range offs {
			ol = append(ol, o)
		}
		sort.Slice(ol, func(a, b int) bool { return ol[a] < ol[b] })
		for _, o0 := range ol {
			// instants: grid + the boundaries either arbiter count exhibits from this offset
			set := map[time.Duration]bool{}
			for _, n := range []int{j.n1, j.n2} {
				for _, t := range worlds[n].timeSet(j.ver, o0, gridS, 6) {
					// boundaries of a 1-arbiter schedule lie hours out; under 36 arbiters such
					// an elapsed time means tens of thousands of 5 s views per evaluation
					if t <= nchangeMaxT {
						set[t] = true
					}
				}
			}
			var ts []time.Duration
			for t := range set {
				ts = append(ts, t)
			}
			sort.Slice(ts, func(a, b int) bool { return ts[a] < ts[b] })
			for _, reset := range []bool{false, true} {
				for a, t1 := range ts {
					for _, t2 := range ts[a+1:] {
						c := nchangeCase{Kind: "nchange", Ver: j.ver, N1: j.n1, N2: j.n2, Offset: o0, T1: int64(t1), Reset: reset, T2: int64(t2)}
						atomic.AddInt64(&cases, 1)
						if checkNChange(&sinks[i], &c, all, ms) {
							atomic.AddInt64(&movedCases, 1)
						}
					}
				}
			}
		}
	})
	for i := range sinks {
		sinks[i].mergeInto(r)
	}
	sc := nchangeCase{Kind: "nchange", Ver: 1, N1: 3, N2: 12, Offset: 2, T1: int64(7 * time.Second), Reset: false, T2: int64(40 * time.Second)}
	long, fresh := runNChange(&sc, all, ms)
	sample = map[string]interface{}{"family": "arbiter-count change on a long-lived view", "case": sc,
		"long_lived": fmt.Sprintf("offset %d remainder %v", long.Offset, long.Rem), "fresh": fmt.Sprintf("offset %d remainder %v", fresh.Offset, fresh.Rem)}
	return
}
