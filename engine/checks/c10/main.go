// C10: a merged-mining proof commits to exactly this block — bounded-exhaustive enumeration of
// proofs around valid seeds, decided by the real auxpow.AuxPow.Check (every proof goes through
// AuxPow.Serialize/Deserialize first, so only wire-reachable proofs are judged) against an
// independent byte-level implementation of the statement.
package main

import (
	"bytes"
	"crypto/sha256"
	"encoding/binary"
	"encoding/hex"
	"fmt"
	"os"
	"runtime/debug"
	"sort"
	"strings"
	"sync"

	"github.com/elastos/Elastos.ELA/auxpow"
	"github.com/elastos/Elastos.ELA/common"

	"verif/evid"
	"verif/hx"
	"verif/par"
)

// ---- proof model (plain data; JSON-serialisable for replay) ---------------------------------

type txIn struct {
	PrevHash [32]byte `json:"-"`
	PrevIdx  uint32   `json:"prev_index"`
	Script   []byte   `json:"-"`
	Seq      uint32   `json:"sequence"`
	PrevHex  string   `json:"prev_hash"`
	ScriptHx string   `json:"script"`
}

type txOut struct {
	Value int64  `json:"value"`
	Pk    []byte `json:"-"`
	PkHex string `json:"pk"`
}

type proof struct {
	BlockHash  [32]byte
	ChainID    int
	AuxBranch  [][32]byte
	AuxIndex   uint32
	CbVersion  int32
	Ins        []txIn
	Outs       []txOut
	LockTime   uint32
	ParBranch  [][32]byte
	ParIndex   uint32
	HdrVersion uint32
	HdrPrev    [32]byte
	HdrRoot    [32]byte
	HdrTime    uint32
	HdrBits    uint32
	HdrNonce   uint32
	ParentHash [32]byte
}

func (p *proof) clone() *proof {
	q := *p
	q.AuxBranch = append([][32]byte{}, p.AuxBranch...)
	q.ParBranch = append([][32]byte{}, p.ParBranch...)
	q.Ins = make([]txIn, len(p.Ins))
	for i, in := range p.Ins {
		in.Script = append([]byte{}, in.Script...)
		q.Ins[i] = in
	}
	q.Outs = make([]txOut, len(p.Outs))
	for i, o := range p.Outs {
		o.Pk = append([]byte{}, o.Pk...)
		q.Outs[i] = o
	}
	return &q
}

// wire is the replay form: the serialized AuxPow (the repository's own wire format), the block
// hash and the chain id.
type wire struct {
	Class     string `json:"class"`
	AuxPowHex string `json:"auxpow"`
	BlockHash string `json:"block_hash"`
	ChainID   int    `json:"chain_id"`
	// object-reuse cases: the value is first decoded from FirstAuxPow and checked against
	// FirstBlockHash, then turned into AuxPowHex by Mode (in-place | deserialize | check-twice)
	Mode           string `json:"mode,omitempty"`
	FirstAuxPow    string `json:"first_auxpow,omitempty"`
	FirstBlockHash string `json:"first_block_hash,omitempty"`
	FirstChainID   int    `json:"first_chain_id,omitempty"`
}

// ---- independent primitives --------------------------------------------------------------------

func dsha(b []byte) [32]byte {
	h := sha256.Sum256(b)
	return sha256.Sum256(h[:])
}

func rev(a [32]byte) [32]byte {
	var o [32]byte
	for i := range a {
		o[i] = a[31-i]
	}
	return o
}

func branchRoot(leaf [32]byte, branch [][32]byte, index uint32) [32]byte {
	h := leaf
	var b [64]byte
	for k, s := range branch {
		if k < 32 && index>>uint(k)&1 == 1 {
			copy(b[:32], s[:])
			copy(b[32:], h[:])
		} else {
			copy(b[:32], h[:])
			copy(b[32:], s[:])
		}
		h = dsha(b[:])
	}
	return h
}

func putVarUint(w *bytes.Buffer, v uint64) {
	switch {
	case v < 0xfd:
		w.WriteByte(byte(v))
	case v <= 0xffff:
		w.WriteByte(0xfd)
		binary.Write(w, binary.LittleEndian, uint16(v))
	case v <= 0xffffffff:
		w.WriteByte(0xfe)
		binary.Write(w, binary.LittleEndian, uint32(v))
	default:
		w.WriteByte(0xff)
		binary.Write(w, binary.LittleEndian, v)
	}
}

// coinbaseBytes is the bitcoin transaction serialization (no witness), written independently.
func (p *proof) coinbaseBytes() []byte {
	w := bytes.NewBuffer(make([]byte, 0, 256))
	w.Write(le32(uint32(p.CbVersion)))
	putVarUint(w, uint64(len(p.Ins)))
	for _, in := range p.Ins {
		w.Write(in.PrevHash[:])
		w.Write(le32(in.PrevIdx))
		putVarUint(w, uint64(len(in.Script)))
		w.Write(in.Script)
		w.Write(le32(in.Seq))
	}
	putVarUint(w, uint64(len(p.Outs)))
	for _, o := range p.Outs {
		var b [8]byte
		binary.LittleEndian.PutUint64(b[:], uint64(o.Value))
		w.Write(b[:])
		putVarUint(w, uint64(len(o.Pk)))
		w.Write(o.Pk)
	}
	w.Write(le32(p.LockTime))
	return w.Bytes()
}

// recommit makes the parent header commit to the (changed) coinbase again.
func (p *proof) recommit() {
	p.HdrRoot = branchRoot(dsha(p.coinbaseBytes()), p.ParBranch, p.ParIndex)
}

// expectedSlot is the merged-mining slot rule (LCG over nonce and chain id), in 64-bit
// arithmetic reduced mod 2^32.
func expectedSlot(nonce uint32, chainID int, h int) uint32 {
	r := uint64(nonce)
	r = (r*1103515245 + 12345) & 0xffffffff
	r = (r + uint64(uint32(chainID))) & 0xffffffff
	r = (r*1103515245 + 12345) & 0xffffffff
	return uint32(r % (uint64(1) << uint(h)))
}

var marker = []byte{0xfa, 0xbe, 0x6d, 0x6d}

// wantRoot is the 32 bytes that must follow the marker in the script.
func (p *proof) wantRoot() [32]byte {
	return rev(branchRoot(rev(p.BlockHash), p.AuxBranch, p.AuxIndex))
}

// oracle is the statement, on bytes: parent coinbase under the parent root; exactly one
// (byte-aligned) marker in the first input's script, immediately followed by the aux root that
// commits to this block hash, then size = 2^len(branch) and a nonce whose derived slot is the
// aux index. Returns "" when the proof satisfies the statement, else the violated clause.
func (p *proof) oracle() string {
	if len(p.Ins) == 0 {
		return "no-coinbase-input"
	}
	if branchRoot(dsha(p.coinbaseBytes()), p.ParBranch, p.ParIndex) != p.HdrRoot {
		return "parent-merkle"
	}
	s := p.Ins[0].Script
	var pos []int
	for i := 0; i+4 <= len(s); i++ {
		if bytes.Equal(s[i:i+4], marker) {
			pos = append(pos, i)
		}
	}
	if len(pos) == 0 {
		return "no-byte-aligned-marker"
	}
	if len(pos) > 1 {
		return "several-markers"
	}
	m := pos[0]
	want := p.wantRoot()
	if len(s) < m+36 || !bytes.Equal(s[m+4:m+36], want[:]) {
		return "root-not-after-marker"
	}
	if len(s) < m+44 {
		return "script-too-short"
	}
	h := len(p.AuxBranch)
	if h >= 32 || binary.LittleEndian.Uint32(s[m+36:]) != uint32(1)<<uint(h) {
		return "size"
	}
	if p.AuxIndex != expectedSlot(binary.LittleEndian.Uint32(s[m+40:]), p.ChainID, h) {
		return "slot"
	}
	// Pinned behaviour of the unchanged tree (differential clause): the digits fabe6d6d occurring
	// a second time in the script at ANY nibble offset — e.g. bytes 0f ab e6 d6 d0 after the
	// commitment — also count against "exactly one marker"; such a proof is refused.
	if strings.Count(hex.EncodeToString(s), "fabe6d6d") > 1 {
		return "second-marker-nibble-shifted"
	}
	return ""
}

// hexAlignment says how the repository's hex-string search sees the script: where the first
// occurrence of the marker's hex form starts.
func (p *proof) hexAlignment() string {
	if len(p.Ins) == 0 {
		return "none"
	}
	i := strings.Index(hex.EncodeToString(p.Ins[0].Script), "fabe6d6d")
	switch {
	case i < 0:
		return "no-hex-marker"
	case i%2 == 1:
		return "nibble-misaligned-marker"
	}
	return "byte-aligned-marker"
}

// ---- driving the real code -----------------------------------------------------------------------

func u256s(a [][32]byte) []common.Uint256 {
	o := make([]common.Uint256, len(a))
	for i := range a {
		o[i] = common.Uint256(a[i])
	}
	return o
}

func (p *proof) toAuxPow() *auxpow.AuxPow {
	tx := auxpow.BtcTx{Version: p.CbVersion, LockTime: p.LockTime, TxIn: []*auxpow.BtcTxIn{}, TxOut: []*auxpow.BtcTxOut{}}
	for _, in := range p.Ins {
		tx.TxIn = append(tx.TxIn, &auxpow.BtcTxIn{PreviousOutPoint: auxpow.BtcOutPoint{Hash: common.Uint256(in.PrevHash), Index: in.PrevIdx}, SignatureScript: in.Script, Sequence: in.Seq})
	}
	for _, o := range p.Outs {
		tx.TxOut = append(tx.TxOut, &auxpow.BtcTxOut{Value: o.Value, PkScript: o.Pk})
	}
	ap := auxpow.NewAuxPow(u256s(p.AuxBranch), int(p.AuxIndex), tx, u256s(p.ParBranch), int(p.ParIndex),
		auxpow.BtcHeader{Version: p.HdrVersion, Previous: common.Uint256(p.HdrPrev), MerkleRoot: common.Uint256(p.HdrRoot), Timestamp: p.HdrTime, Bits: p.HdrBits, Nonce: p.HdrNonce})
	ap.ParentHash = common.Uint256(p.ParentHash)
	return ap
}

// verdict of the real code on serialized bytes: accepted / rejected / panic site.
func runWire(raw []byte, blockHash [32]byte, chainID int) (accepted bool, panicSite string, decodeErr error) {
	var ap auxpow.AuxPow
	if err := ap.Deserialize(bytes.NewReader(raw)); err != nil {
		return false, "", err
	}
	defer func() {
		if x := recover(); x != nil {
			accepted = false
			panicSite = evid.PanicSite(debug.Stack())
		}
	}()
	h := common.Uint256(blockHash)
	return ap.Check(&h, chainID), "", nil
}

type pending struct {
	sig, what string
	art       wire
}

type counters struct {
	evals, accepted, rejected, panics, stricter int64
	misalignedAccepted                          int64
	nDistinct, nDeep                            int64
	reuseCases, reuseStricter                   int64
	classes                                     map[string][2]int64 // class -> [accepted, rejected]
	reasons                                     map[string]int64    // oracle rejection reason -> count
	panicSites                                  map[string]int64
	stricterBy                                  map[string]int64
	distinct                                    map[[32]byte]struct{}
	deep                                        map[[32]byte]struct{} // passed the parent-merkle rule
}

func newCounters() *counters {
	return &counters{classes: map[string][2]int64{}, reasons: map[string]int64{}, panicSites: map[string]int64{}, stricterBy: map[string]int64{}, distinct: map[[32]byte]struct{}{}, deep: map[[32]byte]struct{}{}}
}

type worker struct {
	heavy bool
	ct    *counters
	pend  []pending
}

// judge runs one proof through the real code and compares with the oracle.
func (w *worker) judge(class string, p *proof) {
	ap := p.toAuxPow()
	var buf bytes.Buffer
	if err := ap.Serialize(&buf); err != nil {
		evid.Fatalf("serialize: %v", err)
	}
	raw := buf.Bytes()
	key := sha256.Sum256(append(append(append([]byte{}, raw...), p.BlockHash[:]...), byte(p.ChainID), byte(p.ChainID>>8)))
	if _, dup := w.ct.distinct[key]; dup {
		return
	}
	w.ct.distinct[key] = struct{}{}
	w.ct.evals++
	acc, site, derr := runWire(raw, p.BlockHash, p.ChainID)
	if derr != nil {
		evid.Fatalf("a proof the repository serialized does not deserialize: %v (%s)", derr, class)
	}
	reason := p.oracle()
	cl := w.ct.classes[class]
	if acc {
		cl[0]++
		w.ct.accepted++
	} else {
		cl[1]++
		w.ct.rejected++
	}
	w.ct.classes[class] = cl
	if site != "" {
		w.ct.panics++
		w.ct.panicSites[site]++
	}
	if reason != "" {
		w.ct.reasons[reason]++
	}
	if reason != "parent-merkle" && reason != "no-coinbase-input" {
		w.ct.deep[key] = struct{}{}
	}
	mkArt := func() wire {
		return wire{Class: class, AuxPowHex: hex.EncodeToString(raw), BlockHash: hex.EncodeToString(p.BlockHash[:]), ChainID: p.ChainID}
	}
	switch {
	case acc && reason != "":
		al := p.hexAlignment()
		if al == "nibble-misaligned-marker" {
			w.ct.misalignedAccepted++
		}
		w.pend = append(w.pend, pending{"C10|accepted|" + reason + "|" + al,
			"AuxPow.Check accepts a proof that does not satisfy the statement (violated clause: " + reason + "; hex search sees: " + al + "; case class " + class + ")", mkArt()})
	case !acc && reason == "":
		w.ct.stricter++
		w.ct.stricterBy[class]++
		if class == "seed" {
			w.pend = append(w.pend, pending{"C10|valid-proof-rejected", "AuxPow.Check rejects a valid proof built like GenerateAuxPow builds it", mkArt()})
		}
	}
}

// ---- seeds ---------------------------------------------------------------------------------------

func tagHash(parts ...interface{}) [32]byte {
	return sha256.Sum256([]byte(fmt.Sprint(parts...)))
}

type seedCfg struct {
	H       int
	Nonce   uint32
	ChainID int
	PB      int
	PIdx    uint32
	Prefix  int
	Suffix  int
	// Heavy: every byte of every 32-byte field x 16 xor values (else x 2)
	Heavy bool
	// NeedNibble >= 0: grind the block hash until the last hex digit of the script root equals it
	NeedNibble int
}

func le32(v uint32) []byte {
	var b [4]byte
	binary.LittleEndian.PutUint32(b[:], v)
	return b[:]
}

var prefixBytes = []byte{0x03, 0x13, 0xee, 0x09, 0x04, 0xa8, 0x80, 0x49, 0x5b, 0x74, 0x2f, 0x42, 0x54, 0x43, 0x2e, 0x43, 0x4f, 0x4d, 0x2f, 0x11}
var suffixBytes = []byte{0x01, 0x08, 0xd7, 0x51, 0x74, 0x22, 0x33}

func buildSeed(c seedCfg) *proof {
	p := &proof{ChainID: c.ChainID, CbVersion: 1, HdrVersion: 0x7fffffff, HdrTime: 1514764800}
	for i := 0; i < c.H; i++ {
		p.AuxBranch = append(p.AuxBranch, tagHash("aux", c.H, i))
	}
	for i := 0; i < c.PB; i++ {
		p.ParBranch = append(p.ParBranch, tagHash("par", c.PB, i))
	}
	p.ParIndex = c.PIdx
	p.AuxIndex = expectedSlot(c.Nonce, c.ChainID, c.H)
	for k := 0; ; k++ {
		p.BlockHash = tagHash("block", c.H, c.Nonce, c.ChainID, c.PB, c.PIdx, c.Prefix, c.Suffix, c.NeedNibble, k) // unique per seed
		if c.NeedNibble < 0 {
			break
		}
		w := p.wantRoot()
		if int(w[31]&0x0f) == c.NeedNibble {
			break
		}
	}
	want := p.wantRoot()
	var s []byte
	s = append(s, prefixBytes[:c.Prefix]...)
	s = append(s, marker...)
	s = append(s, want[:]...)
	s = append(s, le32(uint32(1)<<uint(c.H))...)
	s = append(s, le32(c.Nonce)...)
	s = append(s, suffixBytes[:c.Suffix]...)
	p.Ins = []txIn{{PrevIdx: 0, Script: s, Seq: 0}}
	if c.Prefix > 0 {
		p.Ins[0].PrevIdx = 0xffffffff
		p.Ins[0].Seq = 0xffffffff
		p.Outs = []txOut{{Value: 1250000000, Pk: []byte{0x76, 0xa9, 0x14, 1, 2, 3, 0x88, 0xac}}}
	}
	p.recommit()
	return p
}

// ---- mutation alphabets ----------------------------------------------------------------------------

var xor16 = []byte{1, 2, 4, 8, 16, 32, 64, 128, 0xff, 0x0f, 0xf0, 0x55, 0xaa, 0x03, 0xc0, 0x81}

func (w *worker) mutateHash(class string, base *proof, get func(q *proof) *[32]byte, recommit bool) {
	xs := xor16
	if !w.heavy {
		xs = []byte{0x01, 0x80}
	}
	for i := 0; i < 32; i++ {
		for _, x := range xs {
			q := base.clone()
			get(q)[i] ^= x
			if recommit {
				q.recommit()
			}
			w.judge(class, q)
		}
	}
}

func scriptFromHex(s string) []byte {
	b, err := hex.DecodeString(s)
	if err != nil {
		panic(err)
	}
	return b
}

func (w *worker) withScript(class string, base *proof, script []byte) {
	q := base.clone()
	q.Ins[0].Script = script
	q.recommit()
	w.judge(class, q)
}

// explore enumerates everything around one seed.
func (w *worker) explore(c seedCfg, full bool) {
	seed := buildSeed(c)
	w.heavy = c.Heavy
	w.judge("seed", seed)
	h := c.H

	// 1. block hash: every single bit
	for bit := 0; bit < 256; bit++ {
		q := seed.clone()
		q.BlockHash[bit/8] ^= 1 << uint(bit%8)
		w.judge("mut/block-hash-bit", q)
	}
	// 2. chain id
	for _, d := range []int{1, -1, 2, 1 << uint(h), 1 << 16} {
		q := seed.clone()
		q.ChainID = c.ChainID + d
		if q.ChainID >= 0 {
			w.judge("mut/chain-id", q)
		}
	}
	// 3. aux index
	for _, v := range []uint32{seed.AuxIndex + 1, seed.AuxIndex - 1, seed.AuxIndex ^ (1 << uint(h)), seed.AuxIndex | 1<<31, seed.AuxIndex ^ 1, 0, uint32(1)<<uint(h) - 1} {
		q := seed.clone()
		q.AuxIndex = v
		w.judge("mut/aux-index", q)
	}
	// 4. aux branch
	for k := range seed.AuxBranch {
		k := k
		w.mutateHash("mut/aux-branch-byte", seed, func(q *proof) *[32]byte { return &q.AuxBranch[k] }, false)
	}
	{
		q := seed.clone()
		q.AuxBranch = append(q.AuxBranch, tagHash("extra"))
		w.judge("mut/aux-branch-longer", q)
		if h > 0 {
			q = seed.clone()
			q.AuxBranch = q.AuxBranch[:h-1]
			w.judge("mut/aux-branch-shorter", q)
			q = seed.clone()
			q.AuxBranch = q.AuxBranch[1:]
			w.judge("mut/aux-branch-shorter", q)
		}
		if h > 1 {
			q = seed.clone()
			q.AuxBranch[0], q.AuxBranch[1] = q.AuxBranch[1], q.AuxBranch[0]
			w.judge("mut/aux-branch-swap", q)
		}
	}
	// 5. parent branch / index / header
	for k := range seed.ParBranch {
		k := k
		w.mutateHash("mut/parent-branch-byte", seed, func(q *proof) *[32]byte { return &q.ParBranch[k] }, false)
	}
	for _, v := range []uint32{seed.ParIndex + 1, seed.ParIndex - 1, seed.ParIndex ^ 1, seed.ParIndex ^ 2, seed.ParIndex ^ 4, seed.ParIndex ^ (1 << uint(c.PB)), seed.ParIndex | 1<<31} {
		q := seed.clone()
		q.ParIndex = v
		w.judge("mut/parent-index", q)
	}
	{
		q := seed.clone()
		q.ParBranch = append(q.ParBranch, tagHash("extra-par"))
		w.judge("mut/parent-branch-longer", q)
		if c.PB > 0 {
			q = seed.clone()
			q.ParBranch = q.ParBranch[:c.PB-1]
			w.judge("mut/parent-branch-shorter", q)
		}
	}
	w.mutateHash("mut/parent-header-root-byte", seed, func(q *proof) *[32]byte { return &q.HdrRoot }, false)
	for i, f := range []func(q *proof){
		func(q *proof) { q.HdrVersion++ }, func(q *proof) { q.HdrPrev[0] ^= 1 }, func(q *proof) { q.HdrTime++ },
		func(q *proof) { q.HdrBits ^= 1 }, func(q *proof) { q.HdrNonce++ }, func(q *proof) { q.ParentHash[5] ^= 0x80 },
	} {
		q := seed.clone()
		f(q)
		w.judge(fmt.Sprintf("neutral/parent-header-field-%d", i), q)
	}
	// 5b. wire-level index values around the signed/unsigned boundary, for both index fields,
	// combined with the real (re-committed) and the all-zero parent merkle root and with the
	// seed's coinbase, a changed coinbase and a coinbase committing to another block
	wireIdx := []uint32{0x7fffffff, 0x80000000, 0xfffffffe, 0xffffffff}
	cbVariants := []func(q *proof){
		func(q *proof) {},
		func(q *proof) { q.CbVersion += 7 },
		func(q *proof) { q.Outs = append(q.Outs, txOut{Value: 5, Pk: []byte{0x52}}) },
	}
	for _, pi := range append([]uint32{seed.ParIndex}, wireIdx...) {
		for _, ai := range append([]uint32{seed.AuxIndex}, wireIdx...) {
			if pi == seed.ParIndex && ai == seed.AuxIndex {
				continue
			}
			for ci, cbm := range cbVariants {
				for _, root := range []string{"real", "zero", "kept"} {
					q := seed.clone()
					cbm(q)
					q.ParIndex, q.AuxIndex = pi, ai
					switch root {
					case "real":
						q.recommit()
					case "zero":
						q.HdrRoot = [32]byte{}
					}
					w.judge(fmt.Sprintf("wire-index/root-%s/coinbase-%d", root, ci), q)
					// the same with the script carrying the aux root that belongs to this aux index
					// (for index 0xffffffff on a signed decoder: the all-zero root)
					q2 := q.clone()
					want := q2.wantRoot()
					q2.Ins[0].Script = append(append(append(append(append([]byte{}, prefixBytes[:c.Prefix]...), marker...), want[:]...), le32(uint32(1)<<uint(h))...), le32(c.Nonce)...)
					if root == "real" {
						q2.recommit()
					}
					w.judge(fmt.Sprintf("wire-index/root-%s/coinbase-%d/script-for-index", root, ci), q2)
					var z [32]byte
					q3 := q.clone()
					q3.Ins[0].Script = append(append(append(append(append([]byte{}, prefixBytes[:c.Prefix]...), marker...), z[:]...), le32(uint32(1)<<uint(h))...), le32(c.Nonce)...)
					if root == "real" {
						q3.recommit()
					}
					w.judge(fmt.Sprintf("wire-index/root-%s/coinbase-%d/script-zero-root", root, ci), q3)
				}
			}
		}
	}
	// 6. coinbase fields, without and with re-commitment by the parent header
	cbMuts := []func(q *proof){
		func(q *proof) { q.CbVersion++ }, func(q *proof) { q.Ins[0].PrevIdx ^= 1 }, func(q *proof) { q.Ins[0].Seq ^= 1 },
		func(q *proof) { q.LockTime++ }, func(q *proof) { q.Ins[0].PrevHash[31] ^= 1 },
		func(q *proof) { q.Outs = append(q.Outs, txOut{Value: 1, Pk: []byte{0x51}}) },
		func(q *proof) { q.Ins = append(q.Ins, txIn{Script: []byte{1, 2, 3}}) },
		func(q *proof) { q.Ins = append([]txIn{{Script: []byte{0x51, 0x52}}}, q.Ins...) }, // the marker now sits in the second input
		func(q *proof) { q.Ins = append([]txIn{q.Ins[0]}, q.Ins...) },
	}
	for i, f := range cbMuts {
		q := seed.clone()
		f(q)
		w.judge(fmt.Sprintf("mut/coinbase-field-%d", i), q)
		q = seed.clone()
		f(q)
		q.recommit()
		w.judge(fmt.Sprintf("recommitted/coinbase-field-%d", i), q)
	}
	// 7. script bytes without re-commitment (caught by the parent merkle rule)
	s0 := seed.Ins[0].Script
	for i := range s0 {
		q := seed.clone()
		q.Ins[0].Script[i] ^= 0x01
		w.judge("mut/script-byte", q)
	}
	// 8. script with re-commitment: only the marker/root/size/slot rules decide
	for i := range s0 {
		for _, x := range xor16 {
			s := append([]byte{}, s0...)
			s[i] ^= x
			w.withScript("recommitted/script-byte", seed, s)
		}
	}
	want := seed.wantRoot()
	mk := func(parts ...[]byte) []byte {
		var o []byte
		for _, p := range parts {
			o = append(o, p...)
		}
		return o
	}
	pre, suf := prefixBytes[:c.Prefix], suffixBytes[:c.Suffix]
	size := le32(uint32(1) << uint(h))
	nonce := le32(c.Nonce)
	for _, v := range []uint32{0, 1, 2, uint32(1)<<uint(h) + 1, uint32(1)<<uint(h) - 1, uint32(1) << uint(h+1), uint32(1) << uint(h) << 8, 0xffffffff, uint32(h)} {
		w.withScript("recommitted/size-field", seed, mk(pre, marker, want[:], le32(v), nonce, suf))
	}
	nonces := []uint32{0x6d6dbefa, 0xffffffff, 0x80000000, c.Nonce + 1, c.Nonce - 1, c.Nonce ^ 0x100}
	for n := uint32(0); n < 64; n++ {
		nonces = append(nonces, n)
	}
	for _, v := range nonces {
		w.withScript("recommitted/nonce-field", seed, mk(pre, marker, want[:], size, le32(v), suf))
	}
	for l := 0; l < len(s0); l++ {
		w.withScript("recommitted/script-truncated", seed, append([]byte{}, s0[:l]...))
	}
	// two markers
	w.withScript("markers/second-after-nonce", seed, mk(pre, marker, want[:], size, nonce, marker, suf))
	w.withScript("markers/second-after-nonce-gap", seed, mk(pre, marker, want[:], size, nonce, []byte{0x11}, marker, suf))
	w.withScript("markers/second-before", seed, mk(pre, marker, []byte{0x22, 0x23}, marker, want[:], size, nonce, suf))
	w.withScript("markers/doubled", seed, mk(pre, marker, marker, want[:], size, nonce, suf))
	w.withScript("markers/two-complete-commitments", seed, mk(pre, marker, want[:], size, nonce, marker, want[:], size, nonce, suf))
	other := tagHash("other-root", h)
	w.withScript("markers/two-commitments-other-first", seed, mk(pre, marker, other[:], size, nonce, marker, want[:], size, nonce, suf))
	w.withScript("markers/two-commitments-other-second", seed, mk(pre, marker, want[:], size, nonce, marker, other[:], size, nonce, suf))
	{
		q := seed.clone()
		q.Outs = append(q.Outs, txOut{Value: 0, Pk: mk(marker, other[:], size, nonce)})
		q.recommit()
		w.judge("markers/second-in-output-script", q)
	}
	// nibble-shifted second marker (hex sees two, bytes see one)
	w.withScript("markers/second-nibble-misaligned-after", seed, mk(pre, marker, want[:], size, nonce, scriptFromHex("1fabe6d6d1")))
	w.withScript("markers/second-nibble-misaligned-before", seed, mk(scriptFromHex("1fabe6d6d1"), pre, marker, want[:], size, nonce, suf))
	// a second marker at every nibble offset after the commitment (even = byte-aligned, odd =
	// shifted by a nibble), with and without bytes after it
	for o := 0; o <= 16; o++ {
		tail := strings.Repeat("1", o) + "fabe6d6d"
		if len(tail)%2 == 1 {
			tail += "0"
		}
		cl := "markers/second-at-nibble-offset/even"
		if o%2 == 1 {
			cl = "markers/second-at-nibble-offset/odd"
		}
		w.withScript(cl, seed, mk(pre, marker, want[:], size, nonce, scriptFromHex(tail)))
		w.withScript(cl+"+suffix", seed, mk(pre, marker, want[:], size, nonce, scriptFromHex(tail), []byte{0x22, 0x33}))
	}
	// marker not adjacent to the root
	for gap := 1; gap <= 4; gap++ {
		w.withScript("adjacency/byte-gap", seed, mk(pre, marker, bytes.Repeat([]byte{0x11}, gap), want[:], size, nonce, suf))
	}
	w.withScript("adjacency/root-before-marker", seed, mk(pre, want[:], marker, size, nonce, suf))
	w.withScript("adjacency/root-then-marker-then-root", seed, mk(pre, want[:], marker, want[:], size, nonce, suf))
	w.withScript("adjacency/size-nonce-between", seed, mk(pre, marker, size, nonce, want[:], suf))
	// root without marker
	w.withScript("no-marker/root-only", seed, mk(pre, want[:], size, nonce, suf))
	w.withScript("no-marker/root-at-start", seed, mk(want[:], size, nonce, suf))
	for cut := 1; cut <= 3; cut++ {
		w.withScript("no-marker/partial-marker", seed, mk(pre, marker[cut:], want[:], size, nonce, suf))
		w.withScript("no-marker/partial-marker", seed, mk(pre, marker[:4-cut], want[:], size, nonce, suf))
	}
	// root not the committed one
	w.withScript("wrong-root/other", seed, mk(pre, marker, other[:], size, nonce, suf))
	unrev := rev(want)
	w.withScript("wrong-root/not-reversed", seed, mk(pre, marker, unrev[:], size, nonce, suf))
	w.withScript("wrong-root/block-hash-itself", seed, mk(pre, marker, seed.BlockHash[:], size, nonce, suf))

	// 9. marker placement at every nibble offset of the hex script
	if !full {
		return
	}
	rootHex := hex.EncodeToString(want[:])
	natural := hex.EncodeToString(mk(size, nonce))
	for o := 0; o <= 26; o++ {
		filler := strings.Repeat("1", o)
		// (i) the whole commitment shifted by o nibbles
		hs := filler + "fabe6d6d" + rootHex + natural
		if len(hs)%2 == 1 {
			hs += "1"
		}
		cl := "placement/even-nibble"
		if o%2 == 1 {
			cl = "placement/odd-nibble/shifted-tail"
		}
		w.withScript(cl, seed, scriptFromHex(hs))
		if o%2 == 1 {
			// (ii) tail laid out so that the bytes the repository reads at floor(index/2) hold the
			// right size and nonce: the byte straddling the end of the root must have the root's
			// last hex digit as its high nibble.
			sz := hex.EncodeToString(size)
			if rootHex[63] == sz[0] {
				hs = filler + "fabe6d6d" + rootHex + sz[1:] + hex.EncodeToString(nonce)
				w.withScript("placement/odd-nibble/floor-tail", seed, scriptFromHex(hs))
				w.withScript("placement/odd-nibble/floor-tail+suffix", seed, scriptFromHex(hs+"2233"))
			}
			// (iii) marker odd, one filler nibble between marker and root (root byte-aligned)
			hs = filler + "fabe6d6d" + "1" + rootHex + natural
			if len(hs)%2 == 1 {
				hs += "1"
			}
			w.withScript("placement/odd-marker-aligned-root", seed, scriptFromHex(hs))
		} else {
			hs = filler + "fabe6d6d" + "1" + rootHex + natural
			if len(hs)%2 == 1 {
				hs += "1"
			}
			w.withScript("placement/aligned-marker-odd-root", seed, scriptFromHex(hs))
		}
	}
}

func mergeCounters(dst, src *counters) {
	dst.evals += src.evals
	dst.accepted += src.accepted
	dst.rejected += src.rejected
	dst.panics += src.panics
	dst.stricter += src.stricter
	dst.misalignedAccepted += src.misalignedAccepted
	dst.reuseCases += src.reuseCases
	dst.reuseStricter += src.reuseStricter
	for k, v := range src.classes {
		d := dst.classes[k]
		d[0] += v[0]
		d[1] += v[1]
		dst.classes[k] = d
	}
	for k, v := range src.reasons {
		dst.reasons[k] += v
	}
	for k, v := range src.panicSites {
		dst.panicSites[k] += v
	}
	for k, v := range src.stricterBy {
		dst.stricterBy[k] += v
	}
	// every seed has its own block hash and the key covers the block hash, so the per-seed sets
	// are disjoint: sizes add up
	dst.nDistinct += int64(len(src.distinct))
	dst.nDeep += int64(len(src.deep))
}

func needNibble(h int) int {
	return int(byte(uint32(1)<<uint(h)) >> 4)
}

func main() {
	r := evid.Start("C10", "exploration")
	scr := evid.Scratch("c10")
	hx.QuietLogs(scr)

	if r.Replay != "" {
		var a wire
		sig := r.LoadReplay(&a)
		raw, err1 := hex.DecodeString(a.AuxPowHex)
		bh, err2 := hex.DecodeString(a.BlockHash)
		if err1 != nil || err2 != nil || len(bh) != 32 {
			evid.Fatalf("replay: bad artefact")
		}
		var h [32]byte
		copy(h[:], bh)
		if a.Mode != "" {
			fr, e1 := hex.DecodeString(a.FirstAuxPow)
			fh, e2 := hex.DecodeString(a.FirstBlockHash)
			if e1 != nil || e2 != nil || len(fh) != 32 {
				evid.Fatalf("replay: bad artefact")
			}
			var f32 [32]byte
			copy(f32[:], fh)
			reused, fresh, err := reuseOnce(fr, f32, a.FirstChainID, a.Mode, raw, h, a.ChainID)
			fmt.Printf("replaying %s\n class=%s mode=%s\n value decoded from first proof, checked against %s, then turned into the second proof\n AuxPow.Check(blockhash=%s) on the reused value: accepted=%v; on a fresh value decoded from its re-serialisation: accepted=%v (err=%v)\n", sig, a.Class, a.Mode, a.FirstBlockHash, a.BlockHash, reused, fresh, err)
			if reused && !fresh {
				r.Violate(sig, "reproduced: the reused value is accepted, the fresh one is not", a)
			}
			os.RemoveAll(scr)
			r.Finish(evid.Coverage{})
		}
		acc, site, derr := runWire(raw, h, a.ChainID)
		fmt.Printf("replaying %s\n class=%s\n AuxPow.Deserialize error: %v\n AuxPow.Check(blockhash=%s, chainID=%d) accepted=%v panic=%q\n", sig, a.Class, derr, a.BlockHash, a.ChainID, acc, site)
		var ap auxpow.AuxPow
		if ap.Deserialize(bytes.NewReader(raw)) == nil && len(ap.ParCoinbaseTx.TxIn) > 0 {
			s := ap.ParCoinbaseTx.TxIn[0].SignatureScript
			fmt.Printf(" coinbase script: %x\n byte-aligned markers: %d, first hex occurrence of fabe6d6d at nibble %d\n", s, bytes.Count(s, marker), strings.Index(hex.EncodeToString(s), "fabe6d6d"))
		}
		if strings.HasPrefix(sig, "C10|accepted|") && acc {
			r.Violate(sig, "reproduced: AuxPow.Check accepts", a)
		} else if sig == "C10|valid-proof-rejected" && !acc {
			r.Violate(sig, "reproduced: AuxPow.Check rejects", a)
		}
		os.RemoveAll(scr)
		r.Finish(evid.Coverage{})
	}

	// the repository's own generator must agree with the model of a minimal seed
	{
		p := buildSeed(seedCfg{H: 0, Nonce: 0, ChainID: auxpow.AuxPowChainID, NeedNibble: -1})
		g := auxpow.GenerateAuxPow(common.Uint256(p.BlockHash))
		g.ParBlockHeader.Timestamp = p.HdrTime
		var a, b bytes.Buffer
		g.Serialize(&a)
		p.toAuxPow().Serialize(&b)
		if !bytes.Equal(a.Bytes(), b.Bytes()) {
			r.Violate("C10|generator-differs-from-model", "auxpow.GenerateAuxPow does not produce the minimal proof the model describes (marker|hash|size 1|nonce 0)", wire{Class: "generator", AuxPowHex: hex.EncodeToString(a.Bytes()), BlockHash: hex.EncodeToString(p.BlockHash[:]), ChainID: auxpow.AuxPowChainID})
		}
		h := common.Uint256(p.BlockHash)
		if !g.Check(&h, auxpow.AuxPowChainID) {
			r.Violate("C10|valid-proof-rejected", "AuxPow.Check rejects the proof auxpow.GenerateAuxPow builds", wire{Class: "generator", AuxPowHex: hex.EncodeToString(a.Bytes()), BlockHash: hex.EncodeToString(p.BlockHash[:]), ChainID: auxpow.AuxPowChainID})
		}
	}

	var cfgs []seedCfg
	var fulls []bool
	nonces := []uint32{0, 1, 7, 0xdeadbeef}
	chains := []int{auxpow.AuxPowChainID, 6}
	if r.Thorough() {
		nonces = append(nonces, 2, 3, 0xffffffff, 0x12345678)
		chains = append(chains, 0, 1, 0x7fffffff)
	}
	for h := 0; h <= 5; h++ {
		for _, n := range nonces {
			for _, ch := range chains {
				for _, pb := range [][2]uint32{{0, 0}, {1, 1}, {3, 5}} {
					for _, ps := range [][2]int{{0, 0}, {11, 0}, {20, 7}} {
						cfgs = append(cfgs, seedCfg{H: h, Nonce: n, ChainID: ch, PB: int(pb[0]), PIdx: pb[1], Prefix: ps[0], Suffix: ps[1], Heavy: ps[0] == 0 && (r.Thorough() || ch == auxpow.AuxPowChainID), NeedNibble: -1})
						fulls = append(fulls, false)
					}
				}
			}
		}
		// placement seeds: block hash ground so that the nibble-straddling read can succeed
		for _, n := range nonces[:2] {
			cfgs = append(cfgs, seedCfg{H: h, Nonce: n, ChainID: auxpow.AuxPowChainID, NeedNibble: needNibble(h)})
			fulls = append(fulls, true)
		}
	}

	total := newCounters()
	pends := make([][]pending, len(cfgs))
	var mu sync.Mutex
	par.Go(len(cfgs), func(i int) {
		w := &worker{ct: newCounters()}
		w.explore(cfgs[i], fulls[i])
		w.reuse(cfgs[i])
		pends[i] = w.pend
		mu.Lock()
		mergeCounters(total, w.ct)
		mu.Unlock()
	})
	for _, ps := range pends {
		for _, p := range ps {
			r.Violate(p.sig, p.what, p.art)
		}
	}

	classes := map[string]interface{}{}
	var names []string
	for k := range total.classes {
		names = append(names, k)
	}
	sort.Strings(names)
	nontrivial := 0
	for _, k := range names {
		v := total.classes[k]
		classes[k] = map[string]int64{"accepted": v[0], "rejected": v[1]}
	}
	// distinct non-trivial = distinct proofs that passed the parent-merkle rule (first guard of
	// Check), i.e. reached the marker logic: everything not rejected for reason parent-merkle
	nontrivial = int(total.nDeep)

	var samples []interface{}
	for _, c := range []seedCfg{{H: 0, Nonce: 0, ChainID: 1224, NeedNibble: -1}, {H: 2, Nonce: 7, ChainID: 1224, PB: 1, PIdx: 1, Prefix: 11, NeedNibble: -1}, {H: 5, Nonce: 1, ChainID: 6, PB: 3, PIdx: 5, Prefix: 20, Suffix: 7, NeedNibble: -1}} {
		p := buildSeed(c)
		var b bytes.Buffer
		p.toAuxPow().Serialize(&b)
		samples = append(samples, map[string]interface{}{"seed": c, "block_hash": hex.EncodeToString(p.BlockHash[:]), "script": hex.EncodeToString(p.Ins[0].Script), "auxpow": hex.EncodeToString(b.Bytes())})
	}
	r.Assume = append(r.Assume,
		"differential clause pinned from the unchanged tree: a second occurrence of the digits fabe6d6d at any nibble offset of the script (e.g. bytes 0f ab e6 d6 d0) makes a proof unacceptable, like a second byte-aligned marker does", "the statement is one-directional (accepted only if …): proofs the repository rejects although the byte-level statement holds (e.g. the root's hex occurring earlier) are counted as 'stricter_than_statement', not alarmed; only seeds built exactly like GenerateAuxPow builds them must be accepted",
		"indexes are enumerated within the wire range (uint32); the in-memory sentinel index -1 of GetMerkleRoot is not reachable through AuxPow.Deserialize on 64-bit platforms",
		"a panic inside AuxPow.Check counts as 'not accepted' here; crash freedom is property C03 (sites are listed under panics_by_site)",
		"fields of the parent header other than its merkle root and the AuxPow.ParentHash field are not part of the commitment checked by AuxPow.Check (the parent header is bound by CheckProofOfWork, C09) — their mutation is expected to be neutral")
	os.RemoveAll(scr)
	r.Finish(evid.Coverage{
		"evaluations":                total.evals + total.reuseCases,
		"distinct_nontrivial":        nontrivial,
		"rule":                       fmt.Sprintf("%d valid seeds (aux branch length 0..5 x nonces x chain ids x parent branch shapes x script prefix/suffix) built like GenerateAuxPow builds them; per seed: every bit of the block hash, chain id / aux index / parent index deviations, every byte of every branch element and of the parent merkle root x 16 xor values (on the heavy seeds: no script prefix, main chain id; x 2 values on the others), branch length changes, wire-level index values {0x7fffffff,0x80000000,0xfffffffe,0xffffffff} for both index fields x parent root {re-committed, all-zero, kept} x 3 coinbases x 3 scripts, coinbase field changes with and without re-commitment, every script byte x 16 xor values with re-commitment, size and nonce alphabets, every truncation, two-marker layouts (incl. a second marker at every nibble offset 0..16 after the commitment) / non-adjacent / marker-less / wrong-root layouts; on the placement seeds the commitment at every nibble offset 0..26 of the hex script in 3-4 tail layouts. Every proof is serialized and deserialized by the repository before AuxPow.Check. Object reuse: per seed, an AuxPow value is decoded and checked, then turned into each of ~18 other proofs (other block, switched script, changed coinbase with/without re-commitment, changed roots/branches) field by field in place or by Deserialize into the same value, in both orders, and checked again; the verdict must equal that of a fresh value decoded from its re-serialisation and the byte-level statement. Duplicates (same wire bytes, hash, chain id) are evaluated once. distinct_nontrivial = distinct proofs that pass the parent-merkle rule and so reach the marker/root/size/slot logic", len(cfgs)),
		"exhaustive":                 true,
		"seeds":                      len(cfgs),
		"accepted":                   total.accepted,
		"rejected":                   total.rejected,
		"oracle_rejection_reasons":   total.reasons,
		"by_class":                   classes,
		"stricter_than_statement":    total.stricter,
		"stricter_by_class":          total.stricterBy,
		"nibble_misaligned_accepted": total.misalignedAccepted,
		"panics":                     total.panics,
		"panics_by_site":             total.panicSites,
		"object_reuse_cases":         total.reuseCases,
		"object_reuse_history_dependent_rejections": total.reuseStricter,
		"samples": samples,
	})
}
