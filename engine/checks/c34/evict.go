package main

// Stage 3 of C34: size-limit eviction.
//
// Through TxPool.AppendToTxPool an over-size transaction is refused before the fee-ordered list
// is asked, so the list's eviction callback (TxPool.onPopBack) cannot be reached from outside
// the package on the current tree. The stage therefore drives the insertion half of
// appendToTxPool (conflict keys + doAddTransaction, through the verif hook
// VerifInsertUnchecked) with the pool limit shrunk: every sequence without repetition of up to
// evictDepth transactions from a set of mutually non-conflicting menu transactions with pairwise
// different fee rates (once with a CRC proposal as the cheapest, once as the best-paying one).
// Oracle after every insertion: the same invariants as the BFS (slots == keys of the pooled
// transactions, fee list sorted / same hashes / sizes, total = sum, proposalsUsedAmount = sum of
// pooled budgets, size <= limit).

import (
	"fmt"

	"verif/evid"
	"verif/mc"
)

type evictStats struct {
	sequences, insertions, evictions, excluded, proposalEvictions int
	selfEvictionsSkipped                                          int
}

// wouldEvictItself is the reference model of the fee-ordered list (descending fee rate, pop from
// the back until the total fits): does inserting tx i into the pooled set push out tx i itself?
// That case is outside the stage's domain: in the unreachable eviction path the callback cannot
// find the transaction that is still being added (a latent defect that no public entry point can
// trigger, see MUTANTS.md), so it is skipped rather than alarmed on.
func wouldEvictItself(pooled []int, i int) bool {
	total := uint64(menu[i].size)
	lowerBytes := uint64(0)
	for _, j := range pooled {
		total += uint64(menu[j].size)
		if menu[j].rate < menu[i].rate {
			lowerBytes += uint64(menu[j].size)
		}
	}
	// with nothing cheaper pooled the list refuses the transaction up front ("new tx excluded")
	return lowerBytes > 0 && total > limit && total-lowerBytes > limit
}

func permutations(items []int, maxLen int, f func(seq []int)) {
	var rec func(cur []int, used map[int]bool)
	rec = func(cur []int, used map[int]bool) {
		if len(cur) > 0 {
			f(cur)
		}
		if len(cur) == maxLen {
			return
		}
		for _, it := range items {
			if used[it] {
				continue
			}
			used[it] = true
			rec(append(cur, it), used)
			used[it] = false
		}
	}
	rec(nil, map[int]bool{})
}

func runEvictStage(r *evid.Run, depth int) *evictStats {
	st := &evictStats{}
	for _, set := range [][]string{
		{"PR2", "UP1", "UC1", "RP1", "WS1", "T2"}, // proposal is the cheapest
		{"PR1", "UP1", "UC1", "RP1", "WS1", "T2"}, // proposal pays best
	} {
		var idx []int
		rates := map[int64]bool{}
		for _, n := range set {
			i := menuIndex(n)
			if rates[menu[i].rate] {
				fatal("evict stage: fee rates in the set must be pairwise different (%s)", n)
			}
			rates[menu[i].rate] = true
			idx = append(idx, i)
		}
		permutations(idx, depth, func(seq []int) {
			st.sequences++
			in := newInst().(*inst)
			defer in.Close()
			var hist []string
			for _, i := range seq {
				var pooled []int
				for j, m := range menu {
					if in.pool.HaveTransaction(m.hash) {
						pooled = append(pooled, j)
					}
				}
				if wouldEvictItself(pooled, i) {
					st.selfEvictionsSkipped++
					return
				}
				hist = append(hist, "ins:"+menu[i].name)
				before := in.pool.GetTransactionCount()
				hadProposal := in.pool.HaveTransaction(menu[menuIndex(set[0])].hash)
				err := in.pool.VerifInsertUnchecked(in.w[i])
				st.insertions++
				after := in.pool.GetTransactionCount()
				if err != nil {
					st.excluded++
				} else if after <= before {
					st.evictions++
					if hadProposal && !in.pool.HaveTransaction(menu[menuIndex(set[0])].hash) {
						st.proposalEvictions++
					}
				}
				if f := in.check("evict"); f != nil {
					r.Violate(f.Signature, f.What, map[string]interface{}{"system": "evict", "history": append([]string{}, hist...)})
					return
				}
			}
		})
	}
	if st.evictions == 0 || st.proposalEvictions == 0 {
		fatal("evict stage is vacuous: %d evictions, %d of a proposal", st.evictions, st.proposalEvictions)
	}
	return st
}

var _ = fmt.Sprint
var _ mc.Instance
