#!/bin/bash
# seedcheck.sh <seed-dir> <ID> [pkgs...]
# Confirms a seeded breaking change in a scratch worktree and runs the check for <ID> against it.
#  1. fresh worktree of /repo HEAD under /tmp, patch applied, `go build ./...`
#  2. existing tests of the touched packages (with the change) must pass
#  3. the demonstration must fail with the change and pass without it (if it is a *_test.go file)
#  4. VERIF_REPO=<worktree> ./run <ID> quick  → expected exit 1 with a VIOLATION line
# Prints a JSON summary; the worktree is removed afterwards.
set -u
SEED="$1"; ID="$2"; shift 2
export GOFLAGS=-mod=mod GOPROXY=off GOSUMDB=off GOTOOLCHAIN=local
WT="/tmp/seedchk-$(basename "$SEED")-$$"
git -C /repo worktree add --detach "$WT" HEAD -q || exit 2
cleanup() { git -C /repo worktree remove --force "$WT" >/dev/null 2>&1; }
trap cleanup EXIT
cd "$WT"
git apply "$SEED/patch.diff" || { echo '{"error":"patch does not apply"}'; exit 2; }
PKGS=$(git diff --name-only | grep '\.go$' | xargs -n1 dirname | sort -u | sed 's#^#./#')
build=ok; go build ./... >/dev/null 2>"$WT/.build.err" || build=FAIL
tests=ok; go test -vet=off -count=1 -timeout 300s $PKGS >"$WT/.test.out" 2>&1 || tests=FAIL
demo_with=n/a; demo_without=n/a
DEMO=$(ls "$SEED"/*_test.go 2>/dev/null | head -1)
if [ -n "$DEMO" ]; then
  DPKG=$(grep -m1 '^package ' "$DEMO" | awk '{print $2}')
  # drop into the first touched package whose name matches, else the first touched package
  TARGET=""
  for p in $PKGS; do if grep -qs "^package ${DPKG%_test}\b" $p/*.go; then TARGET=$p; break; fi; done
  [ -z "$TARGET" ] && TARGET=$(echo $PKGS | awk '{print $1}')
  [ -f "$SEED/target_pkg" ] && TARGET=$(cat "$SEED/target_pkg")
  cp "$DEMO" "$TARGET/zz_seed_demo_test.go"
  RACE=""; grep -qi race "$SEED/meta.json" 2>/dev/null && RACE="-race"
  NAMES=$(grep -o '^func Test[A-Za-z0-9_]*' "$DEMO" | sed 's/func //' | paste -sd'|')
  demo_with=pass; go test $RACE -vet=off -count=1 -timeout 300s -run "^($NAMES)\$" $TARGET >"$WT/.demo_with.out" 2>&1 || demo_with=fail
  rm -f "$TARGET/zz_seed_demo_test.go"
  git apply -R "$SEED/patch.diff"
  cp "$DEMO" "$TARGET/zz_seed_demo_test.go"
  demo_without=pass; go test $RACE -vet=off -count=1 -timeout 300s -run "^($NAMES)\$" $TARGET >"$WT/.demo_without.out" 2>&1 || demo_without=fail
  rm -f "$TARGET/zz_seed_demo_test.go"
  git apply "$SEED/patch.diff"
  git diff --quiet && { echo '{"error":"patch lost after demo"}'; exit 2; }
fi
cd /verif
out=$(VERIF_REPO="$WT" ./run "$ID" quick 2>&1); rc=$?
viol=$(echo "$out" | grep -c '^VIOLATION')
sigs=$(echo "$out" | grep '^  violated:' | sed 's/^  violated: //' | cut -c1-200 | python3 -c 'import sys,json; print(json.dumps([l.strip() for l in sys.stdin]))')
RES="{\"seed\":\"$(basename $SEED)\",\"id\":\"$ID\",\"build\":\"$build\",\"pkg_tests_with_change\":\"$tests\",\"demo_with_change\":\"$demo_with\",\"demo_without_change\":\"$demo_without\",\"check_exit\":$rc,\"violation_lines\":$viol,\"signatures\":$sigs}"
echo "$RES"
if [ "${SAVE:-}" = 1 ]; then D="/verif/seeded/$(basename "$SEED")"; mkdir -p "$D"; cp "$SEED"/patch.diff "$SEED"/meta.json "$D"/ 2>/dev/null; cp "$SEED"/*_test.go "$D"/ 2>/dev/null; echo "$RES" | python3 -m json.tool > "$D/confirm.json"; fi
