// Large blocks: a few patterns on n in {255,256,257,511,512,513,1024} — whole subtrees of 256 and
// more matched transactions (counter widths, aligned subtrees), which the exhaustive small-n
// enumeration cannot reach.
package main

import (
	"bytes"
	"fmt"
	"sync/atomic"

	"github.com/elastos/Elastos.ELA/auxpow"
	"github.com/elastos/Elastos.ELA/common"
	"github.com/elastos/Elastos.ELA/core/types"
	ctypes "github.com/elastos/Elastos.ELA/core/types/common"
	"github.com/elastos/Elastos.ELA/core/types/interfaces"
	"github.com/elastos/Elastos.ELA/elanet/bloom"
	"github.com/elastos/Elastos.ELA/elanet/filter"
	"github.com/elastos/Elastos.ELA/p2p/msg"

	"verif/blockkit"
)

var largeNs = []int{255, 256, 257, 511, 512, 513, 1024}
var largePatterns = []string{"all", "all-but-first", "all-but-last", "all-but-middle", "first-256", "last-256", "aligned-256-subtree", "every-other", "all-via-match-everything-filter"}

func largePattern(n int, name string) []bool {
	m := make([]bool, n)
	set := func(a, b int) {
		for i := a; i < b && i < n; i++ {
			if i >= 0 {
				m[i] = true
			}
		}
	}
	switch name {
	case "all", "all-via-match-everything-filter":
		set(0, n)
	case "all-but-first":
		set(1, n)
	case "all-but-last":
		set(0, n-1)
	case "all-but-middle":
		set(0, n)
		m[n/2] = false
	case "first-256":
		set(0, 256)
	case "last-256":
		set(n-256, n)
	case "aligned-256-subtree":
		if n >= 512 {
			set(256, 512)
		} else {
			set(0, 256)
		}
	case "every-other":
		for i := 0; i < n; i += 2 {
			m[i] = true
		}
	}
	return m
}

func (e *env) runLarge(txs []interfaces.Transaction, ids [][32]byte, n int, name string) {
	c := caseT{N: n, F: filterCfg{Kind: "large:" + name}}
	txs, ids = txs[:n], ids[:n]
	intended := largePattern(n, name)
	root := blockkit.RefMerkleRoot(ids)
	blk := &types.Block{Header: ctypes.Header{MerkleRoot: common.Uint256(root), Height: 7}, Transactions: txs}
	mk := func() *bloom.Filter {
		if name == "all-via-match-everything-filter" {
			return bloom.NewFilter(1, 0, 1.0) // empty bit array, zero hash functions
		}
		f := bloom.NewFilter(1200, 77, 1e-9)
		for i, on := range intended {
			if on {
				h := txs[i].Hash()
				f.AddHash(&h)
			}
		}
		return f
	}
	f := mk()
	load := cloneLoad(f)
	ref := mk()
	match := make([]bool, n)
	var want [][32]byte
	nMatched := 0
	for i, tx := range txs {
		if ref.MatchTxAndUpdate(tx) {
			match[i] = true
			want = append(want, ids[i])
			nMatched++
		} else if intended[i] {
			e.violate("C08|filter-false-negative|kind=txid", "a transaction whose id was added to the filter did not match", c, map[string]interface{}{"tx": i})
		}
	}
	e.shapes.Add(fmt.Sprintf("large/%d/%s/%d", n, name, nMatched))
	atomic.AddInt64(&e.st.cases, 1)

	wantBits, wantHashes := refBuild(ids, match)
	wantFlags := make([]byte, (len(wantBits)+7)/8)
	for i, b := range wantBits {
		if b {
			wantFlags[i/8] |= 1 << uint(i%8)
		}
	}
	var mb *msg.MerkleBlock
	var idx []uint32
	if site, p := guarded(func() { mb, idx = bloom.NewMerkleBlock(blk, f) }); p {
		e.violate("C08|panic|NewMerkleBlock|"+site, "bloom.NewMerkleBlock panicked", c, nil)
		return
	}
	atomic.AddInt64(&e.st.proofs, 1)
	if len(idx) != nMatched {
		e.violate("C08|producer-matched-indexes", "NewMerkleBlock's matched indexes differ from tx-by-tx filter matching", c, map[string]interface{}{"indexes": len(idx), "matched": nMatched})
	}
	if mb.Transactions != uint32(n) || !bytes.Equal(mb.Flags, wantFlags) || !sameIDs(u256s(mb.Hashes), wantHashes) {
		e.violate("C08|producer-encoding|bloom.NewMerkleBlock", "merkle block differs from the canonical BIP37 partial tree for the matched set", c, map[string]interface{}{"hashes": len(mb.Hashes), "want_hashes": len(wantHashes), "matched": nMatched})
	}
	if rr, rm, ok := refExtract(mb.Transactions, u256s(mb.Hashes), mb.Flags); !ok || rr != root || !sameIDs(rm, want) {
		e.violate("C08|reference-client-disagrees|bloom.NewMerkleBlock", "an independent BIP37 extractor does not recover exactly the matched transactions under the block's root", c, map[string]interface{}{"ok": ok, "recovered": len(rm), "matched": nMatched})
	}
	var got []*common.Uint256
	var err error
	if site, p := guarded(func() { got, err = bloom.CheckMerkleBlock(*mb) }); p {
		e.violate("C08|panic|bloom.CheckMerkleBlock|"+site, "CheckMerkleBlock panicked on a served merkle block", c, nil)
	} else if err != nil {
		e.violate("C08|verify-served|error", "CheckMerkleBlock rejects the merkle block the node produced: "+err.Error(), c, nil)
	} else if !sameIDs(u256s(got), want) {
		e.violate("C08|verify-served|ids", "CheckMerkleBlock returns other ids than the matched ones (or another order)", c, map[string]interface{}{"got": len(got), "want": len(want)})
	}
	// the producer the server calls
	pf := filter.New(func(uint8) filter.TxFilter { return bloom.NewTxFilter() })
	var buf bytes.Buffer
	load.Serialize(&buf)
	if err := pf.Load(&msg.TxFilterLoad{Type: filter.FTBloom, Data: buf.Bytes()}); err == nil {
		var mb2 *msg.MerkleBlock
		if site, p := guarded(func() { mb2, _ = filter.NewMerkleBlock(txs, pf) }); p {
			e.violate("C08|panic|filter.NewMerkleBlock|"+site, "filter.NewMerkleBlock panicked", c, nil)
		} else {
			atomic.AddInt64(&e.st.proofs, 1)
			mb2.Header = &blk.Header
			if mb2.Transactions != uint32(n) || !bytes.Equal(mb2.Flags, wantFlags) || !sameIDs(u256s(mb2.Hashes), wantHashes) {
				e.violate("C08|producer-encoding|filter.NewMerkleBlock", "server-side merkle block differs from the canonical BIP37 partial tree for the matched set", c, map[string]interface{}{"hashes": len(mb2.Hashes), "want_hashes": len(wantHashes)})
			}
			var got2 []*common.Uint256
			var err2 error
			if site, p := guarded(func() { got2, err2 = filter.CheckMerkleBlock(*mb2) }); p {
				e.violate("C08|panic|filter.CheckMerkleBlock|"+site, "filter.CheckMerkleBlock panicked on a served merkle block", c, nil)
			} else if err2 != nil || !sameIDs(u256s(got2), want) {
				e.violate("C08|verify-served|filter.CheckMerkleBlock", "verification of a served merkle block fails or returns other ids than the matched ones", c, map[string]interface{}{"err": fmt.Sprint(err2)})
			}
		}
	}
	// branches for the first, middle and last matched transaction
	if nMatched > 0 && err == nil && mb != nil {
		for _, wi := range []int{0, nMatched / 2, nMatched - 1} {
			id := want[wi]
			uid := common.Uint256(id)
			var br *bloom.MerkleBranch
			var berr error
			if site, p := guarded(func() { br, berr = bloom.GetTxMerkleBranch(*mb, &uid) }); p {
				e.violate("C08|panic|GetTxMerkleBranch|"+site, "GetTxMerkleBranch panicked for a matched transaction", c, nil)
				continue
			}
			atomic.AddInt64(&e.st.branches, 1)
			if berr != nil {
				e.violate("C08|branch|error", "GetTxMerkleBranch fails for a matched transaction: "+berr.Error(), c, nil)
			} else if r2 := auxpow.GetMerkleRoot(uid, br.Branches, br.Index); [32]byte(r2) != root {
				e.violate("C08|branch|root", "GetTxMerkleBranch + auxpow.GetMerkleRoot does not recompute the block's merkle root", c, map[string]interface{}{"index": br.Index})
			}
		}
	}
	// one flipped bit per served hash must fail
	if mb != nil {
		hs := append([]*common.Uint256{}, mb.Hashes...)
		for hi := range mb.Hashes {
			x := *mb.Hashes[hi]
			x[hi%32] ^= 1 << uint(hi%8)
			hs[hi] = &x
			e.st.hashFlips++
			var err2 error
			if _, p := guarded(func() {
				_, err2 = bloom.CheckMerkleBlock(msg.MerkleBlock{Header: mb.Header, Transactions: mb.Transactions, Hashes: hs, Flags: mb.Flags})
			}); !p && err2 == nil {
				e.violate("C08|corruption-accepted|hash-bit", "a merkle block with a corrupted hash verifies against the block's merkle root", c, map[string]interface{}{"hash": hi})
			}
			hs[hi] = mb.Hashes[hi]
		}
	}
}
