#!/usr/bin/env python3
"""flipfixed.py ID COMMIT — after a fix commit: run the check, and mark every 'known' entry of
known_findings.d/ID.json whose signature is no longer reported as status 'fixed' with the commit."""
import json, subprocess, sys, re, os
pid, commit = sys.argv[1], sys.argv[2]
out = subprocess.run(['./run', pid, 'quick'], cwd='/verif', capture_output=True, text=True)
print(out.stdout[-1500:])
still = set(re.findall(r'^KNOWN-FINDING: .*\[(.*)\] \(x\d+\)$', out.stdout, re.M))
viol = re.findall(r'^VIOLATION', out.stdout, re.M)
f = f'/verif/known_findings.d/{pid}.json'
k = json.load(open(f))
n = 0
for e in k:
    if e.get('status') == 'known' and e['signature'] not in still:
        e['status'] = 'fixed'; e['commit'] = commit
        e['what'] = f"fixed: property={pid} {commit} " + e['what']
        n += 1
json.dump(k, open(f, 'w'), indent=1)
print(f"exit={out.returncode} flipped={n} still_known={len(still)} violations={len(viol)}")
