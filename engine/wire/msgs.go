package wire

import (
	"fmt"
	"io"
	"reflect"

	"github.com/elastos/Elastos.ELA/common"
	"github.com/elastos/Elastos.ELA/core/types"
	common2 "github.com/elastos/Elastos.ELA/core/types/common"
	dmsg "github.com/elastos/Elastos.ELA/dpos/p2p/msg"
	"github.com/elastos/Elastos.ELA/elanet/pact"
	"github.com/elastos/Elastos.ELA/p2p"
	"github.com/elastos/Elastos.ELA/p2p/msg"
)

// MsgSpec describes one P2P message kind: how the node creates the empty message it decodes
// into, and a small fully populated instance.
type MsgSpec struct {
	Name  string // unique label
	Table string // p2pmsg | dposmsg
	Cmd   string
	New   func() p2p.Message // fresh destination, as the createMessage tables build it
	Value p2p.Message        // populated instance
	Setup func()
}

func fillMsg(m p2p.Message, tweak func(m p2p.Message)) p2p.Message {
	f := &Filler{N: 2, Bool: true}
	f.Fill(m)
	if tweak != nil {
		tweak(m)
	}
	return m
}

// P2PMsgSpecs: every message of p2p/msg.
func P2PMsgSpecs() []MsgSpec {
	var out []MsgSpec
	add := func(name string, mk func() p2p.Message, tweak func(m p2p.Message)) {
		v := fillMsg(mk(), tweak)
		out = append(out, MsgSpec{Name: "p2pmsg/" + name, Table: "p2pmsg", Cmd: v.CMD(), New: mk, Value: v})
	}
	add("version/old", func() p2p.Message { return &msg.Version{} }, func(m p2p.Message) {
		m.(*msg.Version).Version = pact.DPOSStartVersion
		m.(*msg.Version).NodeVersion = "" // not carried before CRProposalVersion
	})
	add("version/new", func() p2p.Message { return &msg.Version{} }, func(m p2p.Message) { m.(*msg.Version).Version = pact.CRProposalVersion })
	add("verack", func() p2p.Message { return &msg.VerAck{} }, nil)
	add("getaddr", func() p2p.Message { return &msg.GetAddr{} }, nil)
	add("addr", func() p2p.Message { return &msg.Addr{} }, nil)
	add("getblocks", func() p2p.Message { return &msg.GetBlocks{} }, nil)
	add("inv", func() p2p.Message { return &msg.Inv{} }, nil)
	add("getdata", func() p2p.Message { return &msg.GetData{} }, nil)
	add("notfound", func() p2p.Message { return &msg.NotFound{} }, nil)
	add("ping", func() p2p.Message { return &msg.Ping{} }, nil)
	add("pong", func() p2p.Message { return &msg.Pong{} }, nil)
	add("mempool", func() p2p.Message { return &msg.MemPool{} }, nil)
	add("filteradd", func() p2p.Message { return &msg.FilterAdd{} }, nil)
	add("filterclear", func() p2p.Message { return &msg.FilterClear{} }, nil)
	add("filterload", func() p2p.Message { return &msg.FilterLoad{} }, func(m p2p.Message) {
		fl := m.(*msg.FilterLoad)
		fl.HashFuncs = 7
		fl.TxTypes = []common2.TxType{common2.TransferAsset, common2.Voting}
	})
	add("txfilter", func() p2p.Message { return &msg.TxFilterLoad{} }, nil)
	add("reject", func() p2p.Message { return &msg.Reject{} }, nil)
	add("daddr", func() p2p.Message { return &msg.DAddr{} }, nil)
	// messages that wrap a Serializable
	{
		f := &Filler{N: 2, Bool: true}
		hdr := NewHeader(f, 1, 1)
		mb := msg.NewMerkleBlock(hdr)
		mb.Transactions = 3
		for i := 0; i < 2; i++ {
			var h common.Uint256
			f.Fill(&h)
			mb.Hashes = append(mb.Hashes, &h)
		}
		mb.Flags = []byte{0x0d}
		out = append(out, MsgSpec{Name: "p2pmsg/merkleblock", Table: "p2pmsg", Cmd: mb.CMD(), Value: mb,
			New: func() p2p.Message { return msg.NewMerkleBlock(&common2.Header{}) }})
	}
	{
		f := &Filler{N: 2, Bool: true}
		db := &types.DposBlock{Block: &types.Block{Header: *NewHeader(f, 1, 1), Transactions: SmallTxs(f, 2)}, HaveConfirm: true, Confirm: NewConfirm(f, 1)}
		out = append(out, MsgSpec{Name: "p2pmsg/block", Table: "p2pmsg", Cmd: p2p.CmdBlock, Value: msg.NewBlock(db),
			New: func() p2p.Message { return msg.NewBlock(&types.DposBlock{}) }})
	}
	{
		f := &Filler{N: 2, Bool: true}
		tx := SmallTxs(f, 2)[1]
		out = append(out, MsgSpec{Name: "p2pmsg/tx", Table: "p2pmsg", Cmd: p2p.CmdTx, Value: msg.NewTx(tx),
			New: func() p2p.Message { return msg.NewTx(&txBox{}) }})
	}
	return out
}

// txBox decodes a transaction the way CheckAndCreateTxMessage does (factory by leading bytes,
// then Deserialize), so msg.Tx can be used as a decoder destination.
type txBox struct {
	Tx interface{}
}

func (b *txBox) Serialize(w io.Writer) error {
	return b.Tx.(common.Serializable).Serialize(w)
}
func (b *txBox) Deserialize(r io.Reader) error {
	v, err := DecodeTx(r)
	if err != nil {
		return err
	}
	b.Tx = v
	return nil
}

// DposMsgSpecs: every message of dpos/p2p/msg.
func DposMsgSpecs() []MsgSpec {
	var out []MsgSpec
	add := func(name string, mk func() p2p.Message, tweak func(m p2p.Message), setup func()) {
		if setup != nil {
			setup()
		}
		v := fillMsg(mk(), tweak)
		out = append(out, MsgSpec{Name: "dposmsg/" + name, Table: "dposmsg", Cmd: v.CMD(), New: mk, Value: v, Setup: setup})
	}
	v1 := func() { dmsg.SetPayloadVersion(dmsg.DPoSV1Version) }
	v2 := func() { dmsg.SetPayloadVersion(dmsg.DPoSV2Version) }
	add("version/pv1", func() p2p.Message { return &dmsg.Version{} }, func(m p2p.Message) {
		m.(*dmsg.Version).Version = 0
		m.(*dmsg.Version).NodeVersion = ""
	}, v1)
	add("version/pv2", func() p2p.Message { return &dmsg.Version{} }, nil, v2)
	add("verack", func() p2p.Message { return &dmsg.VerAck{} }, nil, nil)
	add("addr", func() p2p.Message { return &dmsg.Addr{} }, nil, nil)
	add("daddr", func() p2p.Message { return &dmsg.Daddr{} }, nil, nil)
	add("ping", func() p2p.Message { return &dmsg.Ping{} }, nil, nil)
	add("pong", func() p2p.Message { return &dmsg.Pong{} }, nil, nil)
	add("inv", func() p2p.Message { return &dmsg.Inventory{} }, nil, nil)
	add("getblock", func() p2p.Message { return &dmsg.GetBlock{} }, nil, nil)
	add("proposal", func() p2p.Message { return &dmsg.Proposal{} }, nil, nil)
	add("acc_vote", func() p2p.Message { return &dmsg.Vote{Command: dmsg.CmdAcceptVote} }, func(m p2p.Message) { m.(*dmsg.Vote).Command = dmsg.CmdAcceptVote }, nil)
	add("rej_vote", func() p2p.Message { return &dmsg.Vote{Command: dmsg.CmdRejectVote} }, func(m p2p.Message) { m.(*dmsg.Vote).Command = dmsg.CmdRejectVote }, nil)
	add("get_blc", func() p2p.Message { return &dmsg.GetBlocks{} }, nil, nil)
	add("req_con", func() p2p.Message { return &dmsg.RequestConsensus{} }, nil, nil)
	add("res_con", func() p2p.Message { return &dmsg.ResponseConsensus{} }, nil, nil)
	add("req_pro", func() p2p.Message { return &dmsg.RequestProposal{} }, nil, nil)
	add("ill_pro", func() p2p.Message { return &dmsg.IllegalProposals{} }, nil, nil)
	add("ill_vote", func() p2p.Message { return &dmsg.IllegalVotes{} }, nil, nil)
	add("side_ill", func() p2p.Message { return &dmsg.SidechainIllegalData{} }, nil, nil)
	add("ina_ars", func() p2p.Message { return &dmsg.ResponseInactiveArbitrators{} }, nil, nil)
	add("rev_to_dpos", func() p2p.Message { return &dmsg.ResponseRevertToDPOS{} }, nil, nil)
	add("reset_view", func() p2p.Message { return &dmsg.ResetView{} }, nil, nil)
	add("reject", func() p2p.Message { return &dmsg.Reject{} }, nil, nil)
	{
		f := &Filler{N: 2, Bool: true}
		rb := &dmsg.ResponseBlocks{}
		for i := 0; i < 2; i++ {
			db := &types.DposBlock{Block: &types.Block{Header: *NewHeader(f, 1, 1), Transactions: SmallTxs(f, 1)}, HaveConfirm: i == 0}
			if i == 0 {
				db.Confirm = NewConfirm(f, 1)
			}
			rb.BlockConfirms = append(rb.BlockConfirms, db)
		}
		out = append(out, MsgSpec{Name: "dposmsg/res_blc", Table: "dposmsg", Cmd: rb.CMD(), Value: rb,
			New: func() p2p.Message { return &dmsg.ResponseBlocks{} }})
	}
	return out
}

// MsgSeeds turns the message specs into decoder seeds (payload bytes without the frame header).
func MsgSeeds() ([]*Seed, []string) {
	var seeds []*Seed
	var skipped []string
	for _, sp := range append(P2PMsgSpecs(), DposMsgSpecs()...) {
		sp := sp
		if sp.Setup != nil {
			sp.Setup()
		}
		b, err := encodeSer(sp.Value)
		if err != nil {
			skipped = append(skipped, sp.Name+": "+err.Error())
			continue
		}
		seeds = append(seeds, &Seed{Name: sp.Name, Group: sp.Table, Bytes: b, Value: sp.Value, Encode: encodeSer, Setup: sp.Setup,
			Decode: func(r io.Reader) (interface{}, error) {
				m := sp.New()
				if err := m.Deserialize(r); err != nil {
					return nil, err
				}
				return m, nil
			}})
	}
	return seeds, skipped
}

// AllSeeds is the seed set of the decoder check, in a fixed order.
func AllSeeds() ([]*Seed, []string) {
	var seeds []*Seed
	var skipped []string
	for _, g := range []func() ([]*Seed, []string){TxSeeds, ChainSeeds, MsgSeeds} {
		s, k := g()
		seeds = append(seeds, s...)
		skipped = append(skipped, k...)
	}
	// names must be unique
	seen := map[string]bool{}
	for _, s := range seeds {
		if seen[s.Name] {
			panic("duplicate seed name " + s.Name)
		}
		seen[s.Name] = true
	}
	return seeds, skipped
}

var _ = reflect.TypeOf
var _ = fmt.Sprint
