package main

// differential clause: the coinbase the node itself constructs (pow.Service.CreateCoinbaseTx +
// AssignCoinbaseTxRewards, the path GenerateBlock takes) for every (height, consensus mode, fee
// list) of the menu must equal the big.Rat reference split at the fixed addresses and must be
// accepted by the coinbase rule.

import (
	"fmt"
	"math/big"

	"github.com/elastos/Elastos.ELA/common"
	"github.com/elastos/Elastos.ELA/dpos/state"
	"github.com/elastos/Elastos.ELA/pow"
)

// modeArbiters is the ArbitratorsMock with a switchable IsInPOWMode (the mock's is constant).
type modeArbiters struct {
	*state.ArbitratorsMock
	powMode bool
}

func (m *modeArbiters) IsInPOWMode() bool { return m.powMode }

type builtRes struct {
	H        uint32   `json:"h"`
	Mode     string   `json:"mode"`
	Fees     []int64  `json:"fees"`
	Amounts  []int64  `json:"amounts"`
	Addrs    []string `json:"addresses"`
	Accepted bool     `json:"accepted"`
	Err      string   `json:"err"`
	Differs  string   `json:"differs"` // "" = equals the reference
}

func (f *cbFixture) addrName(h common.Uint168) string {
	for _, k := range []string{"cr", "dpos", "destroy", "miner", "found", "other"} {
		if f.addrs[k] == h {
			return k
		}
	}
	return "unknown"
}

func (f *cbFixture) runConstructed(heights []uint32, fees [][]int64) []builtRes {
	n := f.node
	arb := &modeArbiters{ArbitratorsMock: n.Arbiters}
	svc := pow.NewService(&pow.Config{PayToAddr: "", MinerInfo: "verif", Chain: n.Chain, ChainParams: n.Params, Arbitrators: arb})
	minerAddr, err := f.addrs["miner"].ToAddress()
	if err != nil {
		panic(err)
	}
	var out []builtRes
	for _, h := range heights {
		for _, mode := range []string{"dpos", "pow"} {
			arb.powMode = mode == "pow"
			for _, fs := range fees {
				res := builtRes{H: h, Mode: mode, Fees: fs}
				t := big.NewInt(int64(n.Params.GetBlockReward(h)))
				total := common.Fixed64(n.Params.GetBlockReward(h))
				feeSum := common.Fixed64(0)
				for _, x := range fs {
					t.Add(t, big.NewInt(x))
					total += common.Fixed64(x)
					feeSum += common.Fixed64(x)
				}
				cr, miner, dpos := refShares(t)
				if dpos.Sign() == 0 {
					continue // the constructor adds no DPoS output for an empty share (total 0)
				}
				func() {
					defer func() {
						if r := recover(); r != nil {
							res.Err = "panic: " + fmt.Sprint(r)
						}
					}()
					cb, err := svc.CreateCoinbaseTx(minerAddr, h)
					if err != nil {
						res.Err = "CreateCoinbaseTx: " + err.Error()
						return
					}
					blk := f.block(h, cb, fs)
					if err := svc.AssignCoinbaseTxRewards(blk, total); err != nil {
						res.Err = "AssignCoinbaseTxRewards: " + err.Error()
						return
					}
					for _, o := range cb.Outputs() {
						res.Amounts = append(res.Amounts, int64(o.Value))
						res.Addrs = append(res.Addrs, f.addrName(o.ProgramHash))
					}
					want, why := refVerdict(cbCase{H: h, Mode: mode, Fees: fs, Amounts: res.Amounts, Addrs: res.Addrs}, int64(n.Params.GetBlockReward(h)))
					if !want {
						res.Differs = why
					}
					_ = cr
					_ = miner
					f.setMode(mode)
					defer f.setMode("dpos")
					if err := n.Chain.VerifCheckCoinbaseContext(blk, feeSum); err != nil {
						res.Err = err.Error()
					} else {
						res.Accepted = true
					}
				}()
				out = append(out, res)
			}
		}
	}
	return out
}
