// Package par shards work over goroutines or over worker subprocesses of the same binary.
// Worker subprocesses are used where the repository keeps process-global state
// (config.DefaultParams, blockchain.DefaultLedger, events) or where an input may kill the
// process (out-of-memory, fatal error): the worker announces the case it is about to run, so a
// death is attributed to that case.
package par

import (
	"bytes"
	"encoding/json"
	"fmt"
	"os"
	"os/exec"
	"path/filepath"
	"runtime"
	"strconv"
	"strings"
	"sync"
	"time"
)

// Workers is the default parallelism.
func Workers() int {
	if s := os.Getenv("VERIF_WORKERS"); s != "" {
		if n, err := strconv.Atoi(s); err == nil && n > 0 {
			return n
		}
	}
	n := runtime.NumCPU()
	if n > 16 {
		n = 16
	}
	return n
}

// Go runs f(i) for i in [0,n) on up to Workers() goroutines.
func Go(n int, f func(i int)) {
	w := Workers()
	if w > n {
		w = n
	}
	var wg sync.WaitGroup
	ch := make(chan int)
	for k := 0; k < w; k++ {
		wg.Add(1)
		go func() {
			defer wg.Done()
			for i := range ch {
				f(i)
			}
		}()
	}
	for i := 0; i < n; i++ {
		ch <- i
	}
	close(ch)
	wg.Wait()
}

// Worker reports whether this process is a worker and its job (an opaque string set by parent).
func Worker() (job string, ok bool) {
	job = os.Getenv("VERIF_JOB")
	return job, job != ""
}

var announceF *os.File

// Announce records the case about to be executed (cheap pwrite); read by the parent if the
// worker dies.
func Announce(s string) {
	if announceF == nil {
		p := os.Getenv("VERIF_ANNOUNCE")
		if p == "" {
			return
		}
		f, err := os.OpenFile(p, os.O_CREATE|os.O_WRONLY, 0o644)
		if err != nil {
			return
		}
		announceF = f
	}
	b := make([]byte, 0, len(s)+12)
	b = append(b, fmt.Sprintf("%08d\n", len(s))...)
	b = append(b, s...)
	announceF.WriteAt(b, 0)
}

// Emit writes the worker's result (JSON) for the parent.
func Emit(v interface{}) {
	p := os.Getenv("VERIF_OUT")
	if p == "" {
		return
	}
	b, err := json.Marshal(v)
	if err != nil {
		fmt.Fprintln(os.Stderr, "emit:", err)
		os.Exit(2)
	}
	if err := os.WriteFile(p+".tmp", b, 0o644); err != nil {
		fmt.Fprintln(os.Stderr, "emit:", err)
		os.Exit(2)
	}
	os.Rename(p+".tmp", p)
}

// Result of one worker subprocess.
type Result struct {
	Job       string
	Out       []byte // emitted JSON (nil if the worker died before emitting)
	Died      bool
	Announced string // last announced case when it died
	Stderr    string
	TimedOut  bool
}

// Opts for Procs.
type Opts struct {
	Timeout  time.Duration // per worker; 0 = 30 min
	MemMB    int           // ulimit -v in MiB; 0 = 8192
	Parallel int           // 0 = Workers()
	Env      []string
}

// Procs runs one worker subprocess of this binary per job (args are passed through), at most
// Parallel at a time, and returns their results in job order.
func Procs(jobs []string, scratch string, o Opts) []Result {
	if o.Timeout == 0 {
		o.Timeout = 30 * time.Minute
	}
	if o.MemMB == 0 {
		o.MemMB = 8192
	}
	if o.Parallel == 0 {
		o.Parallel = Workers()
	}
	self, err := os.Executable()
	if err != nil {
		panic(err)
	}
	res := make([]Result, len(jobs))
	sem := make(chan struct{}, o.Parallel)
	var wg sync.WaitGroup
	for i, job := range jobs {
		wg.Add(1)
		sem <- struct{}{}
		go func(i int, job string) {
			defer wg.Done()
			defer func() { <-sem }()
			out := filepath.Join(scratch, fmt.Sprintf("w%d.out", i))
			ann := filepath.Join(scratch, fmt.Sprintf("w%d.ann", i))
			os.Remove(out)
			os.Remove(ann)
			// ulimit -v through sh so the limit applies to the worker only.
			sh := fmt.Sprintf("ulimit -v %d; exec \"$0\" \"$@\"", o.MemMB*1024)
			args := append([]string{"-c", sh, self}, os.Args[1:]...)
			cmd := exec.Command("/bin/sh", args...)
			cmd.Env = append(os.Environ(), "VERIF_JOB="+job, "VERIF_OUT="+out, "VERIF_ANNOUNCE="+ann)
			cmd.Env = append(cmd.Env, o.Env...)
			var stderr bytes.Buffer
			cmd.Stderr = &stderr
			cmd.Stdout = &stderr
			r := Result{Job: job}
			if err := cmd.Start(); err != nil {
				r.Died = true
				r.Stderr = err.Error()
				res[i] = r
				return
			}
			done := make(chan error, 1)
			go func() { done <- cmd.Wait() }()
			select {
			case <-done:
			case <-time.After(o.Timeout):
				cmd.Process.Kill()
				<-done
				r.TimedOut = true
			}
			b, err := os.ReadFile(out)
			if err != nil {
				r.Died = true
				if a, err := os.ReadFile(ann); err == nil && len(a) > 9 {
					n, _ := strconv.Atoi(strings.TrimSpace(string(a[:8])))
					if 9+n <= len(a) {
						r.Announced = string(a[9 : 9+n])
					}
				}
			} else {
				r.Out = b
			}
			s := stderr.String()
			if len(s) > 6000 {
				s = s[:3000] + "\n...\n" + s[len(s)-3000:]
			}
			r.Stderr = s
			os.Remove(out)
			os.Remove(ann)
			res[i] = r
		}(i, job)
	}
	wg.Wait()
	return res
}
