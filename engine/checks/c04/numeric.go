package main

// Numeric-boundary family: every fixed-width integer field (uint8/16/32/64, int*, Fixed64, enum
// types) of payloads, transaction parts, headers and merged-mining proofs, confirms, blocks and
// P2P messages — found by reflection on the same roots as the length family — is set to the values
// where a width or sign conversion goes wrong and round-tripped.

import (
	"bytes"
	"fmt"
	"reflect"
	"strings"
	"sync/atomic"

	"github.com/elastos/Elastos.ELA/common"
)

var numMenu = []uint64{0, 1, 1<<7 - 1, 1 << 7, 1<<8 - 1, 1<<15 - 1, 1 << 15, 1<<16 - 1, 1<<31 - 1, 1 << 31, 1<<32 - 1, 1<<63 - 1, 1 << 63, 1<<64 - 1}

// maxOfKind: the largest menu value a field of this Go kind takes. `int` fields are written as
// uint32 by the encoders that use them (merkle indexes), so they get the uint32 range.
func maxOfKind(k reflect.Kind) uint64 {
	switch k {
	case reflect.Uint8:
		return 1<<8 - 1
	case reflect.Uint16:
		return 1<<16 - 1
	case reflect.Uint32, reflect.Int, reflect.Uint:
		return 1<<32 - 1
	case reflect.Uint64:
		return 1<<64 - 1
	case reflect.Int8:
		return 1<<7 - 1
	case reflect.Int16:
		return 1<<15 - 1
	case reflect.Int32:
		return 1<<31 - 1
	case reflect.Int64:
		return 1<<63 - 1
	}
	return 0
}

func isNumKind(k reflect.Kind) bool { return maxOfKind(k) != 0 }

func numLeaves(v reflect.Value, path string, get func(reflect.Value) reflect.Value, out *[]leaf, depth int) {
	if depth > 8 {
		return
	}
	switch v.Kind() {
	case reflect.Ptr, reflect.Interface:
		if v.IsNil() {
			return
		}
		numLeaves(v.Elem(), path, func(r reflect.Value) reflect.Value { return get(r).Elem() }, out, depth+1)
	case reflect.Struct:
		if v.Type() == reflect.TypeOf(common.Uint256{}) {
			return
		}
		t := v.Type()
		for i := 0; i < t.NumField(); i++ {
			if t.Field(i).PkgPath != "" {
				continue
			}
			i := i
			numLeaves(v.Field(i), path+"."+t.Field(i).Name, func(r reflect.Value) reflect.Value { return get(r).Field(i) }, out, depth+1)
		}
	case reflect.Slice:
		if v.Type().Elem().Kind() != reflect.Uint8 && v.Len() > 0 {
			numLeaves(v.Index(0), path+"[0]", func(r reflect.Value) reflect.Value { return get(r).Index(0) }, out, depth+1)
		}
	default:
		// Output.Type is not a free field: it is the tag of the output's payload, which the encoder
		// takes from the payload's Go type and the decoder from this byte — a value with a
		// mismatching tag is not well-formed (the matching pairs are enumerated by the shapes)
		if strings.HasSuffix(path, ".Outputs[0].Type") {
			return
		}
		if isNumKind(v.Kind()) && v.CanSet() {
			*out = append(*out, leaf{path, get})
		}
	}
}

func setNum(v reflect.Value, x uint64) {
	switch v.Kind() {
	case reflect.Int, reflect.Int8, reflect.Int16, reflect.Int32, reflect.Int64:
		v.SetInt(int64(x))
	default:
		v.SetUint(x)
	}
}

func getNum(v reflect.Value) uint64 {
	switch v.Kind() {
	case reflect.Int, reflect.Int8, reflect.Int16, reflect.Int32, reflect.Int64:
		return uint64(v.Int())
	}
	return v.Uint()
}

// numAttempt encodes and decodes one value with numeric leaf lf set to x.
// status: ok | refused-encode | decode-error | leftover | reencode-diff | diff | no-leaf
func numAttempt(bc bcase, lf leaf, x uint64) (status, detail string, enc []byte) {
	currentCase.Store(fmt.Sprintf("%s%s=%#x", bc.name, lf.path, x))
	v := bc.build()
	target := safeGet(lf, reflect.ValueOf(v))
	if !target.IsValid() || !target.CanSet() {
		return "no-leaf", "", nil
	}
	setNum(target, x)
	var b []byte
	var err error
	func() {
		defer func() {
			if e := recover(); e != nil {
				err = fmt.Errorf("panic: %v", e)
			}
		}()
		b, err = bc.encode(v)
	}()
	if err != nil {
		return "refused-encode", err.Error(), nil
	}
	var got interface{}
	var left int
	func() {
		defer func() {
			if e := recover(); e != nil {
				err = fmt.Errorf("panic: %v", e)
			}
		}()
		got, left, err = bc.decode(b)
	}()
	if err != nil {
		return "decode-error", err.Error(), b
	}
	if left != 0 {
		return "leftover", fmt.Sprintf("%d bytes left", left), b
	}
	gl := safeGet(lf, reflect.ValueOf(got))
	if !gl.IsValid() {
		return "diff", "field absent after decoding", b
	}
	if y := getNum(gl); y != x {
		return "diff", fmt.Sprintf("comes back as %#x", y), b
	}
	b2, err := bc.encode(got)
	if err != nil || !bytes.Equal(b, b2) {
		return "reencode-diff", "", b
	}
	return "ok", "", b
}

func (c *ctx) runNumeric(bc bcase) {
	if !c.baselineOK(bc) {
		return
	}
	bc = cached(bc)
	r := c.r
	root := reflect.ValueOf(bc.build())
	var leaves []leaf
	numLeaves(root, "", func(r reflect.Value) reflect.Value { return r }, &leaves, 0)
	for _, lf := range leaves {
		base := safeGet(lf, root)
		if !base.IsValid() {
			continue
		}
		kind := base.Kind()
		orig := getNum(base)
		var encOrig []byte
		func() {
			defer func() { recover() }()
			encOrig, _ = bc.encode(bc.build())
		}()
		ctlStatus := map[uint64]string{}
		for _, x := range numMenu {
			if x > maxOfKind(kind) {
				continue
			}
			atomic.AddInt64(&c.evals, 1)
			st, detail, enc := numAttempt(bc, lf, x)
			if st == "ok" {
				atomic.AddInt64(&c.numeric, 1)
				c.mark(fmt.Sprintf("numeric|%s|%s|%d", bc.class, fieldClass(lf.path), x))
				continue
			}
			if st == "no-leaf" {
				continue
			}
			// the variant does not carry the field at all: its encoding does not depend on it
			if enc != nil && x != orig && bytes.Equal(enc, encOrig) {
				atomic.AddInt64(&c.numericNotCarried, 1)
				continue
			}
			if st == "diff" {
				// the Go type is wider than the wire field and the encoder truncates: x and
				// x mod 2^k have the same encoding — x is not representable, not a finding
				trunc := false
				for _, k := range []uint{8, 16, 32} {
					xm := x & (1<<k - 1)
					if xm == x {
						continue
					}
					if _, _, e2 := numAttempt(bc, lf, xm); e2 != nil && bytes.Equal(e2, enc) {
						trunc = true
						break
					}
				}
				if trunc {
					atomic.AddInt64(&c.numericTruncated, 1)
					c.mu.Lock()
					c.truncFields[bc.class+lf.path] = true
					c.mu.Unlock()
					continue
				}
			} else {
				// refused or misparsed: a validated field (enumeration, version switch, format
				// selector)? then the neighbouring value is refused as well
				xc := x ^ 2
				if xc > maxOfKind(kind) {
					xc = x ^ 4
				}
				cs, ok := ctlStatus[xc]
				if !ok {
					cs, _, _ = numAttempt(bc, lf, xc)
					ctlStatus[xc] = cs
				}
				if cs != "ok" {
					atomic.AddInt64(&c.numericRefused, 1)
					continue
				}
			}
			name := fmt.Sprintf("%s%s=%#x", bc.name, lf.path, x)
			r.Violate("C04|numeric-boundary|"+st+"|"+bc.class+"|"+fieldClass(lf.path),
				fmt.Sprintf("field %s set to %#x does not survive encode/decode (%s %s)", lf.path, x, st, detail),
				map[string]interface{}{"kind": "numeric", "case": name})
		}
	}
}
