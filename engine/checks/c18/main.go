// C18: stored blocks read back byte-for-byte.
//
// Real code: database.Create/Open("ffldb", ...) + Tx.StoreBlock / FetchBlock / FetchBlocks /
// FetchBlockHeader(s) / FetchBlockRegion(s) / HasBlock(s), with the flat-file size limit shrunk
// (hook ffldb.VerifSetMaxBlockFileSize) so that a handful of small blocks rolls files over.
//
// Enumerated (path enumeration, every path executed on a fresh database directory):
//   - every sequence of 1..N block stores over a per-configuration alphabet of boundary sizes,
//     split over one or two transactions at every position, first transaction committed or rolled
//     back, with and without close+reopen between the transactions, and a final close+reopen;
//   - read phases: while the blocks are pending inside the writing transaction, after commit in
//     a fresh transaction, after reopen;
//   - per block and phase: FetchBlock, FetchBlockHeader, a boundary alphabet of regions (all
//     combinations of offset {0,1,size/2,size-1,size} and end {offset,offset+1,size-1,size,size+1,
//     size+4,size+8,size+11,size+12,size+13,size+16} plus uint32 overflows), the bulk calls with the
//     requests in reverse storage order; for blocks of size <= 80 in dedicated layouts ALL
//     regions with offset,len <= size+16.
//   - one real serialized block (genesis block) whose TxLoc entries must slice out exactly the
//     serialized transactions and whose FetchBlockHeader equals Header.SerializeNoAux.
//
// Oracle: reference = the byte slices handed to StoreBlock. FetchBlock == stored bytes; region
// (o,l) == bytes[o:o+l] when o+l <= size, otherwise an error; header == bytes[:84] (error when
// the block is shorter); not-stored / rolled-back hashes are not found; same answers pending,
// committed and after reopen.
package main

import (
	"bytes"
	"fmt"
	"os"
	"path/filepath"
	"sort"
	"strings"
	"sync/atomic"
	"time"

	"github.com/btcsuite/btcd/wire"

	"github.com/elastos/Elastos.ELA/common"
	"github.com/elastos/Elastos.ELA/core"
	"github.com/elastos/Elastos.ELA/core/transaction"
	"github.com/elastos/Elastos.ELA/core/types/functions"
	"github.com/elastos/Elastos.ELA/database"
	"github.com/elastos/Elastos.ELA/database/ffldb"

	"verif/evid"
	"verif/par"
)

const magic = wire.BitcoinNet(0x5a17e1a0)
const hdrLen = 84

type config struct {
	Max       uint32
	Sizes     []int
	MaxStores int
}

type scenario struct {
	Max       uint32 `json:"max_block_file_size"`
	Stores    []int  `json:"stores"`     // block sizes in storage order
	Split     int    `json:"split"`      // number of stores in the first transaction
	Tx1       string `json:"tx1"`        // commit | rollback
	ReopenMid bool   `json:"reopen_mid"` // close+reopen between the transactions
	Sweep     bool   `json:"sweep"`      // complete region sweep for blocks of size <= 80
	Real      bool   `json:"real_block"` // first block is a real serialized genesis block
	LRU       bool   `json:"lru"`        // more block files than ffldb keeps open: extra read orders
}

type blk struct {
	hash  common.Uint256
	data  []byte
	state int // 0 not stored, 1 pending, 2 committed, 3 rolled back
}

func blockHash(i int) common.Uint256 {
	var h common.Uint256
	for j := range h {
		h[j] = byte(0xa0 + i*7 + j)
	}
	h[0] = byte(i + 1)
	return h
}

// blockBytes: distinct per block and position (neighbouring bytes differ, no byte pattern of one
// block occurs at the same offset in another).
func blockBytes(i, size int) []byte {
	b := make([]byte, size)
	for j := range b {
		b[j] = byte((j*31 + i*101 + j/251 + 7) & 0xff)
	}
	return b
}

type runner struct {
	r      *evid.Run
	states evid.Distinct
	trans  int64
	traces int64
	reads  int64
	beyond int64 // regions beyond the block evaluated
	nv     evid.Distinct
}

// failer buffers the violations of one scenario; they are merged in scenario order after the
// parallel run so that the stored artefact of a signature is always the same one.
type failer struct {
	sc   scenario
	list [][2]string
}

func (f *failer) fail(sig, format string, a ...interface{}) {
	f.list = append(f.list, [2]string{"C18|" + sig, fmt.Sprintf(format, a...)})
}

func codeOf(err error) string {
	if err == nil {
		return "nil"
	}
	if de, ok := err.(database.Error); ok {
		return de.ErrorCode.String()
	}
	return "other"
}

type region struct{ o, l uint32 }

func boundaryRegions(size int) []region {
	s := uint32(size)
	offs := []uint32{0, 1, s / 2, s - 1, s}
	seen := map[region]bool{}
	var out []region
	add := func(o, l uint32) {
		rg := region{o, l}
		if !seen[rg] {
			seen[rg] = true
			out = append(out, rg)
		}
	}
	for _, o := range offs {
		for _, e := range []uint32{o, o + 1, s - 1, s, s + 1, s + 4, s + 8, s + 11, s + 12, s + 13, s + 16} {
			if e >= o {
				add(o, e-o)
			}
		}
	}
	add(1, 0xffffffff)
	add(0xffffffff, 1)
	add(0xfffffff0, 0x20)
	add(s+1, 0)
	add(s+12, 0)
	return out
}

func sweepRegions(size int) []region {
	var out []region
	for o := 0; o <= size+16; o++ {
		for l := 0; l <= size+16; l++ {
			out = append(out, region{uint32(o), uint32(l)})
		}
	}
	return out
}

// checkRegion evaluates one region answer against the model.
func (x *runner) checkRegion(f *failer, api, phase string, b *blk, rg region, got []byte, err error) {
	size := uint64(len(b.data))
	end := uint64(rg.o) + uint64(rg.l)
	if end <= size {
		if err != nil {
			f.fail("region-error|"+api+"|"+phase, "%s(offset %d, len %d) inside a block of %d bytes failed: %v", api, rg.o, rg.l, size, err)
		} else if !bytes.Equal(got, b.data[rg.o:end]) {
			f.fail("region-bytes|"+api+"|"+phase, "%s(offset %d, len %d) of a block of %d bytes returned different bytes", api, rg.o, rg.l, size)
		}
		return
	}
	atomic.AddInt64(&x.beyond, 1)
	if phase != "pending" {
		phase = "on-disk" // committed and reopened read the same flat-file record
	}
	if err == nil {
		f.fail("region-beyond-block-succeeds|"+api+"|"+phase, "%s(offset %d, len %d) exceeds the block (%d bytes) but succeeded and returned %d bytes (%x...)", api, rg.o, rg.l, size, len(got), head(got))
	}
}

func head(b []byte) []byte {
	if len(b) > 16 {
		return b[:16]
	}
	return b
}

// readAll checks every block of the scenario in the given transaction.
func (x *runner) readAll(f *failer, tx database.Tx, blocks []*blk, phase string, sweep bool) {
	var visible []*blk
	for _, b := range blocks {
		vis := b.state == 1 || b.state == 2
		has, err := tx.HasBlock(b.hash)
		if err != nil || has != vis {
			f.fail("hasblock|"+phase, "HasBlock = %v,%v for a block in state %d", has, err, b.state)
		}
		atomic.AddInt64(&x.reads, 1)
		if !vis {
			if _, err := tx.FetchBlock(&b.hash); codeOf(err) != "ErrBlockNotFound" {
				f.fail("absent-block-fetch|"+phase, "FetchBlock of a block that is not stored (state %d) = %s", b.state, codeOf(err))
			}
			if _, err := tx.FetchBlockRegion(&database.BlockRegion{Hash: &b.hash, Offset: 0, Len: 1}); codeOf(err) != "ErrBlockNotFound" {
				f.fail("absent-block-region|"+phase, "FetchBlockRegion of a block that is not stored (state %d) = %s", b.state, codeOf(err))
			}
			continue
		}
		visible = append(visible, b)
		ph := phase
		if b.state == 1 {
			ph = "pending"
		}
		got, err := tx.FetchBlock(&b.hash)
		if err != nil {
			f.fail("fetchblock-error|"+ph, "FetchBlock of a %d-byte block failed: %v", len(b.data), err)
		} else if !bytes.Equal(got, b.data) {
			f.fail("fetchblock-bytes|"+ph, "FetchBlock of a %d-byte block returned %d different bytes", len(b.data), len(got))
		}
		hdr, err := tx.FetchBlockHeader(&b.hash)
		if len(b.data) >= hdrLen {
			if err != nil {
				f.fail("header-error|"+ph, "FetchBlockHeader of a %d-byte block failed: %v", len(b.data), err)
			} else if !bytes.Equal(hdr, b.data[:hdrLen]) {
				f.fail("header-bytes|"+ph, "FetchBlockHeader is not the first %d bytes of the block", hdrLen)
			}
		} else {
			atomic.AddInt64(&x.beyond, 1)
			hp := ph
			if hp != "pending" {
				hp = "on-disk"
			}
			if err == nil {
				f.fail("region-beyond-block-succeeds|FetchBlockHeader|"+hp, "FetchBlockHeader of a block of only %d bytes succeeded and returned %d bytes", len(b.data), len(hdr))
			}
		}
		regs := boundaryRegions(len(b.data))
		if sweep && len(b.data) <= 80 {
			regs = sweepRegions(len(b.data))
		}
		for _, rg := range regs {
			got, err := tx.FetchBlockRegion(&database.BlockRegion{Hash: &b.hash, Offset: rg.o, Len: rg.l})
			x.checkRegion(f, "FetchBlockRegion", ph, b, rg, got, err)
		}
		atomic.AddInt64(&x.reads, int64(len(regs))+2)
		// bulk call with a single out-of-bounds region must fail as a whole
		for _, rg := range []region{{uint32(len(b.data)), 1}, {0, uint32(len(b.data)) + 12}, {uint32(len(b.data)) - 1, 2}} {
			got, err := tx.FetchBlockRegions([]database.BlockRegion{{Hash: &b.hash, Offset: rg.o, Len: rg.l}})
			var g0 []byte
			if len(got) > 0 {
				g0 = got[0]
			}
			x.checkRegion(f, "FetchBlockRegions", ph, b, rg, g0, err)
		}
	}
	if len(visible) == 0 {
		return
	}
	// bulk calls, requests in reverse storage order
	n := len(visible)
	hashes := make([]common.Uint256, n)
	regs := make([]database.BlockRegion, n)
	for i := range visible {
		b := visible[n-1-i]
		hashes[i] = b.hash
		o := uint32(len(b.data) / 3)
		regs[i] = database.BlockRegion{Hash: &hashes[i], Offset: o, Len: uint32(len(b.data)) - o}
	}
	ph := phase
	for _, b := range visible {
		if b.state == 1 {
			ph = "pending"
		}
	}
	if got, err := tx.FetchBlocks(hashes); err != nil || len(got) != n {
		f.fail("fetchblocks-error|"+ph, "FetchBlocks(%d hashes) = %d results, %v", n, len(got), err)
	} else {
		for i := range got {
			if !bytes.Equal(got[i], visible[n-1-i].data) {
				f.fail("fetchblocks-bytes|"+ph, "FetchBlocks result %d is not the block stored under that hash", i)
			}
		}
	}
	if got, err := tx.FetchBlockRegions(regs); err != nil || len(got) != n {
		f.fail("fetchregions-error|"+ph, "FetchBlockRegions(%d regions) = %d results, %v", n, len(got), err)
	} else {
		for i := range got {
			b := visible[n-1-i]
			if !bytes.Equal(got[i], b.data[regs[i].Offset:]) {
				f.fail("fetchregions-bytes|"+ph, "FetchBlockRegions result %d is not the requested slice of its block", i)
			}
		}
	}
	if has, err := tx.HasBlocks(hashes); err != nil || len(has) != n {
		f.fail("hasblocks|"+ph, "HasBlocks = %v, %v", has, err)
	} else {
		for _, h := range has {
			if !h {
				f.fail("hasblocks|"+ph, "HasBlocks reports a stored block as missing")
			}
		}
	}
	atomic.AddInt64(&x.reads, 3)
}

// lruReads re-reads the committed blocks in orders that make the block store evict and re-open
// its read-only file handles (it keeps at most maxOpenFiles = 25 of them, least recently used
// first out): ascending, descending, zig-zag between the two ends, ping-pong between the first
// and the last files, and finally every block once more.
func (x *runner) lruReads(f *failer, tx database.Tx, blocks []*blk, phase string) {
	var vis []*blk
	for _, b := range blocks {
		if b.state == 2 {
			vis = append(vis, b)
		}
	}
	n := len(vis)
	if n == 0 {
		return
	}
	orders := map[string][]int{}
	for i := 0; i < n; i++ {
		orders["1-ascending"] = append(orders["1-ascending"], i)
		orders["2-descending"] = append(orders["2-descending"], n-1-i)
		orders["5-once-more"] = append(orders["5-once-more"], i)
	}
	for i, j := 0, n-1; i <= j; i, j = i+1, j-1 {
		orders["3-zigzag"] = append(orders["3-zigzag"], i)
		if i != j {
			orders["3-zigzag"] = append(orders["3-zigzag"], j)
		}
	}
	for r := 0; r < 3; r++ {
		for k := 0; k < 3 && k < n; k++ {
			orders["4-ping-pong"] = append(orders["4-ping-pong"], k, n-1-k)
		}
	}
	for _, name := range []string{"1-ascending", "2-descending", "3-zigzag", "4-ping-pong", "5-once-more"} {
		for _, i := range orders[name] {
			b := vis[i]
			got, err := tx.FetchBlock(&b.hash)
			if err != nil {
				f.fail("lru-reread-error|FetchBlock|"+phase, "order %s: FetchBlock of block %d of %d (one or two blocks per file) failed: %v", name[2:], i, n, err)
			} else if !bytes.Equal(got, b.data) {
				f.fail("lru-reread-bytes|FetchBlock|"+phase, "order %s: FetchBlock of block %d of %d returned different bytes", name[2:], i, n)
			}
			o := uint32(len(b.data) - 5)
			rg, err := tx.FetchBlockRegion(&database.BlockRegion{Hash: &b.hash, Offset: o, Len: 5})
			if err != nil {
				f.fail("lru-reread-error|FetchBlockRegion|"+phase, "order %s: FetchBlockRegion of block %d of %d failed: %v", name[2:], i, n, err)
			} else if !bytes.Equal(rg, b.data[o:]) {
				f.fail("lru-reread-bytes|FetchBlockRegion|"+phase, "order %s: FetchBlockRegion of block %d of %d returned different bytes", name[2:], i, n)
			}
			atomic.AddInt64(&x.reads, 2)
		}
	}
}

func (x *runner) open(f *failer, dir string, create bool, max uint32) database.DB {
	var db database.DB
	var err error
	if create {
		db, err = database.Create("ffldb", dir, magic)
	} else {
		db, err = database.Open("ffldb", dir, magic)
	}
	if err != nil {
		f.fail("open-error", "open (create=%v) failed: %v", create, err)
		return nil
	}
	ffldb.VerifSetMaxBlockFileSize(db, max)
	atomic.AddInt64(&x.trans, 1)
	return db
}

// run executes one scenario on a fresh directory.
func (x *runner) run(sc scenario, dir string) *failer {
	f := &failer{sc: sc}
	x.run1(f, sc, dir)
	return f
}

func (x *runner) run1(f *failer, sc scenario, dir string) {
	defer os.RemoveAll(dir)
	atomic.AddInt64(&x.traces, 1)
	blocks := make([]*blk, len(sc.Stores)+1)
	for i, s := range sc.Stores {
		blocks[i] = &blk{hash: blockHash(i), data: blockBytes(i, s)}
	}
	var realTx [][]byte
	var realLoc [][2]int
	if sc.Real {
		data, txs, locs, hdr := realBlock()
		blocks[0].data = data
		realTx, realLoc = txs, locs
		if !bytes.Equal(hdr, data[:hdrLen]) {
			evid.Fatalf("real block: SerializeNoAux is not the first %d bytes", hdrLen)
		}
	}
	blocks[len(sc.Stores)] = &blk{hash: blockHash(99)} // never stored
	db := x.open(f, dir, true, sc.Max)
	if db == nil {
		return
	}
	defer func() {
		if db != nil {
			db.Close()
		}
	}()
	var layout []string
	note := func(s string) {
		layout = append(layout, s)
		fn, off := ffldb.VerifWriteCursor(db)
		x.states.Add(fmt.Sprintf("%d|%s|%d:%d", sc.Max, strings.Join(layout, ","), fn, off))
	}
	doTx := func(from, to int, outcome string) bool {
		tx, err := db.Begin(true)
		if err != nil {
			f.fail("begin-error", "Begin(true): %v", err)
			return false
		}
		atomic.AddInt64(&x.trans, 1)
		for i := from; i < to; i++ {
			if err := tx.StoreBlock(blocks[i].hash, blocks[i].data); err != nil {
				f.fail("store-error", "StoreBlock(%d bytes): %v", len(blocks[i].data), err)
				tx.Rollback()
				return false
			}
			blocks[i].state = 1
			atomic.AddInt64(&x.trans, 1)
			note(fmt.Sprintf("p%d", len(blocks[i].data)))
			// storing the same hash again is refused, pending or committed
			if err := tx.StoreBlock(blocks[i].hash, blocks[i].data); codeOf(err) != "ErrBlockExists" {
				f.fail("duplicate-store|pending", "second StoreBlock of a pending hash = %s", codeOf(err))
			}
		}
		if from > 0 && blocks[0].state == 2 {
			if err := tx.StoreBlock(blocks[0].hash, blocks[0].data); codeOf(err) != "ErrBlockExists" {
				f.fail("duplicate-store|committed", "StoreBlock of a committed hash = %s", codeOf(err))
			}
		}
		x.readAll(f, tx, blocks, "committed", sc.Sweep) // pending blocks report phase "pending"
		if outcome == "rollback" {
			if err := tx.Rollback(); err != nil {
				f.fail("rollback-error", "Rollback: %v", err)
				return false
			}
			for i := from; i < to; i++ {
				blocks[i].state = 3
			}
			note("rb")
		} else {
			if err := tx.Commit(); err != nil {
				f.fail("commit-error", "Commit: %v", err)
				return false
			}
			for i := from; i < to; i++ {
				blocks[i].state = 2
			}
			note("c")
		}
		atomic.AddInt64(&x.trans, 1)
		return true
	}
	view := func(phase string) {
		err := db.View(func(tx database.Tx) error {
			x.readAll(f, tx, blocks, phase, sc.Sweep)
			if sc.LRU {
				x.lruReads(f, tx, blocks, phase)
			}
			if sc.Real && blocks[0].state == 2 {
				for i, loc := range realLoc {
					got, err := tx.FetchBlockRegion(&database.BlockRegion{Hash: &blocks[0].hash, Offset: uint32(loc[0]), Len: uint32(loc[1])})
					if err != nil || !bytes.Equal(got, realTx[i]) {
						f.fail("txloc-region|"+phase, "region given by TxLoc[%d] (offset %d, len %d) is not the serialized transaction (err %v)", i, loc[0], loc[1], err)
					}
				}
			}
			return nil
		})
		if err != nil {
			f.fail("view-error", "View: %v", err)
		}
		atomic.AddInt64(&x.trans, 1)
	}
	reopen := func() bool {
		if err := db.Close(); err != nil {
			f.fail("close-error", "Close: %v", err)
		}
		db = x.open(f, dir, false, sc.Max)
		if db != nil {
			note("ro")
		}
		return db != nil
	}
	n := len(sc.Stores)
	if !doTx(0, sc.Split, sc.Tx1) {
		return
	}
	view("committed")
	if sc.ReopenMid {
		if !reopen() {
			return
		}
		view("reopened")
	}
	if sc.Split < n {
		if !doTx(sc.Split, n, "commit") {
			return
		}
		view("committed")
	}
	if !reopen() {
		return
	}
	view("reopened")
	x.nv.Add(fmt.Sprintf("files=%d", countFiles(dir)))
}

func countFiles(dir string) int {
	m, _ := filepath.Glob(filepath.Join(dir, "*.fdb"))
	return len(m)
}

// realBlock returns a real serialized block, its serialized transactions, their TxLoc entries
// and the header serialized without auxpow.
func realBlock() ([]byte, [][]byte, [][2]int, []byte) {
	// the registrations the node performs at start-up (common/config/settings.SetupConfig)
	functions.GetTransactionByTxType = transaction.GetTransaction
	functions.GetTransactionByBytes = transaction.GetTransactionByBytes
	functions.CreateTransaction = transaction.CreateTransaction
	functions.GetTransactionParameters = transaction.GetTransactionparameters
	b := core.GenesisBlock(common.Uint168{1, 2, 3})
	buf := new(bytes.Buffer)
	if err := b.Serialize(buf); err != nil {
		evid.Fatalf("real block: %v", err)
	}
	locs, err := b.TxLoc()
	if err != nil {
		evid.Fatalf("real block TxLoc: %v", err)
	}
	var txs [][]byte
	var ll [][2]int
	for i, tx := range b.Transactions {
		tb := new(bytes.Buffer)
		if err := tx.Serialize(tb); err != nil {
			evid.Fatalf("real block tx: %v", err)
		}
		txs = append(txs, tb.Bytes())
		ll = append(ll, [2]int{locs[i].TxStart, locs[i].TxLen})
	}
	hb := new(bytes.Buffer)
	b.Header.SerializeNoAux(hb)
	return buf.Bytes(), txs, ll, hb.Bytes()
}

func configs(r *evid.Run) []config {
	if r.Thorough() {
		return []config{
			{Max: 256, Sizes: []int{1, 80, 84, 243, 244}, MaxStores: 5},
			{Max: 768, Sizes: []int{1, 84, 245, 255, 600, 755, 756}, MaxStores: 4},
			{Max: 512, Sizes: []int{1, 80, 243, 244, 245, 499, 500}, MaxStores: 4},
		}
	}
	// quick: the small limit with up to 3 stores (two boundary blocks already roll a file over),
	// the larger limit (sizes 245, 255, 600 need it) with up to 2 stores
	return []config{
		{Max: 256, Sizes: []int{1, 80, 84, 243, 244}, MaxStores: 3},
		{Max: 768, Sizes: []int{1, 84, 245, 255, 600, 755, 756}, MaxStores: 2},
	}
}

func scenarios(r *evid.Run) []scenario {
	var out []scenario
	for _, c := range configs(r) {
		var rec func(pre []int)
		rec = func(pre []int) {
			if n := len(pre); n > 0 {
				st := append([]int{}, pre...)
				for split := 1; split <= n; split++ {
					for _, tx1 := range []string{"commit", "rollback"} {
						if tx1 == "rollback" && split == n && n > 1 {
							continue // everything rolled back: covered by n == 1
						}
						for _, mid := range []bool{false, true} {
							if mid && (split == n || tx1 == "rollback") {
								continue // identical to the final reopen / nothing on disk to reopen
							}
							out = append(out, scenario{Max: c.Max, Stores: st, Split: split, Tx1: tx1, ReopenMid: mid})
						}
					}
				}
			}
			if len(pre) == c.MaxStores {
				return
			}
			for _, s := range c.Sizes {
				rec(append(pre, s))
			}
		}
		rec(nil)
		// complete region sweeps for small blocks in dedicated layouts: alone, followed by another
		// block, last block of a file, first block of the next file
		fill := int(c.Max) - 12 - 13 // leaves room for exactly one 1-byte block record
		for _, s := range []int{1, 80} {
			for _, lay := range [][]int{{s}, {s, 80}, {fill, s}, {fill, 1, s}, {s, s}} {
				for _, split := range []int{1, len(lay)} {
					out = append(out, scenario{Max: c.Max, Stores: lay, Split: split, Tx1: "commit", Sweep: true, ReopenMid: split < len(lay)})
				}
			}
		}
		if c.Max == 256 {
			// more block files than the store keeps open (maxOpenFiles = 25): 29 files with one
			// 200-byte block each, and 29 files with two 110-byte blocks each
			one, two := make([]int, 29), make([]int, 58)
			for i := range one {
				one[i] = 200
			}
			for i := range two {
				two[i] = 110
			}
			out = append(out,
				scenario{Max: c.Max, Stores: one, Split: 29, Tx1: "commit", LRU: true},
				scenario{Max: c.Max, Stores: one, Split: 10, Tx1: "commit", LRU: true},
				scenario{Max: c.Max, Stores: one, Split: 27, Tx1: "commit", ReopenMid: true, LRU: true},
				scenario{Max: c.Max, Stores: two, Split: 58, Tx1: "commit", LRU: true},
				scenario{Max: c.Max, Stores: two, Split: 31, Tx1: "commit", ReopenMid: true, LRU: true})
		}
		out = append(out, scenario{Max: c.Max, Stores: []int{0, 80}, Split: 1, Tx1: "commit", Real: true},
			scenario{Max: c.Max, Stores: []int{0, 80}, Split: 2, Tx1: "commit", Real: true})
	}
	return out
}

func main() {
	r := evid.Start("C18", "model_checking")
	x := &runner{r: r}
	scratch := evid.Scratch("c18")
	defer os.RemoveAll(scratch)
	if r.Replay != "" {
		var sc scenario
		r.LoadReplay(&sc)
		for _, v := range x.run(sc, filepath.Join(scratch, "replay")).list {
			r.Violate(v[0], v[1], sc)
		}
		for _, v := range r.Violations() {
			fmt.Printf("replay: %+v -> FAIL %s: %s\n", sc, v.Signature, v.What)
		}
		if r.NumViolations() == 0 {
			fmt.Printf("replay: %+v -> ok\n", sc)
		}
		os.RemoveAll(scratch)
		r.Finish(evid.Coverage{})
	}
	scs := scenarios(r)
	// real block bigger than the small file limit is skipped there (a block must fit into a file)
	realLen := 0
	{
		d, _, _, _ := realBlock()
		realLen = len(d)
	}
	var todo []scenario
	for _, sc := range scs {
		if sc.Real && uint32(realLen+12) > sc.Max {
			continue
		}
		todo = append(todo, sc)
	}
	var done int64
	capped := false
	res := make([]*failer, len(todo))
	var hung int32
	par.Go(len(todo), func(i int) {
		if r.Expired() || atomic.LoadInt32(&hung) != 0 {
			capped = true
			return
		}
		// a scenario normally takes milliseconds; one that does not return (a Close waiting for a
		// lock that is never released, ...) is reported as a hang and ends the run
		ch := make(chan *failer, 1)
		go func() { ch <- x.run(todo[i], filepath.Join(scratch, fmt.Sprintf("s%d", i))) }()
		select {
		case f := <-ch:
			res[i] = f
			atomic.AddInt64(&done, 1)
		case <-time.After(120 * time.Second):
			atomic.StoreInt32(&hung, 1)
			f := &failer{sc: todo[i]}
			f.fail("hang", "the scenario did not finish within 120 s (a database call never returned)")
			res[i] = f
		}
	})
	for i, f := range res {
		if f != nil {
			for _, v := range f.list {
				r.Violate(v[0], v[1], todo[i])
			}
		}
	}
	os.RemoveAll(scratch)
	nv := x.nv.Map()
	var nvk []string
	for k, v := range nv {
		nvk = append(nvk, fmt.Sprintf("%s:%d", k, v))
	}
	sort.Strings(nvk)
	samples := []interface{}{todo[0], todo[len(todo)/2], todo[len(todo)-1]}
	cov := evid.Coverage{
		"states":                        int64(x.states.Len()),
		"transitions":                   x.trans,
		"traces_validated_against_impl": x.traces,
		"scenarios":                     len(todo),
		"reads_checked":                 x.reads,
		"regions_beyond_block_checked":  x.beyond,
		"block_files_at_end":            nvk,
		"real_block_bytes":              realLen,
		"exhaustive":                    !capped && int(done) == len(todo),
		"configurations":                configs(r),
		"samples":                       samples,
		"rule": "path enumeration: all store sequences over the size alphabet of each configuration (max block file size, sizes, max stores) x split position between two transactions x first transaction commit|rollback x reopen between the transactions, each executed on a fresh ffldb directory; " +
			"states = distinct (configuration, sequence of pending/committed/rolled-back/reopen events, write cursor); transitions = begin/store/commit/rollback/view/open steps; every read phase (pending inside the writing transaction, committed, reopened) compares FetchBlock, FetchBlockHeader, boundary regions (complete sweeps offset,len <= size+16 for sizes <= 80 in dedicated layouts), bulk calls in reverse order, HasBlock(s), duplicate stores and absent hashes with the stored byte slices",
	}
	r.Assume = append(r.Assume,
		"a block record (size+12) always fits into one flat file (real limit 64 MiB vs 8 MB blocks); oversized blocks are not stored",
		"for a region beyond the block only success is a violation; which error code is returned is not compared")
	r.Finish(cov)
}
