package main

// Reference model (a 4-slot array standing for a sorted map over the fixed key universe) and the
// read oracles shared by the mutable and the immutable treap harness. Nothing here looks inside
// the treap: everything is observed through the exported API (Len, Size, Has, Get, ForEach,
// Iterator + First/Last/Next/Prev/Seek/Key/Value/Valid).

import (
	"bytes"
	"fmt"

	"github.com/elastos/Elastos.ELA/database"
)

// Key universe (ascending; different lengths so that Size accounting is sensitive to the key) and
// the two values (nil is stored as "present with an empty value" per the package contract).
// The first key is the EMPTY key (a valid key for the treap; it exercises every "is there a key"
// test that confuses nil with zero length).
var keys = [4][]byte{{}, []byte("dd"), []byte("f"), []byte("hhh")}
var vals = [2][]byte{nil, []byte("xyz")}

// probes: every universe key, one key below, between each pair and above (for Has/Get/Seek).
var probes = [][]byte{{}, []byte("a"), []byte("c"), []byte("dd"), []byte("e"), []byte("f"), []byte("g"), []byte("hhh"), []byte("i")}

// absent: probes that are never keys of the universe
var absent = [][]byte{[]byte("a"), []byte("c"), []byte("e"), []byte("g"), []byte("i")}

// probeIdx[i] = index of probes[i] in keys, or -1.
var probeIdx = []int{0, -1, -1, 1, -1, 2, -1, 3, -1}

// ranges for range-limited iterators (start inclusive, limit exclusive; nil = open).
type rng struct{ s, l []byte }

var ranges = []rng{{nil, nil}, {[]byte("c"), nil}, {nil, []byte("f")}, {[]byte("dd"), []byte("hhh")}, {[]byte("e"), []byte("e")}}

// model: -1 absent, otherwise index into vals.
type model [4]int8

func emptyModel() model { return model{-1, -1, -1, -1} }

func (m model) String() string {
	s := ""
	for i, v := range m {
		if v >= 0 {
			s += fmt.Sprintf("%s=%d ", keys[i], v)
		}
	}
	if s == "" {
		return "{}"
	}
	return "{" + s[:len(s)-1] + "}"
}

func (m model) count() int {
	n := 0
	for _, v := range m {
		if v >= 0 {
			n++
		}
	}
	return n
}

// reader is what both treap kinds offer for reading.
type reader interface {
	Len() int
	Size() uint64
	Has(key []byte) bool
	Get(key []byte) []byte
	ForEach(fn func(k, v []byte) bool)
	Iterator(startKey, limitKey []byte) *database.VerifTreapIterator
}

// newIter returns a fresh iterator BY VALUE. The type switch makes the constructor call direct, so
// it is inlined and nothing is heap-allocated (an Iterator carries a 1 KiB parent stack; the
// harness creates dozens per step). Copying an Iterator value is safe: it has no self-references.
func newIter(t reader, s, l []byte) database.VerifTreapIterator {
	switch x := t.(type) {
	case *database.VerifTreapMutable:
		return *x.Iterator(s, l)
	case *database.VerifTreapImmutable:
		return *x.Iterator(s, l)
	}
	return *t.Iterator(s, l)
}

// work is the scratch iterator of the read oracles (one per process; workers are single-threaded).
var work = new(database.VerifTreapIterator)

// nodeOverhead is the per-node constant of Size(); measured once from a one-node treap with an
// empty key and an empty value (the constant is unexported), then required to hold linearly
// everywhere: Size == sum(overhead + len(key) + len(value)).
var nodeOverhead uint64

func measureOverhead() {
	t := database.VerifNewTreapMutable()
	t.Put([]byte{}, nil)
	nodeOverhead = t.Size()
	t2 := database.VerifNewTreapImmutable().Put([]byte{}, nil)
	if nodeOverhead == 0 || t2.Size() != nodeOverhead {
		nodeOverhead = 1 << 40 // makes every size oracle fail visibly: the constant is not a constant
	}
}

func (m model) size() uint64 {
	var s uint64
	for i, v := range m {
		if v >= 0 {
			s += nodeOverhead + uint64(len(keys[i])+len(vals[v]))
		}
	}
	return s
}

func valueOK(got []byte, v int8) bool {
	if v < 0 {
		return got == nil
	}
	if got == nil { // a present key never reads as nil (empty values are empty slices)
		return false
	}
	return bytes.Equal(got, vals[v])
}

// expected list of universe indices inside [s,l)
func (m model) within(r rng, out *[4]int) int {
	n := 0
	for i, v := range m {
		if v < 0 {
			continue
		}
		if r.s != nil && bytes.Compare(keys[i], r.s) < 0 {
			continue
		}
		if r.l != nil && bytes.Compare(keys[i], r.l) >= 0 {
			continue
		}
		out[n] = i
		n++
	}
	return n
}

// atOK checks that the iterator is positioned at universe key idx (or exhausted when idx<0).
func atOK(it *database.VerifTreapIterator, ok bool, m model, idx int) bool {
	if idx < 0 {
		return !ok && !it.Valid() && it.Key() == nil && it.Value() == nil
	}
	return ok && it.Valid() && bytes.Equal(it.Key(), keys[idx]) && valueOK(it.Value(), m[idx])
}

// entryOK is atOK for First/Last. When nothing is expected only the return value is checked:
// First/Last on a treap that has become empty return false without clearing the position of an
// iterator that had been positioned earlier, and the package does not say what Valid/Key mean
// after a failed First/Last.
func entryOK(it *database.VerifTreapIterator, ok bool, m model, idx int) bool {
	if idx < 0 {
		return !ok
	}
	return atOK(it, ok, m, idx)
}

// failures collects violated oracle classes of one step. Classes are evaluated independently of
// each other (a failing class never hides another one); inside a class the first failing clause
// is reported.
type failures struct {
	list [][2]string // class|clause, text
}

func (f *failures) add(class, format string, a ...interface{}) {
	f.list = append(f.list, [2]string{class, fmt.Sprintf(format, a...)})
}

// forEach calls the concrete ForEach (direct call: the callback closure stays on the stack).
func forEach(t reader, fn func(k, v []byte) bool) {
	switch x := t.(type) {
	case *database.VerifTreapMutable:
		x.ForEach(fn)
	case *database.VerifTreapImmutable:
		x.ForEach(fn)
	default:
		t.ForEach(fn)
	}
}

// contentsLean: Len, Size, Has/Get on the four universe keys and on one absent probe, ForEach
// order. Used for the re-reads of retained versions (millions per second).
func contentsLean(t *database.VerifTreapImmutable, m model, rot int) string {
	if t.Len() != m.count() {
		return "len"
	}
	if t.Size() != m.size() {
		return "size"
	}
	for i := range keys {
		if t.Has(keys[i]) != (m[i] >= 0) {
			return "has"
		}
		if !valueOK(t.Get(keys[i]), m[i]) {
			return "get"
		}
	}
	p := absent[rot%5]
	if t.Has(p) || t.Get(p) != nil {
		return "get-absent"
	}
	j, bad := 0, false
	t.ForEach(func(k, v []byte) bool {
		for j < 4 && m[j] < 0 {
			j++
		}
		if j >= 4 || !bytes.Equal(k, keys[j]) || !valueOK(v, m[j]) {
			bad = true
			return false
		}
		j++
		return true
	})
	for j < 4 && m[j] < 0 {
		j++
	}
	if bad || j != 4 {
		return "foreach"
	}
	return ""
}

// readLean: contentsLean + one forward and one backward full pass with the iterator that was
// created together with the version.
func readLean(t *database.VerifTreapImmutable, m model, e []int, it *database.VerifTreapIterator, rot int) string {
	if c := contentsLean(t, m, rot); c != "" {
		return "contents|" + c
	}
	if c := forward(it, it.First(), m, e); c != "" {
		return "iter|" + c
	}
	if c := backward(it, it.Last(), m, e); c != "" {
		return "iter|" + c
	}
	return ""
}

// contents: Len, Size, Has/Get on every probe, ForEach order + early stop.
func contents(t reader, m model) string {
	if t.Len() != m.count() {
		return "len"
	}
	if t.Size() != m.size() {
		return "size"
	}
	for i, p := range probes {
		want := int8(-1)
		if probeIdx[i] >= 0 {
			want = m[probeIdx[i]]
		}
		if t.Has(p) != (want >= 0) {
			return "has"
		}
		if !valueOK(t.Get(p), want) {
			return "get"
		}
	}
	var e [4]int
	n := m.within(rng{}, &e)
	j, bad := 0, false
	forEach(t, func(k, v []byte) bool {
		if j >= n || !bytes.Equal(k, keys[e[j]]) || !valueOK(v, m[e[j]]) {
			bad = true
			return false
		}
		j++
		return true
	})
	if bad || j != n {
		return "foreach"
	}
	if n > 0 {
		calls := 0
		forEach(t, func(k, v []byte) bool { calls++; return false })
		if calls != 1 {
			return "foreach-stop"
		}
	}
	return ""
}

// forward: entry (already executed, result ok) must be at e[0]; Next* walks e to exhaustion.
func forward(it *database.VerifTreapIterator, ok bool, m model, e []int) string {
	if len(e) == 0 {
		if !entryOK(it, ok, m, -1) {
			return "forward-entry"
		}
		return ""
	}
	for j := 0; j < len(e); j++ {
		if !atOK(it, ok, m, e[j]) {
			if j == 0 {
				return "forward-entry"
			}
			return "forward"
		}
		ok = it.Next()
	}
	if !atOK(it, ok, m, -1) || it.Next() || it.Prev() {
		return "forward-end"
	}
	return ""
}

func backward(it *database.VerifTreapIterator, ok bool, m model, e []int) string {
	if len(e) == 0 {
		if !entryOK(it, ok, m, -1) {
			return "backward-entry"
		}
		return ""
	}
	for j := len(e) - 1; j >= 0; j-- {
		if !atOK(it, ok, m, e[j]) {
			if j == len(e)-1 {
				return "backward-entry"
			}
			return "backward"
		}
		ok = it.Prev()
	}
	if !atOK(it, ok, m, -1) || it.Prev() || it.Next() {
		return "backward-end"
	}
	return ""
}

// seeks: Seek to every probe (not below the start key) then Next / Prev / zig-zag.
func seeks(it *database.VerifTreapIterator, r rng, m model, e []int) string {
	n := len(e)
	at := func(j int) int {
		if j < 0 || j >= n {
			return -1
		}
		return e[j]
	}
	for _, p := range probes {
		if r.s != nil && bytes.Compare(p, r.s) < 0 {
			continue // seeking below the start of a limited iterator is not specified
		}
		j := 0
		for j < n && bytes.Compare(keys[e[j]], p) < 0 {
			j++
		}
		if !atOK(it, it.Seek(p), m, at(j)) {
			return "seek"
		}
		if j >= n {
			if it.Next() || it.Prev() {
				return "seek-end"
			}
			continue
		}
		if !atOK(it, it.Next(), m, at(j+1)) {
			return "seek-next"
		}
		if !atOK(it, it.Seek(p), m, at(j)) {
			return "seek"
		}
		if !atOK(it, it.Prev(), m, at(j-1)) {
			return "seek-prev"
		}
		if j-1 >= 0 { // zig-zag: Seek, Prev, Next, Next, Prev
			it.Seek(p)
			it.Prev()
			if !atOK(it, it.Next(), m, at(j)) || !atOK(it, it.Next(), m, at(j+1)) {
				return "zigzag"
			}
			if j+1 < n && !atOK(it, it.Prev(), m, at(j)) {
				return "zigzag"
			}
		}
	}
	return ""
}

// readBasic: contents + one forward and one backward full pass with the supplied (reusable)
// unrestricted iterator. Used for the re-reads of retained versions.
func readBasic(t reader, m model, it *database.VerifTreapIterator) string {
	if c := contents(t, m); c != "" {
		return "contents|" + c
	}
	var e [4]int
	n := m.within(rng{}, &e)
	if c := forward(it, it.First(), m, e[:n]); c != "" {
		return "iter|" + c
	}
	if c := backward(it, it.Last(), m, e[:n]); c != "" {
		return "iter|" + c
	}
	return ""
}

// readFull evaluates every read class on t:
//
//	contents            Len/Size/Has/Get/ForEach
//	iter                unrestricted iterator: new-iterator Next/Prev, passes, seeks, zig-zag
//	range               iterators limited on both sides
//	range-halfopen      iterators limited on one side, entered from the limited side or by Seek
//	range-limit-only|first   First()/new-iterator Next() of an iterator that has only a limit key
//	range-start-only|last    Last()/new-iterator Prev() of an iterator that has only a start key
func readFull(t reader, m model, f *failures, ctx string) {
	if c := contents(t, m); c != "" {
		f.add("contents|"+c, "%s: treap disagrees with the sorted-map model %v (%s)", ctx, m, c)
	}
	var e [4]int
	it := work
	for _, r := range ranges {
		n := m.within(r, &e)
		first, last := -1, -1
		if n > 0 {
			first, last = e[0], e[n-1]
		}
		class := "range"
		switch {
		case r.s == nil && r.l == nil:
			class = "iter"
		case r.s == nil || r.l == nil:
			class = "range-halfopen"
		}
		firstSound, lastSound := r.s != nil || r.l == nil, r.l != nil || r.s == nil
		pristine := newIter(t, r.s, r.l)
		*it = pristine
		if it.Valid() || it.Key() != nil || it.Value() != nil {
			f.add(class+"|new-valid", "%s: a new iterator [%q,%q) claims to be positioned", ctx, r.s, r.l)
		}
		c := ""
		if firstSound {
			if !atOK(it, it.Next(), m, first) { // Next on a new iterator positions at the first item
				c = "new-next"
			} else {
				c = forward(it, it.First(), m, e[:n])
			}
		}
		if c == "" && lastSound {
			*it = pristine
			if !atOK(it, it.Prev(), m, last) { // Prev on a new iterator positions at the last item
				c = "new-prev"
			} else {
				c = backward(it, it.Last(), m, e[:n])
			}
		}
		if c == "" {
			*it = pristine
			c = seeks(it, r, m, e[:n])
		}
		if c == "" && !firstSound { // forward pass entered by Seek instead of First
			*it = pristine
			c = forward(it, it.Seek(probes[0]), m, e[:n])
		}
		if c != "" {
			f.add(class+"|"+c, "%s: iterator [%q,%q) disagrees with the sorted-map model %v (%s)", ctx, r.s, r.l, m, c)
		}
		if !firstSound {
			*it = pristine
			c := ""
			if !entryOK(it, it.First(), m, first) {
				c = "first"
			} else if *it = pristine; !entryOK(it, it.Next(), m, first) {
				c = "new-next"
			}
			if c != "" {
				f.add("range-limit-only|first", "%s: iterator with limit key %q only: First()/initial Next() does not respect the limit (model %v, %s)", ctx, r.l, m, c)
			}
		}
		if !lastSound {
			*it = pristine
			c := ""
			if !entryOK(it, it.Last(), m, last) {
				c = "last"
			} else if *it = pristine; !entryOK(it, it.Prev(), m, last) {
				c = "new-prev"
			}
			if c != "" {
				f.add("range-start-only|last", "%s: iterator with start key %q only: Last()/initial Prev() does not respect the start key (model %v, %s)", ctx, r.s, m, c)
			}
		}
	}
}

// shapeKey packs what determines the shape of a treap (and therefore the answer of every pure
// read): contents and the relative order of the priorities of the present keys. ok=false when a
// priority is unknown (the implementation drew an unexpected number of values): no memoisation.
func shapeKey(m model, prio [4]int) (uint32, bool) {
	var key uint32
	for i, v := range m {
		key <<= 4
		if v < 0 {
			continue
		}
		if prio[i] < 0 {
			return 0, false
		}
		rank := 0
		for j, w := range m {
			if w >= 0 && j != i && prio[j] < prio[i] {
				rank++
			}
		}
		key |= uint32(v+1)<<2 | uint32(rank)
	}
	return key, true
}

// fullReadDone memoises readFull per (system, producing operation, shape): the full read is a pure
// function of the treap's shape, the cheap reads (contents + full forward/backward passes) are
// never memoised.
var fullReadDone = map[uint64]bool{}

func fullReadNeeded(system int, opIdx int, m model, prio [4]int) bool {
	k, ok := shapeKey(m, prio)
	if !ok {
		return true
	}
	key := uint64(system)<<40 | uint64(opIdx)<<32 | uint64(k)
	if fullReadDone[key] {
		return false
	}
	fullReadDone[key] = true
	return true
}

func opIndex(op string) int {
	for i, o := range allOps {
		if o == op {
			return i
		}
	}
	return -1
}

// ops: "p<k><v>" put keys[k]=vals[v]; "d<k>" delete keys[k]. Ordered simplest first.
var allOps = func() []string {
	var o []string
	for k := 0; k < 4; k++ {
		for v := 0; v < 2; v++ {
			o = append(o, fmt.Sprintf("p%d%d", k, v))
		}
	}
	for k := 0; k < 4; k++ {
		o = append(o, fmt.Sprintf("d%d", k))
	}
	return o
}()

func parseOp(op string) (put bool, k int, v int8) {
	if len(op) == 3 && op[0] == 'p' {
		return true, int(op[1] - '0'), int8(op[2] - '0')
	}
	return false, int(op[1] - '0'), -1
}
