// C39: bloom filters have no false negatives — bounded-exhaustive enumeration over filter
// parameters (constructed by bloom.NewFilter and loaded from wire bytes through
// msg.FilterLoad.Deserialize + the server's filter.Filter/TxFilterLoad/bloom.TxFilter path),
// every subset of an 8-element menu, and transactions paying to / spending from watched items,
// against an independent BIP37 reference (own MurmurHash3, own bit placement).
package main

import (
	"bytes"
	"encoding/binary"
	"encoding/hex"
	"fmt"
	"math"
	"os"
	"runtime/debug"
	"sort"
	"strings"

	"github.com/elastos/Elastos.ELA/common"
	ctypes "github.com/elastos/Elastos.ELA/core/types/common"
	"github.com/elastos/Elastos.ELA/core/types/interfaces"
	"github.com/elastos/Elastos.ELA/elanet/bloom"
	"github.com/elastos/Elastos.ELA/elanet/filter"
	"github.com/elastos/Elastos.ELA/p2p/msg"

	"verif/blockkit"
	"verif/evid"
	"verif/hx"
	"verif/par"
)

// ---- independent reference ---------------------------------------------------------------------

func rotl(x uint32, r uint) uint32 { return x<<r | x>>(32-r) }

// refMurmur3 is MurmurHash3_x86_32 written from its public description.
func refMurmur3(seed uint32, data []byte) uint32 {
	h := seed
	n := len(data)
	for i := 0; i+4 <= n; i += 4 {
		k := uint32(data[i]) | uint32(data[i+1])<<8 | uint32(data[i+2])<<16 | uint32(data[i+3])<<24
		k *= 0xcc9e2d51
		k = rotl(k, 15)
		k *= 0x1b873593
		h ^= k
		h = rotl(h, 13)
		h = h*5 + 0xe6546b64
	}
	var k uint32
	tail := data[n&^3:]
	for i := len(tail) - 1; i >= 0; i-- {
		k = k<<8 | uint32(tail[i])
	}
	if len(tail) > 0 {
		k *= 0xcc9e2d51
		k = rotl(k, 15)
		k *= 0x1b873593
		h ^= k
	}
	h ^= uint32(n)
	h ^= h >> 16
	h *= 0x85ebca6b
	h ^= h >> 13
	h *= 0xc2b2ae35
	h ^= h >> 16
	return h
}

// refFilter is a BIP37 filter as a light client would build it.
type refFilter struct {
	bits      []byte
	hashFuncs uint32
	tweak     uint32
}

func (f *refFilter) positions(data []byte) []uint32 {
	if len(f.bits) == 0 {
		return nil
	}
	out := make([]uint32, 0, f.hashFuncs)
	for i := uint32(0); i < f.hashFuncs; i++ {
		out = append(out, refMurmur3(i*0xfba4c795+f.tweak, data)%(uint32(len(f.bits))*8))
	}
	return out
}

func (f *refFilter) add(data []byte) {
	for _, p := range f.positions(data) {
		f.bits[p>>3] |= 1 << (p & 7)
	}
}

// contains: an empty bit array carries no information and matches everything (the reference
// client never builds one; the value only matters for reporting).
func (f *refFilter) contains(data []byte) bool {
	for _, p := range f.positions(data) {
		if f.bits[p>>3]&(1<<(p&7)) == 0 {
			return false
		}
	}
	return true
}

// ---- wire forms -----------------------------------------------------------------------------------

func putVarUint(w *bytes.Buffer, v uint64) {
	switch {
	case v < 0xfd:
		w.WriteByte(byte(v))
	case v <= 0xffff:
		w.WriteByte(0xfd)
		binary.Write(w, binary.LittleEndian, uint16(v))
	default:
		w.WriteByte(0xfe)
		binary.Write(w, binary.LittleEndian, uint32(v))
	}
}

// filterLoadBytes is the filterload payload as a peer would send it.
func filterLoadBytes(bits []byte, hashFuncs, tweak uint32, flags uint8, txTypes []byte) []byte {
	var w bytes.Buffer
	putVarUint(&w, uint64(len(bits)))
	w.Write(bits)
	binary.Write(&w, binary.LittleEndian, hashFuncs)
	binary.Write(&w, binary.LittleEndian, tweak)
	w.WriteByte(flags)
	putVarUint(&w, uint64(len(txTypes)))
	w.Write(txTypes)
	return w.Bytes()
}

// serverLoad pushes filterload payload bytes through what the node does on receipt:
// msg.FilterLoad.Deserialize (peer message decoding), then ServerPeer.OnFilterLoad's
// re-serialization into a TxFilterLoad{FTBloom} handed to filter.Filter.Load, which constructs
// bloom.TxFilter and calls its Load (second Deserialize + bloom.LoadFilter).
func serverLoad(payload []byte) (*filter.Filter, error) {
	var fl msg.FilterLoad
	if err := fl.Deserialize(bytes.NewReader(payload)); err != nil {
		return nil, err
	}
	var buf bytes.Buffer
	fl.Serialize(&buf) // OnFilterLoad ignores the error, too
	pf := filter.New(func(typ uint8) filter.TxFilter {
		if typ == filter.FTBloom {
			return bloom.NewTxFilter()
		}
		return nil
	})
	if err := pf.Load(&msg.TxFilterLoad{Type: filter.FTBloom, Data: buf.Bytes()}); err != nil {
		return nil, err
	}
	return pf, nil
}

// ---- menu ---------------------------------------------------------------------------------------------

type item struct {
	Name string
	Data []byte
}

func seq(n int, start byte) []byte {
	b := make([]byte, n)
	for i := range b {
		b[i] = start + byte(i)*7
	}
	return b
}

func menu() []item {
	op := ctypes.OutPoint{TxID: common.Uint256(blockkit.DSha([]byte("menu-outpoint"))), Index: 3}
	return []item{
		{"empty", []byte{}},
		{"1-byte", []byte{0x00}},
		{"20-byte", seq(20, 1)},
		{"21-byte-program-hash", append([]byte{0x21}, seq(20, 9)...)},
		{"32-byte-txid", seq(32, 3)},
		{"33-byte-pubkey", append([]byte{0x02}, seq(32, 5)...)},
		{"34-byte-outpoint", op.Bytes()},
		{"36-byte", seq(36, 0xf0)},
	}
}

type cfg struct {
	Origin    string  `json:"origin"` // new | wire
	Elements  uint32  `json:"elements,omitempty"`
	FPRate    float64 `json:"fprate,omitempty"`
	Size      int     `json:"size"`
	HashFuncs uint32  `json:"hash_funcs"`
	Tweak     uint32  `json:"tweak"`
	Flags     uint8   `json:"flags"`
}

func (c cfg) String() string {
	if c.Origin == "new" {
		return fmt.Sprintf("NewFilter(elements=%d,fprate=%g,tweak=%d)->size=%d,hashFuncs=%d", c.Elements, c.FPRate, c.Tweak, c.Size, c.HashFuncs)
	}
	return fmt.Sprintf("filterload(size=%d,hashFuncs=%d,tweak=%d,flags=%d)", c.Size, c.HashFuncs, c.Tweak, c.Flags)
}

func (c cfg) class() string {
	s := "size>0"
	if c.Size == 0 {
		s = "size=0"
	}
	h := "hashFuncs>0"
	if c.HashFuncs == 0 {
		h = "hashFuncs=0"
	}
	return s + "," + h
}

type artefact struct {
	Cfg      cfg    `json:"filter"`
	Step     string `json:"step"`
	Subset   int    `json:"subset"`
	Item     string `json:"item,omitempty"`
	Tx       int    `json:"tx,omitempty"`
	Watched  string `json:"watched,omitempty"`
	Payload  string `json:"filterload_payload,omitempty"`
	Sequence string `json:"sequence,omitempty"`
}

type checker struct {
	r         *evid.Run
	menu      []item
	evals     int64
	cases     evid.Distinct
	panics    map[string]int64
	notLoad   int64
	sideSkips int64
	pend      []pendingV
	nCases    int64
}

type pendingV struct {
	sig, what string
	art       interface{}
}

// violate queues a violation; the parent reports them in configuration order so the first
// artefact per signature does not depend on scheduling.
func (k *checker) violate(sig, what string, art interface{}) {
	k.pend = append(k.pend, pendingV{sig, what, art})
}

func (k *checker) flush() {
	for _, p := range k.pend {
		k.r.Violate(p.sig, p.what, p.art)
	}
	k.pend = nil
}

func commonU256(h [32]byte) common.Uint256 { return common.Uint256(h) }

// guarded runs f; a panic yields its site.
func guarded(f func()) (site string) {
	defer func() {
		if x := recover(); x != nil {
			site = evid.PanicSite(debug.Stack())
			if site == "unknown" {
				site = fmt.Sprint(x)
			}
		}
	}()
	f()
	return ""
}

func (k *checker) panicked(site, step string, a artefact) {
	a.Step = step
	k.panics[site]++
	k.violate("C39|panic|"+site+"|"+a.Cfg.class(), "a filter that "+originWords(a.Cfg)+" panics in "+step+": "+a.Cfg.String(), a)
}

func originWords(c cfg) string {
	if c.Origin == "wire" {
		return "the node accepts from a peer (FilterLoad.Deserialize + TxFilter.Load succeed)"
	}
	return "bloom.NewFilter constructs"
}

// instantiate builds the real filter for a config twice over: the direct object and the server
// object (only for wire configs). ok=false when the node refuses to load it.
func (k *checker) instantiate(c cfg, bits []byte) (direct *bloom.Filter, server *filter.Filter, payload []byte, ok bool) {
	if c.Origin == "new" {
		direct = bloom.NewFilter(c.Elements, c.Tweak, c.FPRate)
		m := direct.GetFilterLoadMsg()
		m.Flags = c.Flags
		if bits != nil {
			copy(m.Filter, bits)
		}
		var buf bytes.Buffer
		if err := m.Serialize(&buf); err != nil {
			evid.Fatalf("NewFilter message does not serialize: %v", err)
		}
		payload = buf.Bytes()
	} else {
		if bits == nil {
			bits = make([]byte, c.Size)
		}
		payload = filterLoadBytes(bits, c.HashFuncs, c.Tweak, c.Flags, nil)
		var fl msg.FilterLoad
		if err := fl.Deserialize(bytes.NewReader(payload)); err != nil {
			return nil, nil, payload, false
		}
		direct = bloom.LoadFilter(&fl)
	}
	var err error
	server, err = serverLoad(payload)
	if err != nil {
		if c.Origin == "new" {
			k.violate("C39|newfilter-not-loadable", "a filter built by bloom.NewFilter is refused by the node's own filterload path: "+err.Error(), artefact{Cfg: c, Step: "load", Payload: hex.EncodeToString(payload)})
		}
		return nil, nil, payload, false
	}
	return direct, server, payload, true
}

// subsets: every subset of the menu is added to a fresh filter; everything added must match,
// through the direct object, through the server object (filteradd path) and across
// implementations (reference-built bits loaded into the node; node-built bits read by the
// reference).
func (k *checker) subsets(c cfg) {
	n := len(k.menu)
	for s := 0; s < 1<<uint(n); s++ {
		art := artefact{Cfg: c, Subset: s}
		direct, server, payload, ok := k.instantiate(c, nil)
		if !ok {
			k.notLoad++
			return
		}
		art.Payload = hex.EncodeToString(payload)
		dead := false
		for i := 0; i < n && !dead; i++ {
			if s>>uint(i)&1 == 0 {
				continue
			}
			it := k.menu[i]
			art.Item = it.Name
			if site := guarded(func() { direct.Add(it.Data) }); site != "" {
				k.panicked(site, "Filter.Add", art)
				dead = true
				break
			}
			if site := guarded(func() {
				if err := server.Add(it.Data); err != nil {
					k.violate("C39|server-add-error", "filter.Filter.Add fails on a loaded filter: "+err.Error(), art)
				}
			}); site != "" {
				k.panicked(site, "filter.Filter.Add (filteradd)", art)
				dead = true
			}
		}
		if dead {
			return // the objects hold locked mutexes now; the class is reported once per config
		}
		ref := &refFilter{bits: make([]byte, c.Size), hashFuncs: c.HashFuncs, tweak: c.Tweak}
		for i := 0; i < n; i++ {
			if s>>uint(i)&1 == 1 {
				ref.add(k.menu[i].Data)
			}
		}
		nodeBits := direct.GetFilterLoadMsg().Filter
		for i := 0; i < n; i++ {
			it := k.menu[i]
			art.Item = it.Name
			var m bool
			k.evals++
			if site := guarded(func() { m = direct.Matches(it.Data) }); site != "" {
				k.panicked(site, "Filter.Matches", art)
				return
			}
			added := s>>uint(i)&1 == 1
			if added && !m {
				k.violate("C39|false-negative|Matches|"+c.class(), "an element added to the filter is reported as not matching ("+it.Name+"; "+c.String()+")", art)
			}
			if added && it.Name == "34-byte-outpoint" {
				op, _ := ctypes.OutPointFromBytes(it.Data)
				var mo bool
				if site := guarded(func() { mo = direct.MatchesOutPoint(op) }); site != "" {
					k.panicked(site, "Filter.MatchesOutPoint", art)
					return
				}
				if !mo {
					k.violate("C39|false-negative|MatchesOutPoint|"+c.class(), "an outpoint added to the filter is reported as not matching", art)
				}
			}
			if added {
				// the reference client reading the node's bits must see its element
				rn := &refFilter{bits: nodeBits, hashFuncs: c.HashFuncs, tweak: c.Tweak}
				if !rn.contains(it.Data) {
					k.violate("C39|interop|node-built-filter|"+c.class(), "bits set by Filter.Add are not the BIP37 positions: an independent implementation does not find the added element ("+it.Name+")", art)
				}
			}
			k.cases.Add(fmt.Sprintf("%s/%d/%d/%v", c.String(), s, i, added))
		}
		// reference-built filter loaded into the node: the light client's view
		if c.Size > 0 {
			d2, _, _, ok2 := k.instantiate(c, ref.bits)
			if ok2 {
				for i := 0; i < n; i++ {
					if s>>uint(i)&1 == 0 {
						continue
					}
					it := k.menu[i]
					art.Item = it.Name
					var m bool
					k.evals++
					if site := guarded(func() { m = d2.Matches(it.Data) }); site != "" {
						k.panicked(site, "Filter.Matches", art)
						return
					}
					if !m {
						k.violate("C39|interop|client-built-filter|"+c.class(), "an element a BIP37 client put into the filter it sent is reported as not matching by the node ("+it.Name+"; "+c.String()+")", art)
					}
				}
			}
		}
	}
}

// transactions: a tx paying to / spending from / being a watched item must match, and the
// outpoints of its matching outputs must match afterwards (so the spend is seen too).
func (k *checker) transactions(c cfg, txs []interfaces.Transaction, spenders []interfaces.Transaction) {
	side := c.Tweak == math.MaxUint32
	for ti, tx := range txs {
		for _, watched := range []string{"txid", "output0", "output1", "input-outpoint"} {
			art := artefact{Cfg: c, Step: "MatchTxAndUpdate", Tx: ti, Watched: watched}
			direct, server, payload, ok := k.instantiate(c, nil)
			if !ok {
				k.notLoad++
				return
			}
			art.Payload = hex.EncodeToString(payload)
			var datum []byte
			outIdx := -1
			switch watched {
			case "txid":
				h := tx.Hash()
				datum = h[:]
			case "output0", "output1":
				outIdx = int(watched[6] - '0')
				ph := tx.Outputs()[outIdx].ProgramHash
				datum = ph[:]
			case "input-outpoint":
				datum = tx.Inputs()[0].Previous.Bytes()
			}
			if site := guarded(func() { direct.Add(datum) }); site != "" {
				k.panicked(site, "Filter.Add", art)
				return
			}
			if site := guarded(func() { server.Add(datum) }); site != "" {
				k.panicked(site, "filter.Filter.Add (filteradd)", art)
				return
			}
			if side && (outIdx < 0 || c.Size == 0) {
				// side-chain mode (tweak 0xffffffff): only outputs and tx types are looked at, and
				// an empty bit array means "transaction types only"
				k.sideSkips++
				continue
			}
			var m1, m2, m3 bool
			k.evals += 3
			if site := guarded(func() { m1 = direct.MatchTxAndUpdate(tx) }); site != "" {
				k.panicked(site, "Filter.MatchTxAndUpdate", art)
				return
			}
			if site := guarded(func() { m2 = server.MatchConfirmed(tx) }); site != "" {
				k.panicked(site, "filter.Filter.MatchConfirmed", art)
				return
			}
			_, server2, _, _ := k.instantiate(c, nil)
			if site := guarded(func() { server2.Add(datum); m3 = server2.MatchUnconfirmed(tx) }); site != "" {
				k.panicked(site, "filter.Filter.MatchUnconfirmed", art)
				return
			}
			k.cases.Add(fmt.Sprintf("%s/tx%d/%s", c.String(), ti, watched))
			if !m1 || !m2 || !m3 {
				k.violate("C39|false-negative|MatchTxAndUpdate|watched="+strings.TrimRight(watched, "01")+"|"+c.class(), fmt.Sprintf("a transaction touching a watched item does not match (watched %s; direct=%v confirmed=%v unconfirmed=%v; %s)", watched, m1, m2, m3, c.String()), art)
				continue
			}
			if outIdx >= 0 && !side {
				op := ctypes.NewOutPoint(tx.Hash(), uint16(outIdx))
				var mo bool
				k.evals++
				if site := guarded(func() { mo = direct.MatchesOutPoint(op) }); site != "" {
					k.panicked(site, "Filter.MatchesOutPoint", art)
					return
				}
				if !mo {
					k.violate("C39|update-missing|outpoint|"+c.class(), "after matching a payment to a watched address the new outpoint does not match (the spend would be missed)", art)
				}
				// the spend of that outpoint is seen by the updated filter, through both objects
				sp := spenders[ti*2+outIdx]
				var s1, s2 bool
				k.evals += 2
				if site := guarded(func() { s1 = direct.MatchTxAndUpdate(sp); s2 = server.MatchConfirmed(sp) }); site != "" {
					k.panicked(site, "Filter.MatchTxAndUpdate", art)
					return
				}
				if !s1 || !s2 {
					k.violate("C39|false-negative|spend-of-updated-outpoint|"+c.class(), "the transaction spending an output paid to a watched address does not match after the update", art)
				}
			}
		}
	}
}

// txTypes: side-chain mode filters list transaction types; a listed type must match.
func (k *checker) txTypes(txs []interfaces.Transaction) {
	for _, size := range []int{0, 8} {
		for _, hf := range []uint32{0, 3} {
			c := cfg{Origin: "wire", Size: size, HashFuncs: hf, Tweak: math.MaxUint32}
			payload := filterLoadBytes(make([]byte, size), hf, math.MaxUint32, 0, []byte{byte(txs[0].TxType()), 0x7f})
			art := artefact{Cfg: c, Step: "tx-type", Payload: hex.EncodeToString(payload)}
			server, err := serverLoad(payload)
			if err != nil {
				k.notLoad++
				continue
			}
			var m bool
			k.evals++
			if site := guarded(func() { m = server.MatchConfirmed(txs[0]) }); site != "" {
				k.panicked(site, "filter.Filter.MatchConfirmed", art)
				continue
			}
			k.cases.Add("txtype/" + c.String())
			if !m {
				k.violate("C39|false-negative|tx-type|"+c.class(), "a transaction whose type is listed in a side-chain filter does not match", art)
			}
		}
	}
}

func murmurVectors(r *evid.Run, items []item) int64 {
	// engine self-test: the reference must reproduce the published MurmurHash3_x86_32 vectors
	kat := []struct {
		seed uint32
		hex  string
		want uint32
	}{
		{0, "", 0}, {1, "", 0x514E28B7}, {0xffffffff, "", 0x81F16F39},
		{0, "ffffffff", 0x76293B50}, {0, "21436587", 0xF55B516B}, {0x5082EDEE, "21436587", 0x2362F9DE},
		{0, "214365", 0x7E4A8634}, {0, "2143", 0xA0F7B07A}, {0, "21", 0x72661CF4},
		{0, "00000000", 0x2362F9DE}, {0, "000000", 0x85F0B427}, {0, "0000", 0x30F4C306}, {0, "00", 0x514E28B7},
	}
	var n int64
	for _, v := range kat {
		d, _ := hex.DecodeString(v.hex)
		if got := refMurmur3(v.seed, d); got != v.want {
			evid.Fatalf("reference murmur3 fails published vector seed=%#x data=%s: %#x != %#x", v.seed, v.hex, got, v.want)
		}
		n++
		if got := bloom.MurmurHash3(v.seed, d); got != v.want {
			r.Violate("C39|murmur3-differs|published-vector", fmt.Sprintf("bloom.MurmurHash3(%#x, %s) = %#x, published value %#x", v.seed, v.hex, got, v.want), map[string]interface{}{"seed": v.seed, "data": v.hex})
		}
	}
	// all lengths 0..40 of a patterned buffer and the menu, under the seeds BIP37 derives
	var datas [][]byte
	for l := 0; l <= 40; l++ {
		datas = append(datas, seq(l, byte(0x80+l)))
	}
	for _, it := range items {
		datas = append(datas, it.Data)
	}
	for _, tweak := range []uint32{0, 1, 5, 0x80000001, 0xfffffffe, 0xffffffff} {
		for hn := uint32(0); hn <= 50; hn++ {
			seed := hn*0xfba4c795 + tweak
			for _, d := range datas {
				n++
				if a, b := bloom.MurmurHash3(seed, d), refMurmur3(seed, d); a != b {
					r.Violate(fmt.Sprintf("C39|murmur3-differs|len%%4=%d", len(d)%4), fmt.Sprintf("bloom.MurmurHash3(%#x, %x) = %#x, reference %#x", seed, d, a, b), map[string]interface{}{"seed": seed, "data": hex.EncodeToString(d)})
				}
			}
		}
	}
	return n
}

func main() {
	r := evid.Start("C39", "exploration")
	scr := evid.Scratch("c39")
	hx.QuietLogs(scr)
	blockkit.Register()

	k := &checker{r: r, menu: menu(), panics: map[string]int64{}}
	var txs, spenders []interfaces.Transaction
	for i := 0; i < r.Pick(3, 8); i++ {
		txs = append(txs, blockkit.Transfer(i))
	}
	for ti, tx := range txs {
		for o := 0; o < 2; o++ {
			sp := blockkit.Transfer(500 + ti*2 + o)
			sp.SetInputs([]*ctypes.Input{{Previous: *ctypes.NewOutPoint(tx.Hash(), uint16(o)), Sequence: 0}})
			spenders = append(spenders, sp)
		}
	}

	if r.Replay != "" {
		var a artefact
		sig := r.LoadReplay(&a)
		fmt.Printf("replaying %s\n filter: %s\n step: %s subset=%b item=%s tx=%d watched=%s\n filterload payload: %s\n", sig, a.Cfg, a.Step, a.Subset, a.Item, a.Tx, a.Watched, a.Payload)
		if a.Cfg.Origin == "wire" {
			p, _ := hex.DecodeString(a.Payload)
			var fl msg.FilterLoad
			err := fl.Deserialize(bytes.NewReader(p))
			_, err2 := serverLoad(p)
			fmt.Printf(" msg.FilterLoad.Deserialize error: %v; server load (TxFilterLoad -> bloom.TxFilter.Load) error: %v\n", err, err2)
		}
		k.subsets(a.Cfg)
		k.transactions(a.Cfg, txs, spenders)
		if a.Step == "reload" {
			k.pend = nil
			k.reloads(txs)
			k.flush()
			os.RemoveAll(scr)
			r.Finish(evid.Coverage{})
		}
		if a.Step == "big-index" {
			k.pend = nil
			k.bigIndexes()
			k.flush()
			os.RemoveAll(scr)
			r.Finish(evid.Coverage{})
		}
		if a.Step == "side-chain table" {
			k.pend = nil
			k.sideTable()
			k.flush()
			os.RemoveAll(scr)
			r.Finish(evid.Coverage{})
		}
		k.elementSequences(a.Cfg)
		for ti := range txs {
			k.txSequences(a.Cfg, txs[ti], spenders[ti*2], ti)
		}
		k.flush()
		os.RemoveAll(scr)
		r.Finish(evid.Coverage{})
	}

	nMurmur := murmurVectors(r, k.menu)

	// filter configurations
	var cfgs []cfg
	for _, el := range []uint32{0, 1, 2, 10, 1000} {
		for _, fp := range []float64{1e-9, 0.01, 0.5, 1} {
			for _, tw := range []uint32{0, 1, math.MaxUint32} {
				f := bloom.NewFilter(el, tw, fp)
				m := f.GetFilterLoadMsg()
				cfgs = append(cfgs, cfg{Origin: "new", Elements: el, FPRate: fp, Tweak: tw, Size: len(m.Filter), HashFuncs: m.HashFuncs, Flags: 1})
			}
		}
	}
	for _, size := range []int{0, 1, 36000, 36001} {
		for _, hf := range []uint32{0, 1, 50, 51} {
			for _, tw := range []uint32{0, 1, math.MaxUint32} {
				cfgs = append(cfgs, cfg{Origin: "wire", Size: size, HashFuncs: hf, Tweak: tw, Flags: 0})
			}
		}
	}
	// update types (FilterLoad.Flags 0 none, 1 all, 2 pubkey-only) on a mid-size loaded filter
	for _, fl := range []uint8{0, 1, 2, 0xff} {
		cfgs = append(cfgs, cfg{Origin: "wire", Size: 64, HashFuncs: 7, Tweak: 12345, Flags: fl})
	}

	for _, t := range append(append([]interfaces.Transaction{}, txs...), spenders...) {
		t.Hash() // fill the hash caches before the objects are shared between goroutines
	}
	loadable := 0
	workers := make([]*checker, len(cfgs))
	par.Go(len(cfgs), func(i int) {
		w := &checker{r: r, menu: k.menu, panics: map[string]int64{}}
		workers[i] = w
		c := cfgs[i]
		w.subsets(c)
		if w.notLoad == 0 {
			w.transactions(c, txs, spenders)
			if w.elementSequences(c) {
				nTx := 1
				if r.Thorough() {
					nTx = len(txs)
				}
				for ti := 0; ti < nTx; ti++ {
					w.txSequences(c, txs[ti], spenders[ti*2], ti)
				}
			}
		}
		w.nCases = int64(w.cases.Len())
		w.cases = evid.Distinct{}
	})
	for _, w := range workers {
		if w.notLoad == 0 {
			loadable++
		}
		k.notLoad += w.notLoad
		k.evals += w.evals
		k.sideSkips += w.sideSkips
		k.nCases += w.nCases // keys carry the configuration: the per-configuration sets are disjoint
		for s, n := range w.panics {
			k.panics[s] += n
		}
		k.pend = append(k.pend, w.pend...)
	}
	k.flush()
	k.txTypes(txs)
	sideCells, sideMust, sideMatched, sideTab := k.sideTable()
	bigIdx := k.bigIndexes()
	nReload := k.reloads(txs)
	k.flush()
	k.nCases += int64(k.cases.Len())

	var samples []interface{}
	for _, i := range []int{0, 17, 60, 62, 66, 71, len(cfgs) - 1} {
		if i < len(cfgs) {
			samples = append(samples, map[string]interface{}{"filter": cfgs[i].String(), "elements": "every subset of the 8-item menu", "transactions": len(txs)})
		}
	}
	var names []string
	for _, it := range k.menu {
		names = append(names, fmt.Sprintf("%s(%d)", it.Name, len(it.Data)))
	}
	sort.Strings(names)
	r.Assume = append(r.Assume,
		"tweak 0xffffffff is the repository's documented side-chain SPV mode (matchTxAndUpdate looks at transaction types and outputs only, never updates): in that mode payments to a watched address (when the filter has a bit array) and listed transaction types are required to match and are enumerated as a full table (sidemode.go); watched tx ids / spent outpoints are not looked at by design and are counted as side_mode_skipped, not alarmed",
		"FilterLoad.Flags (BIP37 update type) is not interpreted by the repository: every matching output's outpoint is added for every flag value, which is a superset of what any update type asks for; the check requires the outpoint to match afterwards for all flag values",
		"filters the node refuses to load (size 36001, 51 hash functions) are outside the property and only counted",
		"bit-for-bit equality of filters is not demanded, only that each implementation finds the elements the other one inserted")
	os.RemoveAll(scr)
	r.Finish(evid.Coverage{
		"evaluations":                k.evals + nMurmur,
		"distinct_nontrivial":        k.nCases,
		"rule":                       fmt.Sprintf("%d filter configurations: bloom.NewFilter over elements {0,1,2,10,1000} x fprate {1e-9,0.01,0.5,1} x tweak {0,1,2^32-1}; filterload payload bytes with size {0,1,36000,36001} x hashFuncs {0,1,50,51} x tweak {0,1,2^32-1} and flags {0,1,2,255}, pushed through msg.FilterLoad.Deserialize and the server's filter.Filter.Load/TxFilterLoad/bloom.TxFilter.Load. Per loadable configuration: every subset of the 8-item menu [%s] added through Filter.Add and through the filteradd path, every item then queried (Matches/MatchesOutPoint), node-built bits read by the reference and reference-built bits loaded into the node; %d transfers x watched item {txid, output0, output1, spent outpoint} through MatchTxAndUpdate/MatchConfirmed/MatchUnconfirmed, then the created outpoint and the transaction spending it. Operation sequences on one filter object: every sequence up to length 4 over {query x, add x} for each item and over {query x, add x, query y, add y} for three pairs; query-all / add-subset / query-all for every subset (also after 300 other queries); every sequence up to length 4 over {watch address, watch outpoint, present parent, present spender} via MatchTxAndUpdate, MatchConfirmed and MatchUnconfirmed — whatever was added earlier in the sequence must match. Side-chain mode table: bit array {64/7, 36000/50, 1/1, 0/0, 0/3} x transaction {transfer, record, coinbase} x TxTypes {none, own, other, own+other, other+unused} x watched {none, output0, output1, unpaid address, output1+unpaid} via MatchConfirmed and MatchUnconfirmed: must match iff the type is listed or (bit array non-empty and an output pays a watched address). Output indexes {0,1,255,256,257,511,512,65535}: outpoint (tx,k) added directly or created by the update after a payment to the watched address of output k of a 513-output transaction, then the spender of (tx,k) via all three entry points on 4 filters. Filter replacement: every sequence of 2 and 3 loads with bit arrays of {1,8,64,512} bytes through Filter.Reload (after LoadFilter, NewFilter, Unload), bloom.TxFilter.Load on one TxFilter and filter.Filter.Load: every element the client put into the last loaded filter and everything added with filteradd afterwards must match; a panic is a violation. MurmurHash3 against the reference for 49 inputs x 51 hash numbers x 6 tweaks plus 13 published vectors. distinct_nontrivial = distinct (configuration, subset, item) and (configuration, tx, watched) queries answered without a refusal to load", len(cfgs), strings.Join(names, ", "), len(txs)),
		"exhaustive":                 true,
		"configurations":             len(cfgs),
		"loadable":                   loadable,
		"refused_by_node":            len(cfgs) - loadable,
		"murmur_comparisons":         nMurmur,
		"panics_by_site":             k.panics,
		"side_mode_skipped":          k.sideSkips,
		"side_mode_cells":            sideCells,
		"side_mode_cells_must_match": sideMust,
		"side_mode_cells_matched":    sideMatched,
		"side_mode_table_size":       len(sideTab),
		"big_index_cases":            bigIdx,
		"filter_replacement_cases":   nReload,
		"samples":                    samples,
	})
}
