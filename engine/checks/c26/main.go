// C26: the view-change schedule must not depend on how often it is evaluated.
//
// Real code driven: dpos/manager view.ChangeView (V0) and view.ChangeViewV1 (V1) through the
// verif hook dpos/manager/export_verif_c26.go, with an injected clock. For every arbiter count,
// start offset and elapsed time T of a declared finite set, the offset / carried remainder /
// on-duty flag after ONE evaluation at T is compared with the result of evaluating at one (and,
// thorough tier, two) intermediate times first and carrying the remainder forward exactly as the
// code does (viewStartTime = now - remainder). One-shot offsets must be non-decreasing in T.
//
// The time set is: a 1 s grid plus, for every view boundary the implementation itself exhibits
// (found by bisection on the real functions, for the one-shot schedule and for the schedule of a
// node that re-evaluates at every boundary), the instants boundary-1ns, boundary, boundary+1ns.
package main

import (
	"bytes"
	"fmt"
	"math"
	"os"
	"sort"
	"sync"
	"sync/atomic"
	"time"

	dlog "github.com/elastos/Elastos.ELA/dpos/log"
	"github.com/elastos/Elastos.ELA/dpos/manager"
	"github.com/elastos/Elastos.ELA/dpos/state"

	"verif/dposkit"
	"verif/evid"
	"verif/hx"
	"verif/par"
)

const tolerance = 5 * time.Second

var t0 = time.Unix(1700000000, 0).UTC()

type listener struct{ calls int }

func (l *listener) OnViewChanged(bool) { l.calls++ }

type world struct {
	tol  time.Duration // configured sign tolerance (0 = the default 5 s)
	sub  time.Duration // sub-second part of the view start time (the clock is not aligned to seconds)
	n    int
	keys []*dposkit.Key
	arbs *state.ArbitratorsMock

	mu        sync.Mutex
	explained map[uint32]bool
}

func newWorld(n int, all []*dposkit.Key) *world {
	w := &world{n: n, keys: all[:n]}
	ms := make([]state.ArbiterMember, n)
	for i := 0; i < n; i++ {
		m, err := state.NewOriginArbiter(all[i].PK)
		if err != nil {
			evid.Fatalf("origin arbiter: %v", err)
		}
		ms[i] = m
	}
	w.arbs = state.NewArbitratorsMock(ms, 0, n*2/3)
	return w
}

// outcome of a polling schedule
type outcome struct {
	Offset  uint32
	Rem     time.Duration // now - viewStartTime after the last evaluation
	OnDuty  bool
	Changed bool   // the offset moved at least once
	Mid     uint32 // offset after the last intermediate evaluation
	MidAdv  bool   // an intermediate evaluation advanced the offset
	Edge    bool   // (Try entry points) an evaluation fell exactly on viewStart+tolerance
}

// run evaluates the schedule times (ascending, last = T) on a fresh view.
func (w *world) run(ver int, o0 uint32, times []time.Duration) outcome {
	l := &listener{}
	base := t0.Add(w.sub)
	tol := tolerance
	if w.tol != 0 {
		tol = w.tol
	}
	v := manager.VerifNewView(w.arbs, w.keys[0].PK, tol, base, l)
	off := o0
	var out outcome
	for i, t := range times {
		before := off
		now := base.Add(t)
		switch ver {
		case 0:
			v.ChangeView(&off, now)
		case 1:
			v.ChangeViewV1(&off, now)
		default:
			// an evaluation exactly on the gate edge is deferred by the strict comparison on
			// purpose (it fires one nanosecond later); such schedules are not compared
			if now.Equal(v.GetViewStartTime().Add(tol)) {
				out.Edge = true
			}
			if ver == 2 {
				v.TryChangeView(&off, now)
			} else {
				v.TryChangeViewV1(&off, now)
			}
		}
		if off != before {
			out.Changed = true
			if i < len(times)-1 {
				out.MidAdv = true
			}
		}
		if i < len(times)-1 {
			out.Mid = off
		}
	}
	out.Offset = off
	out.Rem = base.Add(times[len(times)-1]).Sub(v.GetViewStartTime())
	out.OnDuty = v.IsOnDuty()
	return out
}

const maxT = time.Duration(1) << 53 // ~104 days; boundaries beyond are not enumerated

// nextBoundary finds, by bisection on the real code, the smallest elapsed time x in (0,maxT] at
// which a single evaluation moves a view that starts at offset o (start time t0) to another
// offset; ok=false if there is none below maxT. Used only to generate inputs.
func (w *world) nextBoundary(ver int, o uint32) (time.Duration, uint32, bool) {
	adv := func(x time.Duration) (uint32, bool) {
		r := w.run(ver, o, []time.Duration{x})
		return r.Offset, r.Offset != o
	}
	if _, a := adv(maxT); !a {
		return 0, 0, false
	}
	lo, hi := time.Duration(0), maxT // adv(lo)=false, adv(hi)=true
	if _, a := adv(0); a {
		return 0, 0, false
	}
	for hi-lo > 1 {
		mid := lo + (hi-lo)/2
		if _, a := adv(mid); a {
			hi = mid
		} else {
			lo = mid
		}
	}
	to, _ := adv(hi)
	return hi, to, true
}

// explainedByFirstStepRule measures, on the real code, the duration of view o when a V1
// computation starts in it (D1) and when it is passed inside the catch-up loop (D2), and reports
// whether D1-D2 is the 3*20^(o/n) s of the known first-step/loop discrepancy (uint32 arithmetic,
// as in the repository). Results are cached per offset.
func (w *world) explainedByFirstStepRule(o uint32) bool {
	w.mu.Lock()
	defer w.mu.Unlock()
	if v, ok := w.explained[o]; ok {
		return v
	}
	if w.explained == nil {
		w.explained = map[uint32]bool{}
	}
	res := true
	d1, _, ok1 := w.nextBoundary(1, o)
	if o > 0 && ok1 {
		// one-shot from o-1: instant of reaching o, instant of reaching o+1
		b1, to, ok := w.nextBoundary(1, o-1)
		if ok && to == o {
			lo, hi := b1, maxT
			if w.run(1, o-1, []time.Duration{hi}).Offset > o {
				for hi-lo > 1 {
					mid := lo + (hi-lo)/2
					if w.run(1, o-1, []time.Duration{mid}).Offset > o {
						hi = mid
					} else {
						lo = mid
					}
				}
				d2 := hi - b1
				want := uint32(3) * uint32(math.Pow(20, float64(o/uint32(w.n))))
				diff := uint32((d1 - d2) / time.Second)
				res = (d1-d2)%time.Second == 0 && diff == want
			}
		}
	}
	w.explained[o] = res
	return res
}

// timeSet builds the declared finite set of instants for (ver, n, o0).
func (w *world) timeSet(ver int, o0 uint32, gridS, views int) []time.Duration {
	set := map[time.Duration]bool{}
	for s := 0; s <= gridS; s++ {
		set[time.Duration(s)*time.Second] = true
	}
	add := func(b time.Duration) {
		for _, d := range []time.Duration{-1, 0, 1} {
			if b+d >= 0 && b+d <= maxT {
				set[b+d] = true
			}
		}
	}
	// schedule of a node that re-evaluates exactly at every boundary
	cum := time.Duration(0)
	o := o0
	for k := 0; k < views; k++ {
		b, to, ok := w.nextBoundary(ver, o)
		if !ok || cum+b > maxT || to <= o {
			break
		}
		cum += b
		add(cum)
		o = to
	}
	// one-shot schedule: instants at which a single evaluation from (o0, t0) reaches the next offset
	lo := time.Duration(0)
	cur := o0
	for k := 0; k < views; k++ {
		if r := w.run(ver, o0, []time.Duration{maxT}); r.Offset <= cur {
			break
		}
		l, h := lo, maxT
		for h-l > 1 {
			mid := l + (h-l)/2
			if r := w.run(ver, o0, []time.Duration{mid}); r.Offset > cur {
				h = mid
			} else {
				l = mid
			}
		}
		add(h)
		cur = w.run(ver, o0, []time.Duration{h}).Offset
		lo = h
	}
	out := make([]time.Duration, 0, len(set))
	for t := range set {
		out = append(out, t)
	}
	sort.Slice(out, func(i, j int) bool { return out[i] < out[j] })
	return out
}

type caseT struct {
	Ver     int     `json:"version"`
	N       int     `json:"arbiters"`
	Offset  uint32  `json:"start_offset"`
	TimesNs []int64 `json:"times_ns"` // intermediate evaluation instants then T (elapsed since view start)
	SubNs   int64   `json:"view_start_subsecond_ns,omitempty"`
	TolNs   int64   `json:"sign_tolerance_ns,omitempty"`
}

// versions: 0 ChangeView, 1 ChangeViewV1, 2 TryChangeView, 3 TryChangeViewV1 (the polling entry
// points the consensus loop calls: a strict "now after viewStart+tolerance" gate in front).
func verName(v int) string {
	return []string{"ChangeView", "ChangeViewV1", "TryChangeView", "TryChangeViewV1"}[v]
}

// sink collects violations of one job in enumeration order; merged in job order afterwards so
// that the reported example does not depend on goroutine timing.
type sink struct {
	order []string
	m     map[string]*evid.Violation
}

func (k *sink) Violate(sig, what string, art interface{}) {
	if k.m == nil {
		k.m = map[string]*evid.Violation{}
	}
	if v, ok := k.m[sig]; ok {
		v.Count++
		return
	}
	k.m[sig] = &evid.Violation{Signature: sig, What: what, Artefact: art, Count: 1}
	k.order = append(k.order, sig)
}

func (k *sink) mergeInto(r *evid.Run) {
	for _, s := range k.order {
		r.MergeViolation(*k.m[s])
	}
}

type counters struct {
	evals, chains, midAdvanced, bothAdvanced, oneshotAdvanced, mono, edgeSkipped int64
}

// compare one chained schedule against the one-shot outcome.
func (w *world) compare(r *sink, ver int, o0 uint32, times []time.Duration, one outcome, ct *counters) {
	ch := w.run(ver, o0, times)
	atomic.AddInt64(&ct.chains, 1)
	if ch.MidAdv {
		atomic.AddInt64(&ct.midAdvanced, 1)
		if ch.Offset != ch.Mid {
			atomic.AddInt64(&ct.bothAdvanced, 1)
		}
	}
	if ch.Edge || one.Edge {
		atomic.AddInt64(&ct.edgeSkipped, 1)
		return
	}
	if ch.Offset == one.Offset && ch.Rem == one.Rem && ch.OnDuty == one.OnDuty {
		return
	}
	class := "no-intermediate-advance"
	if ch.MidAdv {
		if int(ch.Mid) >= w.n {
			class = "intermediate-advance-to-offset>=n"
			if ver&1 == 1 && !w.explainedByFirstStepRule(ch.Mid) {
				// the known V1 defect makes the view a computation starts in exactly
				// 3*20^(offset/n) s longer than the same view passed inside the loop; any other
				// relation between the two measured durations is a different defect
				class += "|first-step-vs-loop-duration-not-3*20^round"
			}
		} else {
			class = "intermediate-advance-to-offset<n"
		}
	}
	ns := make([]int64, len(times))
	for i, t := range times {
		ns[i] = int64(t)
	}
	r.Violate(fmt.Sprintf("C26|polling-dependence|%s|%s", verName(ver), class),
		fmt.Sprintf("%s, %d arbiters, start offset %d, elapsed %v: one evaluation gives offset %d remainder %v onDuty %v; evaluating at %v first gives offset %d remainder %v onDuty %v",
			verName(ver), w.n, o0, times[len(times)-1], one.Offset, one.Rem, one.OnDuty, times[:len(times)-1], ch.Offset, ch.Rem, ch.OnDuty),
		caseT{Ver: ver, N: w.n, Offset: o0, TimesNs: ns, SubNs: int64(w.sub), TolNs: int64(w.tol)})
}

func (w *world) onDutyRef(off uint32) bool {
	return bytes.Equal(w.keys[int(off)%w.n].PK, w.keys[0].PK)
}

func main() {
	r := evid.Start("C26", "exploration")
	scr := evid.Scratch("c26")
	finish := func(c evid.Coverage) { os.RemoveAll(scr); r.Finish(c) }
	hx.QuietLogs(scr)
	dlog.Init(scr, 255, 0, 0)
	ns := []int{1, 2, 3, 12, 36}
	all := dposkit.Keys("arb", 36)

	if r.Replay != "" {
		var probe struct {
			Kind string `json:"kind"`
		}
		r.LoadReplay(&probe)
		if probe.Kind == "nchange" {
			var c nchangeCase
			sig := r.LoadReplay(&c)
			ms := map[int][]state.ArbiterMember{c.N1: members(c.N1, all), c.N2: members(c.N2, all)}
			long, fresh := runNChange(&c, all, ms)
			fmt.Printf("replay %s\n  %s, %d -> %d arbiters, start offset %d, evaluate at %v, reset=%v, evaluate at %v\n  long-lived view: offset %d remainder %v onDuty %v\n  fresh view:      offset %d remainder %v onDuty %v\n",
				sig, verName(c.Ver), c.N1, c.N2, c.Offset, time.Duration(c.T1), c.Reset, time.Duration(c.T2), long.Offset, long.Rem, long.OnDuty, fresh.Offset, fresh.Rem, fresh.OnDuty)
			var sk sink
			checkNChange(&sk, &c, all, ms)
			sk.mergeInto(r)
			finish(evid.Coverage{})
		}
		var c caseT
		sig := r.LoadReplay(&c)
		w := newWorld(c.N, all)
		w.sub = time.Duration(c.SubNs)
		w.tol = time.Duration(c.TolNs)
		times := make([]time.Duration, len(c.TimesNs))
		for i, t := range c.TimesNs {
			times[i] = time.Duration(t)
		}
		one := w.run(c.Ver, c.Offset, times[len(times)-1:])
		ch := w.run(c.Ver, c.Offset, times)
		fmt.Printf("replay %s\n  %s n=%d start offset %d\n  one-shot at %v: offset %d remainder %v onDuty %v\n  chained %v: offset %d remainder %v onDuty %v\n",
			sig, verName(c.Ver), c.N, c.Offset, times[len(times)-1], one.Offset, one.Rem, one.OnDuty, times, ch.Offset, ch.Rem, ch.OnDuty)
		var ct counters
		var sk sink
		w.compare(&sk, c.Ver, c.Offset, times, one, &ct)
		sk.mergeInto(r)
		finish(evid.Coverage{})
	}

	gridS := r.Pick(200, 420)
	thorough := r.Thorough()
	var ct counters
	samples := &evid.Samples{N: 6}
	type job struct {
		w   *world
		ver int
		o0  uint32
	}
	var jobs []job
	for _, n := range ns {
		w := newWorld(n, all)
		for ver := 0; ver < 2; ver++ {
			for o0 := 0; o0 <= 3*n; o0++ {
				jobs = append(jobs, job{w, ver, uint32(o0)})
			}
		}
	}
	// sub-family: view start times with a sub-second part (0.2 s and 0.8 s past the second)
	mainJobs := len(jobs)
	for _, sub := range []time.Duration{200 * time.Millisecond, 800 * time.Millisecond} {
		for _, n := range []int{2, 12} {
			w := newWorld(n, all)
			w.sub = sub
			for ver := 0; ver < 2; ver++ {
				for o0 := 0; o0 <= 3*n; o0++ {
					jobs = append(jobs, job{w, ver, uint32(o0)})
				}
			}
		}
	}
	// configured sign tolerances other than 5 s (ChangeViewV1 hard-codes 5 s views inside the
	// first round whatever the tolerance is; the direct entry point only: the Try gate itself
	// uses the tolerance)
	for _, tol := range []time.Duration{3 * time.Second, 8 * time.Second, 10 * time.Second} {
		for _, n := range []int{3, 12} {
			w := newWorld(n, all)
			w.tol = tol
			for o0 := 0; o0 <= 3*n; o0++ {
				jobs = append(jobs, job{w, 1, uint32(o0)})
			}
		}
	}
	// polling entry points TryChangeView / TryChangeViewV1
	for _, n := range []int{2, 12} {
		w := newWorld(n, all)
		for ver := 2; ver < 4; ver++ {
			for o0 := 0; o0 <= 3*n; o0++ {
				jobs = append(jobs, job{w, ver, uint32(o0)})
			}
		}
	}
	var timePoints, dev2 int64
	sinks := make([]sink, len(jobs))
	par.Go(len(jobs), func(i int) {
		j := jobs[i]
		w := j.w
		r := &sinks[i]
		g := gridS
		if i >= mainJobs {
			g = 60
			if j.ver >= 2 {
				g = 100
			}
		}
		ts := w.timeSet(j.ver, j.o0, g, 2*w.n+3)
		atomic.AddInt64(&timePoints, int64(len(ts)))
		// one-shot pass: monotonicity + on-duty reference
		ones := make([]outcome, len(ts))
		for k, T := range ts {
			ones[k] = w.run(j.ver, j.o0, []time.Duration{T})
			atomic.AddInt64(&ct.evals, 1)
			if ones[k].Changed {
				atomic.AddInt64(&ct.oneshotAdvanced, 1)
				if ones[k].OnDuty != w.onDutyRef(ones[k].Offset) {
					r.Violate("C26|on-duty-flag|"+verName(j.ver), fmt.Sprintf("after moving to offset %d with %d arbiters the on-duty flag is %v", ones[k].Offset, w.n, ones[k].OnDuty),
						caseT{Ver: j.ver, N: w.n, Offset: j.o0, TimesNs: []int64{int64(T)}})
				}
			}
			if ones[k].Offset < j.o0 || (k > 0 && ones[k].Offset < ones[k-1].Offset) {
				prev := int64(0)
				if k > 0 {
					prev = int64(ts[k-1])
				}
				r.Violate("C26|offset-decreases-in-time|"+verName(j.ver), fmt.Sprintf("%s n=%d start offset %d: offset %d at elapsed %v is below the offset at an earlier instant", verName(j.ver), w.n, j.o0, ones[k].Offset, T),
					caseT{Ver: j.ver, N: w.n, Offset: j.o0, TimesNs: []int64{prev, int64(T)}})
			}
			atomic.AddInt64(&ct.mono, 1)
		}
		// deviation 1: one intermediate evaluation at every earlier instant of the set
		for k, T := range ts {
			for m := 0; m < k; m++ {
				w.compare(r, j.ver, j.o0, []time.Duration{ts[m], T}, ones[k], &ct)
			}
		}
		if thorough {
			// deviation 2: two intermediate evaluations over the boundary instants (all of them)
			// and a 7 s grid
			var sub []int
			for k, T := range ts {
				if T%time.Second != 0 || (T/time.Second)%7 == 0 || (k > 0 && ts[k-1]%time.Second != 0) || (k+1 < len(ts) && ts[k+1]%time.Second != 0) {
					sub = append(sub, k)
				}
			}
			if len(sub) > 150 {
				sub = sub[:150]
			}
			for a := 0; a < len(sub); a++ {
				for b := a + 1; b < len(sub); b++ {
					for c := b + 1; c < len(sub); c++ {
						w.compare(r, j.ver, j.o0, []time.Duration{ts[sub[a]], ts[sub[b]], ts[sub[c]]}, ones[sub[c]], &ct)
						atomic.AddInt64(&dev2, 1)
					}
				}
			}
		}
	})
	for i := range sinks {
		sinks[i].mergeInto(r)
	}
	// samples: a few of the enumerated cases written out (deterministic choice)
	for _, sc := range []caseT{
		{Ver: 0, N: 3, Offset: 2, TimesNs: []int64{int64(7 * time.Second), int64(23*time.Second) + 1}},
		{Ver: 1, N: 3, Offset: 0, TimesNs: []int64{int64(9 * time.Second), int64(15*time.Second) - 1}},
		{Ver: 1, N: 12, Offset: 12, TimesNs: []int64{int64(30 * time.Second), int64(65 * time.Second)}},
		{Ver: 1, N: 36, Offset: 40, TimesNs: []int64{int64(100 * time.Second), int64(200 * time.Second)}},
	} {
		w := newWorld(sc.N, all)
		ts := []time.Duration{time.Duration(sc.TimesNs[0]), time.Duration(sc.TimesNs[1])}
		one := w.run(sc.Ver, sc.Offset, ts[1:])
		ch := w.run(sc.Ver, sc.Offset, ts)
		samples.Add(map[string]interface{}{"entry": verName(sc.Ver), "arbiters": sc.N, "start_offset": sc.Offset, "evaluate_at_ns": sc.TimesNs,
			"one_shot": fmt.Sprintf("offset %d remainder %v", one.Offset, one.Rem), "chained": fmt.Sprintf("offset %d remainder %v", ch.Offset, ch.Rem)})
	}
	ncCases, ncMoved, ncSample := nchangeFamily(r, ns, all, r.Pick(60, 150))
	samples.Add(ncSample)
	r.Assume = append(r.Assume,
		"sign tolerance 5 s (the default) everywhere, plus 3, 8 and 10 s for ChangeViewV1 with 3 and 12 arbiters; arbiter list supplied by state.ArbitratorsMock (the view only reads its size and the on-duty key)",
		"TryChangeView/TryChangeViewV1 (strict 'after' gate in front of the same computation): schedules in which an evaluation falls exactly on viewStart+tolerance are not compared — the gate defers by one nanosecond by design",
		"elapsed times are non-negative and below 2^53 ns")
	finish(evid.Coverage{
		"evaluations":                                   ct.evals + ct.chains + 2*ncCases,
		"distinct_nontrivial":                           ct.bothAdvanced + ncMoved,
		"arbiter_count_change_cases":                    ncCases,
		"arbiter_count_change_cases_offset_moved_after": ncMoved,
		"rule":                fmt.Sprintf("versions {ChangeView, ChangeViewV1} x arbiter counts %v x start offsets 0..3n (plus, for ChangeViewV1 with n in {3,12} and a 60 s grid, sign tolerances 3, 8 and 10 s; plus, for n in {2,12} and a 60 s grid, view start times 0.2 s and 0.8 s past the full second; plus, for n in {2,12} and a 100 s grid, the polling entry points TryChangeView / TryChangeViewV1, schedules with an evaluation exactly on the strict gate edge viewStart+tolerance excluded) x instants {1 s grid 0..%d s} ∪ {b-1ns,b,b+1ns for every boundary b of the first 2n+3 views under the one-shot and under the evaluate-at-every-boundary schedule, located by bisection on the real code}; polling schedules: one evaluation at T vs one intermediate evaluation at every earlier instant (thorough: also two intermediate evaluations over boundary instants + 7 s grid, first 150). non-trivial = chained schedules (all distinct) in which the intermediate evaluation moved the offset and the final evaluation moved it again. Family B (long-lived view across an arbiter-count change): both versions x every ordered pair n1 != n2 of the same counts x start offsets {0,1,n1-1,n1,n1+1,n2-1,n2,n2+1,2n1,3n1} x {no reset, ResetView + offset 0 at the change} x every pair t1 < t2 of {1 s grid 0..%d s} ∪ {boundary instants (up to 1200 s) of the first 6 views under n1 and under n2}: the view evaluated at t1 under n1 and at t2 under n2 vs a fresh view with the same offset/start time that only saw n2, evaluated at t2; non-trivial = cases whose post-change evaluation moved the offset", ns, gridS, r.Pick(60, 150)),
		"exhaustive":          true,
		"jobs":                len(jobs),
		"instants_total":      timePoints,
		"oneshot_evaluations": ct.evals,
		"oneshot_advanced":    ct.oneshotAdvanced,
		"chained_schedules":   ct.chains,
		"try_entry_schedules_skipped_on_gate_edge": ct.edgeSkipped,
		"chained_two_deviation":                    dev2,
		"intermediate_advanced":                    ct.midAdvanced,
		"both_steps_advanced":                      ct.bothAdvanced,
		"samples":                                  samples.Out,
	})
}
