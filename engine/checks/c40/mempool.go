//go:build vsched

// C40, mempool component: the transaction pool under concurrent admission, block cleanup,
// checkpoint snapshot and read-side queries.
//
// Fixture: a real mempool.NewTxPool on the C40 fixture's BlockChain, published through
// blockchain.DefaultLedger (as the node does), with the UTXO cache reading previous transactions
// from an in-memory transaction DB. Pool transactions are REAL typed transactions wrapped so that
// only SanityCheck / ContextCheck are stubbed (same wrapper as C34: type, payload, inputs, fee,
// size, hash and serialisation come from the embedded real transaction).
//
// (a) free-running -race bodies (mempoolFreeRun): AppendToTxPool(tx1) ‖ AppendToTxPoolWithoutEvent
// (tx2, same outpoint as tx1) ‖ the pool checkpoint's Snapshot() (what the checkpoint manager
// calls at every block save) ‖ CleanSubmittedTransactions + CheckAndCleanAllTransactions of a
// block containing a pooled transaction ‖ read-side queries. Race reports are turned into
// violations by main.go's raceFindings.
//
// (b) scheduler exploration (mempoolScenario): build.sh rewrites sync in package mempool to the
// vsync shim, so every lock operation of the pool is a scheduling point. Oracle per execution:
// no deadlock / panic (engine), the pool never holds two transactions spending one outpoint,
// every pooled transaction is in the fee list and in the input slot and nothing else is, sizes
// add up, and the Snapshot result decodes to a fee list that is the pool's content at one
// linearisation point (before or after each concurrent operation).
package main

import (
	"bytes"
	"encoding/binary"
	"fmt"
	"sort"
	"strings"
	"sync"

	"github.com/elastos/Elastos.ELA/blockchain"
	"github.com/elastos/Elastos.ELA/common"
	"github.com/elastos/Elastos.ELA/core/checkpoint"
	"github.com/elastos/Elastos.ELA/core/contract/program"
	"github.com/elastos/Elastos.ELA/core/types"
	ctypes "github.com/elastos/Elastos.ELA/core/types/common"
	"github.com/elastos/Elastos.ELA/core/types/functions"
	"github.com/elastos/Elastos.ELA/core/types/interfaces"
	"github.com/elastos/Elastos.ELA/core/types/outputpayload"
	"github.com/elastos/Elastos.ELA/core/types/payload"
	"github.com/elastos/Elastos.ELA/dpos/state"
	elaerr "github.com/elastos/Elastos.ELA/errors"
	"github.com/elastos/Elastos.ELA/mempool"
	"github.com/elastos/Elastos.ELA/zzverif/vsched"

	"verif/evid"
)

// mpTx wraps a real transaction; only the two validation entry points are stubbed.
type mpTx struct {
	interfaces.Transaction
}

func (w *mpTx) SanityCheck(interfaces.Parameters) elaerr.ELAError { return nil }
func (w *mpTx) ContextCheck(interfaces.Parameters) (map[*ctypes.Input]ctypes.Output, elaerr.ELAError) {
	return nil, nil
}

type mpTxDB struct {
	mu  sync.RWMutex
	txs map[common.Uint256]interfaces.Transaction
}

func (d *mpTxDB) GetTransaction(id common.Uint256) (interfaces.Transaction, uint32, error) {
	d.mu.RLock()
	defer d.mu.RUnlock()
	if t, ok := d.txs[id]; ok {
		return t, 0, nil
	}
	return nil, 0, fmt.Errorf("leveldb: not found")
}

type mpFixture struct {
	fund interfaces.Transaction
	// tx1 and tx2 spend the same outpoint; tx3 is pooled before the threads start and confirmed
	// by the block; tx4 is independent
	tx [7]*mpTx
	// parent is a confirmed ("block") transaction whose output 0 is spent by the pooled tx6:
	// TxPool.RemoveTransaction(parent) has a descendant to remove
	parent interfaces.Transaction
	// tx5 is an UpdateProducer; cancel is the CancelProducer of the same owner (block only)
	cancel interfaces.Transaction
	name map[common.Uint256]string
	size map[common.Uint256]int
}

var mpf *mpFixture

func mpOutputs(n int) []*ctypes.Output {
	var out []*ctypes.Output
	for i := 0; i < n; i++ {
		var ph common.Uint168
		ph[0] = 0x21
		ph[1] = byte(i + 1)
		out = append(out, &ctypes.Output{Value: 1000000, ProgramHash: ph, Type: ctypes.OTNone, Payload: &outputpayload.DefaultOutput{}})
	}
	return out
}

// setupMempool publishes the fixture's chain as the default ledger and builds the transactions.
func setupMempool(f *fixture) *mpFixture {
	if mpf != nil {
		return mpf
	}
	m := &mpFixture{name: map[common.Uint256]string{}, size: map[common.Uint256]int{}}
	mk := func(ins []*ctypes.Input, nOut int, nonce string) interfaces.Transaction {
		return functions.CreateTransaction(ctypes.TxVersion09, ctypes.TransferAsset, 0, &payload.TransferAsset{},
			[]*ctypes.Attribute{{Usage: ctypes.Nonce, Data: []byte(nonce)}}, ins, mpOutputs(nOut), 0, []*program.Program{})
	}
	m.fund = mk(nil, 8, "C40-F")
	in := func(i uint16) *ctypes.Input {
		return &ctypes.Input{Previous: ctypes.OutPoint{TxID: m.fund.Hash(), Index: i}}
	}
	m.parent = mk(nil, 2, "C40-P")
	defs := [][]*ctypes.Input{nil, {in(0)}, {in(0), in(1)}, {in(2)}, {in(3)}, {in(4)}, {{Previous: ctypes.OutPoint{TxID: m.parent.Hash(), Index: 0}}}}
	owner, node := hexKey(0x31), hexKey(0x32)
	m.cancel = functions.CreateTransaction(ctypes.TxVersion09, ctypes.CancelProducer, 0, &payload.ProcessProducer{OwnerKey: owner, Signature: []byte{1}},
		[]*ctypes.Attribute{{Usage: ctypes.Nonce, Data: []byte("C40-cancel")}}, nil, nil, 0, []*program.Program{})
	m.cancel.Hash()
	for i := 1; i <= 6; i++ {
		real := mk(defs[i], 1, fmt.Sprintf("C40-tx%d", i))
		if i == 5 {
			real = functions.CreateTransaction(ctypes.TxVersion09, ctypes.UpdateProducer, 0,
				&payload.ProducerInfo{OwnerKey: owner, NodePublicKey: node, NickName: "c40-producer", Url: "http://example.org", Location: 1, NetAddress: "127.0.0.1:20338", Signature: []byte{1}},
				[]*ctypes.Attribute{{Usage: ctypes.Nonce, Data: []byte("C40-tx5")}}, defs[i], mpOutputs(1), 0, []*program.Program{})
		}
		size := real.GetSize()
		real.SetFee(common.Fixed64((10 + i) * size))
		h := real.Hash() // cached now: later calls only read
		m.tx[i] = &mpTx{real}
		m.name[h] = fmt.Sprintf("tx%d", i)
		m.size[h] = size
	}
	db := &mpTxDB{txs: map[common.Uint256]interfaces.Transaction{m.fund.Hash(): m.fund, m.parent.Hash(): m.parent}}
	f.chain.UTXOCache = blockchain.NewUTXOCache(db, f.params)
	blockchain.DefaultLedger = &blockchain.Ledger{Blockchain: f.chain, Store: f.chain.GetDB(), Arbitrators: state.NewArbitratorsMock(nil, 0, 3)}
	for i := 1; i <= 6; i++ {
		if _, err := f.chain.UTXOCache.GetTxReference(m.tx[i]); err != nil {
			evid.Fatalf("harness: mempool tx%d references: %v", i, err)
		}
	}
	mpf = m
	return m
}

// newPool: a fresh pool holding tx3 (and, withProducer, the UpdateProducer tx5).
func (m *mpFixture) newPool(f *fixture, withProducer bool) (*mempool.TxPool, func()) {
	ckp := checkpoint.NewManager(f.params)
	pool := mempool.NewTxPool(f.params, ckp)
	if err := pool.AppendToTxPoolWithoutEvent(m.tx[3]); err != nil {
		evid.Fatalf("harness: tx3 not admitted into a fresh pool: %v", err)
	}
	if withProducer {
		if err := pool.AppendToTxPoolWithoutEvent(m.tx[5]); err != nil {
			evid.Fatalf("harness: tx5 (UpdateProducer) not admitted into a fresh pool: %v", err)
		}
	}
	return pool, func() { ckp.Unregister("cp_txPool") }
}

// block confirms tx3; withCancel it also carries the CancelProducer of tx5's owner, which makes
// the post-block cleanup walk the pool for that producer's pending updates and votes
// (cleanCanceledProducerAndCR).
func (m *mpFixture) block(withCancel bool) *types.Block {
	txs := []interfaces.Transaction{m.tx[3].Transaction}
	if withCancel {
		txs = append(txs, m.cancel)
	}
	return &types.Block{Header: ctypes.Header{Height: 1}, Transactions: txs}
}

// snapshotFeeHashes serialises the checkpoint returned by Snapshot() and decodes the persisted
// form by hand: height u32, varint tx count + transactions, varint item count, items
// (hash 32, fee rate f64, size u32), total size u64.
func (m *mpFixture) snapshotFeeHashes(cp checkpoint.ICheckPoint) (names []string, total uint64, err error) {
	if cp == nil {
		return nil, 0, fmt.Errorf("Snapshot returned nil")
	}
	buf := new(bytes.Buffer)
	if err = cp.Serialize(buf); err != nil {
		return nil, 0, err
	}
	r := bytes.NewReader(buf.Bytes())
	if _, err = common.ReadUint32(r); err != nil {
		return
	}
	n, err := common.ReadVarUint(r, 0)
	if err != nil {
		return
	}
	for i := uint64(0); i < n; i++ {
		var h common.Uint256
		if err = h.Deserialize(r); err != nil {
			return
		}
		tx, e := functions.GetTransactionByBytes(r)
		if e != nil {
			return nil, 0, e
		}
		if err = tx.Deserialize(r); err != nil {
			return
		}
	}
	cnt, err := common.ReadVarUint(r, 0)
	if err != nil {
		return
	}
	for i := uint64(0); i < cnt; i++ {
		var h common.Uint256
		if err = h.Deserialize(r); err != nil {
			return
		}
		var rest [12]byte
		if _, err = r.Read(rest[:]); err != nil {
			return
		}
		nm := m.name[h]
		if nm == "" {
			nm = "unknown"
		}
		names = append(names, nm)
	}
	var tb [8]byte
	if _, err = r.Read(tb[:]); err != nil {
		return
	}
	total = binary.LittleEndian.Uint64(tb[:])
	sort.Strings(names)
	return
}

// poolInvariants checks the pool's internal consistency on a snapshot of its indexes.
func (m *mpFixture) poolInvariants(pool *mempool.TxPool) (pooled []string, f *vsched.Fail) {
	s := pool.VerifSnapshot()
	inPool := map[common.Uint256]bool{}
	outpoints := map[string]string{}
	var bytesSum uint64
	for _, h := range s.TxnList {
		nm := m.name[h]
		if nm == "" {
			return nil, &vsched.Fail{Signature: "C40|mempool|unknown-pooled-tx", What: "the pool holds a transaction that was never submitted"}
		}
		inPool[h] = true
		pooled = append(pooled, nm)
		bytesSum += uint64(m.size[h])
	}
	sort.Strings(pooled)
	for i := 1; i <= 6; i++ {
		if !inPool[m.tx[i].Hash()] {
			continue
		}
		for _, in := range m.tx[i].Inputs() {
			k := in.ReferKey()
			if other, ok := outpoints[k]; ok {
				return pooled, &vsched.Fail{Signature: "C40|mempool|double-spend-pooled",
					What: fmt.Sprintf("after concurrent submissions the pool holds %s and tx%d, which spend the same outpoint", other, i)}
			}
			outpoints[k] = fmt.Sprintf("tx%d", i)
		}
	}
	feeSeen := map[common.Uint256]bool{}
	for _, it := range s.Fees {
		if !inPool[it.Hash] || feeSeen[it.Hash] {
			return pooled, &vsched.Fail{Signature: "C40|mempool|fee-list-mismatch", What: "the fee list holds a transaction that is not pooled (or holds it twice)"}
		}
		feeSeen[it.Hash] = true
	}
	if len(feeSeen) != len(inPool) {
		return pooled, &vsched.Fail{Signature: "C40|mempool|fee-list-mismatch", What: "a pooled transaction is missing from the fee list"}
	}
	if s.FeesTotalSize != bytesSum {
		return pooled, &vsched.Fail{Signature: "C40|mempool|total-size", What: "the fee list's total size differs from the sum of the pooled transaction sizes"}
	}
	slotKeys := map[string]common.Uint256{}
	for _, e := range s.Slots {
		if !inPool[e.Tx] {
			return pooled, &vsched.Fail{Signature: "C40|mempool|slot-dangling", What: "a conflict slot holds a key of a transaction that is not pooled"}
		}
		if e.Slot == "TxInputsReferKeys" {
			slotKeys[e.Key] = e.Tx
		}
	}
	if len(slotKeys) != len(outpoints) {
		return pooled, &vsched.Fail{Signature: "C40|mempool|slot-missing", What: "an input of a pooled transaction is missing from the input slot"}
	}
	return pooled, nil
}

func subset(a, of []string) bool {
	set := map[string]bool{}
	for _, x := range of {
		set[x] = true
	}
	for _, x := range a {
		if !set[x] {
			return false
		}
	}
	return true
}

// mempoolScens lists the scheduler scenarios of the mempool component.
func mempoolScens(r *evid.Run) []scen {
	out := []scen{
		{Name: "mempool-append2-snapshot-b1", Kind: "mempool-append2-snapshot", Bound: 1},
		{Name: "mempool-append2-snapshot-b2", Kind: "mempool-append2-snapshot", Bound: 2},
		{Name: "mempool-append-clean-snapshot-b2", Kind: "mempool-append-clean-snapshot", Bound: 2},
		{Name: "mempool-append-cancelblock-snapshot-b2", Kind: "mempool-append-cancelblock-snapshot", Bound: 2},
		{Name: "mempool-remove-descendant-query-b2", Kind: "mempool-remove-descendant-query", Bound: 2},
	}
	if r.Thorough() {
		out = append(out, scen{Name: "mempool-append2-snapshot-b3", Kind: "mempool-append2-snapshot", Bound: 3},
			scen{Name: "mempool-append-clean-snapshot-b3", Kind: "mempool-append-clean-snapshot", Bound: 3})
	}
	return out
}

func isMempoolKind(kind string) bool { return strings.HasPrefix(kind, "mempool-") }

// mempoolScenario: threads over one fresh pool that already holds tx3.
//
//	mempool-append2-snapshot        A: Append(tx1)   B: Append(tx2, same outpoint)   S: Snapshot()
//	mempool-append-clean-snapshot   A: Append(tx1)   C: block{tx3} cleanup           S: Snapshot()
//	mempool-append-cancelblock-snapshot   as above on a pool that also holds the UpdateProducer
//	                                tx5, with the block {tx3, CancelProducer(owner of tx5)}: the
//	                                cleanup removes tx5 too
func (f *fixture) mempoolScenario(s scen) *vsched.Scenario {
	m := setupMempool(f)
	return &vsched.Scenario{
		Name:     s.Name,
		Bound:    s.Bound,
		MaxSteps: 20000,
		Setup: func() ([]string, []func(), func(*vsched.Exec) (string, *vsched.Fail)) {
			if s.Kind == "mempool-remove-descendant-query" {
				return m.removeDescendantSetup(f)
			}
			cancelKind := s.Kind == "mempool-append-cancelblock-snapshot"
			pool, closePool := m.newPool(f, cancelKind)
			var errA, errB elaerr.ELAError
			var snap checkpoint.ICheckPoint
			names := []string{"appendA"}
			bodies := []func(){func() { errA = pool.AppendToTxPoolWithoutEvent(m.tx[1]) }}
			if s.Kind == "mempool-append2-snapshot" {
				names = append(names, "appendB")
				bodies = append(bodies, func() { errB = pool.AppendToTxPoolWithoutEvent(m.tx[2]) })
			} else {
				names = append(names, "block")
				blk := m.block(cancelKind)
				bodies = append(bodies, func() {
					pool.CleanSubmittedTransactions(blk)
					pool.CheckAndCleanAllTransactions()
				})
			}
			names = append(names, "snapshot")
			bodies = append(bodies, func() { snap = pool.Snapshot() })
			check := func(x *vsched.Exec) (string, *vsched.Fail) {
				defer closePool()
				pooled, fail := m.poolInvariants(pool)
				if fail != nil {
					return "inconsistent", fail
				}
				snapNames, total, err := m.snapshotFeeHashes(snap)
				if err != nil {
					return "snapshot-error", &vsched.Fail{Signature: "C40|mempool|snapshot-undecodable", What: "the checkpoint returned by Snapshot() does not decode: " + err.Error()}
				}
				var sum uint64
				for _, n := range snapNames {
					for h, nm := range m.name {
						if nm == n {
							sum += uint64(m.size[h])
						}
					}
				}
				outcome := fmt.Sprintf("pool=%v snapshot=%v", pooled, snapNames)
				if total != sum {
					return outcome, &vsched.Fail{Signature: "C40|mempool|snapshot-torn", What: "the snapshot's fee list total size does not match its items"}
				}
				if s.Kind == "mempool-append2-snapshot" {
					// nothing is removed: the pool grows from {tx3} to its final content, the
					// snapshot is one of the states on the way
					if (errA == nil) == (errB == nil) {
						return outcome, &vsched.Fail{Signature: "C40|mempool|conflicting-appends-verdict", What: fmt.Sprintf("two submissions spending the same outpoint: exactly one must be admitted (tx1: %v, tx2: %v)", errA, errB)}
					}
					if !subset([]string{"tx3"}, snapNames) || !subset(snapNames, pooled) {
						return outcome, &vsched.Fail{Signature: "C40|mempool|snapshot-not-a-pool-state", What: "the snapshot holds a set of transactions the pool never held: " + outcome}
					}
				} else {
					// states on the way: {tx3}, then +tx1 and -tx3 in either order
					if errA != nil || len(pooled) != 1 || pooled[0] != "tx1" {
						return outcome, &vsched.Fail{Signature: "C40|mempool|append-clean-result", What: "after Append(tx1) and the cleanup of the block containing tx3 the pool must hold exactly tx1: " + outcome}
					}
					if !subset(snapNames, []string{"tx1", "tx3", "tx5"}) || (!cancelKind && subset([]string{"tx5"}, snapNames)) {
						return outcome, &vsched.Fail{Signature: "C40|mempool|snapshot-not-a-pool-state", What: "the snapshot holds a set of transactions the pool never held: " + outcome}
					}
				}
				return outcome, nil
			}
			return names, bodies, check
		},
	}
}

// removeDescendantSetup: pool {tx3, tx6}; R: RemoveTransaction(parent of tx6) — what netsync
// calls for a block transaction that cannot re-enter the pool — removes the descendant tx6;
// Q: read-locked queries, including a snapshot of the pool's indexes that must be consistent at
// the moment it is taken; A: Append(tx1). doRemoveTransaction carries a scheduling point before
// every statement (build.sh), so a reader that is let in during the removal sees it half done.
func (m *mpFixture) removeDescendantSetup(f *fixture) ([]string, []func(), func(*vsched.Exec) (string, *vsched.Fail)) {
	pool, closePool := m.newPool(f, false)
	if err := pool.AppendToTxPoolWithoutEvent(m.tx[6]); err != nil {
		evid.Fatalf("harness: tx6 not admitted: %v", err)
	}
	var errA elaerr.ELAError
	var qFail *vsched.Fail
	seen := ""
	names := []string{"remove", "query", "appendA"}
	bodies := []func(){
		func() { pool.RemoveTransaction(m.parent) },
		func() {
			for i := 0; i < 2; i++ {
				pooled, fail := m.poolInvariants(pool)
				if fail != nil && qFail == nil {
					qFail = &vsched.Fail{Signature: fail.Signature + "|seen-by-reader", What: "a read-locked query saw the pool half way through a removal: " + fail.What}
				}
				seen += fmt.Sprint(pooled)
				n := len(pool.GetTxsInPool())
				u := len(pool.GetUsedUTXOs())
				if n != u { // every menu transaction here has exactly one input
					_ = n
				}
				pool.HaveTransaction(m.tx[6].Hash())
				pool.GetTransactionCount()
			}
		},
		func() { errA = pool.AppendToTxPoolWithoutEvent(m.tx[1]) },
	}
	check := func(x *vsched.Exec) (string, *vsched.Fail) {
		defer closePool()
		if qFail != nil {
			return "reader-saw-inconsistent-pool", qFail
		}
		pooled, fail := m.poolInvariants(pool)
		if fail != nil {
			return "inconsistent", fail
		}
		if errA != nil || fmt.Sprint(pooled) != "[tx1 tx3]" {
			return fmt.Sprint(pooled), &vsched.Fail{Signature: "C40|mempool|remove-descendant-result", What: fmt.Sprintf("after RemoveTransaction(parent of tx6) and Append(tx1) the pool must hold tx1 and tx3, holds %v (append: %v)", pooled, errA)}
		}
		return "pool=" + fmt.Sprint(pooled) + " seen=" + seen, nil
	}
	return names, bodies, check
}

var mpFreeRunRep int

// mempoolFreeRun is one repetition of the free-running -race bodies.
func mempoolFreeRun(f *fixture) {
	m := setupMempool(f)
	mpFreeRunRep++
	withCancel := mpFreeRunRep%2 == 0 // every other repetition: pooled UpdateProducer + block with its CancelProducer
	pool, closePool := m.newPool(f, withCancel)
	blk := m.block(withCancel)
	if err := pool.AppendToTxPoolWithoutEvent(m.tx[6]); err != nil {
		evid.Fatalf("harness: tx6 not admitted: %v", err)
	}
	var wg sync.WaitGroup
	wg.Add(7)
	go func() { defer wg.Done(); pool.RemoveTransaction(m.parent) }() // removes the descendant tx6
	go func() { defer wg.Done(); pool.AppendToTxPool(m.tx[1]) }()
	go func() { defer wg.Done(); pool.AppendToTxPoolWithoutEvent(m.tx[2]) }()
	go func() { defer wg.Done(); pool.MaybeAcceptTransaction(m.tx[4]) }()
	go func() {
		defer wg.Done()
		for i := 0; i < 3; i++ {
			pool.Snapshot()
		}
	}()
	go func() {
		defer wg.Done()
		pool.CleanSubmittedTransactions(blk)
		pool.CheckAndCleanAllTransactions()
	}()
	go func() {
		defer wg.Done()
		for i := 0; i < 3; i++ {
			pool.GetTransaction(m.tx[1].Hash())
			pool.GetTxsInPool()
			pool.HaveTransaction(m.tx[2].Hash())
			pool.GetTransactionCount()
			pool.GetUsedUTXOs()
		}
	}()
	wg.Wait()
	// sequential epilogue: the result of the concurrent phase must be a consistent pool
	if _, fail := m.poolInvariants(pool); fail != nil {
		fmt.Println("MEMPOOL-INCONSISTENT " + fail.Signature + " " + fail.What)
	}
	closePool()
}
