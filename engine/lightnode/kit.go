package lightnode

import (
	"bytes"
	"crypto/sha256"
	"fmt"

	"github.com/elastos/Elastos.ELA/common"
	"github.com/elastos/Elastos.ELA/core"
	"github.com/elastos/Elastos.ELA/core/contract"
	"github.com/elastos/Elastos.ELA/core/contract/program"
	"github.com/elastos/Elastos.ELA/core/transaction"
	common2 "github.com/elastos/Elastos.ELA/core/types/common"
	"github.com/elastos/Elastos.ELA/core/types/interfaces"
	"github.com/elastos/Elastos.ELA/core/types/outputpayload"
	"github.com/elastos/Elastos.ELA/core/types/payload"
	"github.com/elastos/Elastos.ELA/crypto"
)

// Key is a harness-owned key pair derived from a fixed label (no randomness).
type Key struct {
	Priv []byte
	Pub  *crypto.PublicKey
	// Compressed is the 33-byte encoding used for arbiter node public keys.
	Compressed []byte
}

// FixedKey derives key number i of a namespace deterministically.
func FixedKey(namespace string, i int) Key {
	for ctr := 0; ; ctr++ {
		d := sha256.Sum256([]byte(fmt.Sprintf("verif-lightnode-key|%s|%d|%d", namespace, i, ctr)))
		if d[0] == 0 { // keep the scalar full length and well below the group order
			continue
		}
		d[0] &= 0x7f
		priv := append([]byte{}, d[:]...)
		pub := crypto.NewPubKey(priv)
		if pub == nil || pub.X == nil {
			continue
		}
		enc, err := pub.EncodePoint(true)
		if err != nil {
			continue
		}
		return Key{Priv: priv, Pub: pub, Compressed: enc}
	}
}

// StandardCode / StandardHash of a key.
func (k Key) StandardCode() []byte {
	c, err := contract.CreateStandardRedeemScript(k.Pub)
	if err != nil {
		panic(err)
	}
	return c
}

func (k Key) StandardHash() common.Uint168 {
	return *common.ToProgramHash(byte(contract.PrefixStandard), k.StandardCode())
}

// CrossChainCode builds the arbiter-style cross-chain script "m <keys…> n CROSSCHAIN"
// (keys in the given order — callers decide about sorting).
func CrossChainCode(m int, keys [][]byte, nOverride int) []byte {
	const push1 = 0x51
	const crossChainOp = 0xAF
	n := len(keys)
	if nOverride >= 0 {
		n = nOverride
	}
	buf := new(bytes.Buffer)
	buf.WriteByte(byte(push1 + m - 1))
	for _, k := range keys {
		buf.WriteByte(byte(len(k)))
		buf.Write(k)
	}
	buf.WriteByte(byte(push1 + n - 1))
	buf.WriteByte(crossChainOp)
	return buf.Bytes()
}

// Output builds a plain ELA output.
func Output(ph common.Uint168, v common.Fixed64) *common2.Output {
	return &common2.Output{AssetID: core.ELAAssetID, Value: v, ProgramHash: ph,
		Type: common2.OTNone, Payload: &outputpayload.DefaultOutput{}}
}

// Fund persists a block holding one synthetic TransferAsset transaction with the given outputs
// (no inputs: the store seam needs none) and returns that transaction; its outputs are real
// unspent outputs of the node afterwards.
func (n *Node) Fund(nonce string, outs ...*common2.Output) (interfaces.Transaction, error) {
	attr := common2.NewAttribute(common2.Nonce, []byte(nonce))
	tx := transaction.CreateTransaction(common2.TxVersion09, common2.TransferAsset, 0,
		&payload.TransferAsset{}, []*common2.Attribute{&attr}, nil, outs, 0, nil)
	if _, err := n.SaveBlock(tx); err != nil {
		return nil, err
	}
	return tx, nil
}

// Input spending output idx of tx.
func Input(tx interfaces.Transaction, idx int) *common2.Input {
	return &common2.Input{Previous: common2.OutPoint{TxID: tx.Hash(), Index: uint16(idx)}, Sequence: 0}
}

func unsigned(tx interfaces.Transaction) []byte {
	buf := new(bytes.Buffer)
	tx.SerializeUnsigned(buf)
	return buf.Bytes()
}

// SignStandard returns the program that spends a standard address of k for tx.
func SignStandard(tx interfaces.Transaction, k Key) (*program.Program, error) {
	sig, err := crypto.Sign(k.Priv, unsigned(tx))
	if err != nil {
		return nil, err
	}
	return &program.Program{Code: k.StandardCode(), Parameter: append([]byte{byte(len(sig))}, sig...)}, nil
}

// SignCrossChain returns a program with the given cross-chain script signed by signers.
func SignCrossChain(tx interfaces.Transaction, code []byte, signers []Key) (*program.Program, error) {
	var param []byte
	data := unsigned(tx)
	for _, k := range signers {
		sig, err := crypto.Sign(k.Priv, data)
		if err != nil {
			return nil, err
		}
		param = append(param, byte(len(sig)))
		param = append(param, sig...)
	}
	return &program.Program{Code: code, Parameter: param}, nil
}
