package wire

import (
	"encoding/binary"
	"fmt"
)

// Field is one 1/2/4/8-byte read of the decoder on the unmodified seed.
type Field struct {
	Off, N int
	Site   string
}

// Fields extracts the fields (reads of width 1, 2, 4, 8 that were fully served) from a baseline
// trace, deduplicated by offset, in stream order.
func Fields(trace []Rd) []Field {
	var out []Field
	seen := map[int]bool{}
	for _, r := range trace {
		if r.Got != r.N {
			continue
		}
		switch r.N {
		case 1, 2, 4, 8:
			if !seen[r.Off] {
				seen[r.Off] = true
				out = append(out, Field{Off: r.Off, N: r.N, Site: r.Site})
			}
		}
	}
	return out
}

// SiteAt names the read that covers byte offset off in the baseline trace.
func SiteAt(trace []Rd, off int) string {
	for _, r := range trace {
		if off >= r.Off && off < r.Off+r.Got {
			return r.Site
		}
	}
	if len(trace) > 0 {
		return trace[len(trace)-1].Site
	}
	return "unknown|field=?"
}

// The boundary alphabet of the design: {0,1,2,0xfc,0xfd,0xfe,0xff,2^16−1,2^16,2^20,2^31−1,2^32−1,
// 2^32,2^63−1,2^63,2^64−1}, restricted to what fits the width, plus 2^21 and 2^31 for 4 and 8 bytes
// (2^20 elements of a 24-byte type are exactly 24 MiB, i.e. not above the allocation bound; 2^21
// is the smallest power of two that is, and it stays far below the worker's address-space limit).
var boundary = []uint64{0, 1, 2, 0xfc, 0xfd, 0xfe, 0xff, 1<<16 - 1, 1 << 16, 1 << 20, 1 << 21, 1<<31 - 1, 1 << 31, 1<<32 - 1, 1 << 32, 1<<63 - 1, 1 << 63, 1<<64 - 1}

// Subst is one replacement of the bytes [Off, Off+Del) by Ins.
type Subst struct {
	Off, Del int
	Ins      []byte
	Label    string
}

func le(n int, v uint64) []byte {
	b := make([]byte, n)
	switch n {
	case 1:
		b[0] = byte(v)
	case 2:
		binary.LittleEndian.PutUint16(b, uint16(v))
	case 4:
		binary.LittleEndian.PutUint32(b, uint32(v))
	case 8:
		binary.LittleEndian.PutUint64(b, v)
	}
	return b
}

func fits(n int, v uint64) bool {
	switch n {
	case 1:
		return v <= 0xff
	case 2:
		return v <= 0xffff
	case 4:
		return v <= 0xffffffff
	}
	return true
}

// varintMenu: a one-byte field may be the discriminant of a var-int; it is also replaced by the
// 3/5/9-byte encodings of boundary values, canonical and non-canonical.
var varintMenu = []struct {
	disc byte
	n    int
	v    uint64
}{
	{0xfd, 2, 0}, {0xfd, 2, 0xfc}, {0xfd, 2, 0xfd}, {0xfd, 2, 0xffff},
	{0xfe, 4, 0}, {0xfe, 4, 0xffff}, {0xfe, 4, 1 << 16}, {0xfe, 4, 1 << 20}, {0xfe, 4, 1 << 21}, {0xfe, 4, 1<<31 - 1}, {0xfe, 4, 1<<32 - 1},
	{0xff, 8, 0}, {0xff, 8, 1<<32 - 1}, {0xff, 8, 1 << 32}, {0xff, 8, 1<<63 - 1}, {0xff, 8, 1 << 63}, {0xff, 8, 1<<64 - 1},
}

// FieldSubsts: every deviation-1 replacement of field f (values equal to the seed's are left out).
func FieldSubsts(seed []byte, f Field) []Subst {
	var out []Subst
	cur := seed[f.Off : f.Off+f.N]
	// var-int encodings first (ascending values per width): moderate counts are then tried
	// before the raw discriminant bytes 0xfd/0xfe/0xff, which turn the following seed bytes
	// into an arbitrary count
	if f.N == 1 {
		for _, m := range varintMenu {
			ins := append([]byte{m.disc}, le(m.n, m.v)...)
			out = append(out, Subst{Off: f.Off, Del: 1, Ins: ins, Label: fmt.Sprintf("varint%d=%#x", m.n, m.v)})
		}
	}
	for _, v := range boundary {
		if !fits(f.N, v) {
			continue
		}
		b := le(f.N, v)
		if string(b) == string(cur) {
			continue
		}
		out = append(out, Subst{Off: f.Off, Del: f.N, Ins: b, Label: fmt.Sprintf("w%d=%#x", f.N, v)})
	}
	return out
}

// reduced menu for deviation-2 pairs
var pairVals = []uint64{0, 1, 0xfd, 0xff, 1<<16 - 1, 1 << 20, 1<<32 - 1, 1<<63 - 1, 1<<64 - 1}

// PairSubsts: the reduced replacement menu used for pairs of fields (thorough tier).
func PairSubsts(seed []byte, f Field) []Subst {
	var out []Subst
	cur := seed[f.Off : f.Off+f.N]
	for _, v := range pairVals {
		if !fits(f.N, v) {
			continue
		}
		b := le(f.N, v)
		if string(b) == string(cur) {
			continue
		}
		out = append(out, Subst{Off: f.Off, Del: f.N, Ins: b, Label: fmt.Sprintf("w%d=%#x", f.N, v)})
	}
	if f.N == 1 {
		for _, m := range varintMenu {
			if m.v == 1<<20 || m.v == 1<<63-1 || m.v == 0xffff && m.n == 2 {
				ins := append([]byte{m.disc}, le(m.n, m.v)...)
				out = append(out, Subst{Off: f.Off, Del: 1, Ins: ins, Label: fmt.Sprintf("varint%d=%#x", m.n, m.v)})
			}
		}
	}
	return out
}

// ByteAlphabet16 is the 16-value menu for single-byte substitutions of long inputs.
var ByteAlphabet16 = []byte{0x00, 0x01, 0x02, 0x03, 0x04, 0x08, 0x09, 0x10, 0x20, 0x40, 0x7f, 0x80, 0xfc, 0xfd, 0xfe, 0xff}

// ByteAlphabet8 is the reduced menu of the quick tier.
var ByteAlphabet8 = []byte{0x00, 0x01, 0x02, 0x7f, 0x80, 0xfd, 0xfe, 0xff}

// FieldBytePositions: the byte offsets of the quick tier's single-byte substitutions — every byte
// of every discovered field plus the first `head` bytes of the seed — ascending, without repeats.
func FieldBytePositions(seedLen int, fields []Field, head int) []int {
	mark := make([]bool, seedLen)
	for i := 0; i < head && i < seedLen; i++ {
		mark[i] = true
	}
	for _, f := range fields {
		for i := f.Off; i < f.Off+f.N && i < seedLen; i++ {
			mark[i] = true
		}
	}
	var out []int
	for i, m := range mark {
		if m {
			out = append(out, i)
		}
	}
	return out
}

// Apply returns seed with the substitutions applied (offsets refer to the seed; substitutions
// must not overlap and must be ordered by offset).
func Apply(seed []byte, subs ...Subst) []byte {
	out := make([]byte, 0, len(seed)+16)
	pos := 0
	for _, s := range subs {
		out = append(out, seed[pos:s.Off]...)
		out = append(out, s.Ins...)
		pos = s.Off + s.Del
	}
	out = append(out, seed[pos:]...)
	return out
}
