package main

import (
	"fmt"
	"os"
	"runtime"
	"runtime/pprof"
	"time"
)

func bench() {
	fams, _ := familiesFor("quick")
	al := fams[0]
	hist := []string{"sub:0", "mine:pool", "fork:1:1", "ext:-"}
	pf, _ := os.Create("/tmp/c06bench.prof")
	pprof.StartCPUProfile(pf)
	defer pprof.StopCPUProfile()
	t0 := time.Now()
	for i := 0; i < 120; i++ {
		t1 := time.Now()
		w := newWorld(&al)
		t2 := time.Now()
		for _, o := range hist {
			if f := w.apply(o); f != nil {
				fmt.Println("fail", f)
			}
		}
		t3 := time.Now()
		d := w.digest()
		t4 := time.Now()
		w.close()
		t5 := time.Now()
		if i%10 == 9 {
			var ms runtime.MemStats
			runtime.ReadMemStats(&ms)
			fmt.Println("heapAlloc MB", ms.HeapAlloc>>20, "heapSys MB", ms.HeapSys>>20, "numGC", ms.NumGC, "goroutines", runtime.NumGoroutine())
			fmt.Println("new+prefix", t2.Sub(t1), "ops", t3.Sub(t2), "digest", t4.Sub(t3), "close", t5.Sub(t4), d[:8])
		}
	}
	fmt.Println("avg", time.Since(t0)/120)
}
