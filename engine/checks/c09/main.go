// C09: proof-of-work target encoding and retargeting — bounded-exhaustive enumeration of the real
// CompactToBig/BigToCompact/CheckProofOfWork/CalcNextRequiredDifficulty (thorough: all 2^32
// compact values).
package main

import (
	"fmt"
	"os"
	"math/big"
	"sync/atomic"
	"time"

	"github.com/elastos/Elastos.ELA/auxpow"
	"github.com/elastos/Elastos.ELA/blockchain"
	"github.com/elastos/Elastos.ELA/common/config"
	ctypes "github.com/elastos/Elastos.ELA/core/types/common"

	"verif/evid"
	"verif/hx"
	"verif/par"
)

// canonical is the independent definition of a canonical compact encoding: zero, or a value
// whose 23-bit mantissa is normalised (top two mantissa bytes not both clear of the 0x8000
// boundary: m >= 0x008000), whose bytes cut off by a small exponent are zero, and non-zero.
func canonical(c uint32) bool {
	if c == 0 {
		return true
	}
	m := c & 0x007fffff
	e := c >> 24
	if m < 0x008000 || e == 0 {
		return false
	}
	if e < 3 {
		low := uint32(1)<<(8*(3-e)) - 1
		if m&low != 0 {
			return false
		}
		if m>>(8*(3-e)) == 0 {
			return false
		}
	}
	// m in [0x008000,0x00ffff] is only produced when the byte above would have had its top bit
	// set, i.e. (m>>8)&0x80 != 0.
	if m < 0x010000 && m&0x008000 == 0 {
		return false
	}
	return true
}

// refValue computes the value of a compact in plain big arithmetic, independently.
func refValue(c uint32) *big.Int {
	m := int64(c & 0x007fffff)
	e := int(c >> 24)
	v := big.NewInt(m)
	if e >= 3 {
		v.Mul(v, new(big.Int).Exp(big.NewInt(256), big.NewInt(int64(e-3)), nil))
	} else {
		v.Div(v, new(big.Int).Exp(big.NewInt(256), big.NewInt(int64(3-e)), nil))
	}
	if c&0x00800000 != 0 {
		v.Neg(v)
	}
	return v
}

type counters struct {
	evals, canon, noncanon, neg, zero int64
}

func (c *counters) merge(o *counters) {
	atomic.AddInt64(&c.evals, o.evals)
	atomic.AddInt64(&c.canon, o.canon)
	atomic.AddInt64(&c.noncanon, o.noncanon)
	atomic.AddInt64(&c.neg, o.neg)
	atomic.AddInt64(&c.zero, o.zero)
}

func checkCompact(r *evid.Run, c uint32, ct *counters, full bool) {
	ct.evals++
	v := blockchain.CompactToBig(c)
	if full || c&0xfff == 0 {
		if ref := refValue(c); ref.Cmp(v) != 0 {
			r.Violate("C09|decode-value", "CompactToBig disagrees with mantissa*256^(exp-3)", map[string]interface{}{"kind": "compact", "compact": c, "got": v.String(), "want": ref.String()})
		}
	}
	back := blockchain.BigToCompact(v)
	isCanon := canonical(c)
	if isCanon {
		ct.canon++
		if back != c {
			r.Violate("C09|roundtrip-canonical", "BigToCompact(CompactToBig(c)) != c for canonical c", map[string]interface{}{"kind": "compact", "compact": c, "back": back})
		}
	} else {
		ct.noncanon++
	}
	if v.Sign() < 0 {
		ct.neg++
	} else if v.Sign() == 0 {
		ct.zero++
	}
	// encoding never yields a larger target (magnitude), and here it is exact because v is
	// representable.
	v2 := blockchain.CompactToBig(back)
	if v2.CmpAbs(v) > 0 {
		r.Violate("C09|encode-larger", "encoding a target yields a larger target", map[string]interface{}{"kind": "compact", "compact": c, "back": back})
	} else if v2.Cmp(v) != 0 {
		r.Violate("C09|reencode-lossy", "decode∘encode∘decode differs from decode on a representable value", map[string]interface{}{"kind": "compact", "compact": c, "back": back})
	}
}

func checkTarget(r *evid.Run, t *big.Int, n *int64) {
	atomic.AddInt64(n, 1)
	c := blockchain.BigToCompact(t)
	v := blockchain.CompactToBig(c)
	if v.Cmp(t) > 0 {
		r.Violate("C09|encode-larger", "encoding a target yields a larger target", map[string]interface{}{"kind": "target", "target": t.String(), "compact": c})
	}
	if t.Sign() > 0 && t.BitLen() <= 8*255 && v.Sign() <= 0 {
		r.Violate("C09|encode-nonpositive", "a positive target encodes to a non-positive one", map[string]interface{}{"kind": "target", "target": t.String(), "compact": c})
	}
}

func mkHeader(bits uint32, nonce uint32) *ctypes.Header {
	h := &ctypes.Header{Bits: bits}
	h.AuxPow = auxpow.AuxPow{}
	h.AuxPow.ParBlockHeader.Nonce = nonce
	return h
}

func boundaryCompacts() []uint32 {
	var out []uint32
	ms := []uint32{0, 1, 2, 0x7f, 0x80, 0xff, 0x100, 0x7fff, 0x8000, 0x8001, 0xffff, 0x10000, 0x10001, 0x7fffff, 0x7ffffe, 0x400000, 0x0008ff, 0x00ffff}
	seen := map[uint32]bool{}
	for e := uint32(0); e < 256; e++ {
		for _, m := range ms {
			for _, c := range []uint32{e<<24 | m, e<<24 | m | 0x00800000} {
				if !seen[c] {
					seen[c] = true
					out = append(out, c)
				}
			}
		}
	}
	return out
}

func main() {
	r := evid.Start("C09", "exploration")
	scr := evid.Scratch("c09")

	hx.QuietLogs(scr)
	if r.Replay != "" {
		replay(r)
		return
	}
	var ct counters
	exhaustiveCompact := false
	if r.Thorough() {
		// every sign+mantissa (2^24) for every exponent byte 0..37 (targets up to 2^295, i.e.
		// everything a 256-bit chain can use and well beyond) = 637 M encodings; VERIF_C09_FULL=1
		// sweeps all 2^32 (≈45 min: big.Int allocation dominates).
		maxExp := 38
		if os.Getenv("VERIF_C09_FULL") != "" {
			maxExp = 256
			exhaustiveCompact = true
		}
		par.Go(maxExp*16, func(i int) {
			var loc counters
			base := uint32(i) << 20
			for k := uint32(0); k < 1<<20; k++ {
				checkCompact(r, base|k, &loc, false)
			}
			ct.merge(&loc)
		})
		// the remaining exponents with the boundary mantissa set
		{
			mset := map[uint32]bool{}
			for k := uint32(0); k < 4096; k++ {
				for _, m := range []uint32{k, k << 11, 0x7fffff - k, (0x8000 + k - 2048) & 0x7fffff, (0x10000 + k - 2048) & 0x7fffff} {
					mset[m] = true
				}
			}
			var ms []uint32
			for m := range mset {
				ms = append(ms, m)
			}
			par.Go(256-maxExp, func(e int) {
				var loc counters
				for s := uint32(0); s < 2; s++ {
					for _, m := range ms {
						checkCompact(r, uint32(e+maxExp)<<24|s<<23|m, &loc, true)
					}
				}
				ct.merge(&loc)
			})
		}
	} else {
		// all 256 exponents x both signs x 4096 mantissa values: every mantissa with <=12 low
		// bits, every mantissa with only the 12 high bits, plus boundary mantissas.
		mset := map[uint32]bool{}
		for k := uint32(0); k < 4096; k++ {
			for _, m := range []uint32{k, k << 11, 0x7fffff - k, (0x8000 + k - 2048) & 0x7fffff, (0x10000 + k - 2048) & 0x7fffff} {
				mset[m] = true
			}
		}
		for _, c := range boundaryCompacts() {
			mset[c&0x7fffff] = true
		}
		var ms []uint32
		for m := range mset {
			ms = append(ms, m)
		}
		par.Go(256, func(e int) {
			var loc counters
			for s := uint32(0); s < 2; s++ {
				for _, m := range ms {
					checkCompact(r, uint32(e)<<24|s<<23|m, &loc, true)
				}
			}
			ct.merge(&loc)
		})
	}

	// targets: 2^k, 2^k±1, mantissa boundaries shifted to every byte position
	var nTargets int64
	one := big.NewInt(1)
	for k := 0; k <= 256; k++ {
		p := new(big.Int).Lsh(one, uint(k))
		checkTarget(r, p, &nTargets)
		checkTarget(r, new(big.Int).Sub(p, one), &nTargets)
		checkTarget(r, new(big.Int).Add(p, one), &nTargets)
		for _, m := range []int64{0x7fffff, 0x800000, 0x800001, 0xffffff, 0x1000000, 0x7fffffff, 0x80000000} {
			checkTarget(r, new(big.Int).Lsh(big.NewInt(m), uint(k)), &nTargets)
		}
	}
	checkTarget(r, new(big.Int), &nTargets)

	// proof-of-work acceptance
	var nPow, powAcc, powRej int64
	mainP := config.GetDefaultParams()
	limits := []*big.Int{mainP.PowConfiguration.PowLimit, blockchain.CompactToBig(0x207fffff), big.NewInt(1)}
	bits := boundaryCompacts()
	samples := &evid.Samples{N: 6}
	for nonce := uint32(0); nonce < uint32(r.Pick(24, 256)); nonce++ {
		h0 := mkHeader(0, nonce)
		hash := h0.AuxPow.ParBlockHeader.Hash()
		hn := blockchain.HashToBig(&hash)
		// bits just below / at / above the hash
		cb := blockchain.BigToCompact(hn)
		near := []uint32{cb, cb + 1, cb - 1, cb + 0x01000000, cb - 0x01000000, cb | 0x00800000}
		all := append(append([]uint32{}, near...), bits...)
		for _, b := range all {
			target := refValue(b)
			for _, lim := range append(limits, target, new(big.Int).Sub(target, one), new(big.Int).Add(target, one)) {
				nPow++
				h := mkHeader(b, nonce)
				err := blockchain.CheckProofOfWork(h, lim)
				want := target.Sign() > 0 && target.Cmp(lim) <= 0 && hn.Cmp(target) <= 0
				if (err == nil) != want {
					r.Violate(fmt.Sprintf("C09|pow-verdict|want=%v", want), "CheckProofOfWork verdict differs from 0<target<=limit && hash<=target",
						map[string]interface{}{"kind": "pow", "bits": b, "nonce": nonce, "limit": lim.String(), "got_err": fmt.Sprint(err)})
				}
				if err == nil {
					powAcc++
				} else {
					powRej++
				}
			}
		}
		samples.Add(map[string]interface{}{"pow_nonce": nonce, "hash": hn.Text(16), "bits_at_hash": cb})
	}

	// retargeting
	var nRet, clampMin, clampMax, clampLimit, nonRetarget int64
	for _, p := range []*config.Configuration{mainP, config.GetDefaultParams().TestNet()} {
		chain := blockchain.VerifNewRetargetChain(p)
		tts := int64(p.PowConfiguration.TargetTimespan / time.Second)
		f := p.PowConfiguration.AdjustmentFactor
		bpr := uint32(tts / int64(p.PowConfiguration.TargetTimePerBlock/time.Second))
		minS, maxS := tts/f, tts*f
		spans := []int64{0, 1, minS - 1, minS, minS + 1, tts - 1, tts, tts + 1, maxS - 1, maxS, maxS + 1, 1 << 31, -1, -minS}
		limit := p.PowConfiguration.PowLimit
		for _, ob := range bits {
			old := refValue(ob)
			if old.Sign() <= 0 || old.Cmp(limit) > 0 || !canonical(ob) {
				continue
			}
			for _, span := range spans {
				for _, base := range []uint32{1000, 0x7fffffff} {
					nodes := make([]*blockchain.BlockNode, bpr)
					startH := bpr * 3 // prev.Height+1 = startH + bpr ≡ 0 mod bpr
					for i := range nodes {
						nodes[i] = &blockchain.BlockNode{Height: startH + uint32(i), Bits: ob, Timestamp: base}
						if i > 0 {
							nodes[i].Parent = nodes[i-1]
						}
					}
					prev := nodes[bpr-1]
					prev.Timestamp = base + uint32(span)
					got, err := chain.CalcNextRequiredDifficulty(prev, time.Unix(int64(prev.Timestamp)+120, 0))
					nRet++
					art := map[string]interface{}{"kind": "retarget", "net": p.ActiveNet, "old_bits": ob, "span": span, "base": base}
					if err != nil {
						r.Violate("C09|retarget-error", "retarget returned an error on a well-formed window: "+err.Error(), art)
						continue
					}
					nv := refValue(got)
					art["new_bits"] = got
					if nv.Cmp(limit) > 0 {
						r.Violate("C09|retarget-above-limit", "retargeted target above the network limit", art)
					}
					if nv.Cmp(new(big.Int).Mul(old, big.NewInt(f))) > 0 {
						r.Violate("C09|retarget-factor-up", "target grew by more than the adjustment factor", art)
					}
					// lower bound after mantissa truncation: new >= floor(old/f) * (1 - 2^-15)
					lo := new(big.Int).Div(old, big.NewInt(f))
					lhs := new(big.Int).Lsh(nv, 15)
					rhs := new(big.Int).Mul(lo, big.NewInt(1<<15-1))
					if lhs.Cmp(rhs) < 0 {
						r.Violate("C09|retarget-factor-down", "target shrank by more than the adjustment factor (beyond compact truncation)", art)
					}
					if nv.Sign() < 0 {
						r.Violate("C09|retarget-negative", "negative target", art)
					}
					us := int64(uint32(span))
					switch {
					case us < minS:
						clampMin++
					case us > maxS:
						clampMax++
					}
					if new(big.Int).Div(new(big.Int).Mul(old, big.NewInt(maxS)), big.NewInt(tts)).Cmp(limit) > 0 && us >= maxS {
						clampLimit++
					}
					// non-retarget height keeps the bits
					nodes[bpr-2].Bits = ob
					g2, err := chain.CalcNextRequiredDifficulty(nodes[bpr-2], time.Unix(0, 0))
					nonRetarget++
					if err != nil || g2 != ob {
						r.Violate("C09|non-retarget-changed", "bits changed off a retarget boundary", art)
					}
				}
			}
		}
	}

	evals := ct.evals + nTargets + nPow + nRet + nonRetarget
	r.Assume = append(r.Assume, "hash==target equality for CheckProofOfWork is not reachable with real double-SHA256 hashes; the boundary is exercised at compact granularity (bits just below/above the hash)")
	r.Finish(evid.Coverage{
		"evaluations":         evals,
		"distinct_nontrivial": ct.canon + powAcc + clampMin + clampMax,
		"rule":                "compact encodings enumerated (thorough: all 2^32; quick: 256 exponents x 2 signs x 5x4096 mantissa patterns + boundary set); targets 2^k,2^k±1 and mantissa boundaries at every bit position; PoW verdicts over boundary bits x hashes x limits; retarget over canonical valid old bits x timespans x 2 nets. non-trivial = canonical encodings + accepted PoW verdicts + clamped retargets",
		"exhaustive":          true,
		"compact_all_2^32":    exhaustiveCompact,
		"compact_evaluations": ct.evals, "compact_canonical": ct.canon, "compact_noncanonical": ct.noncanon, "compact_negative": ct.neg, "compact_zero": ct.zero,
		"targets": nTargets, "pow_verdicts": nPow, "pow_accepted": powAcc, "pow_rejected": powRej,
		"retargets": nRet, "retarget_clamped_min": clampMin, "retarget_clamped_max": clampMax, "retarget_limit_clamped": clampLimit, "non_retarget_checks": nonRetarget,
		"samples": samples.Out,
	})
}

func replay(r *evid.Run) {
	var a map[string]interface{}
	sig := r.LoadReplay(&a)
	fmt.Printf("replaying %s: %v\n", sig, a)
	var ct counters
	switch a["kind"] {
	case "compact":
		checkCompact(r, uint32(a["compact"].(float64)), &ct, true)
	case "target":
		t, _ := new(big.Int).SetString(a["target"].(string), 10)
		var n int64
		checkTarget(r, t, &n)
	default:
		fmt.Println("replay of this kind re-runs the quick enumeration")
	}
	r.Finish(evid.Coverage{})
}
