// C01: no transaction creates value.
//
// (a) every transaction type's own CheckTransactionOutput and CheckTransactionFee(references)
// (interface methods of the real transaction objects, parameters installed through
// SetParameters on a light node), the fee helper getTransactionFee (hook) and
// blockchain.GetTxFeeMap over ALL output multisets and input multisets over a boundary amount
// alphabet, judged in exact big.Int arithmetic:
//
//	per-output check passes AND fee check passes  =>  no negative output amount
//	                                              AND  sum(outputs) <= sum(inputs)   (exactly)
//	accepted  =>  GetTxFee == sum(inputs) - sum(outputs)   (exactly)
//
// (a') light-node confirmation: a signed TransferAsset whose outputs wrap the int64 sum, spending
// a real small UTXO, through CheckTransactionSanity + CheckTransactionContext and the pool.
//
// TODO(lead) part (b): end-to-end on the node tier (chainkit): the same vectors through
// BlockChain.ProcessBlock with a mined block (coinbase fee aggregation in checkTxsContext) and
// TxPool.AppendToTxPool on a node with a matured coinbase UTXO — to be added when the node
// fixture exists. Nothing in this file depends on it.
package main

import (
	"encoding/json"
	"fmt"
	"math"
	"math/big"
	"os"
	"path/filepath"
	"sort"
	"strconv"
	"sync"
	"sync/atomic"

	"github.com/elastos/Elastos.ELA/blockchain"
	"github.com/elastos/Elastos.ELA/common"
	"github.com/elastos/Elastos.ELA/core"
	"github.com/elastos/Elastos.ELA/core/contract/program"
	"github.com/elastos/Elastos.ELA/core/transaction"
	common2 "github.com/elastos/Elastos.ELA/core/types/common"
	"github.com/elastos/Elastos.ELA/core/types/interfaces"
	"github.com/elastos/Elastos.ELA/core/types/payload"
	"github.com/elastos/Elastos.ELA/mempool"

	"verif/evid"
	"verif/hx"
	"verif/lightnode"
	"verif/par"
)

const minFee = 100

// amount alphabets
var inAlphabet = []int64{0, 1, minFee - 1, minFee, 100000000, 1 << 31, 1<<53 + 1, 1<<62 - 1, 1 << 62, 1<<62 + 1, math.MaxInt64 - minFee, math.MaxInt64}
var negAlphabet = []int64{-1, -minFee, math.MinInt64}

type mset struct {
	Vals   []int64
	Sum    *big.Int
	HasNeg bool
}

// multisets returns every multiset (non-decreasing index sequence) of size 1..max over alpha.
func multisets(alpha []int64, max int) []mset {
	var out []mset
	var rec func(start int, cur []int64, left int)
	rec = func(start int, cur []int64, left int) {
		if len(cur) > 0 {
			m := mset{Vals: append([]int64{}, cur...), Sum: new(big.Int)}
			for _, v := range cur {
				m.Sum.Add(m.Sum, big.NewInt(v))
				if v < 0 {
					m.HasNeg = true
				}
			}
			out = append(out, m)
		}
		if left == 0 {
			return
		}
		for i := start; i < len(alpha); i++ {
			rec(i, append(cur, alpha[i]), left-1)
		}
	}
	rec(0, nil, max)
	return out
}

var two63 = new(big.Int).Lsh(big.NewInt(1), 63)

type typeInfo struct {
	T    common2.TxType
	Name string
}

func allTypes() []typeInfo {
	var out []typeInfo
	for b := 0; b < 256; b++ {
		t := common2.TxType(b)
		if _, err := transaction.GetTransaction(t); err == nil && t != common2.CoinBase {
			out = append(out, typeInfo{t, t.Name()})
		}
	}
	return out
}

type fixture struct {
	node  *lightnode.Node
	owner lightnode.Key
	ph    []common.Uint168
}

func newFixture(scr string) *fixture {
	n, err := lightnode.New(filepath.Join(scr, "node"), lightnode.Options{})
	if err != nil {
		evid.Fatalf("light node: %v", err)
	}
	f := &fixture{node: n, owner: lightnode.FixedKey("c01-owner", 0)}
	for i := 0; i < 6; i++ {
		f.ph = append(f.ph, lightnode.FixedKey("c01-payee", i).StandardHash())
	}
	return f
}

func (f *fixture) outputs(t common2.TxType, vals []int64) []*common2.Output {
	var outs []*common2.Output
	for i, v := range vals {
		ph := f.ph[i]
		if t == common2.CRCAppropriation && len(vals) == 2 {
			// the only shape this type's output check admits
			if i == 0 {
				ph = *f.node.Params.CRConfiguration.CRExpensesProgramHash
			} else {
				ph = *f.node.Params.CRConfiguration.CRAssetsProgramHash
			}
		}
		outs = append(outs, lightnode.Output(ph, common.Fixed64(v)))
	}
	return outs
}

func refsOf(vals []int64) (map[*common2.Input]common2.Output, []*common2.Input) {
	m := map[*common2.Input]common2.Output{}
	var ins []*common2.Input
	for i, v := range vals {
		in := &common2.Input{Previous: common2.OutPoint{Index: uint16(i)}}
		in.Previous.TxID[0] = 0xC1
		in.Previous.TxID[1] = byte(i + 1)
		var ph common.Uint168
		ph[0] = 0x21
		ph[1] = byte(i + 1)
		m[in] = common2.Output{AssetID: core.ELAAssetID, Value: common.Fixed64(v), ProgramHash: ph}
		ins = append(ins, in)
	}
	return m, ins
}

// amounts travel as decimal strings: artefacts pass through interface{} (float64) decoding on
// their way from the worker to the replay file, which would round 2^63-1.
type amounts []int64

func (a amounts) MarshalJSON() ([]byte, error) {
	s := make([]string, len(a))
	for i, v := range a {
		s[i] = strconv.FormatInt(v, 10)
	}
	return json.Marshal(s)
}

func (a *amounts) UnmarshalJSON(b []byte) error {
	var s []string
	if err := json.Unmarshal(b, &s); err != nil {
		return err
	}
	*a = (*a)[:0]
	for _, x := range s {
		v, err := strconv.ParseInt(x, 10, 64)
		if err != nil {
			return err
		}
		*a = append(*a, v)
	}
	return nil
}

type caseA struct {
	Type    int     `json:"type"`
	Name    string  `json:"type_name"`
	H       uint32  `json:"h"`
	Outputs amounts `json:"outputs"`
	Inputs  amounts `json:"inputs"`
	Shape   string  `json:"input_shape,omitempty"` // set for the repeated-outpoint cases
}

type verdictA struct {
	OutErr, FeeErr string
	OutOK, FeeOK   bool
	Panic          string
	Fee            int64
	FeeMap         int64
}

func (f *fixture) mkTx(t common2.TxType, outs []*common2.Output, ins []*common2.Input, h uint32) interfaces.Transaction {
	p, _ := interfaces.GetPayload(t, 0)
	tx := transaction.CreateTransaction(common2.TxVersion09, t, 0, p, []*common2.Attribute{}, ins, outs, 0, []*program.Program{})
	tx.SetParameters(f.node.TxParams(tx, h, nil))
	return tx
}

func (f *fixture) eval(c caseA) (v verdictA) {
	defer func() {
		if r := recover(); r != nil {
			v.Panic = fmt.Sprint(r)
		}
	}()
	refs, ins := refsOf(c.Inputs)
	tx := f.mkTx(common2.TxType(c.Type), f.outputs(common2.TxType(c.Type), c.Outputs), ins, c.H)
	if err := tx.CheckTransactionOutput(); err != nil {
		v.OutErr = err.Error()
	} else {
		v.OutOK = true
	}
	if err := tx.CheckTransactionFee(refs); err != nil {
		v.FeeErr = err.Error()
	} else {
		v.FeeOK = true
	}
	v.Fee = int64(transaction.VerifGetTransactionFee(tx, refs))
	v.FeeMap = int64(blockchain.GetTxFee(tx, core.ELAAssetID, refs))
	return
}

// judge returns the violated clause ("" = fine) for an accepted case.
func judge(outs, ins *mset, v verdictA) (clause, what string) {
	if !(v.OutOK && v.FeeOK) {
		return "", ""
	}
	if outs.HasNeg {
		return "negative-output-accepted", "a transaction with a negative output amount passes the per-output check and the fee check"
	}
	if outs.Sum.Cmp(ins.Sum) > 0 {
		switch {
		case outs.Sum.Cmp(two63) >= 0:
			return "value-created|output-sum-wraps", fmt.Sprintf("outputs sum to %s (exactly) but inputs only to %s; the Fixed64 output sum wrapped and the fee check passed", outs.Sum, ins.Sum)
		case ins.Sum.Cmp(two63) >= 0:
			return "value-created|input-sum-wraps", fmt.Sprintf("outputs %s exceed inputs %s (exact); the input sum wrapped", outs.Sum, ins.Sum)
		}
		return "value-created|plain", fmt.Sprintf("outputs %s exceed inputs %s and the fee check passed", outs.Sum, ins.Sum)
	}
	if !outs.Sum.IsInt64() || !ins.Sum.IsInt64() {
		// an input sum beyond int64 needs outputs that only exist after value has been
		// created; the statement promises nothing about fee accounting there
		return "", ""
	}
	exact := new(big.Int).Sub(ins.Sum, outs.Sum)
	if !exact.IsInt64() || exact.Int64() != v.FeeMap {
		return "block-fee-inexact|GetTxFeeMap", fmt.Sprintf("accepted transaction: GetTxFee reports %d, the exact fee is %s", v.FeeMap, exact)
	}
	if exact.Int64() != v.Fee {
		return "fee-inexact|getTransactionFee", fmt.Sprintf("accepted transaction: getTransactionFee reports %d, the exact fee is %s", v.Fee, exact)
	}
	return "", ""
}

type workerOut struct {
	Evals         int64            `json:"evals"`
	OutChecks     int64            `json:"out_checks"`
	Accepted      int64            `json:"accepted"`
	Wrapped       int64            `json:"int64_sum_wrapped"`
	WrappedAcc    int64            `json:"int64_sum_wrapped_and_accepted"`
	Panics        map[string]int   `json:"panics"`
	PerType       map[string][]int `json:"per_type"` // name -> [output multisets passing, fee evaluations, accepted]
	Classes       map[string]int   `json:"classes"`
	Violations    []evid.Violation `json:"violations"`
	Samples       []interface{}    `json:"samples"`
	Confirm       []confirmRes     `json:"confirm"`
	OutAlphabet   []int64          `json:"out_alphabet"`
	NOutSets      int              `json:"output_multisets"`
	NInSets       int              `json:"input_multisets"`
	NInSetsBase   int              `json:"input_multisets_baseline"`
	Incomplete    bool             `json:"incomplete"`
	ShapeEvals    int64            `json:"input_shape_evaluations"`
	ShapeAccepted int64            `json:"input_shape_accepted"`
	Gates         int              `json:"height_gates"`
	GateHeights   int              `json:"gate_heights"`
	GateEvals     int64            `json:"gate_evaluations"`
	GateAccepted  int64            `json:"gate_accepted"`
	GatePanics    int64            `json:"gate_panics"`
}

func wraps(m *mset) bool { return !m.Sum.IsInt64() }

func runEnum(r *evid.Run, scr string) workerOut {
	f := newFixture(scr)
	defer f.node.Close()
	outAlpha := append(append([]int64{}, inAlphabet...), negAlphabet...)
	maxOut, maxIn, maxInBase := 4, 2, 3
	heightsOut := []uint32{100, 1405000, 1405001, 3000000}
	heightsFee := []uint32{100, 3000000}
	if r.Thorough() {
		maxOut, maxIn = 5, 3
		heightsFee = heightsOut
	}
	outSets := multisets(outAlpha, maxOut)
	// the EMPTY reference set first (a transaction without inputs), then all multisets
	inSetsBase := append([]mset{{Vals: []int64{}, Sum: new(big.Int)}}, multisets(inAlphabet, maxInBase)...)
	nIn := 0
	for _, m := range inSetsBase {
		if len(m.Vals) <= maxIn {
			nIn++
		}
	}
	types := allTypes()
	res := workerOut{Panics: map[string]int{}, PerType: map[string][]int{}, Classes: map[string]int{}, OutAlphabet: outAlpha,
		NOutSets: len(outSets), NInSets: nIn, NInSetsBase: len(inSetsBase)}
	var mu sync.Mutex
	viol := map[string]*evid.Violation{}
	addViol := func(sig, what string, c caseA) {
		mu.Lock()
		if v, ok := viol[sig]; ok {
			v.Count++
			// keep the smallest example (fewest amounts, then lexicographically) so that the
			// artefact does not depend on goroutine scheduling
			old := v.Artefact.(map[string]interface{})["case"].(caseA)
			if less(c, old) {
				v.What = what
				v.Artefact = map[string]interface{}{"kind": "enum", "case": c}
			}
		} else {
			viol[sig] = &evid.Violation{Signature: sig, What: what, Artefact: map[string]interface{}{"kind": "enum", "case": c}, Count: 1}
		}
		mu.Unlock()
	}

	// references are shared read-only
	type inRef struct {
		refs map[*common2.Input]common2.Output
		ins  []*common2.Input
	}
	inRefs := make([]inRef, len(inSetsBase))
	for i, m := range inSetsBase {
		inRefs[i].refs, inRefs[i].ins = refsOf(m.Vals)
	}

	// baseline: TransferAsset verdicts, indexed [heightFeeIdx][outSet][inSet]
	baseIdx := -1
	for i, t := range types {
		if t.T == common2.TransferAsset {
			baseIdx = i
		}
	}
	if baseIdx < 0 {
		evid.Fatalf("TransferAsset missing")
	}
	baseAcc := make([][]bool, len(heightsFee))
	baseOut := make([][]bool, len(heightsOut))

	doType := func(ti int, isBase bool) {
		t := types[ti]
		var nPass, nFee, nAcc int
		classes := map[string]int{}
		panics := map[string]int{}
		var evals, outChecks, accepted, wrapped, wrappedAcc int64
		for hi, h := range heightsOut {
			feeIdx := -1
			for k, hf := range heightsFee {
				if hf == h {
					feeIdx = k
				}
			}
			if isBase {
				baseOut[hi] = make([]bool, len(outSets))
				if feeIdx >= 0 {
					baseAcc[feeIdx] = make([]bool, len(outSets)*len(inSetsBase))
				}
			}
			if !isBase && feeIdx >= 0 && !r.Thorough() && h != heightsFee[len(heightsFee)-1] {
				feeIdx = -1
			}
			for oi := range outSets {
				if oi%256 == 0 && r.Expired() {
					mu.Lock()
					res.Incomplete = true
					mu.Unlock()
					break
				}
				om := &outSets[oi]
				outs := f.outputs(t.T, om.Vals)
				tx := f.mkTx(t.T, outs, nil, h)
				outOK, outErr, pan := func() (ok bool, e string, p string) {
					defer func() {
						if r := recover(); r != nil {
							p = fmt.Sprint(r)
						}
					}()
					if err := tx.CheckTransactionOutput(); err != nil {
						return false, err.Error(), ""
					}
					return true, "", ""
				}()
				outChecks++
				if pan != "" {
					panics["CheckTransactionOutput: "+trim(pan)]++
					continue
				}
				if isBase {
					baseOut[hi][oi] = outOK
				}
				cls := "out-rejected"
				if outOK {
					cls = "out-ok"
					nPass++
				}
				if om.HasNeg {
					cls += "|negative-amount"
				}
				classes[fmt.Sprintf("h=%d|n=%d|%s|%s", h, len(om.Vals), cls, outErr)]++
				if !outOK || feeIdx < 0 {
					continue
				}
				for ii := range inSetsBase {
					im := &inSetsBase[ii]
					if !isBase && len(im.Vals) > maxIn {
						continue
					}
					tx.SetInputs(inRefs[ii].ins)
					var v verdictA
					v.OutOK = true
					func() {
						defer func() {
							if r := recover(); r != nil {
								v.Panic = fmt.Sprint(r)
							}
						}()
						if err := tx.CheckTransactionFee(inRefs[ii].refs); err == nil {
							v.FeeOK = true
						}
						if v.FeeOK {
							v.Fee = int64(transaction.VerifGetTransactionFee(tx, inRefs[ii].refs))
							v.FeeMap = int64(blockchain.GetTxFee(tx, core.ELAAssetID, inRefs[ii].refs))
						}
					}()
					evals++
					nFee++
					if v.Panic != "" {
						panics["CheckTransactionFee: "+trim(v.Panic)]++
						continue
					}
					w := wraps(om) || wraps(im)
					if w {
						wrapped++
					}
					if isBase {
						baseAcc[feeIdx][oi*len(inSetsBase)+ii] = v.FeeOK
					}
					if !v.FeeOK {
						continue
					}
					accepted++
					nAcc++
					if w {
						wrappedAcc++
					}
					if clause, what := judge(om, im, v); clause != "" {
						// the common fee arithmetic is one defect: name the type only when its
						// verdict differs from the baseline type's on the same amounts
						site := "common"
						if !isBase && !(baseOut[hi][oi] && baseAcc[feeIdx] != nil && baseAcc[feeIdx][oi*len(inSetsBase)+ii]) {
							site = t.Name
						}
						addViol("C01|"+clause+"|"+site, what, caseA{Type: int(t.T), Name: t.Name, H: h, Outputs: om.Vals, Inputs: im.Vals})
					}
				}
			}
		}
		mu.Lock()
		res.PerType[t.Name] = []int{nPass, nFee, nAcc}
		for k, v := range classes {
			res.Classes[k] += v
		}
		for k, v := range panics {
			res.Panics[t.Name+": "+k] += v
		}
		mu.Unlock()
		atomic.AddInt64(&res.Evals, evals)
		atomic.AddInt64(&res.OutChecks, outChecks)
		atomic.AddInt64(&res.Accepted, accepted)
		atomic.AddInt64(&res.Wrapped, wrapped)
		atomic.AddInt64(&res.WrappedAcc, wrappedAcc)
	}
	doType(baseIdx, true)
	par.Go(len(types), func(ti int) {
		if ti != baseIdx {
			doType(ti, false)
		}
	})
	f.runInputShapes(&res, addViol)
	f.runGates(&res, addViol)
	var sigs []string
	for s := range viol {
		sigs = append(sigs, s)
	}
	sort.Strings(sigs)
	for _, s := range sigs {
		res.Violations = append(res.Violations, *viol[s])
	}
	// samples: the classic vector
	for _, c := range []caseA{
		{Type: int(common2.TransferAsset), Name: "TransferAsset", H: 3000000, Outputs: []int64{1 << 62, 1 << 62, 1 << 62, 1 << 62}, Inputs: []int64{minFee}},
		{Type: int(common2.TransferAsset), Name: "TransferAsset", H: 3000000, Outputs: []int64{1, 1}, Inputs: []int64{minFee + 2}},
	} {
		v := f.eval(c)
		res.Samples = append(res.Samples, map[string]interface{}{"case": c, "verdict": v})
	}
	res.Confirm = f.confirm()
	return res
}

func trim(s string) string {
	if len(s) > 60 {
		return s[:60]
	}
	return s
}

func less(a, b caseA) bool {
	if len(a.Outputs)+len(a.Inputs) != len(b.Outputs)+len(b.Inputs) {
		return len(a.Outputs)+len(a.Inputs) < len(b.Outputs)+len(b.Inputs)
	}
	if (a.Type == int(common2.TransferAsset)) != (b.Type == int(common2.TransferAsset)) {
		return a.Type == int(common2.TransferAsset)
	}
	if a.Type != b.Type {
		return a.Type < b.Type
	}
	if a.H != b.H {
		return a.H < b.H
	}
	x, _ := json.Marshal(a)
	y, _ := json.Marshal(b)
	return string(x) < string(y)
}

// ---------------------------------------------------------------------------------------------
// (a') light-node confirmation with signed transactions and real unspent outputs

type confirmRes struct {
	Name           string  `json:"name"`
	Outputs        amounts `json:"outputs"`
	InputValue     int64   `json:"input_value"` // value of the DISTINCT outputs spent
	Inputs         int     `json:"inputs_listed"`
	DistinctInputs int     `json:"distinct_outpoints"`
	ExactOutSum    string  `json:"exact_output_sum"`
	Sanity         string  `json:"sanity"`
	Context        string  `json:"context"`
	Pool           string  `json:"pool"`
	Accepted       bool    `json:"accepted"`
	PoolAccepted   bool    `json:"pool_accepted"`
}

func (f *fixture) confirm() []confirmRes {
	n := f.node
	oh := f.owner.StandardHash()
	var fundOuts []*common2.Output
	for i := 0; i < 64; i++ {
		fundOuts = append(fundOuts, lightnode.Output(oh, 1000))
	}
	fund, err := n.Fund("c01", fundOuts...)
	if err != nil {
		evid.Fatalf("fund: %v", err)
	}
	pool := mempool.NewTxPool(n.Params, n.Ckp)
	type vec struct {
		name string
		outs []int64
		ins  []inRef // nil = one input
	}
	vectors := []vec{
		{"control: 900 from 1000", []int64{900}, nil},
		{"control: outputs exceed input without wrap", []int64{600, 600}, nil},
		{"four outputs of 2^62", []int64{1 << 62, 1 << 62, 1 << 62, 1 << 62}, nil},
		{"2^63-1, 2^63-1, 2 and 900", []int64{math.MaxInt64, math.MaxInt64, 2, 900}, nil},
		{"two outputs of 2^62 (sum wraps negative)", []int64{1 << 62, 1 << 62}, nil},
		{"control: two distinct inputs, 1900 out", []int64{1900}, []inRef{{0, 0}, {1, 0}}},
	}
	// the same outpoint listed several times (equal / different Sequence), alone and next to a
	// distinct outpoint, outputs between 1x and kx the referenced value
	for _, sh := range inputShapes() {
		k := int64(len(sh.Ins))
		seen := map[int64]bool{}
		for _, total := range []int64{900, 1000*k - 1100, 1000*k - 100} {
			if total <= 0 || seen[total] {
				continue
			}
			seen[total] = true
			vectors = append(vectors, vec{fmt.Sprintf("inputs %s, %d out", sh.Name, total), []int64{total}, sh.Ins})
		}
	}
	var out []confirmRes
	next := 0
	for i, vct := range vectors {
		var outs []*common2.Output
		sum := new(big.Int)
		for k, v := range vct.outs {
			outs = append(outs, lightnode.Output(f.ph[k], common.Fixed64(v)))
			sum.Add(sum, big.NewInt(v))
		}
		attr := common2.NewAttribute(common2.Nonce, []byte(fmt.Sprintf("c01-%d", i)))
		shape := vct.ins
		if shape == nil {
			shape = []inRef{{0, 0}}
		}
		var ins []*common2.Input
		distinct := map[int]bool{}
		for _, ir := range shape {
			in := lightnode.Input(fund, next+ir.Slot)
			in.Sequence = ir.Seq
			ins = append(ins, in)
			distinct[ir.Slot] = true
		}
		next += len(distinct)
		if next > 60 {
			evid.Fatalf("C01 confirmation fixture: not enough funded outputs")
		}
		tx := transaction.CreateTransaction(common2.TxVersion09, common2.TransferAsset, 0, &payload.TransferAsset{},
			[]*common2.Attribute{&attr}, ins, outs, 0, nil)
		p, err := lightnode.SignStandard(tx, f.owner)
		if err != nil {
			evid.Fatalf("sign: %v", err)
		}
		tx.SetPrograms([]*program.Program{p})
		c := confirmRes{Name: vct.name, Outputs: vct.outs, InputValue: 1000 * int64(len(distinct)), ExactOutSum: sum.String(),
			Inputs: len(ins), DistinctInputs: len(distinct)}
		h := n.Chain.GetHeight() + 1
		func() {
			defer func() {
				if r := recover(); r != nil {
					c.Context = "panic: " + fmt.Sprint(r)
				}
			}()
			c.Sanity, c.Context = "accepted", "accepted"
			if e := n.Chain.CheckTransactionSanity(h, tx); e != nil {
				c.Sanity = e.Error()
				c.Context = "-"
				return
			}
			if _, e := n.Chain.CheckTransactionContext(h, tx, 0, 0); e != nil {
				c.Context = e.Error()
			}
		}()
		c.Accepted = c.Sanity == "accepted" && c.Context == "accepted"
		func() {
			defer func() {
				if r := recover(); r != nil {
					c.Pool = "panic: " + fmt.Sprint(r)
				}
			}()
			c.Pool = "accepted"
			if e := pool.AppendToTxPoolWithoutEvent(tx); e != nil {
				c.Pool = e.Error()
			}
		}()
		c.PoolAccepted = c.Pool == "accepted"
		out = append(out, c)
	}
	return out
}

func judgeConfirm(r *evid.Run, cs []confirmRes) {
	for _, c := range cs {
		sum, _ := new(big.Int).SetString(c.ExactOutSum, 10)
		creates := sum.Cmp(big.NewInt(c.InputValue)) > 0
		art := map[string]interface{}{"kind": "confirm", "case": c}
		if (c.Name == "control: 900 from 1000" || c.Name == "control: two distinct inputs, 1900 out") && !(c.Accepted && c.PoolAccepted) {
			evid.Fatalf("C01 confirmation fixture: the control transaction is not accepted: %+v", c)
		}
		if creates && (c.Accepted || c.PoolAccepted) {
			clause := "plain"
			if sum.Cmp(two63) >= 0 {
				clause = "output-sum-wraps"
			} else if c.Inputs > c.DistinctInputs {
				clause = "outpoint-counted-twice"
			}
			r.Violate("C01|value-created|"+clause+"|signed-transaction-accepted",
				fmt.Sprintf("a signed TransferAsset (%s) spending %d distinct 1000-sela output(s) with outputs %v (exact sum %s) passes CheckTransactionSanity + CheckTransactionContext (%s / %s) and/or the pool (%s)", c.Name, c.DistinctInputs, c.Outputs, c.ExactOutSum, c.Sanity, c.Context, c.Pool), art)
		}
	}
}

func main() {
	r := evid.Start("C01", "exploration")
	scr := evid.Scratch("c01")
	defer os.RemoveAll(scr)
	hx.QuietLogs(filepath.Join(scr, "log"))

	if job, ok := par.Worker(); ok {
		if job == "ap" {
			par.Announce("ap")
			par.Emit(runAPConfirm(scr))
			os.RemoveAll(scr)
			return
		}
		par.Announce("enum")
		par.Emit(runEnum(r, scr))
		os.RemoveAll(scr)
		return
	}

	if r.Replay != "" {
		var a struct {
			Kind string          `json:"kind"`
			Case json.RawMessage `json:"case"`
		}
		sig := r.LoadReplay(&a)
		fmt.Printf("replaying %s\n", sig)
		f := newFixture(scr)
		switch a.Kind {
		case "enum":
			var c caseA
			json.Unmarshal(a.Case, &c)
			if c.Shape == "gate" {
				var w workerOut
				w.Classes, w.Panics = map[string]int{}, map[string]int{}
				f.runGates(&w, func(s2, what string, c2 caseA) {
					if s2 == sig {
						fmt.Printf("  %s\n", what)
						r.Violate(s2, what, map[string]interface{}{"kind": "enum", "case": c2})
					}
				})
				f.node.Close()
				os.RemoveAll(scr)
				r.Finish(evid.Coverage{})
			}
			if c.Shape != "" {
				for _, sh := range allShapes() {
					if sh.Name != c.Shape {
						continue
					}
					inOK, outOK, feeOK, distinct, pan := f.evalShape(common2.TxType(c.Type), c.H, sh, c.Outputs[0])
					fmt.Printf("case %+v: input check ok=%v, output check ok=%v, fee check ok=%v, distinct outpoints=%d %s\n", c, inOK, outOK, feeOK, distinct, pan)
					if bad, what := judgeShape(sh, distinct, c.Outputs[0]); bad && inOK && outOK && feeOK && pan == "" {
						r.Violate(sig, what, map[string]interface{}{"kind": "enum", "case": c})
					}
				}
				f.node.Close()
				os.RemoveAll(scr)
				r.Finish(evid.Coverage{})
			}
			v := f.eval(c)
			om, im := mkSet(c.Outputs), mkSet(c.Inputs)
			fmt.Printf("case %+v\n  per-output check: ok=%v %s\n  fee check: ok=%v %s\n  getTransactionFee=%d GetTxFee=%d exact outputs=%s inputs=%s\n",
				c, v.OutOK, v.OutErr, v.FeeOK, v.FeeErr, v.Fee, v.FeeMap, om.Sum, im.Sum)
			if clause, what := judge(&om, &im, v); clause != "" {
				r.Violate(sig, what, map[string]interface{}{"kind": "enum", "case": c})
			}
		case "ap":
			f.node.Close()
			aps := runAPConfirm(filepath.Join(scr, "ap"))
			for _, a := range aps {
				fmt.Printf("%+v\n", a)
			}
			judgeAP(r, aps)
			os.RemoveAll(scr)
			r.Finish(evid.Coverage{})
		case "confirm":
			cs := f.confirm()
			for _, c := range cs {
				fmt.Printf("%+v\n", c)
			}
			judgeConfirm(r, cs)
		}
		f.node.Close()
		os.RemoveAll(scr)
		r.Finish(evid.Coverage{})
	}

	results := par.Procs([]string{"enum", "ap"}, scr, par.Opts{Timeout: 60 * 60e9, MemMB: 8192})
	w := results[0]
	if results[1].Died || results[1].Out == nil {
		os.RemoveAll(scr)
		evid.Fatalf("ActivateProducer confirmation worker died: %s", results[1].Stderr)
	}
	var aps []apRes
	if err := json.Unmarshal(results[1].Out, &aps); err != nil {
		os.RemoveAll(scr)
		evid.Fatalf("ap worker output: %v", err)
	}
	if w.Died || w.Out == nil {
		os.RemoveAll(scr)
		evid.Fatalf("worker died (timeout=%v, announced %q): %s", w.TimedOut, w.Announced, w.Stderr)
	}
	var x workerOut
	if err := json.Unmarshal(w.Out, &x); err != nil {
		os.RemoveAll(scr)
		evid.Fatalf("worker output: %v", err)
	}
	os.RemoveAll(scr)
	for _, v := range x.Violations {
		r.MergeViolation(v)
	}
	judgeConfirm(r, x.Confirm)
	judgeAP(r, aps)
	var pan []string
	for k, v := range x.Panics {
		pan = append(pan, fmt.Sprintf("%s x%d", k, v))
	}
	sort.Strings(pan)
	r.Assume = append(r.Assume,
		"amount alphabet {0,1,minFee-1,minFee,10^8,2^31,2^53+1,2^62-1,2^62,2^62+1,2^63-1-minFee,2^63-1}; outputs additionally {-1,-minFee,-2^63} (individually invalid amounts, to see a missing per-output guard)",
		"quick: every type over all output multisets of size 1..4 x the empty reference set and input multisets of size 1..2, the baseline type (TransferAsset) also size 3; thorough: sizes 5 / 3 for every type",
		"outputs pay standard addresses with default payloads (CRCAppropriation: its two fixed addresses); types whose output check admits no such output are covered only by that rejection",
		"'accepted' in part (a) = per-output check passed and fee check passed (what the statement's second sentence speaks about); types whose SpecialContextCheck ends validation early do not reach the fee check in the node",
		"coinbase is outside the statement")
	samples := append([]interface{}{}, x.Samples...)
	for _, c := range x.Confirm {
		samples = append(samples, c)
	}
	r.Finish(evid.Coverage{
		"evaluations":         x.Evals + x.OutChecks + x.ShapeEvals + x.GateEvals + int64(len(x.Confirm)),
		"distinct_nontrivial": len(x.Classes),
		"rule": "every non-coinbase transaction type x heights x all output multisets over the 15-value alphabet (per-output check) x all input multisets over the 12-value alphabet (fee check on those that passed): accepted => no negative output and exact sum(outputs) <= exact sum(inputs) and GetTxFee exact; plus signed TransferAsset vectors on a light node through CheckTransactionSanity/Context and the pool. " +
			"non-trivial = distinct (height, output count, per-output verdict, error) classes",
		"exhaustive":                     !x.Incomplete,
		"fee_evaluations":                x.Evals,
		"output_checks":                  x.OutChecks,
		"accepted":                       x.Accepted,
		"int64_sum_wrapped":              x.Wrapped,
		"int64_sum_wrapped_and_accepted": x.WrappedAcc,
		"output_multisets":               x.NOutSets,
		"input_multisets":                x.NInSets,
		"input_multisets_baseline":       x.NInSetsBase,
		"tx_types":                       len(x.PerType),
		"per_type[passing output sets, fee evaluations, accepted]": x.PerType,
		"harness_panics":                       pan,
		"input_shape_evaluations":              x.ShapeEvals,
		"input_shape_accepted":                 x.ShapeAccepted,
		"height_gates":                         x.Gates,
		"gate_heights":                         x.GateHeights,
		"gate_evaluations":                     x.GateEvals,
		"gate_accepted":                        x.GateAccepted,
		"gate_panics":                          x.GatePanics,
		"light_node_confirm":                   x.Confirm,
		"light_node_confirm_activate_producer": aps,
		"samples":                              samples,
	})
}

func judgeAP(r *evid.Run, aps []apRes) {
	for _, a := range aps {
		art := map[string]interface{}{"kind": "ap", "case": a}
		m := mkSet(a.Outputs)
		if a.Control && !a.Accepted {
			evid.Fatalf("C01 ActivateProducer fixture: a control transaction is not accepted: %+v", a)
		}
		if !a.Accepted {
			continue
		}
		site := "ActivateProducer"
		if a.Path == "cr-member" {
			site = "ActivateProducer(council-member path)"
		}
		desc := fmt.Sprintf("a signed ActivateProducer (%s path, %s, height %d) listing %d input(s) over %d distinct 1000-sela output(s) with outputs %v passes the complete SanityCheck and ContextCheck", a.Path, a.Name, a.H, a.Inputs, a.Distinct, a.Outputs)
		switch {
		case m.HasNeg:
			r.Violate("C01|negative-output-accepted|"+site, desc, art)
		case m.Sum.Cmp(big.NewInt(a.Input)) <= 0:
			// value is conserved
		case !m.Sum.IsInt64():
			r.Violate("C01|value-created|output-sum-wraps|"+site, desc, art)
		case a.Inputs > a.Distinct:
			r.Violate("C01|value-created|outpoint-counted-twice|"+site, desc, art)
		default:
			r.Violate("C01|value-created|fee-check-skipped|"+site, desc+": nothing compared the outputs with the inputs", art)
		}
	}
}

func mkSet(vals []int64) mset {
	m := mset{Vals: vals, Sum: new(big.Int)}
	for _, v := range vals {
		m.Sum.Add(m.Sum, big.NewInt(v))
		if v < 0 {
			m.HasNeg = true
		}
	}
	return m
}
