package main

import (
	"fmt"
	"time"
)

func bench() {
	fams, _ := familiesFor("quick")
	al := fams[0]
	hist := []string{"sub:0", "mine:pool", "fork:1:1", "ext:-"}
	t0 := time.Now()
	for i := 0; i < 20; i++ {
		t1 := time.Now()
		w := newWorld(&al)
		t2 := time.Now()
		for _, o := range hist {
			if f := w.apply(o); f != nil {
				fmt.Println("fail", f)
			}
		}
		t3 := time.Now()
		d := w.digest()
		t4 := time.Now()
		w.close()
		t5 := time.Now()
		if true {
			fmt.Println("new+prefix", t2.Sub(t1), "ops", t3.Sub(t2), "digest", t4.Sub(t3), "close", t5.Sub(t4), d[:8])
		}
	}
	fmt.Println("avg", time.Since(t0)/20)
}
