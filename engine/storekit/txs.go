package storekit

import (
	"github.com/elastos/Elastos.ELA/common"
	"github.com/elastos/Elastos.ELA/core"
	"github.com/elastos/Elastos.ELA/core/contract/program"
	common2 "github.com/elastos/Elastos.ELA/core/types/common"
	"github.com/elastos/Elastos.ELA/core/types/functions"
	"github.com/elastos/Elastos.ELA/core/types/interfaces"
	"github.com/elastos/Elastos.ELA/core/types/outputpayload"
	"github.com/elastos/Elastos.ELA/core/types/payload"
)

// Addr returns a deterministic standard-prefixed program hash for a small tag.
func Addr(tag byte) common.Uint168 {
	var a common.Uint168
	a[0] = 0x21 // PrefixStandard
	for i := 1; i < len(a); i++ {
		a[i] = tag
	}
	return a
}

// XAddr returns a deterministic cross-chain-prefixed program hash ("X…" addresses).
func XAddr(tag byte) common.Uint168 {
	a := Addr(tag)
	a[0] = 0x4b // PrefixCrossChain
	return a
}

var (
	MinerAddr = Addr(0xee)
)

// H returns a deterministic 32-byte value for a tag string (sha256d of it).
func H(tag string) common.Uint256 { return common.Hash([]byte(tag)) }

// Out is a plain (OTNone) ELA output.
func Out(to common.Uint168, value int64) *common2.Output {
	return &common2.Output{
		AssetID:     core.ELAAssetID,
		Value:       common.Fixed64(value),
		ProgramHash: to,
		Type:        common2.OTNone,
		Payload:     &outputpayload.DefaultOutput{},
	}
}

// In references output idx of transaction id.
func In(id common.Uint256, idx uint16) *common2.Input {
	return &common2.Input{Previous: common2.OutPoint{TxID: id, Index: idx}, Sequence: 0}
}

func noProgs() []*program.Program { return []*program.Program{} }
func noAttrs() []*common2.Attribute {
	return []*common2.Attribute{}
}

// Coinbase builds a coinbase whose hash depends on height and tag.
func Coinbase(height uint32, tag []byte, outs ...*common2.Output) interfaces.Transaction {
	return functions.CreateTransaction(
		common2.TxVersion09, common2.CoinBase, payload.CoinBaseVersion,
		&payload.CoinBase{Content: append([]byte("verif"), tag...)},
		noAttrs(),
		[]*common2.Input{{Previous: common2.OutPoint{TxID: common.EmptyHash, Index: 0xffff}, Sequence: 0xffffffff}},
		outs, height, noProgs())
}

// Transfer builds a TransferAsset; nonce makes otherwise equal transfers distinct.
func Transfer(nonce byte, ins []*common2.Input, outs []*common2.Output) interfaces.Transaction {
	return functions.CreateTransaction(
		common2.TxVersion09, common2.TransferAsset, 0,
		&payload.TransferAsset{},
		[]*common2.Attribute{{Usage: common2.Nonce, Data: []byte{nonce}}},
		ins, outs, 0, noProgs())
}

// Typed builds a transaction of any type with the given payload; inputs/outputs are ordinary.
func Typed(txType common2.TxType, payloadVersion byte, p interfaces.Payload, nonce byte,
	ins []*common2.Input, outs []*common2.Output) interfaces.Transaction {
	return functions.CreateTransaction(
		common2.TxVersion09, txType, payloadVersion, p,
		[]*common2.Attribute{{Usage: common2.Nonce, Data: []byte{nonce}}},
		ins, outs, 0, noProgs())
}

// WithdrawV0 carries the side-chain hashes in its payload.
func WithdrawV0(nonce byte, ins []*common2.Input, to common.Uint168, value int64, hashes ...common.Uint256) interfaces.Transaction {
	p := &payload.WithdrawFromSideChain{BlockHeight: 7, GenesisBlockAddress: "XKUh4GLhFJiqAMTF6HyWQrV9pK9HcGUdfJ", SideChainTransactionHashes: hashes}
	return Typed(common2.WithdrawFromSideChain, payload.WithdrawFromSideChainVersion, p, nonce, ins, []*common2.Output{Out(to, value)})
}

// WithdrawOut is an OTWithdrawFromSideChain output carrying one side-chain hash.
func WithdrawOut(to common.Uint168, value int64, h common.Uint256) *common2.Output {
	return &common2.Output{
		AssetID: core.ELAAssetID, Value: common.Fixed64(value), ProgramHash: to,
		Type: common2.OTWithdrawFromSideChain,
		Payload: &outputpayload.Withdraw{Version: 0, GenesisBlockAddress: "XKUh4GLhFJiqAMTF6HyWQrV9pK9HcGUdfJ",
			SideChainTransactionHash: h, TargetData: []byte{}},
	}
}

// WithdrawV1 / WithdrawV2 carry the side-chain hashes in their outputs (v2 = schnorr signers).
func WithdrawV1(nonce byte, ins []*common2.Input, outs ...*common2.Output) interfaces.Transaction {
	return Typed(common2.WithdrawFromSideChain, payload.WithdrawFromSideChainVersionV1, &payload.WithdrawFromSideChain{}, nonce, ins, outs)
}

func WithdrawV2(nonce byte, ins []*common2.Input, outs ...*common2.Output) interfaces.Transaction {
	return Typed(common2.WithdrawFromSideChain, payload.WithdrawFromSideChainVersionV2, &payload.WithdrawFromSideChain{Signers: []uint8{0, 1, 2}}, nonce, ins, outs)
}

// ReturnDeposit builds a ReturnSideChainDepositCoin with one OTReturnSideChainDepositCoin output
// per deposit hash.
func ReturnDeposit(nonce byte, ins []*common2.Input, to common.Uint168, value int64, deposits ...common.Uint256) interfaces.Transaction {
	var outs []*common2.Output
	for _, d := range deposits {
		outs = append(outs, &common2.Output{
			AssetID: core.ELAAssetID, Value: common.Fixed64(value), ProgramHash: to,
			Type:    common2.OTReturnSideChainDepositCoin,
			Payload: &outputpayload.ReturnSideChainDeposit{Version: 0, GenesisBlockAddress: "XKUh4GLhFJiqAMTF6HyWQrV9pK9HcGUdfJ", DepositTransactionHash: d},
		})
	}
	return Typed(common2.ReturnSideChainDepositCoin, 0, &payload.ReturnSideChainDepositCoin{}, nonce, ins, outs)
}

// Proposal builds a normal CRCProposal (payload version 01: draft data on chain) whose draft
// hash is the hash of draft, as validation requires.
func Proposal(nonce byte, ins []*common2.Input, outs []*common2.Output, draft []byte) interfaces.Transaction {
	p := &payload.CRCProposal{
		ProposalType:             payload.Normal,
		CategoryData:             "verif",
		OwnerKey:                 bytes33(0x02, nonce),
		DraftHash:                common.Hash(draft),
		DraftData:                draft,
		Budgets:                  []payload.Budget{{Type: payload.Imprest, Stage: 0, Amount: 10}, {Type: payload.FinalPayment, Stage: 1, Amount: 20}},
		Recipient:                Addr(0x77),
		Signature:                []byte{1},
		CRCouncilMemberDID:       didAddr(1),
		CRCouncilMemberSignature: []byte{2},
	}
	return Typed(common2.CRCProposal, payload.CRCProposalVersion01, p, nonce, ins, outs)
}

// Review builds a CRCProposalReview (payload version 01: opinion data on chain).
func Review(nonce byte, ins []*common2.Input, outs []*common2.Output, proposal common.Uint256, member byte, opinion []byte) interfaces.Transaction {
	p := &payload.CRCProposalReview{
		ProposalHash: proposal,
		VoteResult:   payload.Approve,
		OpinionHash:  common.Hash(opinion),
		OpinionData:  opinion,
		DID:          didAddr(member),
		Signature:    []byte{3},
	}
	return Typed(common2.CRCProposalReview, payload.CRCProposalReviewVersion01, p, nonce, ins, outs)
}

// Tracking builds a CRCProposalTracking (payload version 01: message and opinion data on chain).
func Tracking(nonce byte, ins []*common2.Input, outs []*common2.Output, proposal common.Uint256, message, sgOpinion []byte) interfaces.Transaction {
	p := &payload.CRCProposalTracking{
		ProposalHash:                proposal,
		MessageHash:                 common.Hash(message),
		MessageData:                 message,
		Stage:                       1,
		OwnerKey:                    bytes33(0x02, 0x31),
		NewOwnerKey:                 []byte{},
		OwnerSignature:              []byte{4},
		NewOwnerSignature:           []byte{},
		ProposalTrackingType:        payload.Progress,
		SecretaryGeneralOpinionHash: common.Hash(sgOpinion),
		SecretaryGeneralOpinionData: sgOpinion,
		SecretaryGeneralSignature:   []byte{5},
	}
	return Typed(common2.CRCProposalTracking, payload.CRCProposalTrackingVersion01, p, nonce, ins, outs)
}

// RegisterProducer / RegisterCR carry plausible payloads (never verified at the store seam).
func RegisterProducer(nonce byte, ins []*common2.Input, outs []*common2.Output) interfaces.Transaction {
	p := &payload.ProducerInfo{
		OwnerKey: bytes33(0x03, nonce), NodePublicKey: bytes33(0x02, nonce),
		NickName: "verif", Url: "http://verif", Location: 1, NetAddress: "127.0.0.1:20338", Signature: []byte{6},
	}
	return Typed(common2.RegisterProducer, payload.ProducerInfoVersion, p, nonce, ins, outs)
}

func RegisterCR(nonce byte, ins []*common2.Input, outs []*common2.Output) interfaces.Transaction {
	p := &payload.CRInfo{
		Code: append(bytes33(0x21, nonce), 0xac), CID: Addr(0x67), DID: didAddr(nonce),
		NickName: "verif", Url: "http://verif", Location: 1, Signature: []byte{7},
	}
	return Typed(common2.RegisterCR, payload.CRInfoDIDVersion, p, nonce, ins, outs)
}

// VoteOut is an OTVote output voting for one producer candidate.
func VoteOut(to common.Uint168, value int64) *common2.Output {
	return &common2.Output{
		AssetID: core.ELAAssetID, Value: common.Fixed64(value), ProgramHash: to,
		Type: common2.OTVote,
		Payload: &outputpayload.VoteOutput{Version: outputpayload.VoteProducerAndCRVersion, Contents: []outputpayload.VoteContent{
			{VoteType: outputpayload.Delegate, CandidateVotes: []outputpayload.CandidateVotes{{Candidate: bytes33(0x03, 0x11), Votes: common.Fixed64(value)}}},
		}},
	}
}

func bytes33(first, fill byte) []byte {
	b := make([]byte, 33)
	b[0] = first
	for i := 1; i < 33; i++ {
		b[i] = fill
	}
	return b
}

func didAddr(tag byte) common.Uint168 {
	a := Addr(tag)
	a[0] = 0x67
	return a
}

// NextTurn builds a NextTurnDPOSInfo transaction: no inputs and no outputs (the node creates
// these itself at every arbiter turn), so the unspent index never holds an entry for it.
func NextTurn(nonce byte, workingHeight uint32) interfaces.Transaction {
	p := &payload.NextTurnDPOSInfo{
		WorkingHeight:  workingHeight,
		CRPublicKeys:   [][]byte{bytes33(0x02, nonce)},
		DPOSPublicKeys: [][]byte{bytes33(0x03, nonce)},
	}
	return functions.CreateTransaction(
		common2.TxVersion09, common2.NextTurnDPOSInfo, payload.NextTurnDPOSInfoVersion, p,
		[]*common2.Attribute{{Usage: common2.Nonce, Data: []byte{nonce}}},
		[]*common2.Input{}, []*common2.Output{}, 0, noProgs())
}

// ReturnDepositOut is one OTReturnSideChainDepositCoin output carrying a deposit hash.
func ReturnDepositOut(to common.Uint168, value int64, d common.Uint256) *common2.Output {
	return &common2.Output{
		AssetID: core.ELAAssetID, Value: common.Fixed64(value), ProgramHash: to,
		Type:    common2.OTReturnSideChainDepositCoin,
		Payload: &outputpayload.ReturnSideChainDeposit{Version: 0, GenesisBlockAddress: "XKUh4GLhFJiqAMTF6HyWQrV9pK9HcGUdfJ", DepositTransactionHash: d},
	}
}

// ReturnDepositTx builds a ReturnSideChainDepositCoin transaction from arbitrary outputs (return
// outputs and ordinary change outputs in any order).
func ReturnDepositTx(nonce byte, ins []*common2.Input, outs ...*common2.Output) interfaces.Transaction {
	return Typed(common2.ReturnSideChainDepositCoin, 0, &payload.ReturnSideChainDepositCoin{}, nonce, ins, outs)
}

// WithPayloadVersion returns tx after setting its payload version (legacy variants: the payload
// data fields that the version does not serialise simply stay unused).
func WithPayloadVersion(tx interfaces.Transaction, v byte) interfaces.Transaction {
	tx.SetPayloadVersion(v)
	return tx
}

// FanOut builds a transfer with n equal outputs to one address.
func FanOut(nonce byte, ins []*common2.Input, to common.Uint168, n int, value int64) interfaces.Transaction {
	outs := make([]*common2.Output, 0, n)
	for i := 0; i < n; i++ {
		outs = append(outs, Out(to, value))
	}
	return Transfer(nonce, ins, outs)
}
