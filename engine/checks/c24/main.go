//go:build vsched

// C24: consensus decisions do not depend on scheduling or process-local randomness.
// Controlled-scheduler exploration (engine E2): the real getCandidateIndexAtRandom runs in one
// thread while other threads use the process-global math/rand the way real code does (treap
// inserts draw node priorities from it; the p2p server reseeds it from the clock and draws
// nonces). Every use of the global source is a scheduling point (math/rand of dpos/state and
// database/internal/treap is rewritten to the vrand shim at build time). All interleavings
// within the preemption bound are executed; the candidate index must equal the chain-data-only
// reference under every one of them, and the consensus thread must not touch the global source.
package main

import (
	"fmt"
	"math"
	"math/rand"
	"os"
	"path/filepath"
	"sort"
	"strings"

	"github.com/elastos/Elastos.ELA/common"
	"github.com/elastos/Elastos.ELA/common/config"
	"github.com/elastos/Elastos.ELA/core/contract/program"
	"github.com/elastos/Elastos.ELA/core/transaction"
	"github.com/elastos/Elastos.ELA/core/types"
	ctypes "github.com/elastos/Elastos.ELA/core/types/common"
	"github.com/elastos/Elastos.ELA/core/types/functions"
	"github.com/elastos/Elastos.ELA/core/types/interfaces"
	"github.com/elastos/Elastos.ELA/core/types/outputpayload"
	"github.com/elastos/Elastos.ELA/core/types/payload"
	crstate "github.com/elastos/Elastos.ELA/cr/state"
	"github.com/elastos/Elastos.ELA/database"
	"github.com/elastos/Elastos.ELA/dpos/state"
	"github.com/elastos/Elastos.ELA/zzverif/vrand"
	"github.com/elastos/Elastos.ELA/zzverif/vsched"

	"verif/evid"
	"verif/hx"
	"verif/keys"
)

type scen struct {
	Name    string `json:"name"`
	Blocks  []int  `json:"blocks"`  // block variants evaluated by consensus threads
	Voted   int    `json:"voted"`   // votedProducersCount
	Env     string `json:"env"`     // treap | p2p | treap+p2p
	Bound   int    `json:"bound"`   // preemption bound (-1 unbounded)
	EnvSeed int64  `json:"envseed"` // what the clock-seeding environment thread seeds with
	V2      []int  `json:"v2"`      // block variants for DPoS v2 arbiter-order evaluations (getRandomDposV2Producers)
}

func prevBlock(variant int) *types.Block {
	b := &types.Block{}
	b.Header.Version = 0
	b.Header.Height = 1000 + uint32(variant)
	b.Header.Timestamp = 1600000000 + uint32(variant)*7
	b.Header.Nonce = uint32(variant) * 2654435761
	return b
}

// reference: the value a node derives from chain data alone.
func reference(p *config.Configuration, b *types.Block, voted int) (int, bool) {
	h := b.Hash()
	var seed int64
	for i := 0; i < 8; i++ {
		seed |= int64(h[24+i]) << (8 * uint(i))
	}
	normal := p.DPoSConfiguration.NormalArbitratorsCount - 1
	count := voted - normal
	if count < 1 {
		return 0, false
	}
	c := p.DPoSConfiguration.CandidatesCount + 1
	if count < c {
		c = count
	}
	return rand.New(rand.NewSource(seed)).Intn(c), true
}

// v2 fixture: a State with six active DPoS v2 producers and parameters under which three seats
// are drawn at random (NormalArbitratorsCount 2 + one CRC arbiter), so getRandomDposV2Producers
// enters its selection loop.
var (
	v2Params *config.Configuration
	v2State  *state.State
	v2Ref    = map[int]string{}
)

func pk(i byte) []byte { return keys.Pub(int(i)) }

func setupV2() {
	functions.GetTransactionByTxType = transaction.GetTransaction
	functions.GetTransactionByBytes = transaction.GetTransactionByBytes
	functions.CreateTransaction = transaction.CreateTransaction
	functions.GetTransactionParameters = transaction.GetTransactionparameters
	p := config.GetDefaultParams()
	p.DPoSV2StartHeight = 0
	p.DPoSV2EffectiveVotes = -1
	p.DPoSConfiguration.NormalArbitratorsCount = 2
	p.DPoSConfiguration.CRCArbiters = p.DPoSConfiguration.CRCArbiters[:1]
	v2Params = p
	st := state.NewState(p, nil, nil, nil, func() bool { return false }, nil, nil, nil, nil, nil, nil, nil)
	var txs []interfaces.Transaction
	for i := byte(1); i <= 6; i++ {
		info := &payload.ProducerInfo{OwnerKey: pk(i), NodePublicKey: pk(i), NickName: fmt.Sprintf("p%d", i), Url: "u", Location: 1, NetAddress: "a", StakeUntil: 1000000}
		txs = append(txs, functions.CreateTransaction(ctypes.TxVersion09, ctypes.RegisterProducer, payload.ProducerInfoDposV2Version, info,
			[]*ctypes.Attribute{}, []*ctypes.Input{}, []*ctypes.Output{}, 0, []*program.Program{}))
	}
	st.ProcessBlock(&types.Block{Header: ctypes.Header{Height: 50}, Transactions: txs}, nil, 0)
	for h := uint32(51); h < 60; h++ {
		st.ProcessBlock(&types.Block{Header: ctypes.Header{Height: h}}, nil, 0)
	}
	// every producer receives the same four DPoS v2 votes with non-round lock weights, so their
	// vote rights are equal as exact numbers and the order falls to the key tie-break; a sum
	// that depends on map iteration order would make them differ in the last bits
	stakeCode := append(append([]byte{33}, pk(7)...), 0xac)
	type vt struct {
		votes common.Fixed64
		lock  uint32
	}
	h := uint32(60)
	for _, v := range []vt{{700000000000, 8200}, {700123456789, 9311}, {700246913578, 10422}, {700370370367, 11533}, {700493827156, 12644}, {700617283945, 13755}, {700740740734, 14866}} {
		var infos []payload.VotesWithLockTime
		for i := byte(1); i <= 6; i++ {
			infos = append(infos, payload.VotesWithLockTime{Candidate: pk(i), Votes: v.votes, LockTime: h + v.lock})
		}
		tx := functions.CreateTransaction(ctypes.TxVersion09, ctypes.Voting, payload.VoteVersion,
			&payload.Voting{Contents: []payload.VotesContent{{VoteType: outputpayload.DposV2, VotesInfo: infos}}},
			[]*ctypes.Attribute{}, []*ctypes.Input{}, []*ctypes.Output{}, h, []*program.Program{{Code: stakeCode, Parameter: []byte{1}}})
		st.ProcessBlock(&types.Block{Header: ctypes.Header{Height: h}, Transactions: []interfaces.Transaction{tx}}, nil, 0)
		h++
	}
	for _, pr := range st.GetDposV2ActiveProducers() {
		if len(pr.GetAllDetailedDPoSV2Votes()) == 0 {
			evid.Fatalf("harness: v2 votes were not attached to the producers")
		}
	}
	if os.Getenv("VERIF_C24_DEBUG") != "" {
		for k := 0; k < 5; k++ {
			for _, pr := range st.GetDposV2ActiveProducers() {
				n := 0
				for _, m := range pr.GetAllDetailedDPoSV2Votes() {
					n += len(m)
				}
				fmt.Printf("%x %x n=%d  ", pr.NodePublicKey()[:2], math.Float64bits(pr.GetTotalDPoSV2VoteRights()), n)
			}
			fmt.Println()
		}
	}
	if n := len(st.GetDposV2ActiveProducers()); n != 6 {
		evid.Fatalf("harness: expected 6 active DPoS v2 producers, have %d", n)
	}
	v2State = st
}

// v2Reference: the order the real function yields when nothing else runs (single-threaded
// reference, computed once per previous block outside the scheduler).
func v2Reference(bv int) string {
	if r, ok := v2Ref[bv]; ok {
		return r
	}
	vrand.Reset(42)
	out, err := state.VerifRandomDposV2Producers(v2State, v2Params, prevBlock(bv), prevBlock(bv).Height+1, 0)
	if err != nil || len(out) != 6 {
		evid.Fatalf("harness: v2 reference for block %d: %v (%d keys)", bv, err, len(out))
	}
	// it must really depend on the block (non-vacuity is checked by the caller over the menu)
	v2Ref[bv] = strings.Join(out, ",")
	return v2Ref[bv]
}

func buildScenario(p *config.Configuration, s scen) *vsched.Scenario {
	return &vsched.Scenario{
		Name:  s.Name,
		Bound: s.Bound,
		Setup: func() ([]string, []func(), func(*vsched.Exec) (string, *vsched.Fail)) {
			vrand.Reset(42)
			results := make([]int, len(s.Blocks))
			errs := make([]error, len(s.Blocks))
			var names []string
			var bodies []func()
			for i, bv := range s.Blocks {
				i, bv := i, bv
				names = append(names, fmt.Sprintf("consensus%d", i))
				bodies = append(bodies, func() {
					results[i], errs[i] = state.VerifCandidateIndexAtRandom(p, prevBlock(bv), prevBlock(bv).Height+1, 0, s.Voted)
					vsched.Log("result=%d err=%v", results[i], errs[i])
				})
			}
			v2res := make([]string, len(s.V2))
			for i, bv := range s.V2 {
				i, bv := i, bv
				names = append(names, fmt.Sprintf("consensusV2_%d", i))
				bodies = append(bodies, func() {
					out, err := state.VerifRandomDposV2Producers(v2State, v2Params, prevBlock(bv), prevBlock(bv).Height+1, 0)
					v2res[i] = strings.Join(out, ",")
					vsched.Log("v2 order err=%v", err)
				})
			}
			if strings.Contains(s.Env, "treap") {
				names = append(names, "treap")
				bodies = append(bodies, func() { database.VerifTreapPuts(1) })
			}
			if strings.Contains(s.Env, "p2p") {
				// models p2p/server.go: rand.Seed(time.Now().UnixNano()) at server start and
				// uint64(rand.Int63()) nonces, on the same process-global source.
				names = append(names, "p2p")
				bodies = append(bodies, func() {
					vrand.Seed(s.EnvSeed)
					vrand.Int63()
				})
			}
			check := func(x *vsched.Exec) (string, *vsched.Fail) {
				var out []string
				var fail *vsched.Fail
				for i, bv := range s.Blocks {
					want, ok := reference(p, prevBlock(bv), s.Voted)
					if ok != (errs[i] == nil) {
						return "err", &vsched.Fail{Signature: "C24|candidate-error-mismatch", What: fmt.Sprintf("error=%v but reference ok=%v", errs[i], ok)}
					}
					out = append(out, fmt.Sprint(results[i]))
					if ok && results[i] != want && fail == nil {
						fail = &vsched.Fail{Signature: "C24|candidate-index-depends-on-schedule|getCandidateIndexAtRandom",
							What: fmt.Sprintf("candidate index %d for a fixed previous block differs from the chain-data-only value %d under this interleaving with other users of the process-global math/rand", results[i], want)}
					}
				}
				for i, bv := range s.V2 {
					out = append(out, fmt.Sprintf("v2:%x", len(v2res[i])))
					if v2res[i] != v2Reference(bv) && fail == nil {
						fail = &vsched.Fail{Signature: "C24|arbiter-order-depends-on-schedule|getRandomDposV2Producers",
							What: "the DPoS v2 arbiter order for a fixed previous block differs from the order the same function yields when nothing else runs, under this interleaving"}
					}
				}
				if fail == nil {
					for _, ev := range x.Trace {
						if strings.HasPrefix(ev, "consensus") && strings.Contains(ev, ":global-rand.") {
							which := "getCandidateIndexAtRandom"
							if strings.HasPrefix(ev, "consensusV2") {
								which = "getRandomDposV2Producers"
							}
							fail = &vsched.Fail{Signature: "C24|consensus-draws-from-process-global-source|" + which,
								What: "consensus path uses the process-global math/rand source: " + ev}
							break
						}
					}
				}
				return strings.Join(out, ","), fail
			}
			return names, bodies, check
		},
	}
}

func scenarios(r *evid.Run) []scen {
	var out []scen
	bounds := []int{0, 1, 2}
	for _, voted := range []int{30, 60, 200} {
		for _, env := range []string{"treap", "p2p", "treap+p2p"} {
			for _, b := range bounds {
				out = append(out, scen{Name: fmt.Sprintf("1c-%s-v%d-b%d", env, voted, b), Blocks: []int{1}, Voted: voted, Env: env, Bound: b, EnvSeed: 987654321})
			}
		}
	}
	// two consensus evaluations for different blocks racing each other (+ environment)
	for _, env := range []string{"", "treap", "p2p"} {
		for _, b := range bounds {
			out = append(out, scen{Name: fmt.Sprintf("2c-%s-b%d", env, b), Blocks: []int{1, 2}, Voted: 60, Env: env, Bound: b, EnvSeed: 5})
		}
	}
	// DPoS v2 arbiter order (getRandomDposV2Producers) against the environment and against a
	// concurrent candidate-index evaluation (shared generator objects are interleaved too)
	for _, b := range []int{0, 1, 2} {
		out = append(out, scen{Name: fmt.Sprintf("v2-treap+p2p-b%d", b), V2: []int{1}, Voted: 60, Env: "treap+p2p", Bound: b, EnvSeed: 11})
		out = append(out, scen{Name: fmt.Sprintf("v2+1c-b%d", b), V2: []int{1}, Blocks: []int{2}, Voted: 60, Env: "", Bound: b, EnvSeed: 11})
		out = append(out, scen{Name: fmt.Sprintf("v2+v2-b%d", b), V2: []int{1, 2}, Voted: 60, Env: "", Bound: b, EnvSeed: 11})
	}
	if r.Thorough() {
		// deeper bounds (statement points in the consensus functions make unbounded exploration
		// infeasible; bound 3 and 4 are completed instead)
		out = append(out, scen{Name: "1c-treap+p2p-b3", Blocks: []int{3}, Voted: 60, Env: "treap+p2p", Bound: 3, EnvSeed: 7})
		out = append(out, scen{Name: "2c-p2p-b3", Blocks: []int{3, 4}, Voted: 60, Env: "p2p", Bound: 3, EnvSeed: 7})
		out = append(out, scen{Name: "1c-treap-b4", Blocks: []int{3}, Voted: 60, Env: "treap", Bound: 4, EnvSeed: 7})
		out = append(out, scen{Name: "v2+1c-b3", V2: []int{1}, Blocks: []int{2}, Voted: 60, Env: "", Bound: 3, EnvSeed: 11})
		for bv := 5; bv < 8; bv++ {
			out = append(out, scen{Name: fmt.Sprintf("3c-treap+p2p-b1-%d", bv), Blocks: []int{bv, bv + 1, bv + 2}, Voted: 100, Env: "treap+p2p", Bound: 1, EnvSeed: int64(bv)})
		}
	}
	return out
}

// mathRandImporters lists (information only, never a verdict) the non-test files of the
// consensus-side packages of the working tree that import math/rand, so a new importer is
// visible next to the driven entry points.
func mathRandImporters() []string {
	var out []string
	root := evid.RepoRoot()
	for _, d := range []string{"dpos", "blockchain", "cr", "core", "pow", "auxpow"} {
		filepath.Walk(filepath.Join(root, d), func(p string, fi os.FileInfo, err error) error {
			if err != nil || fi.IsDir() || !strings.HasSuffix(p, ".go") || strings.HasSuffix(p, "_test.go") {
				return nil
			}
			b, err := os.ReadFile(p)
			if err == nil && strings.Contains(string(b), "\"math/rand\"") {
				rel, _ := filepath.Rel(root, p)
				out = append(out, rel)
			}
			return nil
		})
	}
	sort.Strings(out)
	return out
}

func main() {
	r := evid.Start("C24", "model_checking")
	scr := evid.Scratch("c24")

	hx.QuietLogs(scr)
	p := config.GetDefaultParams()
	_ = common.Uint256{}
	setupV2()
	// The consensus functions must be functions of chain data even with NOTHING else running:
	// evaluate each reference 40 times sequentially (Go map iteration order varies from call to
	// call); any difference is a violation by itself and would also make schedules unreproducible.
	for _, bv := range []int{1, 2, 3} {
		first := ""
		for k := 0; k < 40; k++ {
			delete(v2Ref, bv)
			cur := v2Reference(bv)
			if k == 0 {
				first = cur
			} else if cur != first {
				r.Violate("C24|arbiter-order-nondeterministic|getRandomDposV2Producers",
					"the DPoS v2 arbiter order for a fixed previous block differs between two sequential evaluations on the same state with nothing else running (e.g. an order that depends on Go map iteration)",
					map[string]interface{}{"scenario": scen{Name: "sequential-repeat", V2: []int{bv}}, "schedule": []int{}, "first": first, "other": cur})
				break
			}
		}
		idx := -1
		for k := 0; k < 40; k++ {
			got, err := state.VerifCandidateIndexAtRandom(p, prevBlock(bv), prevBlock(bv).Height+1, 0, 60)
			if err != nil {
				break
			}
			if k > 0 && got != idx {
				r.Violate("C24|candidate-index-nondeterministic|getCandidateIndexAtRandom", "candidate index differs between sequential evaluations with nothing else running",
					map[string]interface{}{"scenario": scen{Name: "sequential-repeat", Blocks: []int{bv}, Voted: 60}, "schedule": []int{}})
				break
			}
			idx = got
		}
	}
	// DPoS v1 producer order: producers with exactly equal votes must come out in one fixed order
	// (the key tie-break), however often it is evaluated.
	{
		for _, pr := range v2State.GetProducers() {
			pr.SetVotes(100)
		}
		first := ""
		for k := 0; k < 40; k++ {
			ks := state.VerifSortedProducers(v2State, v2Params)
			if len(ks) != 6 {
				evid.Fatalf("harness: getSortedProducers returned %d producers, want 6", len(ks))
			}
			cur := strings.Join(ks, ",")
			if k == 0 {
				first = cur
			} else if cur != first {
				r.Violate("C24|producer-order-nondeterministic|getSortedProducers",
					"the order of producers with equal votes differs between two sequential evaluations on the same state (it follows Go map iteration order)",
					map[string]interface{}{"scenario": scen{Name: "sequential-repeat-sorted"}, "schedule": []int{}, "first": first, "other": cur})
				break
			}
		}
		for _, pr := range v2State.GetProducers() {
			pr.SetVotes(0)
		}
	}
	// CRC part of the next arbiter set: which configured node key serves which council member
	// that has not claimed a node. Same committee, evaluated 40 times.
	{
		cp := config.GetDefaultParams()
		var crc []string
		for i := 0; i < 12; i++ {
			crc = append(crc, common.BytesToHexString(keys.Pub(i%10)[:1])+fmt.Sprintf("%064x", 1000+i*7919))
		}
		cp.DPoSConfiguration.CRCArbiters = crc
		committee := &crstate.Committee{}
		committee.Members = make(map[common.Uint168]*crstate.CRMember)
		for i := 0; i < 12; i++ {
			pkb := keys.Pub(i % 10)
			code := append(append([]byte{byte(len(pkb))}, pkb...), 0xac)
			var did common.Uint168
			did[0] = 0x67
			did[1] = byte(i + 1)
			m := &crstate.CRMember{Info: payload.CRInfo{Code: code, CID: did, DID: did}, MemberState: crstate.MemberElected}
			if i >= 4 { // four members have not claimed a node
				m.DPOSPublicKey = keys.Pub((i + 3) % 10)
				m.DPOSPublicKey = append([]byte{}, m.DPOSPublicKey...)
				m.DPOSPublicKey[32] ^= byte(i)
			}
			committee.Members[did] = m
		}
		h := cp.CRConfiguration.CRClaimDPOSNodeStartHeight + 1
		first := ""
		for k := 0; k < 40; k++ {
			cur, err := state.VerifCRCArbitersV1(cp, committee, h)
			if err != nil {
				evid.Fatalf("harness: getCRCArbitersV1: %v", err)
			}
			if k == 0 {
				first = cur
			} else if cur != first {
				r.Violate("C24|crc-arbiters-nondeterministic|getCRCArbitersV1",
					"the node keys assigned to council members without a claimed node differ between two sequential evaluations on the same committee (e.g. an assignment that follows Go map iteration order)",
					map[string]interface{}{"scenario": scen{Name: "sequential-repeat-crc"}, "schedule": []int{}, "first": first, "other": cur})
				break
			}
		}
	}
	// The turn hand-over itself: reset of the next arbiters from the CRC arbiter map followed by
	// updateNextTurnInfo, with and without elected producers (nil = inactive / under-staffed mode),
	// in the legacy era and after the committee start. The on-duty order must be the same every time.
	{
		cp := config.GetDefaultParams()
		hs := []uint32{cp.CRConfiguration.CRCommitteeStartHeight - 1000, cp.CRConfiguration.CRCommitteeStartHeight + 10}
		for _, h := range hs {
			for _, np := range []int{0, 1, 3} {
				var prods [][]byte
				for i := 0; i < np; i++ {
					prods = append(prods, keys.Pub(i))
				}
				first := ""
				for k := 0; k < 40; k++ {
					ks, err := state.VerifNextTurnOrder(cp, h, prods)
					if err != nil {
						evid.Fatalf("harness: VerifNextTurnOrder: %v", err)
					}
					if len(ks) != len(cp.DPoSConfiguration.CRCArbiters)+np {
						evid.Fatalf("harness: next turn has %d arbiters, want %d", len(ks), len(cp.DPoSConfiguration.CRCArbiters)+np)
					}
					cur := strings.Join(ks, ",")
					if k == 0 {
						first = cur
					} else if cur != first {
						r.Violate("C24|next-arbiters-order-nondeterministic|updateNextTurnInfo",
							"the on-duty order of the next arbiters differs between two sequential evaluations of the same turn hand-over (it follows the iteration order of the next CRC arbiter map)",
							map[string]interface{}{"scenario": scen{Name: fmt.Sprintf("sequential-repeat-nextturn-h%d-p%d", h, np)}, "schedule": []int{}, "first": first, "other": cur})
						break
					}
				}
			}
		}
	}
	if r.NumViolations() > 0 && r.Replay == "" {
		r.Finish(evid.Coverage{"states": 1, "transitions": 1, "traces_validated_against_impl": 240, "samples": []interface{}{"sequential repeat of the reference evaluations"},
			"rule": "sequential determinism pre-check failed; schedule exploration skipped because outcomes would not be reproducible", "exhaustive": false})
	}
	if v2Reference(1) == v2Reference(2) && v2Reference(2) == v2Reference(3) {
		evid.Fatalf("harness: the v2 order does not depend on the previous block — selection loop not reached")
	}
	if r.Replay != "" {
		var a struct {
			Scenario scen  `json:"scenario"`
			Schedule []int `json:"schedule"`
		}
		r.LoadReplay(&a)
		out, f, trace, div := vsched.Replay(buildScenario(p, a.Scenario), a.Schedule)
		if div != "" {
			evid.Fatalf("replay diverged: %s", div)
		}
		fmt.Printf("replay %s schedule=%v outcome=%s\n", a.Scenario.Name, a.Schedule, out)
		for _, t := range trace {
			fmt.Println("   ", t)
		}
		if f != nil {
			r.Violate(f.Signature, f.What, a)
		}
		r.Finish(evid.Coverage{})
	}
	var execs, points, states int64
	outcomes := &evid.Distinct{}
	var samples []interface{}
	exhaustive := true
	perScen := map[string]interface{}{}
	for _, s := range scenarios(r) {
		st := vsched.Explore(buildScenario(p, s), r.Expired)
		if st.EngineError != "" {
			evid.Fatalf("%s: %s", s.Name, st.EngineError)
		}
		execs += int64(st.Executions)
		points += int64(st.Points)
		if !st.Exhaustive {
			exhaustive = false
		}
		for o, n := range st.Outcomes {
			outcomes.Merge(map[string]int{s.Name + "=" + o: n})
		}
		states += int64(len(st.Outcomes))
		perScen[s.Name] = map[string]interface{}{"executions": st.Executions, "outcomes": len(st.Outcomes), "max_points": st.MaxPoints}
		if len(samples) < 4 && len(st.Sample) > 0 {
			samples = append(samples, map[string]interface{}{"scenario": s.Name, "schedule": st.Sample[len(st.Sample)-1]})
		}
		for _, f := range st.Failures {
			r.Violate(f.Fail.Signature, f.Fail.What, map[string]interface{}{"scenario": s, "schedule": f.Schedule, "trace": f.Trace})
		}
	}
	info := mathRandImporters()
	r.Assume = append(r.Assume,
		"the scheduler is sequentially consistent and preempts only at uses of the process-global math/rand source (the only state shared between the threads)",
		"entry points enumerated: getCandidateIndexAtRandom (the only consensus function in dpos/state that touches package-level math/rand functions in the working tree is found by the vrand event log; getRandomDposV2Producers uses a local rand.New source)",
		"the 'programs' half of the quantifier (all consensus code paths) is covered only for the driven entry points")
	r.Finish(evid.Coverage{
		"states":                        states,
		"transitions":                   points,
		"traces_validated_against_impl": execs,
		"schedules":                     execs,
		"distinct_outcomes":             outcomes.Len(),
		"per_scenario":                  perScen,
		"info_math_rand_importers_in_consensus_packages": info,
		"exhaustive":                    exhaustive,
		"rule":                          "every interleaving of the harness threads at global-math/rand points within preemption bounds 0,1,2 (thorough: 3 and 4 on selected scenarios); states = distinct (scenario, outcome vector) pairs, transitions = scheduling points executed",
		"samples":                       samples,
	})
}
