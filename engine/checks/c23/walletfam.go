package main

import (
	"bytes"
	"encoding/binary"
	"fmt"
	"sort"
	"strings"

	"github.com/elastos/Elastos.ELA/common"
	"github.com/elastos/Elastos.ELA/core/contract/program"
	"github.com/elastos/Elastos.ELA/core/types"
	common2 "github.com/elastos/Elastos.ELA/core/types/common"
	"github.com/elastos/Elastos.ELA/core/types/functions"
	"github.com/elastos/Elastos.ELA/core/types/interfaces"
	"github.com/elastos/Elastos.ELA/core/types/outputpayload"
	"github.com/elastos/Elastos.ELA/core/types/payload"
	"github.com/elastos/Elastos.ELA/wallet"

	"verif/dposkit"
	"verif/evid"
)

// Part (a2): the wallet coin checkpoint built through its real API.
//
// Two owners (deposit addresses, which the wallet tracks without an account), owner A with
// three coin slots and owner B with one. Operations: receive a coin into a free slot / spend the
// coin of an occupied slot, each delivered as a block through CoinsCheckPoint.OnBlockSaved (the
// only public path that removes a coin). EVERY operation sequence of length <= 4 is executed, so
// owners pass through holding 0, 1, 2 and 3 coins in every add/remove order. After each sequence
// the checkpoint is serialized and deserialized into a fresh one and compared
//   - by canonical deep equality (zero-valued lines dropped on both sides),
//   - through the observable API: GetCoin for every (owner, outpoint ever created) and ListCoins
//     per owner,
//   - and again through the observable API after every possible next operation applied to both
//     the live and the restored checkpoint.

type walletCase struct {
	Part string   `json:"part"` // "wallet"
	Ops  []string `json:"ops"`
}

type walletWorld struct {
	owners []*dposkit.Key
	addr   []string
}

func newWalletWorld() *walletWorld {
	dposkit.InitFunctions()
	w := &walletWorld{owners: dposkit.Keys("walletowner", 2)}
	for _, k := range w.owners {
		h := k.DepositHash()
		a, err := h.ToAddress()
		if err != nil {
			evid.Fatalf("address: %v", err)
		}
		w.addr = append(w.addr, a)
	}
	return w
}

// slots: A0 A1 A2 B0
var walletSlots = []struct{ owner, slot int }{{0, 0}, {0, 1}, {0, 2}, {1, 0}}

type walletRun struct {
	w      *walletWorld
	cp     *wallet.CoinsCheckPoint
	held   [4]*common2.OutPoint // current outpoint of each slot (nil: free)
	all    []common2.OutPoint   // every outpoint ever created, with its owner
	allOwn []int
	height uint32
	seq    uint32
}

func (r *walletRun) clone(cp *wallet.CoinsCheckPoint) *walletRun {
	c := *r
	c.cp = cp
	c.all = append([]common2.OutPoint{}, r.all...)
	c.allOwn = append([]int{}, r.allOwn...)
	return &c
}

func (r *walletRun) ops() []string {
	var out []string
	for i := range walletSlots {
		if r.held[i] == nil {
			out = append(out, fmt.Sprintf("add:%d", i))
		} else {
			out = append(out, fmt.Sprintf("spend:%d", i))
		}
	}
	return out
}

func (r *walletRun) tx(inputs []*common2.Input, outputs []*common2.Output) interfaces.Transaction {
	r.seq++
	b := make([]byte, 8)
	binary.LittleEndian.PutUint32(b, r.height)
	binary.LittleEndian.PutUint32(b[4:], r.seq)
	return functions.CreateTransaction(common2.TxVersion09, common2.TransferAsset, 0, &payload.TransferAsset{},
		[]*common2.Attribute{{Usage: common2.Nonce, Data: b}}, inputs, outputs, 0, []*program.Program{})
}

func (r *walletRun) apply(op string) {
	var i int
	kind, arg, _ := strings.Cut(op, ":")
	fmt.Sscan(arg, &i)
	r.height++
	var t interfaces.Transaction
	switch kind {
	case "add":
		o := walletSlots[i].owner
		t = r.tx([]*common2.Input{}, []*common2.Output{{Value: common.Fixed64(100 + i), ProgramHash: r.w.owners[o].DepositHash(),
			Type: common2.OTNone, Payload: &outputpayload.DefaultOutput{}}})
		op := common2.OutPoint{TxID: t.Hash(), Index: 0}
		r.held[i] = &op
		r.all = append(r.all, op)
		r.allOwn = append(r.allOwn, o)
	case "spend":
		t = r.tx([]*common2.Input{{Previous: *r.held[i]}}, []*common2.Output{})
		r.held[i] = nil
	}
	r.cp.OnBlockSaved(&types.DposBlock{Block: &types.Block{Header: common2.Header{Height: r.height}, Transactions: []interfaces.Transaction{t}}})
}

// observe renders what the public API answers.
func (r *walletRun) observe() []string {
	var out []string
	for k, op := range r.all {
		opc := op
		coin, ok := r.cp.GetCoin(r.w.addr[r.allOwn[k]], &opc)
		v := "absent"
		if ok {
			v = strings.Join(dposkit.Canon(coin, nil), "; ")
		}
		out = append(out, fmt.Sprintf("GetCoin(owner%d, coin#%d) = %s", r.allOwn[k], k, v))
	}
	for o, a := range r.w.addr {
		m := r.cp.ListCoins(a)
		var ks []string
		for op, coin := range m {
			idx := -1
			for k := range r.all {
				if r.all[k] == op {
					idx = k
				}
			}
			ks = append(ks, fmt.Sprintf("coin#%d{%s}", idx, strings.Join(dposkit.Canon(coin, nil), "; ")))
		}
		sort.Strings(ks)
		out = append(out, fmt.Sprintf("ListCoins(owner%d) = %v", o, ks))
	}
	return out
}

func restoreWallet(cp *wallet.CoinsCheckPoint) (*wallet.CoinsCheckPoint, error) {
	buf := new(bytes.Buffer)
	if err := cp.Serialize(buf); err != nil {
		return nil, err
	}
	out := wallet.NewCoinCheckPoint()
	if err := out.Deserialize(buf); err != nil {
		return nil, err
	}
	if buf.Len() != 0 {
		return nil, fmt.Errorf("%d bytes left over", buf.Len())
	}
	return out, nil
}

func firstDiff(a, b []string) string {
	for i := range a {
		if i >= len(b) || a[i] != b[i] {
			x := "<missing>"
			if i < len(b) {
				x = b[i]
			}
			return fmt.Sprintf("live: %s | restored: %s", a[i], x)
		}
	}
	return ""
}

// checkWalletSeq runs one sequence and its checks; returns the number of comparisons made.
func checkWalletSeq(w *walletWorld, sk *dposkit.Sink, seq []string) (compares int) {
	live := &walletRun{w: w, cp: wallet.NewCoinCheckPoint()}
	for _, op := range seq {
		live.apply(op)
	}
	art := walletCase{"wallet", seq}
	rcp, err := restoreWallet(live.cp)
	if err != nil {
		sk.Violate("C23|wallet|round-trip-error", fmt.Sprintf("wallet coin checkpoint after %v does not round-trip: %v", seq, err), art)
		return
	}
	rest := live.clone(rcp)
	compares++
	if d := dposkit.DiffLines(nonZero(dposkit.Canon(live.cp, nil)), nonZero(dposkit.Canon(rcp, nil)), 3); len(d) > 0 && !sk.Seen("C23|wallet|restored-content-differs") {
		sk.Violate("C23|wallet|restored-content-differs", fmt.Sprintf("wallet coin checkpoint after %v: content differs after Serialize+Deserialize (- live, + restored): %s", seq, strings.Join(d, " | ")), art)
	}
	compares++
	if d := firstDiff(live.observe(), rest.observe()); d != "" && !sk.Seen("C23|wallet|restored-api-differs") {
		sk.Violate("C23|wallet|restored-api-differs", fmt.Sprintf("wallet after %v: the restored checkpoint answers differently: %s", seq, d), art)
	}
	// one more operation on both
	for _, op := range live.ops() {
		l2 := &walletRun{w: w, cp: wallet.NewCoinCheckPoint()}
		for _, o := range seq {
			l2.apply(o)
		}
		r2cp, err := restoreWallet(l2.cp)
		if err != nil {
			continue
		}
		r2 := l2.clone(r2cp)
		l2.apply(op)
		r2.apply(op)
		compares++
		if d := firstDiff(l2.observe(), r2.observe()); d != "" && !sk.Seen("C23|wallet|diverges-after-restore") {
			sk.Violate("C23|wallet|diverges-after-restore", fmt.Sprintf("wallet after %v, restored, then %s: the restored checkpoint answers differently: %s", seq, op, d), walletCase{"wallet", append(append([]string{}, seq...), op)})
		}
	}
	return
}

// walletFamily enumerates every sequence of length <= depth.
func walletFamily(r *evid.Run, depth int) (seqs, compares int64, sample interface{}) {
	w := newWalletWorld()
	var sk dposkit.Sink
	var rec func(seq []string, st *walletRun)
	rec = func(seq []string, st *walletRun) {
		seqs++
		compares += int64(checkWalletSeq(w, &sk, seq))
		if len(seq) == depth {
			return
		}
		for _, op := range st.ops() {
			n := &walletRun{w: w, cp: wallet.NewCoinCheckPoint()}
			s2 := append(append([]string{}, seq...), op)
			for _, o := range s2 {
				n.apply(o)
			}
			rec(s2, n)
		}
	}
	rec(nil, &walletRun{w: w, cp: wallet.NewCoinCheckPoint()})
	sk.MergeInto(r)
	sample = map[string]interface{}{"part": "wallet", "ops": []string{"add:0", "add:3", "spend:0", "add:1"}}
	return
}
