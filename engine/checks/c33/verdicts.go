package main

// part (a): verdicts of WithdrawFromSideChain.SpecialContextCheck with a controlled arbiter set.

import (
	"bytes"
	"crypto/elliptic"
	"fmt"
	"math"
	"math/big"
	"path/filepath"
	"sort"
	"strings"

	"github.com/elastos/Elastos.ELA/common"
	"github.com/elastos/Elastos.ELA/common/config"
	"github.com/elastos/Elastos.ELA/core/contract"
	"github.com/elastos/Elastos.ELA/core/contract/program"
	"github.com/elastos/Elastos.ELA/core/transaction"
	common2 "github.com/elastos/Elastos.ELA/core/types/common"
	"github.com/elastos/Elastos.ELA/core/types/interfaces"
	"github.com/elastos/Elastos.ELA/core/types/outputpayload"
	"github.com/elastos/Elastos.ELA/core/types/payload"
	"github.com/elastos/Elastos.ELA/crypto"

	"verif/evid"
	"verif/lightnode"
)

const (
	restrictionH uint32 = 2256724 // mainnet restriction height
	freezeH      uint32 = 2256110
)

// eras of the cross-chain arbiter rules, reached by setting the era heights of the
// configuration handed to the checker (what the repository's own tests do).
type era struct {
	Name string
	// ClaimStart = CRClaimDPOSNodeStartHeight, NodesStart = DPOSNodeCrossChainHeight of the era's
	// configuration; Heights are the block heights the verdicts are taken at.
	ClaimStart, NodesStart uint32
	Heights                []uint32
	Tweak                  func(p *config.Configuration)
}

// boundary era: both era thresholds lie above the restriction height and are crossed by the
// height menu itself.
const (
	boundaryClaim uint32 = 2300000
	boundaryNodes uint32 = 2400000
)

func eras(n int) []era {
	mk := func(name string, claim, nodes uint32, heights []uint32) era {
		return era{Name: name, ClaimStart: claim, NodesStart: nodes, Heights: heights, Tweak: func(p *config.Configuration) {
			p.CRConfiguration.MemberCount = uint32(n)
			p.CRConfiguration.CRAgreementCount = uint32(n * 2 / 3)
			p.DPoSConfiguration.NormalArbitratorsCount = n * 2 / 3
			p.CrossChainUTXOFreezeHeight = freezeH
			p.CrossChainUTXORestrictionHeight = restrictionH
			p.SchnorrStartHeight = math.MaxUint32
			p.CRConfiguration.CRClaimDPOSNodeStartHeight = claim
			p.DPoSConfiguration.DPOSNodeCrossChainHeight = nodes
		}}
	}
	aroundR := []uint32{restrictionH - 1, restrictionH, restrictionH + 1}
	return []era{
		// mainnet today: council claims DPoS nodes, DPoS nodes not yet cross-chain arbiters
		mk("council", 751400, math.MaxUint32, aroundR),
		mk("dpos-nodes", 751400, 1000000, aroundR),
		mk("early", math.MaxUint32, math.MaxUint32, aroundR),
		// the two era thresholds themselves: -1, =, +1 around each
		mk("boundary", boundaryClaim, boundaryNodes, []uint32{boundaryClaim - 1, boundaryClaim, boundaryClaim + 1,
			boundaryNodes - 1, boundaryNodes, boundaryNodes + 1}),
	}
}

// required number of arbiters at height h for a payload version, from the parameters alone:
// the quorum is two thirds of the council (CRAgreementCount / MemberCount*2/3) while the
// council's claimed nodes are the cross-chain arbiters, i.e. from CRClaimDPOSNodeStartHeight up
// to but excluding DPOSNodeCrossChainHeight, and two thirds + 1 before that era and from
// DPOSNodeCrossChainHeight on (the height from which the DPoS nodes are the arbiters). A named
// start height belongs to the era it starts; where the code is stricter than this (V2 at
// exactly CRClaimDPOSNodeStartHeight) nothing is violated.
func required(e era, version byte, n int, h uint32) int {
	two3 := n * 2 / 3
	switch {
	case h >= e.NodesStart:
		return two3 + 1
	case version == 1:
		return two3 // V1 knows no earlier era: CRAgreementCount below DPOSNodeCrossChainHeight
	case h >= e.ClaimStart:
		return two3
	}
	return two3 + 1
}

func eraByName(n int, name string) era {
	for _, e := range eras(n) {
		if e.Name == name {
			return e
		}
	}
	evid.Fatalf("unknown era %q", name)
	return era{}
}

type fixtureA struct {
	node    *lightnode.Node
	n       int
	arb     []lightnode.Key
	foreign []lightnode.Key
	owner   lightnode.Key
	pts     [][2]*big.Int // arbiter points, decoded independently
	aggMemo map[string][]byte
}

func newFixtureA(scr string, n int) *fixtureA {
	f := &fixtureA{n: n, aggMemo: map[string][]byte{}}
	var keys [][]byte
	for i := 0; i < n; i++ {
		k := lightnode.FixedKey("c33-arbiter", i)
		f.arb = append(f.arb, k)
		keys = append(keys, k.Compressed)
		f.pts = append(f.pts, [2]*big.Int{k.Pub.X, k.Pub.Y})
	}
	for i := 0; i < 3; i++ {
		f.foreign = append(f.foreign, lightnode.FixedKey("c33-foreign", i))
	}
	f.owner = lightnode.FixedKey("c33-owner", 0)
	node, err := lightnode.New(filepath.Join(scr, "node"), lightnode.Options{ArbiterKeys: keys, CRCKeys: keys, MajorityCount: n * 2 / 3})
	if err != nil {
		evid.Fatalf("light node: %v", err)
	}
	f.node = node
	return f
}

// refAggregateCode: schnorr script of the sum of the listed arbiters' public keys (with
// multiplicity), computed with crypto/elliptic directly.
func (f *fixtureA) refAggregateCode(idx []int) []byte {
	key := fmt.Sprint(idx)
	if c, ok := f.aggMemo[key]; ok {
		return c
	}
	curve := elliptic.P256()
	var x, y *big.Int
	for _, i := range idx {
		if x == nil {
			x, y = f.pts[i][0], f.pts[i][1]
		} else {
			x, y = curve.Add(x, y, f.pts[i][0], f.pts[i][1])
		}
	}
	var code []byte
	if x != nil && (x.Sign() != 0 || y.Sign() != 0) {
		pk := &crypto.PublicKey{X: x, Y: y}
		c, err := contract.CreateSchnorrRedeemScript(pk)
		if err != nil {
			evid.Fatalf("schnorr script: %v", err)
		}
		code = c
	}
	f.aggMemo[key] = code
	return code
}

type refsVariant struct {
	Name     string
	Prefixes []byte
}

var refsVariants = []refsVariant{
	{"cross", []byte{0x4B}},
	{"cross+cross", []byte{0x4B, 0x4B}},
	{"cross+standard", []byte{0x4B, 0x21}},
	{"standard", []byte{0x21}},
	{"multisig+cross", []byte{0x12, 0x4B}},
	{"empty", nil},
}

func onlyCross(prefixes []byte) bool {
	for _, p := range prefixes {
		if p != 0x4B {
			return false
		}
	}
	return true
}

func mkRefs(prefixes []byte) (map[*common2.Input]common2.Output, []*common2.Input) {
	m := map[*common2.Input]common2.Output{}
	var ins []*common2.Input
	for i, p := range prefixes {
		var ph common.Uint168
		ph[0] = p
		ph[1] = byte(i + 1)
		in := &common2.Input{Previous: common2.OutPoint{Index: uint16(i)}}
		in.Previous.TxID[0] = byte(i + 1)
		in.Previous.TxID[1] = 0xC3
		m[in] = common2.Output{Value: 1000, ProgramHash: ph}
		ins = append(ins, in)
	}
	return m, ins
}

var hashCounter uint32

func freshHash(tag byte) common.Uint256 {
	hashCounter++
	var h common.Uint256
	h[0] = tag
	h[1] = byte(hashCounter >> 24)
	h[2] = byte(hashCounter >> 16)
	h[3] = byte(hashCounter >> 8)
	h[4] = byte(hashCounter)
	return h
}

func withdrawOutput(to common.Uint168, v common.Fixed64, side common.Uint256) *common2.Output {
	return &common2.Output{AssetID: lightnode.Output(to, v).AssetID, Value: v, ProgramHash: to,
		Type: common2.OTWithdrawFromSideChain,
		Payload: &outputpayload.Withdraw{Version: outputpayload.WithdrawOutputVersion,
			GenesisBlockAddress: "XKUh4GLhFJiqAMTF6HyWQrV9pK9HcGUdfJ", SideChainTransactionHash: side, TargetData: []byte("c33")}}
}

// mkWithdraw builds a WithdrawFromSideChain transaction of the given payload version.
func mkWithdraw(version byte, signers []uint8, ins []*common2.Input, to common.Uint168, side common.Uint256, progs []*program.Program) interfaces.Transaction {
	pl := &payload.WithdrawFromSideChain{}
	var outs []*common2.Output
	switch version {
	case payload.WithdrawFromSideChainVersion:
		pl.BlockHeight = 100
		pl.GenesisBlockAddress = "XKUh4GLhFJiqAMTF6HyWQrV9pK9HcGUdfJ"
		pl.SideChainTransactionHashes = []common.Uint256{side}
		outs = []*common2.Output{lightnode.Output(to, 100)}
	default:
		pl.Signers = signers
		outs = []*common2.Output{withdrawOutput(to, 100, side)}
	}
	return transaction.CreateTransaction(common2.TxVersion09, common2.WithdrawFromSideChain, version, pl, nil, ins, outs, 0, progs)
}

// slot of an output layout: a plain (change) output or a withdraw carrying a side-chain hash.
type slot struct {
	Change bool
	Hash   common.Uint256
}

// mkWithdrawLayout builds a withdrawal whose outputs follow the given layout. V1/V2 carry each
// hash in a withdraw output at that position; V0 lists the hashes in its payload in layout
// order and pays one plain output per slot.
func mkWithdrawLayout(version byte, signers []uint8, ins []*common2.Input, to common.Uint168, layout []slot, progs []*program.Program) interfaces.Transaction {
	pl := &payload.WithdrawFromSideChain{}
	var outs []*common2.Output
	if version == payload.WithdrawFromSideChainVersion {
		pl.BlockHeight = 100
		pl.GenesisBlockAddress = "XKUh4GLhFJiqAMTF6HyWQrV9pK9HcGUdfJ"
	} else {
		pl.Signers = signers
	}
	for _, sl := range layout {
		switch {
		case sl.Change:
			outs = append(outs, lightnode.Output(to, 100))
		case version == payload.WithdrawFromSideChainVersion:
			pl.SideChainTransactionHashes = append(pl.SideChainTransactionHashes, sl.Hash)
			outs = append(outs, lightnode.Output(to, 100))
		default:
			outs = append(outs, withdrawOutput(to, 100, sl.Hash))
		}
	}
	return transaction.CreateTransaction(common2.TxVersion09, common2.WithdrawFromSideChain, version, pl, nil, ins, outs, 0, progs)
}

// ---------------------------------------------------------------------------------------------
// V2 (Schnorr)

type v2Result struct {
	Evals      int64            `json:"evals"`
	Accepted   int64            `json:"accepted"`
	Panics     int64            `json:"panics"`
	PanicSites map[string]int   `json:"panic_sites"`
	Classes    map[string]int   `json:"classes"`
	Violations []evid.Violation `json:"violations"`
	Samples    []interface{}    `json:"samples"`
}

type caseV2 struct {
	N       int     `json:"n"`
	Era     string  `json:"era"`
	H       uint32  `json:"h"`
	Signers []uint8 `json:"signers"`
	Prog    string  `json:"program_variant"`
	Refs    string  `json:"refs"`
}

// largeSignerLists: arbiter sets beyond 32 members (mainnet: 36). The quorum can only be met by
// long lists, so the menu is built around it: distinct lists around both quorum formulas, one
// index repeated until it fills the quorum alone, a distinct list topped up by a repeated index,
// and every list of length <= 2 over {0,31,32,33,n-1,n,255} appended to a distinct prefix.
func largeSignerLists(n int) [][]uint8 {
	q := n * 2 / 3
	var out [][]uint8
	first := func(k int) []uint8 {
		var l []uint8
		for i := 0; i < k; i++ {
			l = append(l, uint8(i))
		}
		return l
	}
	for k := q - 1; k <= q+2; k++ {
		out = append(out, first(k))
	}
	hot := []uint8{0, 31, 32, 33, uint8(n - 1)}
	for _, r := range hot {
		for _, cnt := range []int{q, q + 1} {
			var l []uint8
			for i := 0; i < cnt; i++ {
				l = append(l, r)
			}
			out = append(out, l)
		}
		// a distinct list one or two short of the quorum, topped up by r twice / three times
		out = append(out, append(first(q-1), r, r))
		out = append(out, append(first(q-2), r, r, r))
		// two different high indexes alternating
		var alt []uint8
		for i := 0; i < q+1; i++ {
			if i%2 == 0 {
				alt = append(alt, r)
			} else {
				alt = append(alt, uint8(n-2))
			}
		}
		out = append(out, alt)
	}
	alpha := []uint8{0, 31, 32, 33, uint8(n - 1), uint8(n), 255}
	prefix := first(q - 1)
	for _, a := range alpha {
		out = append(out, append(append([]uint8{}, prefix...), a))
		for _, b := range alpha {
			out = append(out, append(append([]uint8{}, prefix...), a, b))
		}
	}
	// the same, with a prefix that avoids the low indexes (all signers >= 8)
	var high []uint8
	for i := n - (q - 1); i < n; i++ {
		high = append(high, uint8(i))
	}
	for _, a := range alpha {
		for _, b := range alpha {
			out = append(out, append(append([]uint8{}, high...), a, b))
		}
	}
	return out
}

func signerLists(n int) [][]uint8 {
	if n > 12 {
		return largeSignerLists(n)
	}
	alpha := []uint8{0, 1, uint8(n - 1), uint8(n), 255}
	var prefix []uint8
	if n > 4 {
		// pad so that the quorum is reachable: 8 distinct existing arbiters 2..9
		for i := 2; i < 2+n*2/3; i++ {
			prefix = append(prefix, uint8(i))
		}
	}
	out := [][]uint8{append([]uint8{}, prefix...)}
	var rec func(cur []uint8, depth int)
	rec = func(cur []uint8, depth int) {
		if depth == 0 {
			return
		}
		for _, a := range alpha {
			nx := append(append([]uint8{}, cur...), a)
			out = append(out, append(append([]uint8{}, prefix...), nx...))
			rec(nx, depth-1)
		}
	}
	rec(nil, 4)
	// the first k arbiters for every k around both quorum formulas (2/3 and 2/3+1)
	for k := n*2/3 - 1; k <= n*2/3+2 && k <= n; k++ {
		if k < 0 {
			continue
		}
		var l []uint8
		for i := 0; i < k; i++ {
			l = append(l, uint8(i))
		}
		out = append(out, l)
	}
	return out
}

var progVariants = []string{"agg-listed", "agg-distinct", "agg-one-dropped", "standard-code", "two:listed+dropped", "none"}

func (f *fixtureA) v2Programs(variant string, signers []uint8) ([]*program.Program, bool) {
	var valid []int
	seen := map[int]bool{}
	var distinct []int
	for _, s := range signers {
		if int(s) < f.n {
			valid = append(valid, int(s))
			if !seen[int(s)] {
				seen[int(s)] = true
				distinct = append(distinct, int(s))
			}
		}
	}
	mk := func(idx []int) *program.Program {
		c := f.refAggregateCode(idx)
		if c == nil {
			return nil
		}
		return &program.Program{Code: c, Parameter: make([]byte, 64)}
	}
	switch variant {
	case "agg-listed":
		p := mk(valid)
		if p == nil {
			return nil, false
		}
		return []*program.Program{p}, true
	case "agg-distinct":
		if len(distinct) == len(valid) {
			return nil, false
		}
		p := mk(distinct)
		if p == nil {
			return nil, false
		}
		return []*program.Program{p}, true
	case "agg-one-dropped":
		if len(valid) < 2 {
			return nil, false
		}
		p := mk(valid[1:])
		if p == nil {
			return nil, false
		}
		return []*program.Program{p}, true
	case "standard-code":
		return []*program.Program{{Code: f.owner.StandardCode(), Parameter: make([]byte, 65)}}, true
	case "two:listed+dropped":
		if len(valid) < 2 {
			return nil, false
		}
		a, b := mk(valid), mk(valid[1:])
		if a == nil || b == nil {
			return nil, false
		}
		return []*program.Program{a, b}, true
	case "none":
		return []*program.Program{}, true
	}
	evid.Fatalf("unknown program variant %s", variant)
	return nil, false
}

// judgeV2: accepted => only cross-chain UTXOs, the required number of signers, from the
// restriction height on every index distinct and existing (before it: existing), and every
// program's code the aggregate of exactly the listed keys.
func (f *fixtureA) judgeV2(c caseV2, refsPrefixes []byte, progs []*program.Program) (clause, what string) {
	if !onlyCross(refsPrefixes) {
		return "non-cross-chain-utxo", "accepted although it spends a UTXO that is not a cross-chain UTXO"
	}
	need := required(eraByName(f.n, c.Era), 2, f.n, c.H)
	seen := map[uint8]bool{}
	dup, oob := false, false
	var idx []int
	for _, s := range c.Signers {
		if int(s) >= f.n {
			oob = true
			continue
		}
		if seen[s] {
			dup = true
		}
		seen[s] = true
		idx = append(idx, int(s))
	}
	if oob {
		return "nonexistent-signer", "accepted although a signer index names no existing arbiter"
	}
	if c.H >= restrictionH {
		if dup {
			return "duplicate-signer", "accepted at/after the restriction height although a signer index appears twice"
		}
		if len(seen) < need {
			return "quorum", fmt.Sprintf("accepted at/after the restriction height with %d distinct arbiters, %d required", len(seen), need)
		}
	} else if len(c.Signers) < need {
		return "quorum", fmt.Sprintf("accepted with %d signer entries, %d required", len(c.Signers), need)
	}
	want := f.refAggregateCode(idx)
	for _, p := range progs {
		if !bytes.Equal(p.Code, want) {
			return "code-not-aggregate", "accepted although a program's code is not the aggregate of exactly the listed arbiters' keys"
		}
	}
	return "", ""
}

func band(h uint32) string {
	if h >= restrictionH {
		return "from-restriction-height"
	}
	return "before-restriction-height"
}

func (f *fixtureA) evalV2(c caseV2, cfg *config.Configuration) (lightnode.Verdict, []byte, []*program.Program, bool) {
	var rv refsVariant
	for _, x := range refsVariants {
		if x.Name == c.Refs {
			rv = x
		}
	}
	progs, ok := f.v2Programs(c.Prog, c.Signers)
	if !ok {
		return lightnode.Verdict{}, nil, nil, false
	}
	refs, ins := mkRefs(rv.Prefixes)
	tx := mkWithdraw(2, c.Signers, ins, f.owner.StandardHash(), freshHash(0xA2), progs)
	v := f.node.SpecialContextCheck(tx, c.H, cfg, refs)
	return v, rv.Prefixes, progs, true
}

func (f *fixtureA) runV2(eraName string, full bool) v2Result {
	res := v2Result{PanicSites: map[string]int{}, Classes: map[string]int{}}
	viol := map[string]*evid.Violation{}
	var order []string
	er := eraByName(f.n, eraName)
	cfg := f.node.Config(er.Tweak)
	lists := signerLists(f.n)
	for _, signers := range lists {
		for _, h := range er.Heights {
			type pr struct{ prog, refs string }
			var combos []pr
			for _, pv := range progVariants {
				combos = append(combos, pr{pv, "cross"})
			}
			for _, rv := range refsVariants[1:] {
				combos = append(combos, pr{"agg-listed", rv.Name})
			}
			if f.n > 12 {
				// large arbiter sets: the signer-index handling is what is explored
				combos = []pr{{"agg-listed", "cross"}, {"agg-distinct", "cross"}, {"agg-listed", "cross+standard"}}
			} else if full {
				combos = combos[:0]
				for _, pv := range progVariants {
					for _, rv := range refsVariants {
						combos = append(combos, pr{pv, rv.Name})
					}
				}
			}
			for _, pc := range combos {
				c := caseV2{N: f.n, Era: eraName, H: h, Signers: signers, Prog: pc.prog, Refs: pc.refs}
				v, prefixes, progs, ok := f.evalV2(c, cfg)
				if !ok {
					continue
				}
				res.Evals++
				cls := "rejected"
				if v.Panicked {
					res.Panics++
					res.PanicSites[v.Site+": "+v.PanicMsg[:min(len(v.PanicMsg), 40)]]++
					cls = "panic"
				} else if v.Accepted() {
					res.Accepted++
					cls = "accepted"
					if clause, what := f.judgeV2(c, prefixes, progs); clause != "" {
						sig := fmt.Sprintf("C33|quorum|v2|%s|%s", clause, band(h))
						if _, ok := viol[sig]; !ok {
							viol[sig] = &evid.Violation{Signature: sig, What: what, Artefact: map[string]interface{}{"kind": "v2", "case": c}}
							order = append(order, sig)
						}
						viol[sig].Count++
					}
					if len(res.Samples) < 3 && len(signers) > 0 {
						res.Samples = append(res.Samples, map[string]interface{}{"case": c, "verdict": "accepted"})
					}
				} else {
					cls = "rejected: " + v.Err.Error()
				}
				pos := band(h)
				if eraName == "boundary" {
					pos = fmt.Sprintf("h=%d|signers=%d", h, len(signers))
				}
				res.Classes[fmt.Sprintf("v2|%s|%s|prog=%s|refs=%s|%s", eraName, pos, pc.prog, pc.refs, cls)]++
			}
		}
	}
	for _, s := range order {
		res.Violations = append(res.Violations, *viol[s])
	}
	return res
}

// ---------------------------------------------------------------------------------------------
// V0 / V1 (multi-signature cross-chain script)

type keyList struct {
	Name string
	Keys [][]byte
}

func (f *fixtureA) keyLists() []keyList {
	exact := func() [][]byte {
		var k [][]byte
		for _, a := range f.arb {
			k = append(k, a.Compressed)
		}
		return k
	}
	rev := exact()
	for i, j := 0, len(rev)-1; i < j; i, j = i+1, j-1 {
		rev[i], rev[j] = rev[j], rev[i]
	}
	rot := append(exact()[1:], exact()[0])
	f0 := exact()
	f0[0] = f.foreign[0].Compressed
	fl := exact()
	fl[len(fl)-1] = f.foreign[1].Compressed
	dup := exact()
	dup[1] = dup[0]
	extra := append(exact(), f.foreign[0].Compressed)
	dropped := exact()[:f.n-1]
	var allForeign [][]byte
	for i := 0; i < f.n; i++ {
		allForeign = append(allForeign, lightnode.FixedKey("c33-foreign-all", i).Compressed)
	}
	return []keyList{
		{"exact", exact()}, {"reversed", rev}, {"rotated", rot},
		{"foreign-at-0", f0}, {"foreign-at-last", fl}, {"duplicate-key", dup},
		{"extra-foreign", extra}, {"one-dropped", dropped}, {"all-foreign", allForeign},
	}
}

type caseMS struct {
	N       int    `json:"n"`
	Version int    `json:"version"`
	Era     string `json:"era"`
	H       uint32 `json:"h"`
	Keys    string `json:"key_list"`
	M       int    `json:"m"`
	NByte   int    `json:"n_byte"`
	Second  string `json:"second_program"` // "", "valid-first", "valid-last": a fully valid program accompanies the variant
	Refs    string `json:"refs"`
}

func (f *fixtureA) msProgram(keys [][]byte, m, nByte int) *program.Program {
	return &program.Program{Code: lightnode.CrossChainCode(m, keys, nByte), Parameter: make([]byte, 65)}
}

func (f *fixtureA) evalMS(c caseMS, cfg *config.Configuration) (lightnode.Verdict, []byte) {
	var rv refsVariant
	for _, x := range refsVariants {
		if x.Name == c.Refs {
			rv = x
		}
	}
	var kl keyList
	for _, k := range f.keyLists() {
		if k.Name == c.Keys {
			kl = k
		}
	}
	p := f.msProgram(kl.Keys, c.M, c.NByte)
	progs := []*program.Program{p}
	if c.Second != "" {
		good := f.msProgram(f.keyLists()[0].Keys, f.n, f.n)
		if c.Second == "valid-first" {
			progs = []*program.Program{good, p}
		} else {
			progs = []*program.Program{p, good}
		}
	}
	refs, ins := mkRefs(rv.Prefixes)
	tx := mkWithdraw(byte(c.Version), nil, ins, f.owner.StandardHash(), freshHash(0xA0+byte(c.Version)), progs)
	v := f.node.SpecialContextCheck(tx, c.H, cfg, refs)
	return v, rv.Prefixes
}

func (f *fixtureA) judgeMS(c caseMS, prefixes []byte) (clause, what string) {
	if !onlyCross(prefixes) {
		return "non-cross-chain-utxo", "accepted although it spends a UTXO that is not a cross-chain UTXO"
	}
	var kl keyList
	for _, k := range f.keyLists() {
		if k.Name == c.Keys {
			kl = k
		}
	}
	// the code must name exactly the current arbiters: n distinct keys, each an arbiter
	arb := map[string]bool{}
	for _, a := range f.arb {
		arb[string(a.Compressed)] = true
	}
	got := map[string]bool{}
	for _, k := range kl.Keys {
		if !arb[string(k)] {
			return "foreign-key", "accepted although the code names a key that is not a current cross-chain arbiter"
		}
		got[string(k)] = true
	}
	if len(got) != f.n || len(kl.Keys) != f.n {
		return "arbiter-set", fmt.Sprintf("accepted although the code names %d keys (%d distinct) and there are %d arbiters", len(kl.Keys), len(got), f.n)
	}
	if c.NByte != f.n {
		return "n-mismatch", "accepted although the script's n differs from the number of arbiters"
	}
	if need := required(eraByName(f.n, c.Era), byte(c.Version), f.n, c.H); c.M < need {
		return "quorum", fmt.Sprintf("accepted with m=%d, %d required", c.M, need)
	}
	return "", ""
}

func (f *fixtureA) runMS(full bool) v2Result {
	res := v2Result{PanicSites: map[string]int{}, Classes: map[string]int{}}
	viol := map[string]*evid.Violation{}
	var order []string
	n := f.n
	for _, er := range eras(n) {
		cfg := f.node.Config(er.Tweak)
		for version := 0; version <= 1; version++ {
			ms := map[int]bool{1: true, n: true, n + 1: true}
			for _, h := range er.Heights {
				need := required(er, byte(version), n, h)
				ms[need-1], ms[need], ms[need+1] = true, true, true
			}
			var mlist []int
			for m := range ms {
				if m >= 1 && m <= 16 {
					mlist = append(mlist, m)
				}
			}
			sort.Ints(mlist)
			for _, kl := range f.keyLists() {
				for _, m := range mlist {
					for _, dn := range []int{0, 1, -1} {
						nByte := len(kl.Keys) + dn
						if nByte < 1 || nByte > 16 {
							continue
						}
						for _, second := range []string{"", "valid-first", "valid-last"} {
							for _, rv := range refsVariants {
								if !full && rv.Name != "cross" && (second != "" || dn != 0) {
									continue
								}
								for _, h := range er.Heights {
									c := caseMS{N: n, Version: version, Era: er.Name, H: h, Keys: kl.Name, M: m, NByte: nByte, Second: second, Refs: rv.Name}
									v, prefixes := f.evalMS(c, cfg)
									res.Evals++
									cls := "rejected"
									if v.Panicked {
										res.Panics++
										res.PanicSites[v.Site+": "+v.PanicMsg[:min(len(v.PanicMsg), 40)]]++
										cls = "panic"
									} else if v.Accepted() {
										res.Accepted++
										cls = "accepted"
										if clause, what := f.judgeMS(c, prefixes); clause != "" {
											sig := fmt.Sprintf("C33|quorum|v%d|%s|era=%s", version, clause, er.Name)
											if _, ok := viol[sig]; !ok {
												viol[sig] = &evid.Violation{Signature: sig, What: what, Artefact: map[string]interface{}{"kind": "ms", "case": c}}
												order = append(order, sig)
											}
											viol[sig].Count++
										}
										if len(res.Samples) < 3 {
											res.Samples = append(res.Samples, map[string]interface{}{"case": c, "verdict": "accepted"})
										}
									} else {
										cls = "rejected: " + v.Err.Error()
									}
									mclass := "m<required"
									if m >= required(er, byte(version), n, h) {
										mclass = "m>=required"
									}
									eraPos := er.Name
									if er.Name == "boundary" {
										eraPos = fmt.Sprintf("boundary|h=%d|m=%d", h, m)
									}
									res.Classes[strings.Join([]string{fmt.Sprintf("v%d", version), eraPos, "keys=" + kl.Name, mclass, fmt.Sprintf("dn=%d", dn), "second=" + second, "refs=" + rv.Name, cls}, "|")]++
								}
							}
						}
					}
				}
			}
		}
	}
	for _, s := range order {
		res.Violations = append(res.Violations, *viol[s])
	}
	return res
}

func min(a, b int) int {
	if a < b {
		return a
	}
	return b
}
