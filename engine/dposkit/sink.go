package dposkit

import "verif/evid"

// Sink collects the violations of one shard in enumeration order. Shards are merged in shard
// order after the parallel phase, so the example kept per signature does not depend on
// goroutine timing (deterministic output).
type Sink struct {
	order []string
	m     map[string]*evid.Violation
}

func (k *Sink) Violate(sig, what string, art interface{}) {
	if k.m == nil {
		k.m = map[string]*evid.Violation{}
	}
	if v, ok := k.m[sig]; ok {
		v.Count++
		return
	}
	k.m[sig] = &evid.Violation{Signature: sig, What: what, Artefact: art, Count: 1}
	k.order = append(k.order, sig)
}

// Seen reports whether sig was already collected and, if so, counts one more occurrence (lets
// callers skip formatting the description of a repeated violation).
func (k *Sink) Seen(sig string) bool {
	if v, ok := k.m[sig]; ok {
		v.Count++
		return true
	}
	return false
}

// Has reports whether sig was already collected, without counting.
func (k *Sink) Has(sig string) bool { _, ok := k.m[sig]; return ok }

// MergeInto hands the collected violations to the run.
func (k *Sink) MergeInto(r *evid.Run) {
	for _, s := range k.order {
		r.MergeViolation(*k.m[s])
	}
}

// Len is the number of distinct signatures collected.
func (k *Sink) Len() int { return len(k.order) }
