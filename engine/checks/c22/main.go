// C22: CR committee state after a rollback equals the state built directly.
//
// Seam: crstate.Committee.ProcessBlock / RollbackTo driven directly, as
// test/unit/committeerollback_test.go drives them (no chain), with periods shrunk (crkit.Params).
// Every transaction that goes into a block has first been accepted by the node's own checks
// (HeightVersionCheck, CheckTransactionPayload, the vote-output rules of ContextCheck and the
// type's SpecialContextCheck) on the light node tier, so only blocks a node would connect are
// fed to the committee.
//
// Space: for each scenario (a fixed warm-up prefix that parks the chain in front of a boundary)
// every sequence of enabled operations of the scenario's alphabet up to the tier's depth — no
// state merging: a node of the search is a history, because rollback behaviour depends on the
// recorded undo closures, not only on the state.
//
// Oracle, evaluated for every explored history h (n blocks) and every rollback target k in the
// tier's window: on a second committee that processed h, RollbackTo(k) must succeed and leave
// exactly the state the first committee had after h[:k] (built directly, never rolled back);
// re-processing h[k:] must then give exactly the state after h. Extra clause (C23(b), CR half):
// a checkpoint taken after h[:k] (Checkpoint.Snapshot -> Serialize), loaded into a fresh
// committee (Deserialize -> OnInit, the path checkpoint.Manager.Restore takes) and fed h[k:] must
// give the state after h. "State" is the canonical rendering of the three key frames the
// committee checkpoint serialises (crkit.Canon).
package main

import (
	"bytes"
	"fmt"
	"os"
	"runtime/debug"
	"runtime/pprof"
	"sort"
	"strings"
	"sync"
	"sync/atomic"
	"time"

	"github.com/elastos/Elastos.ELA/common/config"
	"github.com/elastos/Elastos.ELA/core/checkpoint"
	"github.com/elastos/Elastos.ELA/core/types"
	crstate "github.com/elastos/Elastos.ELA/cr/state"

	"verif/crkit"
	"verif/evid"
	"verif/mc"
)

type scenario struct {
	name       string
	warm       []string
	alphabet   []string
	extra      []string // thorough tier only
	longReview bool     // crkit.ParamsLongReview instead of crkit.Params
	dposV2     bool     // crkit.ParamsDPoSV2
	warmBlocks int      // number of blocks the warm-up produces (set by validateWarmups)
}

// Each scenario has a core alphabet (quick tier) and extra operations added in the thorough tier.
var scenarios = []*scenario{
	{
		// heights 1..5 done: three candidates registered (pending), CR assets funded.
		// free blocks cross candidate activation (6), the end of the first voting period and the
		// first election (8).
		name:     "first-election",
		warm:     []string{"reg:c1+reg:c2+reg:c3", "fund", "e3"},
		alphabet: []string{"e", "reg:c4", "upd:c1", "unreg:c3", "vote:v1:a", "vote:v1:b", "unvote:v1", "approp"},
		extra:    []string{"e2", "e3", "ret:c3", "vote:v2:d", "upd:c3", "unreg:c1"},
	},
	{
		// committee {c1,c2} elected at 8, appropriation done at 9, proposal A registered at 10:
		// free blocks cross the end of the council review (12) and of the public review (14).
		name:     "proposal-review",
		warm:     []string{"reg:c1+reg:c2+reg:c3", "fund", "e4", "vote:v1:a", "e", "approp", "prop:A:c1"},
		alphabet: []string{"e", "rev2:A:a", "rev:c2:A:r", "prop:B:c2", "sg:D:c2", "rej:vr:A:big", "imp:vi:c2:big", "elip:C:c1"},
		extra:    []string{"e2", "rev:c1:A:a", "rev:c2:A:a", "rev:c1:A:s", "rej:vr:A:small", "imp:vi:c2:small"},
	},
	{
		// proposal A voter-agreed at 14 (imprest withdrawable), B registered at 13:
		// free blocks: tracking (each kind, repeatedly on the same stage: reject, reject again,
		// progress after reject, terminate / finalise after reject ...), withdrawal requests and
		// payment, council review of B.
		name: "proposal-execution",
		warm: []string{"reg:c1+reg:c2+reg:c3", "fund", "e4", "vote:v1:a", "e", "approp", "prop:A:c1", "rev2:A:a", "e",
			"prop:B:c2", "e"},
		alphabet: []string{"e", "wd:A", "realwd", "trk:A:progress", "trk:A:rejected", "trk:A:rejected:2", "trk:A:finalized",
			"trk:A:terminated", "trk:A:changeowner", "rev2:B:a"},
		extra: []string{"e2", "imp:vi:c1:big", "trk:A:common", "trk:A:progress:2", "rev:c1:B:r", "rej:vr:B:big", "close:E:A:c1"},
	},
	{
		// A voter-agreed; three special proposals already approved by the council and in public
		// review: E closes A, F hands A to a new owner, D replaces the secretary-general. Free
		// blocks cross the heights where they take effect (or are voted down).
		name: "special-proposals",
		warm: []string{"reg:c1+reg:c2+reg:c3", "fund", "e4", "vote:v1:a", "e", "approp", "prop:A:c1", "rev2:A:a", "e3",
			"close:E:A:c1", "chown:F:A:c2+sg:D:c2", "rev2:E:a", "rev2:F:a+rev2:D:a"},
		alphabet: []string{"e", "wd:A", "trk:A:progress", "trk:A:changeowner", "rej:vr:E:big", "rej:vr:F:big", "rej:vr:D:big",
			"imp:vi:c2:big"},
		extra: []string{"e2", "trk:A:terminated", "trk:A:finalized", "realwd"},
	},
	{
		// first committee in office and funded; c3 lost the election and may take his deposit
		// back, members may be impeached (which ends the term early) and then do the same.
		name:     "deposit-return",
		warm:     []string{"reg:c1+reg:c2+reg:c3", "fund", "e4", "vote:v1:a", "e", "approp"},
		alphabet: []string{"e", "ret:c3", "imp:vi:c1:big", "imp:vi:c2:big", "ret:c1", "prop:A:c2", "reg:c3"},
		extra:    []string{"e2", "imp:vi:c1:small", "rev2:A:a", "vote:v2:d"},
	},
	{
		// council review of 9 blocks: A (registered at 10) voter-agreed at 21, B registered at 19,
		// the last block before the voting period, and decided at 28 - the block in which the
		// second committee (candidates registered at 20, voted at 26) takes office. Free blocks:
		// the election block with B cancelled (no opinions), council-agreed (both approve) or
		// aborted (impeachment), i.e. budget released in the same block as the committee change.
		name:       "election-with-proposal",
		longReview: true,
		warm: []string{"reg:c1+reg:c2+reg:c3", "fund", "e4", "vote:v1:a", "e", "approp", "prop:A:c1", "rev2:A:a", "e7",
			"prop:B:c2", "reg:c1+reg:c2+reg:c3", "e5", "vote:v1:a"},
		alphabet: []string{"e", "rev2:B:a", "rev:c1:B:r", "imp:vi:c1:big", "wd:A", "vote:v2:d"},
		extra:    []string{"e2", "trk:A:progress", "unvote:v1", "imp:vi:c2:big", "realwd"},
	},
	{
		// DPoS v2 era: votes counted at 8 (next members c1, c2 elected), c1 has claimed node n1 at
		// 9; free blocks: further claims of the elected members in the claim period, the block in
		// which they take office (11, Committee.resetNextMembers hands NextClaimedDPoSKeys over),
		// claims of the sitting members afterwards - rolled back across claim and committee change.
		name:     "dposv2-claim-node",
		dposV2:   true,
		warm:     []string{"reg:c1+reg:c2+reg:c3", "fund", "e4", "vote:v1:a", "e", "claimnext:c1:n1"},
		alphabet: []string{"e", "claimnext:c2:n2", "claimnext:c1:n3", "claim:c1:n3", "claim:c2:n4", "claim:c1:n1"},
		extra:    []string{"e2", "claimnext:c2:n1", "claim:c2:n2", "imp:vi:c1:big"},
	},
	{
		// the first committee's duty is about to end (second voting period 20..27, change at 28):
		// A voter-agreed with its imprest requested, B in council review.
		name: "re-election",
		warm: []string{"reg:c1+reg:c2+reg:c3", "fund", "e4", "vote:v1:a", "e", "approp", "prop:A:c1", "rev2:A:a", "e3",
			"wd:A", "e3", "prop:B:c2"},
		alphabet: []string{"e", "e5", "reg:c4", "reg:c3", "unreg:c3", "vote:v1:b", "vote:v2:c", "rev2:B:a", "imp:vi:c1:big"},
		extra:    []string{"e2", "reg:c1", "upd:c3", "vote:v1:a", "unvote:v1", "trk:A:progress", "wd:A", "realwd"},
	},
}

// counters (non-vacuity)
var (
	rollbackCmp   int64
	reapplyCmp    int64
	restoreCmp    int64
	rejectedOps   int64
	distinctState evid.Distinct
	kindsSeen     evid.Distinct
	eventsSeen    evid.Distinct
	passed        sync.Map // history key -> true: oracle already evaluated and clean
	failedEvals   sync.Map // history key -> *failRec: oracle evaluations of a failing history
	replayLen     int      // --replay: evaluate the oracle only on the complete history
	lossyFields   evid.Distinct
	run           *evid.Run
	backWindow    int // how many blocks below the free region rollbacks reach (0 = to height 1)
)

type inst struct {
	sc   *scenario
	w    *crkit.World
	hist []string
	// D[i] = canonical state after i blocks, built directly on w (never rolled back); only kept
	// for the heights the oracle can look at (nil below).
	D [][]string
	// CP[i] = serialised checkpoint taken from w after i blocks (Checkpoint.Snapshot -> Serialize)
	CP [][]byte
	// opOf[i] = operation that produced block i+1
	opOf []string
	// inert: created after the time budget ran out; does nothing
	inert bool
	err   string
}

func (sc *scenario) params() *config.Configuration {
	if sc.dposV2 {
		return crkit.ParamsDPoSV2()
	}
	if sc.longReview {
		return crkit.ParamsLongReview()
	}
	return crkit.Params()
}

func histKey(sc *scenario, hist []string) string { return sc.name + "|" + strings.Join(hist, ",") }

// outOfTime: the scenario's share of the time budget (or the whole budget) is used up.
func outOfTime() bool {
	return run.Expired() || (!scenarioDeadline.IsZero() && time.Now().After(scenarioDeadline))
}

func newInst(sc *scenario) *inst {
	if replayLen == 0 && outOfTime() {
		// nothing more is judged or expanded: an inert instance lets the search run out quickly
		// (it only comes to life for the confirmation replays of a failing history)
		atomic.StoreInt32(&expired, 1)
		return &inst{sc: sc, inert: true}
	}
	return newRealInst(sc)
}

// confirming: key is a failing history whose confirmation replays are still due.
func confirming(key string) bool {
	if v, ok := failedEvals.Load(key); ok {
		n := v.(*failRec).n
		return n > 0 && n < 3
	}
	return false
}

func newRealInst(sc *scenario) *inst {
	in := &inst{sc: sc, w: crkit.NewWorld(sc.params())}
	in.D = append(in.D, nil)
	in.CP = append(in.CP, nil)
	in.w.Skip = func(string) bool { return true } // the warm-up was validated in main
	for _, op := range sc.warm {
		blocks, err := in.w.Offer(op)
		if err != nil {
			evid.Fatalf("C22 %s: warm-up op %q not buildable: %v", sc.name, op, err)
		}
		in.applyBlocks(op, blocks)
	}
	in.w.Skip = nil
	return in
}

// low is the lowest height rollbacks may target for a history whose warm-up has `warm` blocks.
func low(warm int) int {
	lo := 1
	if backWindow > 0 && warm-backWindow > lo {
		lo = warm - backWindow
	}
	return lo
}

func (in *inst) applyBlocks(op string, blocks []*types.Block) {
	for _, b := range blocks {
		in.w.Apply([]*types.Block{b})
		in.opOf = append(in.opOf, op)
		h := len(in.D)
		if h < low(in.sc.warmBlocks) {
			in.D = append(in.D, nil)
			in.CP = append(in.CP, nil)
			continue
		}
		in.D = append(in.D, crkit.Canon(in.w.C))
		in.CP = append(in.CP, snapshotBytes(in.w.Manager(), uint32(h)))
	}
}

// snapshotBytes takes the committee checkpoint the way the checkpoint manager saves it
// (registered Checkpoint.Snapshot(), then Serialize); nil if the repository code fails.
func snapshotBytes(m *checkpoint.Manager, height uint32) []byte {
	cp, ok := m.GetCheckpoint("cp_cr", height)
	if !ok || cp == nil {
		evid.Fatalf("C22: no registered CR checkpoint")
	}
	snap := cp.Snapshot()
	if snap == nil {
		return nil
	}
	buf := new(bytes.Buffer)
	if err := snap.Serialize(buf); err != nil {
		return nil
	}
	return buf.Bytes()
}

func (in *inst) Ops() []string {
	var ops []string
	if in.inert || (replayLen == 0 && outOfTime()) {
		return nil
	}
	for _, op := range in.sc.alphabet {
		if _, err := in.w.Offer(op); err == nil {
			ops = append(ops, op)
		} else {
			atomic.AddInt64(&rejectedOps, 1)
		}
	}
	return ops
}

func (in *inst) Close() {
	if in.w != nil {
		in.w.Close()
	}
}

func (in *inst) Digest() string { return histKey(in.sc, in.hist) }

func (in *inst) Apply(op string) *mc.Fail {
	if in.inert {
		if !confirming(histKey(in.sc, append(append([]string{}, in.hist...), op))) {
			in.hist = append(in.hist, op)
			return nil
		}
		real := newRealInst(in.sc)
		for _, o := range in.hist {
			real.Apply(o)
		}
		*in = *real
	}
	key := histKey(in.sc, append(append([]string{}, in.hist...), op))
	_, done := passed.Load(key)
	if done {
		in.w.Skip = func(string) bool { return true }
	}
	blocks, err := in.w.Offer(op)
	in.w.Skip = nil
	if err != nil {
		evid.Fatalf("C22 %s: op %q offered after %v was rejected: %v", in.sc.name, op, in.hist, err)
	}
	before := len(in.D) - 1
	in.applyBlocks(op, blocks)
	in.hist = append(in.hist, op)
	if done {
		return nil
	}
	if replayLen > 0 && len(in.hist) != replayLen {
		in.oracle(false) // fills diffsOf for the next step; nothing is reported for a prefix
		return nil
	}
	if outOfTime() && !confirming(key) {
		// time budget (shared evenly between the scenarios) used up: finish the level without
		// judging; the result is reported as not exhaustive
		atomic.StoreInt32(&expired, 1)
		return nil
	}
	// A failing history is reported by its first evaluation and by the two confirmation replays
	// mc.Explore makes right after it; later replays of it as a prefix of longer histories go
	// through (failing histories are expanded: on the unchanged tree known findings would
	// otherwise cut off most of the space).
	cv, _ := failedEvals.LoadOrStore(key, &failRec{})
	rec := cv.(*failRec)
	if rec.n >= 3 {
		return nil
	}
	if rec.n > 0 && rec.memo != nil {
		// every signature of this history was already confirmed (by replays) on an earlier
		// history: the confirmation replays of this one return the recorded result.
		rec.n++
		return rec.memo
	}
	first := rec.n == 0
	if first { // counters count histories, not evaluations
		kindsSeen.Add(crkit.Kind(op))
		distinctState.Add(strings.Join(in.D[len(in.D)-1], "\n"))
		for i := before; i < len(in.D)-1; i++ {
			for _, e := range events(in.D[i], in.D[i+1]) {
				eventsSeen.Add(e)
			}
		}
	}
	f, sigs := in.oracle(first)
	if f == nil {
		passed.Store(key, true)
		return nil
	}
	rec.n++
	allConfirmed := true
	for _, sg := range sigs {
		if _, ok := confirmedSigs.Load(sg); !ok {
			allConfirmed = false
		}
	}
	if allConfirmed {
		rec.memo = f
	}
	if rec.n == 3 {
		for _, sg := range sigs {
			confirmedSigs.Store(sg, true)
		}
	}
	return f
}

// failRec tracks the evaluations of one failing history (touched by one goroutine at a time: a
// history is reached, confirmed and later replayed as a prefix strictly in that order).
type failRec struct {
	n    int
	memo *mc.Fail
}

var confirmedSigs sync.Map

var expired int32

// scenarioDeadline: end of the running scenario's share of the run's time budget.
var scenarioDeadline time.Time

// diffsOf: history key -> set of "clause|field|k" differences its oracle evaluation found.
var diffsOf sync.Map

// events names the boundary crossings between two consecutive direct-build states (used for
// non-vacuity counters and for signatures).
func events(a, b []string) []string {
	get := func(l []string, p string) string {
		for _, s := range l {
			if strings.HasPrefix(s, p+"=") {
				return s[len(p)+1:]
			}
		}
		return ""
	}
	var ev []string
	chg := func(p, name string) {
		if get(a, p) != get(b, p) {
			ev = append(ev, name)
		}
	}
	chg("KeyFrame.LastCommitteeHeight", "committee-changed")
	chg("KeyFrame.LastVotingStartHeight", "voting-start-moved")
	chg("KeyFrame.InElectionPeriod", "election-period-toggled")
	chg("KeyFrame.NeedAppropriation", "need-appropriation-toggled")
	// proposal status transitions and candidate / member state transitions
	st := func(l []string, suffix string) map[string]string {
		m := map[string]string{}
		for _, s := range l {
			if i := strings.Index(s, "="); i > 0 && strings.HasSuffix(s[:i], suffix) {
				m[s[:i]] = s[i+1:]
			}
		}
		return m
	}
	for _, suffix := range []string{"].Status", "].State", "].MemberState"} {
		sa, sb := st(a, suffix), st(b, suffix)
		for k, v := range sb {
			if old, ok := sa[k]; ok && old != v {
				ev = append(ev, fmt.Sprintf("%s:%s->%s", crkit.FieldOf(k), old, v))
			}
		}
	}
	sort.Strings(ev)
	return ev
}

// classesOf names the boundaries block h (1-based) crossed in the direct build, as coarse classes.
func (in *inst) classesOf(h int, structuralOnly bool) []string {
	if in.D[h-1] == nil || in.D[h] == nil {
		return nil
	}
	cl := map[string]bool{}
	for _, e := range events(in.D[h-1], in.D[h]) {
		switch {
		case e == "committee-changed":
			cl["election"] = true
		case e == "voting-start-moved":
			cl["voting-start"] = true
		case e == "election-period-toggled":
			cl["election-period"] = true
		case e == "need-appropriation-toggled":
		case structuralOnly:
		case strings.Contains(e, "Proposals[].Status"):
			cl["proposal-status"] = true
		case strings.Contains(e, "Candidates[].State"):
			cl["candidate-state"] = true
		case strings.Contains(e, "MemberState"):
			cl["member-state"] = true
		}
	}
	var l []string
	for c := range cl {
		l = append(l, c)
	}
	sort.Strings(l)
	return l
}

// blockClass describes block h for signatures: the transaction kind, or for a coinbase-only
// block "e" plus the boundaries it crosses.
func (in *inst) blockClass(h int) string {
	k := crkit.Kind(in.opOf[h-1])
	if k != "e" {
		return k
	}
	return in.emptyClass(h)
}

func (in *inst) emptyClass(h int) string {
	if l := in.classesOf(h, false); len(l) > 0 {
		return "e{" + strings.Join(l, ",") + "}"
	}
	return "e"
}

// undoneClass attributes a difference in field tf seen after rolling back the single block k+1:
// if the block carries transactions and also crosses a boundary, the block is replayed without
// its transactions; when the difference is still there the boundary is named, not the transaction.
func (in *inst) undoneClass(k, n int, tf string) string {
	kind := crkit.Kind(in.opOf[k])
	if kind == "e" || n != k+1 || len(in.classesOf(k+1, false)) == 0 {
		return in.blockClass(k + 1)
	}
	c3, ckp := in.w.NewCommittee()
	defer ckp.Close()
	for _, b := range in.w.Blocks[:k] {
		in.w.ProcessOn(c3, b)
	}
	orig := in.w.Blocks[k]
	in.w.ProcessOn(c3, &types.Block{Header: orig.Header, Transactions: orig.Transactions[:1]})
	if c3.RollbackTo(uint32(k)) != nil {
		return kind
	}
	if d := crkit.Compare(in.D[k], crkit.Canon(c3)); d != nil {
		for _, f := range d.Fields {
			if topField(f) == tf {
				return in.emptyClass(k + 1)
			}
		}
	}
	return kind
}

// span tells whether blocks from..to cross a committee change, the place where the committee
// swaps whole maps (candidates, members): "election" or "-".
func (in *inst) span(from, to int) string {
	for h := from; h <= to; h++ {
		for _, c := range in.classesOf(h, true) {
			if c == "election" {
				return "election"
			}
		}
	}
	return "-"
}

// sigOf builds the signature of a state difference. When the undone span crosses a committee
// change, the oldest undone block is not a reliable attribution (whole maps were swapped, every
// earlier undo step may be affected): the signature then names frame and map only.
func (in *inst) sigOf(clause, tf string, k, n int, undone func() string) string {
	if in.span(k+1, n) == "election" {
		parts := strings.Split(tf, ".")
		if len(parts) > 2 {
			parts = parts[:2]
		}
		return fmt.Sprintf("C22|%s|field=%s|span=election", clause, strings.Join(parts, "."))
	}
	return fmt.Sprintf("C22|%s|field=%s|undone=%s|span=-", clause, tf, undone())
}

// topField turns a key-free field path into the signature component: indices dropped, at most
// three components ("StateKeyFrame.DepositInfo[].Penalty" -> "StateKeyFrame.DepositInfo.Penalty",
// "KeyFrame.Members[].Info.NickName" -> "KeyFrame.Members.Info").
func topField(f string) string {
	parts := strings.Split(strings.ReplaceAll(f, "[]", ""), ".")
	if len(parts) > 3 {
		parts = parts[:3]
	}
	return strings.Join(parts, ".")
}

// oracle judges the current history; first is true for the first evaluation of the history (the
// only one that counts comparisons and reports the additional signatures).
func (in *inst) oracle(first bool) (*mc.Fail, []string) {
	count := func(c *int64) {
		if first {
			atomic.AddInt64(c, 1)
		}
	}
	n := len(in.D) - 1
	lo := low(in.sc.warmBlocks)
	type finding struct {
		sig, what string
	}
	var found []finding
	seen := map[string]bool{}
	add := func(sig, what string) {
		if !seen[sig] {
			seen[sig] = true
			found = append(found, finding{sig, what})
		}
	}
	// what a checkpoint of the uninterrupted committee contains after n blocks
	wantCP := canonOfCheckpoint(in.CP[n])
	if wantCP == nil {
		add("C22|checkpoint-snapshot-failed|after="+in.blockClass(n), fmt.Sprintf("Checkpoint.Snapshot()/Serialize failed after %d blocks", n))
	} else if d := crkit.Compare(in.D[n], wantCP); d != nil {
		// fields the checkpoint does not carry: C23(a)'s subject, recorded only
		for _, f := range d.Fields {
			lossyFields.Add(f)
		}
	}
	// descending k: the first rollback that shows a field difference is the shallowest one, so
	// the block named in the signature is the oldest block that has to be undone for it.
	// A difference (clause, field, k) that the parent history (this one without its last
	// operation) already showed for the same k is the same defect seen again from further away:
	// it is not reported again, so every report carries the shortest undone span.
	inherited := map[string]bool{}
	if len(in.hist) >= 1 {
		if v, ok := diffsOf.Load(histKey(in.sc, in.hist[:len(in.hist)-1])); ok {
			inherited = v.(map[string]bool)
		}
	}
	mine := map[string]bool{}
	defer diffsOf.Store(histKey(in.sc, in.hist), mine)
	fresh := func(clause, field string, k int) bool {
		id := fmt.Sprintf("%s|%s|%d", clause, field, k)
		mine[id] = true
		return !inherited[id]
	}
	fieldSeen := map[string]bool{}
	var early *mc.Fail
	var earlySigs []string
	perK := func(k int) {
		phase := "build"
		c2, ckp := in.w.NewCommittee()
		closed := false
		closeCkp := func() {
			if !closed {
				closed = true
				ckp.Close()
			}
		}
		defer closeCkp()
		// a panic of the repository code while rolling back / re-processing / restoring is a
		// violation of its own (the node would die in the middle of a reorganisation)
		defer func() {
			if e := recover(); e != nil {
				site := evid.PanicSite(debug.Stack())
				add(fmt.Sprintf("C22|panic|%s|during=%s", site, phase),
					fmt.Sprintf("after %d blocks, rollback target %d, phase %s: panic: %v", n, k, phase, e))
			}
		}()
		for _, b := range in.w.Blocks {
			in.w.ProcessOn(c2, b)
		}
		if d := compareOnce(k == n-1, in.D[n], c2); d != nil {
			sg := "C22|nondeterministic-build|field=" + topField(d.Fields[0])
			early, earlySigs = mc.Failf(sg, "two committees fed the same %d blocks differ: %v", n, d.Lines), []string{sg}
			return
		}
		phase = "rollback"
		err := c2.RollbackTo(uint32(k))
		count(&rollbackCmp)
		rbClean := err == nil
		if err != nil {
			add("C22|rollback-error|undone="+in.blockClass(k+1), fmt.Sprintf("RollbackTo(%d) from %d failed: %v", k, n, err))
		}
		if d := crkit.Compare(in.D[k], crkit.Canon(c2)); d != nil {
			rbClean = false
			for _, f := range d.Fields {
				tf := topField(f)
				if !fresh("rb", tf, k) || fieldSeen["rb|"+tf] {
					continue
				}
				fieldSeen["rb|"+tf] = true
				add(in.sigOf("rollback-differs", tf, k, n, func() string { return in.undoneClass(k, n, tf) }),
					fmt.Sprintf("after %d blocks, RollbackTo(%d) leaves a state different from the one built directly from the first %d blocks: %v", n, k, k, d.Lines))
			}
		}
		// re-processing is only judged from a correct base (a wrong rollback is already reported)
		if rbClean {
			phase = "reapply"
			for _, b := range in.w.Blocks[k:] {
				in.w.ProcessOn(c2, b)
			}
			count(&reapplyCmp)
			if d := crkit.Compare(in.D[n], crkit.Canon(c2)); d != nil {
				for _, f := range d.Fields {
					tf := topField(f)
					if !fresh("re", tf, k) || fieldSeen["re|"+tf] {
						continue
					}
					fieldSeen["re|"+tf] = true
					add(in.sigOf("reapply-differs", tf, k, n, func() string { return in.blockClass(k + 1) }),
						fmt.Sprintf("after %d blocks, RollbackTo(%d) and re-processing blocks %d..%d gives a state different from the uninterrupted one: %v", n, k, k+1, n, d.Lines))
				}
			}
		}
		closeCkp()

		// C23(b), CR half: checkpoint after k blocks, restore, feed the rest.
		if wantCP != nil && k >= in.sc.warmBlocks-1 {
			phase = "restore-from-checkpoint"
			count(&restoreCmp)
			in.restoreAt(k, n, wantCP, fieldSeen, fresh, add)
		}
	}
	for k := n - 1; k >= lo && early == nil; k-- {
		perK(k)
	}
	if early != nil {
		return early, earlySigs
	}
	if len(found) == 0 {
		return nil, nil
	}
	sort.Slice(found, func(i, j int) bool { return found[i].sig < found[j].sig })
	hist := append([]string{}, in.hist...)
	var sigs []string
	for i, f := range found {
		sigs = append(sigs, f.sig)
		if i > 0 && first {
			run.Violate(f.sig, f.what, map[string]interface{}{"system": in.sc.name, "history": hist})
		}
	}
	return &mc.Fail{Signature: found[0].sig, What: found[0].what}, sigs
}

func compareOnce(do bool, want []string, c *crstate.Committee) *crkit.Diff {
	if !do {
		return nil
	}
	return crkit.Compare(want, crkit.Canon(c))
}

// dropBenign removes the CRInfo.Signature lines (see restoreAt).
func dropBenign(l []string) []string {
	o := make([]string, 0, len(l))
	for _, s := range l {
		if i := strings.Index(s, "="); i > 0 && strings.HasSuffix(s[:i], ".Info.Signature") {
			continue
		}
		o = append(o, s)
	}
	return o
}

// canonOfCheckpoint renders a serialised checkpoint (nil if it cannot be read back).
func canonOfCheckpoint(b []byte) []string {
	if b == nil {
		return nil
	}
	cp := &crstate.Checkpoint{}
	if err := cp.Deserialize(bytes.NewReader(b)); err != nil {
		return nil
	}
	return crkit.CanonFrames(cp.KeyFrame, cp.StateKeyFrame, cp.ProposalKeyFrame)
}

// restoreAt: the checkpoint taken after k blocks is loaded into a fresh committee the way
// checkpoint.Manager.Restore does it (registered Checkpoint.Deserialize, then OnInit), the
// committee is fed blocks k+1..n, and what a checkpoint of it would now contain is compared with
// what a checkpoint of the uninterrupted committee contains.
func (in *inst) restoreAt(k, n int, wantCP []string, fieldSeen map[string]bool, fresh func(clause, field string, k int) bool, add func(sig, what string)) {
	if in.CP[k] == nil {
		add("C22|checkpoint-snapshot-failed|after="+in.blockClass(k), fmt.Sprintf("Checkpoint.Snapshot()/Serialize failed after %d blocks", k))
		return
	}
	dst, ckpD := in.w.NewCommittee()
	defer ckpD.Close()
	cpD, _ := ckpD.GetCheckpoint("cp_cr", 0)
	if err := cpD.Deserialize(bytes.NewReader(in.CP[k])); err != nil {
		add("C22|checkpoint-deserialize-failed|after="+in.blockClass(k), fmt.Sprintf("Deserialize of the checkpoint taken after %d blocks: %v", k, err))
		return
	}
	cpD.OnInit()
	for _, b := range in.w.Blocks[k:] {
		in.w.ProcessOn(dst, b)
	}
	// The restored committee is compared with the uninterrupted one on the live state, except
	// for the one field family the checkpoint does not carry and nothing reads after
	// registration: CRInfo.Signature of candidates / members (written with SerializeUnsigned).
	want, got := dropBenign(in.D[n]), dropBenign(crkit.Canon(dst))
	if d := crkit.Compare(want, got); d != nil {
		for _, f := range d.Fields {
			// what is lost on restore does not depend on the next block: frame and field only
			parts := strings.Split(topField(f), ".")
			if len(parts) > 2 {
				parts = parts[:2]
			}
			tf := strings.Join(parts, ".")
			if !fresh("rs", tf, k) || fieldSeen["rs|"+tf] {
				continue
			}
			fieldSeen["rs|"+tf] = true
			add(fmt.Sprintf("C22|c23b-restore-then-continue-differs|field=%s", tf),
				fmt.Sprintf("restored from the checkpoint after %d blocks and fed blocks %d..%d: state differs from the uninterrupted run's: %v", k, k+1, n, d.Lines))
		}
	}
}

// judgeRoot evaluates the oracle on the warm-up alone (the history with an empty free part): its
// differences are findings of their own and the base that first-level histories inherit from.
func judgeRoot(sc *scenario, report bool) {
	in := newInst(sc)
	defer in.Close()
	f, _ := in.oracle(report)
	if f != nil && report {
		run.Violate(f.Signature, f.What, map[string]interface{}{"system": sc.name, "history": []string{}})
	}
}

var stopProfile func()

func validateWarmups() {
	for _, sc := range scenarios {
		w := crkit.NewWorld(sc.params())
		for _, op := range sc.warm {
			blocks, err := w.Offer(op)
			if err != nil {
				evid.Fatalf("C22 %s: warm-up op %q rejected by the node's checks at height %d: %v", sc.name, op, w.Height+1, err)
			}
			w.Apply(blocks)
		}
		sc.warmBlocks = int(w.Height)
		if os.Getenv("VERIF_TRACE") != "" {
			fmt.Printf("scenario %s: warm-up ends at height %d\n", sc.name, w.Height)
			for _, l := range crkit.Canon(w.C) {
				fmt.Println("   ", l)
			}
		}
		w.Close()
	}
}

func main() {
	r := evid.Start("C22", "model_checking")
	run = r
	if pf := os.Getenv("VERIF_CPUPROFILE"); pf != "" { // development aid
		f, _ := os.Create(pf)
		pprof.StartCPUProfile(f)
		defer pprof.StopCPUProfile()
		stopProfile = pprof.StopCPUProfile
	}
	scratch := crkit.Init()
	defer os.RemoveAll(scratch)
	if r.Thorough() {
		for _, sc := range scenarios {
			sc.alphabet = append(sc.alphabet, sc.extra...)
		}
	}
	validateWarmups()
	depth := r.Pick(4, 5)
	backWindow = r.Pick(3, 0)
	if d := os.Getenv("VERIF_C22_DEPTH"); d != "" { // development aid
		fmt.Sscan(d, &depth)
	}
	if only := os.Getenv("VERIF_C22_ONLY"); only != "" {
		var keep []*scenario
		for _, sc := range scenarios {
			if sc.name == only {
				keep = append(keep, sc)
			}
		}
		scenarios = keep
	}

	if r.Replay != "" {
		var a struct {
			System  string   `json:"system"`
			History []string `json:"history"`
		}
		r.LoadReplay(&a)
		replayLen = len(a.History)
		for _, sc := range scenarios {
			if sc.name == a.System {
				sc := sc
				judgeRoot(sc, len(a.History) == 0)
				sp := &mc.Spec{Name: sc.name, New: func() mc.Instance { return newInst(sc) }, MaxDepth: len(a.History)}
				mc.Replay(r, sp, a.History)
			}
		}
		os.RemoveAll(scratch)
		r.Finish(evid.Coverage{})
	}

	total := &mc.Result{Exhaustive: true}
	per := map[string]interface{}{}
	start := time.Now()
	// quick: evid's own budget less a margin; thorough: the check ends itself after 25 minutes
	budget := time.Duration(r.Pick(1100, 1500)) * time.Second
	if b := os.Getenv("VERIF_BUDGET_S"); b != "" {
		var n int
		if _, err := fmt.Sscan(b, &n); err == nil && n > 0 {
			if b := time.Duration(n) * time.Second * 9 / 10; b < budget {
				budget = b
			}
		}
	}
	for si, sc := range scenarios {
		sc := sc
		scenarioDeadline = start.Add(budget * time.Duration(si+1) / time.Duration(len(scenarios)))
		judgeRoot(sc, true)
		sp := &mc.Spec{Name: sc.name, New: func() mc.Instance { return newInst(sc) }, MaxDepth: depth, ExpandFailed: true,
			MaxStates: r.Pick(0, 250000)}
		res := mc.Explore(r, sp)
		if atomic.SwapInt32(&expired, 0) != 0 {
			res.Exhaustive = false
			res.Capped = "time budget share reached: the histories explored until then are fully judged, nothing was judged or expanded afterwards"
		}
		total.States += res.States
		total.Transitions += res.Transitions
		total.Executions += res.Executions
		if res.DepthDone > total.DepthDone {
			total.DepthDone = res.DepthDone
		}
		total.Exhaustive = total.Exhaustive && res.Exhaustive
		if res.Capped != "" {
			total.Capped = sc.name + ": " + res.Capped
		}
		total.PerDepth = append(total.PerDepth, res.PerDepth...)
		if len(total.Samples) < 6 && len(res.Samples) > 0 {
			total.Samples = append(total.Samples, append([]string{"[" + sc.name + "]"}, res.Samples[0]...))
		}
		per[sc.name] = map[string]interface{}{"histories": res.States, "transitions": res.Transitions, "per_depth": res.PerDepth,
			"warmup": sc.warm, "alphabet": sc.alphabet}
		fmt.Printf("C22 %s: %d histories, %d transitions, depth %d\n", sc.name, res.States, res.Transitions, res.DepthDone)
	}
	cov := total.Coverage(fmt.Sprintf("for each of %d scenarios (fixed warm-up prefix + alphabet, see scenarios): every sequence of node-accepted operations up to depth %d (no state merging; a search node is a history); after every history h (n blocks) and for every k in [max(1,warm-%d) .. n-1] (0 = down to height 1): second committee fed h, RollbackTo(k) == direct build of h[:k]; re-process h[k:] == direct build of h; checkpoint after h[:k] restored into a fresh committee and fed h[k:] == direct build of h; comparison on the canonical rendering (sorted maps, nil==empty) of KeyFrame, StateKeyFrame and ProposalKeyFrame", len(scenarios), depth, backWindow))
	cov["scenarios"] = per
	cov["rollback_comparisons"] = atomic.LoadInt64(&rollbackCmp)
	cov["reapply_comparisons"] = atomic.LoadInt64(&reapplyCmp)
	cov["checkpoint_restore_comparisons"] = atomic.LoadInt64(&restoreCmp)
	cov["distinct_committee_states"] = distinctState.Len()
	cov["operations_rejected_by_node_checks"] = atomic.LoadInt64(&rejectedOps)
	cov["transaction_kinds_applied"] = kindsSeen.Map()
	cov["boundary_events_crossed"] = eventsSeen.Map()
	cov["fields_not_carried_by_checkpoint"] = lossyFields.Map()
	r.Assume = append(r.Assume,
		"regime: before DPoS v2 (vote outputs in TransferAsset), as in test/unit/committeerollback_test.go; CR claim-node, custom-ID, side-chain and upgrade proposals are outside the alphabet",
		"voting period 8 and duty period 20 blocks instead of 3-5: a candidate needs ActivateDuration=6 blocks (a constant) to become active inside the voting period",
		"UTXO-level validity (fees, input signatures, double spends) is not part of the seam; amounts are chosen so that a wallet could have produced the transactions",
	)
	os.RemoveAll(scratch)
	if stopProfile != nil {
		stopProfile()
	}
	r.Finish(cov)
}
