package crkit

import (
	"fmt"

	"github.com/elastos/Elastos.ELA/blockchain"
	"github.com/elastos/Elastos.ELA/common"
	"github.com/elastos/Elastos.ELA/common/config"
	"github.com/elastos/Elastos.ELA/core/checkpoint"
	"github.com/elastos/Elastos.ELA/core/transaction"
	"github.com/elastos/Elastos.ELA/core/types"
	common2 "github.com/elastos/Elastos.ELA/core/types/common"
	crstate "github.com/elastos/Elastos.ELA/cr/state"
)

// Fixture is one CR committee on the light node tier: the committee is driven directly with
// ProcessBlock/RollbackTo (the seam of test/unit/committeerollback_test.go) and is reachable by
// the transactions' own checks through a BlockChain value that carries only the committee, an
// empty DPoS state and the height.
type Fixture struct {
	P     *config.Configuration
	C     *crstate.Committee
	Chain *blockchain.BlockChain
	ckp   *checkpoint.Manager

	Height uint32 // height of the last processed block (0: none yet)
	cur    uint32 // what the committee's GetHeight callback answers

	// Outs: every output created by a processed transaction, by refer key. Serves
	// GetTxReference (vote cancellation) and the references handed to SpecialContextCheck.
	Outs map[string]common2.Output
	// Blocks processed so far (index i holds the block of height i+1).
	Blocks []*types.Block

	Miner  *Key
	closed bool
}

func NewFixture(p *config.Configuration) *Fixture {
	f := &Fixture{P: p, Outs: map[string]common2.Output{}, Miner: K("miner")}
	f.ckp = checkpoint.NewManager(p)
	f.C = crstate.NewCommittee(p, f.ckp)
	f.register(f.C)
	f.Chain = &blockchain.BlockChain{}
	f.Chain.SetCRCommittee(f.C)
	f.Chain.SetState(dposState)
	return f
}

func (f *Fixture) register(c *crstate.Committee) {
	c.RegisterFuncitons(&crstate.CommitteeFuncsConfig{
		GetHeight:      func() uint32 { return f.cur },
		GetTxReference: f.txReference,
	})
}

// Close stops the checkpoint manager goroutine started by NewCommittee.
func (f *Fixture) Close() {
	if !f.closed { // idempotent: a second Exit would block forever
		f.closed = true
		f.ckp.Close()
	}
}

func (f *Fixture) txReference(tx Tx) (map[*common2.Input]common2.Output, error) {
	refs := map[*common2.Input]common2.Output{}
	for _, in := range tx.Inputs() {
		o, ok := f.Outs[in.ReferKey()]
		if !ok {
			return nil, fmt.Errorf("unknown reference %s", in.ReferKey())
		}
		refs[in] = o
	}
	return refs, nil
}

// Refs resolves the inputs of tx against the outputs created so far.
func (f *Fixture) Refs(tx Tx) map[*common2.Input]common2.Output {
	refs, err := f.txReference(tx)
	if err != nil {
		return nil
	}
	return refs
}

// Check asks the transaction for its verdict as a member of the next block: the node's
// HeightVersionCheck, CheckTransactionPayload, the vote-output rules of ContextCheck and the
// type's SpecialContextCheck, with references resolved from the harness' outputs.
// proposalsUsed is the budget already claimed by proposals earlier in the same block.
func (f *Fixture) Check(tx Tx, proposalsUsed common.Fixed64) error {
	h := f.Height + 1
	f.setChainHeight(f.Height)
	refs, err := f.txReference(tx)
	if err != nil {
		return err
	}
	params := &transaction.TransactionParameters{
		Transaction:         tx,
		BlockHeight:         h,
		TimeStamp:           h * 120,
		Config:              f.P,
		BlockChain:          f.Chain,
		ProposalsUsedAmount: proposalsUsed,
	}
	tx.SetParameters(params)
	tx.SetReferences(refs)
	if err := tx.HeightVersionCheck(); err != nil {
		return fmt.Errorf("height-version: %v", err)
	}
	if err := tx.CheckTransactionPayload(); err != nil {
		return fmt.Errorf("payload: %v", err)
	}
	if tx.TxType() == common2.TransferAsset {
		if err := transaction.VerifCheckVoteOutputs(params, refs); err != nil {
			return fmt.Errorf("vote-outputs: %v", err)
		}
	}
	if e, _ := tx.SpecialContextCheck(); e != nil {
		return fmt.Errorf("special: %v", e)
	}
	return nil
}

func (f *Fixture) setChainHeight(h uint32) {
	if uint32(len(f.Chain.Nodes)) != h+1 {
		f.Chain.Nodes = make([]*blockchain.BlockNode, h+1)
	}
}

// MakeBlock builds the block of the next height: a coinbase followed by txs.
func (f *Fixture) MakeBlock(txs ...Tx) *types.Block {
	h := f.Height + 1
	reward := f.P.GetBlockReward(h)
	var assets *common.Uint168
	var crShare common.Fixed64
	if h >= f.P.CRConfiguration.CRCommitteeStartHeight {
		assets = f.P.CRConfiguration.CRAssetsProgramHash
		crShare = common.Fixed64(float64(reward) * 0.3)
	}
	all := append([]Tx{CoinBase(h, assets, crShare, f.Miner, reward-crShare)}, txs...)
	return &types.Block{Header: common2.Header{Height: h, Timestamp: h * 120}, Transactions: all}
}

// Process applies block (which must be of the next height) to the committee.
func (f *Fixture) Process(b *types.Block) {
	f.ProcessOn(f.C, b)
	f.Blocks = append(f.Blocks, b)
	f.Height = b.Height
}

// ProcessOn applies b to committee c (which must have been registered with this fixture's
// callbacks) without touching the fixture's own position.
func (f *Fixture) ProcessOn(c *crstate.Committee, b *types.Block) {
	for _, tx := range b.Transactions {
		for i, o := range tx.Outputs() {
			f.Outs[common2.NewOutPoint(tx.Hash(), uint16(i)).ReferKey()] = *o
		}
	}
	f.cur = b.Height
	c.ProcessBlock(b, nil)
}

// Rollback rolls the committee back to height k and forgets the blocks above it.
func (f *Fixture) Rollback(k uint32) error {
	if err := f.C.RollbackTo(k); err != nil {
		return err
	}
	f.Blocks = f.Blocks[:k]
	f.Height = k
	f.cur = k
	return nil
}

// NewCommittee returns one more committee wired to this fixture's callbacks (for differential
// runs) and its checkpoint manager; Close the manager when done.
func (f *Fixture) NewCommittee() (*crstate.Committee, *checkpoint.Manager) {
	ckp := checkpoint.NewManager(f.P)
	c := crstate.NewCommittee(f.P, ckp)
	f.register(c)
	return c, ckp
}

// Manager is the checkpoint manager the fixture's own committee is registered with.
func (f *Fixture) Manager() *checkpoint.Manager { return f.ckp }
