package main

// part (c): the policy as seen through the complete DefaultChecker.ContextCheck on a light node:
// otherwise fully valid, signed TransferAsset transactions spending real unspent outputs.

import (
	"fmt"
	"math"
	"path/filepath"

	"github.com/elastos/Elastos.ELA/common"
	"github.com/elastos/Elastos.ELA/common/config"
	"github.com/elastos/Elastos.ELA/core/contract/program"
	"github.com/elastos/Elastos.ELA/core/transaction"
	common2 "github.com/elastos/Elastos.ELA/core/types/common"
	"github.com/elastos/Elastos.ELA/core/types/interfaces"
	"github.com/elastos/Elastos.ELA/core/types/payload"

	"verif/evid"
	"verif/lightnode"
)

type ctxRes struct {
	Spend    string `json:"spend"` // cross | standard | cross+standard
	Cfg      string `json:"cfg"`   // mainnet | disabled
	H        uint32 `json:"h"`
	Accepted bool   `json:"accepted"`
	Err      string `json:"err"`
	Panicked bool   `json:"panicked"`
	// Reused: the same transaction object was context-checked at PrevH first (pool admission,
	// then re-validation / block check), parameters set again for H as the node does
	Reused bool   `json:"reused_object"`
	PrevH  uint32 `json:"previous_height"`
}

func runCtx(scr string) []ctxRes {
	n, err := lightnode.New(filepath.Join(scr, "node"), lightnode.Options{})
	if err != nil {
		evid.Fatalf("light node: %v", err)
	}
	defer n.Close()
	owner := lightnode.FixedKey("c31-owner", 0)
	k1, k2 := lightnode.FixedKey("c31-x", 1), lightnode.FixedKey("c31-x", 2)
	xcode := lightnode.CrossChainCode(1, [][]byte{k1.Compressed, k2.Compressed}, -1)
	xhash := *common.ToProgramHash(pfxCrossChain, xcode)
	// three spendable pairs per (cfg, height) are not needed: ContextCheck does not change the
	// store, the same unspent outputs serve every case.
	fund, err := n.Fund("c31", lightnode.Output(xhash, 1000), lightnode.Output(owner.StandardHash(), 1000))
	if err != nil {
		evid.Fatalf("fund: %v", err)
	}
	mk := func(spend string) interfaces.Transaction {
		var ins []*common2.Input
		total := common.Fixed64(0)
		if spend == "cross" || spend == "cross+standard" {
			ins = append(ins, lightnode.Input(fund, 0))
			total += 1000
		}
		if spend == "standard" || spend == "cross+standard" {
			ins = append(ins, lightnode.Input(fund, 1))
			total += 1000
		}
		attr := common2.NewAttribute(common2.Nonce, []byte("c31-"+spend))
		tx := transaction.CreateTransaction(common2.TxVersion09, common2.TransferAsset, 0, &payload.TransferAsset{},
			[]*common2.Attribute{&attr}, ins, []*common2.Output{lightnode.Output(owner.StandardHash(), total-1000)}, 0, nil)
		var progs []*program.Program
		if spend != "standard" {
			p, err := lightnode.SignCrossChain(tx, xcode, []lightnode.Key{k1})
			if err != nil {
				evid.Fatalf("sign: %v", err)
			}
			progs = append(progs, p)
		}
		if spend != "cross" {
			p, err := lightnode.SignStandard(tx, owner)
			if err != nil {
				evid.Fatalf("sign: %v", err)
			}
			progs = append(progs, p)
		}
		tx.SetPrograms(progs)
		return tx
	}
	cfgs := []struct {
		name string
		c    *config.Configuration
	}{
		{"mainnet", n.Config(nil)},
		{"disabled", n.Config(func(p *config.Configuration) {
			p.CrossChainUTXOFreezeHeight = math.MaxUint32
			p.CrossChainUTXORestrictionHeight = math.MaxUint32
		})},
	}
	var out []ctxRes
	for _, cfg := range cfgs {
		for _, spend := range []string{"cross", "standard", "cross+standard"} {
			for _, h := range []uint32{coordFreeze - 1, coordFreeze, coordFreeze + 1, coordRestriction - 1, coordRestriction, coordRestriction + 1} {
				tx := mk(spend)
				_, v := n.ContextCheck(tx, h, cfg.c)
				out = append(out, ctxRes{Spend: spend, Cfg: cfg.name, H: h, Accepted: v.Accepted(), Err: v.String(), Panicked: v.Panicked})
			}
		}
	}
	// object reuse: every ordered pair of heights on one transaction object
	hs := []uint32{coordFreeze - 1, coordFreeze, coordRestriction - 1, coordRestriction, coordRestriction + 1}
	for _, spend := range []string{"cross", "standard", "cross+standard"} {
		for _, h1 := range hs {
			for _, h2 := range hs {
				tx := mk(spend)
				n.ContextCheck(tx, h1, cfgs[0].c)
				_, v := n.ContextCheck(tx, h2, cfgs[0].c)
				out = append(out, ctxRes{Spend: spend, Cfg: cfgs[0].name, H: h2, Accepted: v.Accepted(), Err: v.String(), Panicked: v.Panicked, Reused: true, PrevH: h1})
			}
		}
	}
	return out
}

func judgeCtx(r *evid.Run, xs []ctxRes, classes *evid.Distinct) (accepted int) {
	for _, x := range xs {
		art := map[string]interface{}{"kind": "context", "case": x}
		forbidden := x.Cfg == "mainnet" && x.Spend != "standard" && x.H >= coordFreeze
		b := "before-freeze"
		if x.Cfg == "disabled" {
			b = "disabled"
		} else if x.H >= coordRestriction {
			b = "restricted"
		} else if x.H >= coordFreeze {
			b = "freeze-window"
		}
		if x.Reused {
			pb := "prev-before-freeze"
			if x.PrevH >= coordRestriction {
				pb = "prev-restricted"
			} else if x.PrevH >= coordFreeze {
				pb = "prev-freeze-window"
			}
			b = "reused(" + pb + ")->" + b
		}
		classes.Add(fmt.Sprintf("ctx|%s|%s|%v", b, x.Spend, x.Accepted))
		if x.Panicked {
			evid.Fatalf("ContextCheck panicked in the C31 fixture: %s", x.Err)
		}
		if x.Accepted {
			accepted++
		}
		if forbidden && x.Accepted {
			r.Violate(fmt.Sprintf("C31|context|accepted-forbidden|%s|TransferAsset|spend=%s", b, x.Spend),
				"the complete ContextCheck accepts a signed TransferAsset that spends a cross-chain UTXO at a height where the policy forbids it", art)
		}
		if !forbidden && !x.Accepted {
			// the fixture transaction is fully valid: a rejection means the policy (or the
			// fixture) refuses what the statement permits
			r.Violate(fmt.Sprintf("C31|context|rejected-permitted|%s|TransferAsset|spend=%s", b, x.Spend),
				"the complete ContextCheck rejects a fully valid signed TransferAsset the policy does not concern: "+x.Err, art)
		}
	}
	return
}
