// C28: deposits and vote rights are never overdrawn.
//
// Deciding step (engine E1, light node tier): breadth-first explicit-state search over all
// sequences of "offer transaction t" operations up to a depth bound, executed on the real
// dpos/state.State with the node's own SanityCheck + SpecialContextCheck verdict deciding whether
// an offered transaction enters the next block (world.go). After every accepted block a reference
// ledger kept in plain integers is compared with the implementation (oracle clauses in
// world.go:invariants and the verdict clauses in applyReturn/applyVote/applyReturnVotes).
// The CR half (cr.go) does the same for candidate / council member deposits on a real
// cr/state.Committee driven through the shared crkit fixture.
//
// The repository keeps the chain in process globals, so the search is level-synchronous: the
// parent owns the seen-set and the frontier (as histories); for every level the frontier is cut
// into contiguous chunks that worker subprocesses expand (replay history on a fresh State, apply
// every operation of the alphabet, report successor digests). Results are merged in chunk order,
// so states, counts and the first counterexample are the same on every run.
package main

import (
	"encoding/json"
	"fmt"
	"os"
	"path/filepath"
	"runtime/debug"
	"sort"
	"strings"
	"time"

	"verif/crkit"
	"verif/evid"
	"verif/hx"
	"verif/mc"
	"verif/par"
)

type scenario struct {
	Name   string   `json:"name"`
	Kind   string   `json:"kind"` // "dpos" (world.go) or "cr" (cr.go)
	Regime string   `json:"regime"`
	NStake int      `json:"n_stake"`
	Seed   []string `json:"seed"`
	Depth  int      `json:"depth"`
}

type job struct {
	Sc   scenario `json:"sc"`
	File string   `json:"file"` // JSON [][]string: histories (after the seed) to expand
}

type succ struct {
	H []string `json:"h"`
	D string   `json:"d"`
}

type viol struct {
	Sig  string   `json:"sig"`
	What string   `json:"what"`
	H    []string `json:"h"`
}

type workerOut struct {
	Succ        []succ    `json:"succ"`
	Viol        []viol    `json:"viol"`
	Transitions int64     `json:"transitions"`
	Executions  int64     `json:"executions"`
	NV          *counters `json:"nv"`
	RootDigest  string    `json:"root_digest,omitempty"`
}

// instance is one fresh copy of the system under test together with its reference ledger.
type instance interface {
	Ops() []string
	Apply(op string) *fail
	Digest() string
	Changed() bool   // the last Apply produced a block
	SetTrust(t bool) // replaying an explored prefix: the node's verdicts are not recomputed
	Blocks() int     // blocks processed so far
	Close()
}

var currentKind = "dpos"

func newInstance() instance {
	if currentKind == "cr" {
		return newCRInst()
	}
	return newInst()
}

func safeApply(in instance, op string) (f *fail) {
	defer func() {
		if e := recover(); e != nil {
			st := debug.Stack()
			f = &fail{Fail: mc.Fail{Signature: "C28|panic|" + evid.PanicSite(st), What: fmt.Sprintf("panic while applying %s: %v", op, e)}}
		}
	}()
	return in.Apply(op)
}

// replay builds a fresh instance and applies hist. With trust the verdicts of the node are not
// recomputed (hist is a stored history: each of its operations was accepted when it was first
// explored). It returns the first hard failure, or the soft failure of the last operation.
func replay(hist []string, trust bool) (instance, *fail) {
	in := newInstance()
	in.SetTrust(trust)
	var last *fail
	for i, op := range hist {
		last = nil
		if f := safeApply(in, op); f != nil {
			if !f.soft {
				in.SetTrust(false)
				return in, f
			}
			if i == len(hist)-1 {
				last = f
			}
		}
	}
	in.SetTrust(false)
	return in, last
}

func cat(a []string, b ...string) []string {
	return append(append([]string{}, a...), b...)
}

// prefix replays an explored history as a base for further operations.
func prefix(sc scenario, full []string, out *workerOut, old instance) instance {
	if old != nil {
		old.Close()
	}
	in, f := replay(full, true)
	out.Executions++
	if f != nil && !f.soft {
		evid.Fatalf("%s: replay of an explored prefix failed (nondeterminism): %v: %s", sc.Name, full, f.What)
	}
	return in
}

// expand is the worker body: all one-step successors of the given histories.
func expand(sc scenario, hists [][]string) *workerOut {
	out := &workerOut{NV: NV}
	for _, h := range hists {
		full := cat(sc.Seed, h...)
		in := prefix(sc, full, out, nil)
		if len(h) == 0 {
			// the seed itself is validated once with the node's verdicts switched on
			chk, f := replay(full, false)
			out.Executions++
			if f != nil || chk.Digest() != in.Digest() || chk.Blocks() < len(full) {
				evid.Fatalf("%s: seed %v is not a sequence of accepted operations", sc.Name, sc.Seed)
			}
			chk.Close()
			out.RootDigest = in.Digest()
		}
		for _, op := range in.Ops() {
			par.Announce(strings.Join(cat(full, op), " "))
			f := safeApply(in, op)
			out.Transitions++
			if f != nil {
				// confirm twice on fresh instances with every verdict recomputed
				for k := 0; k < 2; k++ {
					c2, f2 := replay(cat(full, op), false)
					c2.Close()
					out.Executions++
					if f2 == nil || f2.Signature != f.Signature {
						evid.Fatalf("%s: failing history does not reproduce: %v (%s)", sc.Name, cat(full, op), f.Signature)
					}
				}
				out.Viol = append(out.Viol, viol{f.Signature, f.What, cat(full, op)})
				if !f.soft {
					in = prefix(sc, full, out, in)
					continue
				}
			}
			if !in.Changed() {
				continue // offer refused or not applicable: the state is untouched
			}
			out.Succ = append(out.Succ, succ{H: cat(h, op), D: in.Digest()})
			in = prefix(sc, full, out, in)
		}
		in.Close()
	}
	return out
}

func workerMain(js string) {
	var j job
	if err := json.Unmarshal([]byte(js), &j); err != nil {
		evid.Fatalf("job: %v", err)
	}
	scr := evid.Scratch("c28w")
	defer os.RemoveAll(scr)
	closeWorld := openWorld(j.Sc, scr)
	var hists [][]string
	b, err := os.ReadFile(j.File)
	if err != nil {
		evid.Fatalf("job file: %v", err)
	}
	if err := json.Unmarshal(b, &hists); err != nil {
		evid.Fatalf("job file: %v", err)
	}
	out := expand(j.Sc, hists)
	closeWorld()
	os.RemoveAll(scr)
	par.Emit(out)
}

// openWorld prepares the process-wide fixture of the scenario's kind.
func openWorld(sc scenario, scr string) (closeFn func()) {
	currentKind = sc.Kind
	if sc.Kind == "cr" {
		dir := crkit.Init()
		return func() { os.RemoveAll(dir) }
	}
	hx.QuietLogs(scr)
	W = setupWorld(sc.Regime, sc.NStake)
	return func() {}
}

type scResult struct {
	sc                              scenario
	seen                            map[string]bool
	frontier                        [][]string
	States, Transitions, Executions int64
	PerDepth                        []int
	DepthDone                       int
	Exhaustive                      bool
	Capped                          string
	Samples                         [][]string
}

// explore runs the scenarios level by level in lockstep: one batch of worker processes per
// level serves the frontiers of all scenarios.
func explore(r *evid.Run, scs []scenario, scr string, nv *counters) []*scResult {
	var rs []*scResult
	maxDepth := 0
	for _, sc := range scs {
		rs = append(rs, &scResult{sc: sc, seen: map[string]bool{}, frontier: [][]string{{}}, States: 1, PerDepth: []int{1}, Exhaustive: true})
		if sc.Depth > maxDepth {
			maxDepth = sc.Depth
		}
	}
	for depth := 0; depth < maxDepth; depth++ {
		total := 0
		for _, s := range rs {
			if depth < s.sc.Depth {
				total += len(s.frontier)
			}
		}
		if total == 0 {
			break
		}
		if r.Expired() {
			for _, s := range rs {
				if depth < s.sc.Depth && len(s.frontier) > 0 {
					s.Exhaustive = false
					s.Capped = fmt.Sprintf("time budget reached at depth %d", depth)
				}
			}
			break
		}
		per := (total + par.Workers() - 1) / par.Workers()
		if per < 4 {
			per = 4
		}
		var jobs, files []string
		var owner []int
		for si, s := range rs {
			if depth >= s.sc.Depth {
				continue
			}
			for i := 0; i < len(s.frontier); i += per {
				e := i + per
				if e > len(s.frontier) {
					e = len(s.frontier)
				}
				fn := filepath.Join(scr, fmt.Sprintf("d%d-%d.json", depth, len(files)))
				b, _ := json.Marshal(s.frontier[i:e])
				if err := os.WriteFile(fn, b, 0o644); err != nil {
					evid.Fatalf("scratch: %v", err)
				}
				files = append(files, fn)
				jb, _ := json.Marshal(job{Sc: s.sc, File: fn})
				jobs = append(jobs, string(jb))
				owner = append(owner, si)
			}
		}
		results := par.Procs(jobs, scr, par.Opts{Timeout: 90 * time.Minute, MemMB: 6144, Env: []string{"GOMAXPROCS=2", "GOGC=300"}})
		next := make([][][]string, len(rs))
		for i, pr := range results {
			os.Remove(files[i])
			s := rs[owner[i]]
			if pr.Died || pr.Out == nil {
				evid.Fatalf("%s: worker %d died (timeout=%v) while at [%s]\n%s", s.sc.Name, i, pr.TimedOut, pr.Announced, pr.Stderr)
			}
			var wo workerOut
			if err := json.Unmarshal(pr.Out, &wo); err != nil {
				evid.Fatalf("worker output: %v", err)
			}
			s.Transitions += wo.Transitions
			s.Executions += wo.Executions
			nv.merge(wo.NV)
			if wo.RootDigest != "" {
				s.seen[wo.RootDigest] = true
			}
			for _, v := range wo.Viol {
				r.Violate(v.Sig, v.What, map[string]interface{}{"scenario": s.sc, "history": v.H})
			}
			for _, su := range wo.Succ {
				if !s.seen[su.D] {
					s.seen[su.D] = true
					s.States++
					next[owner[i]] = append(next[owner[i]], su.H)
				}
			}
		}
		for si, s := range rs {
			if depth >= s.sc.Depth {
				continue
			}
			s.DepthDone = depth + 1
			s.PerDepth = append(s.PerDepth, len(next[si]))
			s.frontier = next[si]
		}
	}
	for _, s := range rs {
		for i := 0; i < len(s.frontier) && len(s.Samples) < 2; i += 1 + len(s.frontier)/2 {
			s.Samples = append(s.Samples, cat(s.sc.Seed, s.frontier[i]...))
		}
	}
	return rs
}

func scenarios(r *evid.Run) []scenario {
	// depth counts operations after the seed; the seeds are themselves sequences of accepted
	// operations (validated with the node's verdicts when the root is expanded)
	d0, d1, dc := r.Pick(5, 7), r.Pick(4, 6), r.Pick(4, 6)
	ns := r.Pick(1, 2)
	if e := os.Getenv("VERIF_C28_DEPTH"); e != "" { // development aid
		fmt.Sscan(e, &d0)
		d1, dc = d0, d0
	}
	dt := r.Pick(3, 5) // timing families: many seeds, shallower
	if e := os.Getenv("VERIF_C28_DEPTH"); e != "" {
		dt = d0
	}
	all := []scenario{
		{Name: "pre-empty", Kind: "dpos", Regime: "pre", NStake: ns, Seed: nil, Depth: d0},
		{Name: "pre-seeded", Kind: "dpos", Regime: "pre", NStake: ns, Seed: []string{"reg:0", "reg:1", "top:0", "stk:0", "wait"}, Depth: d1},
		{Name: "active-seeded", Kind: "dpos", Regime: "active", NStake: ns, Seed: []string{"reg:1", "stk:0", "wait"}, Depth: d1},
		{Name: "cr-candidates", Kind: "cr", Seed: nil, Depth: dc},
		{Name: "cr-council", Kind: "cr", Seed: []string{"regall", "top:c1", "e4", "vote:v1:a", "e"}, Depth: dc},
	}
	// Timing families: a cancellation placed at every block offset in [-2, +2] around
	// (boundary height - DepositLockupBlocks), the boundary being a height at which deposit
	// locks are released wholesale, so a release by lock-up expiry can coincide with it.
	// CR: the first committee change at height 8 (lock-up 3 -> unregistration at 3..7; the seed
	// stops at height 7, the change block itself is explored).
	crTiming := [][]string{
		{"regall", "e", "unreg:c3", "e3", "vote12"},
		{"regall", "e2", "unreg:c3", "e2", "vote12"},
		{"regall", "e3", "unreg:c3", "e", "vote12"},
		{"regall", "e4", "unreg:c3", "vote12"},
		{"regall", "e4", "e", "vu:c3"},
	}
	for i, s := range crTiming {
		all = append(all, scenario{Name: fmt.Sprintf("cr-timing%+d", i-2), Kind: "cr", Seed: s, Depth: dt})
	}
	// DPoS: DPoSV2ActiveHeight = base+12 retires every DPoS v1 producer (lock-up 3 -> cancel
	// at base+7..base+11).
	for k := 0; k < 5; k++ {
		s := []string{"reg:0", "top:0", "tick", "tick", "tick", "tick"}
		for j := 0; j < k; j++ {
			s = append(s, "tick")
		}
		s = append(s, "can:0")
		all = append(all, scenario{Name: fmt.Sprintf("activating-timing%+d", k-2), Kind: "dpos", Regime: "activating", NStake: 1, Seed: s, Depth: dt})
	}
	// A DPoS v1 producer that is still registered when DPoSV2ActiveHeight (base+12) is processed:
	// the seed stops at base+13, ticks and waits then cross base+12+DepositLockupBlocks-1..+2 and
	// beyond (a lock released at retirement must not be released again by a lock-up expiry).
	all = append(all, scenario{Name: "activating-survivor", Kind: "dpos", Regime: "activating", NStake: 1,
		Seed: []string{"reg:0", "top:0", "tick", "tick", "tick", "tick", "wait", "tick"}, Depth: dt})
	// Vote expiry: a vote of half the rights cast at base+9 is locked until base+12 (lock time =
	// block height + 3, DPoSV2MinVotesLockTime shrunk to 2); the seeds stop at base+10..base+13,
	// so the first explored operation (renew among them) lands at every height in
	// [LockTime-1, LockTime+2]; wait (6 blocks) then crosses the expiry of the renewed vote.
	for k := 1; k <= 4; k++ {
		s := []string{"reg:1", "stk:0", "wait", "vote:0:1:h"}
		for j := 0; j < k; j++ {
			s = append(s, "tick")
		}
		all = append(all, scenario{Name: fmt.Sprintf("vote-expiry%+d", k-2), Kind: "dpos", Regime: "pre", NStake: 1, Seed: s, Depth: dt})
	}
	if only := os.Getenv("VERIF_C28_ONLY"); only != "" { // development aid
		var sel []scenario
		for _, s := range all {
			if strings.Contains(s.Name, only) {
				sel = append(sel, s)
			}
		}
		return sel
	}
	return all
}

func main() {
	if js, ok := par.Worker(); ok {
		workerMain(js)
		return
	}
	r := evid.Start("C28", "model_checking")
	scr := evid.Scratch("c28")
	defer os.RemoveAll(scr)
	hx.QuietLogs(scr)
	finish := func(c evid.Coverage) { os.RemoveAll(scr); r.Finish(c) }

	if r.Replay != "" {
		var a struct {
			Scenario scenario `json:"scenario"`
			History  []string `json:"history"`
		}
		r.LoadReplay(&a)
		if a.Scenario.Kind == "" {
			a.Scenario.Kind = "dpos"
		}
		closeWorld := openWorld(a.Scenario, scr)
		in, f := replay(a.History, false)
		if f != nil {
			fmt.Printf("replay: %v -> FAIL %s: %s\n", a.History, f.Signature, f.What)
			r.Violate(f.Signature, f.What, map[string]interface{}{"scenario": a.Scenario, "history": a.History})
		} else {
			fmt.Printf("replay: %v -> ok; state %s\n", a.History, in.Digest())
		}
		closeWorld()
		finish(evid.Coverage{})
	}

	nv := newCounters()
	per := map[string]interface{}{}
	var states, transitions, execs int64
	exhaustive := true
	var samples []interface{}
	maxDepth := 0
	for _, res := range explore(r, scenarios(r), scr, nv) {
		sc := res.sc
		states += res.States
		transitions += res.Transitions
		execs += res.Executions
		if !res.Exhaustive {
			exhaustive = false
		}
		if res.DepthDone > maxDepth {
			maxDepth = res.DepthDone
		}
		per[sc.Name] = map[string]interface{}{"seed": sc.Seed, "regime": sc.Regime, "stake_addresses": sc.NStake, "depth": sc.Depth, "depth_done": res.DepthDone,
			"states": res.States, "transitions": res.Transitions, "states_per_depth": res.PerDepth, "cap": res.Capped}
		for _, s := range res.Samples {
			samples = append(samples, s)
		}
		fmt.Printf("%s: %d states, %d transitions, per depth %v\n", sc.Name, res.States, res.Transitions, res.PerDepth)
	}
	if len(samples) == 0 {
		samples = append(samples, []string{})
	}
	// non-vacuity: the boundary cases must have been exercised with both verdicts
	if exhaustive {
		kinds := map[string]bool{}
		for _, sc := range scenarios(r) {
			kinds[sc.Kind] = true
		}
		must := map[string]int64{}
		if kinds["dpos"] {
			must["return accepted at exactly the available amount"] = nv.RetAtAvail
			must["return of available+1 refused"] = nv.RetAboveRejected
			must["vote accepted at exactly the free rights"] = nv.VoteAtFree
			must["vote of free+1 refused"] = nv.VoteAboveRejected
			must["vote rights returned at exactly the free amount"] = nv.RvAtFree
			must["return of free+1 vote rights refused"] = nv.RvAboveRejected
			must["penalties applied"] = nv.Penalised
			must["vote renewed"] = nv.Renewed
			must["duplicated program refused by the sanity check"] = nv.DupRejectedBySanity
		}
		if kinds["cr"] {
			must["CR return accepted at exactly the available amount"] = nv.CRRetAtAvail
			must["CR return of available+1 refused"] = nv.CRRetAboveRejected
		}
		names := make([]string, 0, len(must))
		for k := range must {
			names = append(names, k)
		}
		sort.Strings(names)
		for _, name := range names {
			if must[name] == 0 {
				evid.Fatalf("vacuous exploration: never observed: %s", name)
			}
		}
	}
	verdicts := map[string]int64{}
	vk := make([]string, 0, len(nv.Verdicts))
	for k := range nv.Verdicts {
		vk = append(vk, k)
	}
	sort.Strings(vk)
	for _, k := range vk {
		verdicts[k] = nv.Verdicts[k]
	}
	r.Assume = append(r.Assume,
		"DPoS half: verdicts are SanityCheck followed by SpecialContextCheck with parameters/references injected (light node tier: a BlockChain value carrying the DPoS state, an empty CR committee and height 0); the parts of ContextCheck after SpecialContextCheck (fee, deposit-UTXO ownership, program signatures) and UTXO existence are owned by the harness ledger: it only spends outputs that exist and are unspent",
		"DPoS half: time parameters shrunk through configuration: DepositLockupBlocks=3, DPoSV2DepositCoinMinLockTime=3, DPoSV2MinVotesLockTime=2, IllegalPenalty=DPoSV2IllegalPenalty=200 ELA; heights start at 2,000,000 (all default activation heights passed), DPoSV2StartHeight=0 because RegisterProducer reads BlockChain.GetHeight() of the genesis-only fixture chain",
		"penalise(p) applies an IllegalBlockEvidence special transaction directly (arbiter-produced, not validated), only to producers past the pending stage",
		"heights below CRVotingStartHeight (where ReturnDepositCoin may carry several programs) are not explored: mainnet left them at height 537670; from that height on the duplicated program is refused by CheckAttributeProgram before the context check runs (counter dup_rejected_by_sanity)",
		"regime 'active' sets State.DPoSV2ActiveHeight directly before the first block (no v1 producer exists at that point)",
		"pair:* operations model a block whose producer bypasses the local mempool: both transactions are validated against the pre-block state, as BlockChain.checkTxsContext does",
		"CR half: crkit fixture (pre-DPoS-v2 election regime, periods shrunk: voting 1..7, first committee at 8, duty 20, lock-up 3, 2 seats); verdicts are HeightVersionCheck, CheckTransactionPayload, vote-output rules and SpecialContextCheck; the reference lock is a lower bound (first voting period, lock-up after unregistering, council member in office) and penalties are read from the committee; impeachment is only offered during an election period; re-registration in a later voting period is not explored")
	finish(evid.Coverage{
		"states":                        states,
		"transitions":                   transitions,
		"traces_validated_against_impl": execs,
		"max_depth_completed":           maxDepth,
		"exhaustive":                    exhaustive,
		"per_scenario":                  per,
		"non_vacuity":                   nv,
		"verdicts":                      verdicts,
		"rule":                          "level-synchronous BFS over operation sequences, per scenario (seed + depth): DPoS alphabet {tick, wait(6 blocks), reg:p, top:p, stk:a, can:p, pen:p, ret:p:{avail,avail-1,avail+1,avail+1 with the program listed twice}, vote:a:p:{free,free/2,free+1}, renew:a, rv:a:{free,free+1}, pair:{ret:p,vote:a,rv:a,voterv:a} (two transactions offered for one block)} with 2 producers (0: DPoS v1, 1: DPoS v2) and 1 (thorough: 2) stake addresses; CR alphabet {e, e6, reg:c, top:c, unreg:c, vote:v1:a, vote:v2:c, unvote:v1, imp:vi:c1:big, retcr:c:{avail,avail-1,avail+1}, pair:retcr:c} with 3 candidates for 2 seats; amounts are computed at the time of the offer; a refused offer leaves the state untouched; states deduplicated by a canonical digest (DPoS: producer state/identity/amounts/relative ages, deposit outputs, vote rights/used/attached votes with relative lock times, absolute height and hashes dropped; CR: height, deposit figures, candidate/member states, deposit outputs, voters' outputs); states/transitions are summed over scenarios",
		"samples":                       samples,
	})
}
