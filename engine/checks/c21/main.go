// C21: DPoS/arbiter state after a rollback equals the state built directly.
//
// Real code driven: dpos/state Arbiters.ProcessBlock / RollbackTo on a real Arbiters
// (state.NewArbitrators + real, empty CR committee), exactly as the repository's
// arbitratorsrollback_test / dposstate_test drive them (no chain), fed blocks built by
// verif/dposkit over 4 producers and 2 voters, with the activation heights pulled down.
//
// Enumerated: for each regime (a fixed warm-up prefix) every sequence of admissible blocks of
// length <= D (one DPoS-relevant transaction or none per block). For every history h and every
// k: state after h;RollbackTo(k) vs state after h[:k] on a fresh instance, then blocks k+1..
// are fed again and the state is compared with h. States are compared through a canonical
// (map-order independent) rendering of Arbiters.Snapshot() plus the explicit getters.
package main

import (
	"fmt"
	"hash/fnv"
	"os"
	"runtime/pprof"
	"sort"
	"strings"
	"sync"
	"sync/atomic"

	"verif/dposkit"
	"verif/evid"
	"verif/hx"
	"verif/par"
)

// depth[regime] = {representative depth quick, thorough, full-alphabet depth quick, thorough}
var depths = map[string][4]int{
	"early":      {3, 4, 1, 2},
	"late":       {2, 3, 1, 2},
	"inactive":   {2, 3, 1, 2},
	"canceled":   {2, 3, 1, 1},
	"v2":         {2, 3, 1, 1},
	"v2active":   {2, 3, 1, 1},
	"returned":   {2, 3, 1, 1},
	"v2ready":    {2, 3, 1, 1},
	"public":     {2, 3, 1, 1},
	"claim":      {1, 2, 1, 2},
	"illegalact": {1, 2, 1, 2},
	"v2illegal":  {1, 2, 1, 1},
}

// artefact of a violation / replay
type caseT struct {
	Regime   string   `json:"regime"`
	History  []string `json:"history"`
	Rollback int      `json:"rollback_to"` // number of free blocks kept (negative: into the warm-up)
	Mode     string   `json:"mode"`        // stepwise | direct
}

// A state is remembered as a vector of hashes, one per field group (generic field path), so
// that a mismatch can be attributed to fields without rebuilding the reference state.
type groupVec []uint64 // indexed by group id; 0 = group absent

var groupIDs = struct {
	mu    sync.RWMutex
	id    map[string]int
	names []string
}{id: map[string]int{}}

func groupID(name string) int {
	groupIDs.mu.RLock()
	i, ok := groupIDs.id[name]
	groupIDs.mu.RUnlock()
	if ok {
		return i
	}
	groupIDs.mu.Lock()
	defer groupIDs.mu.Unlock()
	if i, ok := groupIDs.id[name]; ok {
		return i
	}
	i = len(groupIDs.names)
	groupIDs.id[name] = i
	groupIDs.names = append(groupIDs.names, name)
	return i
}

func groupName(i int) string {
	groupIDs.mu.RLock()
	defer groupIDs.mu.RUnlock()
	return groupIDs.names[i]
}

// lineGroup is the generic field path of a canonical line (producer maps folded).
func lineGroup(l string) string {
	p := l
	if i := dposkit.SepIndex(p); i >= 0 {
		p = p[:i]
	}
	return dposkit.FoldProducer(dposkit.Generic(p))
}

func vecOf(lines []string) groupVec {
	var v groupVec
	for _, l := range lines {
		id := groupID(lineGroup(l))
		for len(v) <= id {
			v = append(v, 0)
		}
		h := fnv.New64a()
		h.Write([]byte(l))
		// order-independent combination (lines are distinct); the FNV value goes through a
		// non-linear finaliser first: raw FNV-1a values of lines that differ in the last byte
		// differ by +-prime, and such differences cancel in a sum
		x := h.Sum64()
		x ^= x >> 30
		x *= 0xbf58476d1ce4e5b9
		x ^= x >> 27
		x *= 0x94d049bb133111eb
		x ^= x >> 31
		v[id] += x | 1
	}
	return v
}

func (a groupVec) diff(b groupVec) []int {
	var out []int
	n := len(a)
	if len(b) > n {
		n = len(b)
	}
	for i := 0; i < n; i++ {
		var x, y uint64
		if i < len(a) {
			x = a[i]
		}
		if i < len(b) {
			y = b[i]
		}
		if x != y {
			out = append(out, i)
		}
	}
	return out
}

type memoT struct {
	mu sync.Mutex
	m  map[string]groupVec
	// precise field analysis per set of differing groups (slow path run once per set)
	fields map[string][]string
	// dirty[h] = field groups that differ after the single-step rollback of the last block of h
	dirty map[string][]int
}

func newMemo() *memoT {
	return &memoT{m: map[string]groupVec{}, fields: map[string][]string{}, dirty: map[string][]int{}}
}

func (m *memoT) setDirty(k string, d []int) {
	m.mu.Lock()
	m.dirty[k] = d
	m.mu.Unlock()
}

func (m *memoT) getDirty(k string) ([]int, bool) {
	m.mu.Lock()
	defer m.mu.Unlock()
	d, ok := m.dirty[k]
	return d, ok
}

func (m *memoT) get(k string) (groupVec, bool) {
	m.mu.Lock()
	defer m.mu.Unlock()
	v, ok := m.m[k]
	return v, ok
}
func (m *memoT) put(k string, v groupVec) (groupVec, bool) { // returns previous if any
	m.mu.Lock()
	defer m.mu.Unlock()
	if old, ok := m.m[k]; ok {
		return old, true
	}
	m.m[k] = v
	return nil, false
}

type explorer struct {
	w      *dposkit.World
	regime string
	warm   []string
	memo   *memoT
	// counters
	runs, blocks, rollbacks, compares, mismatches, explained, replays, replaySkipped, pruned int64
	minBack                                                                                  int // lowest k (may be negative)
	// field groups that differ after the single-step rollback of one of the last warm-up blocks
	warmDirty map[int]bool
}

func key(h []string) string { return strings.Join(h, ",") }

// build runs warm-up + h on a fresh instance; if check, every prefix state is compared with the
// memo (determinism of the direct build) and recorded.
func (e *explorer) build(h []string, record bool) *dposkit.Inst {
	in := e.w.NewInst()
	atomic.AddInt64(&e.runs, 1)
	for i, op := range e.warm {
		in.Apply(op)
		if record && len(h) == 0 {
			e.note(fmt.Sprintf("warm%d", i+1), in)
		}
	}
	for i, op := range h {
		in.Apply(op)
		if record && i == len(h)-1 {
			e.note(key(h), in)
		}
	}
	atomic.AddInt64(&e.blocks, int64(len(e.warm)+len(h)))
	return in
}

func (e *explorer) note(k string, in *dposkit.Inst) {
	v := vecOf(dposkit.StateLines(in))
	if old, had := e.memo.put(k, v); had {
		if d := old.diff(v); len(d) > 0 {
			var names []string
			for _, i := range d {
				names = append(names, groupName(i))
			}
			evid.Fatalf("C21: direct build of %q is not deterministic (two fresh runs differ in %v); a field depending on map order must be canonicalised", k, names)
		}
	}
}

// prefixKey is the memo key of the state after keeping k free blocks (k<0: warm-up height).
func (e *explorer) prefixKey(h []string, k int) string {
	if k <= 0 {
		return fmt.Sprintf("warm%d", len(e.warm)+k)
	}
	return key(h[:k])
}

// reference canonical lines of a prefix, rebuilt on demand (only on mismatch).
func (e *explorer) referenceLines(h []string, k int) []string {
	in := e.w.NewInst()
	n := len(e.warm)
	if k < 0 {
		n += k
	}
	for _, op := range e.warm[:n] {
		in.Apply(op)
	}
	if k > 0 {
		for _, op := range h[:k] {
			in.Apply(op)
		}
	}
	defer in.Close()
	return dposkit.StateLines(in)
}

// compare evaluates one comparison. ignore lists field groups already explained by a
// single-step defect of one of the undone blocks; it returns the groups that differ (all of
// them) and reports the ones not ignored under clause.
func (e *explorer) compare(sk *dposkit.Sink, in *dposkit.Inst, h []string, k int, clause string, art caseT, ignore map[int]bool) []int {
	atomic.AddInt64(&e.compares, 1)
	got := dposkit.StateLines(in)
	want, ok := e.memo.get(e.prefixKey(h, k))
	if !ok {
		evid.Fatalf("C21: no reference for prefix %d of %v", k, h)
	}
	d := want.diff(vecOf(got))
	if os.Getenv("C21_DEBUG") != "" {
		var names []string
		for _, g := range d {
			names = append(names, groupName(g))
		}
		fmt.Printf("  compare %v keep %d (%s %s): differing groups %v\n", h, k, clause, art.Mode, names)
	}
	if len(d) == 0 {
		return nil
	}
	var fresh []int
	for _, i := range d {
		if !ignore[i] {
			fresh = append(fresh, i)
		}
	}
	if len(fresh) == 0 {
		atomic.AddInt64(&e.explained, 1)
		return d
	}
	atomic.AddInt64(&e.mismatches, 1)
	var gs []string
	freshName := map[string]bool{}
	for _, i := range fresh {
		gs = append(gs, groupName(i))
		freshName[groupName(i)] = true
	}
	sort.Strings(gs)
	gkey := strings.Join(gs, ";")
	e.memo.mu.Lock()
	fields, cached := e.memo.fields[gkey]
	e.memo.mu.Unlock()
	need := !cached
	if cached {
		for _, f := range fields {
			if !sk.Seen(fmt.Sprintf("C21|%s|field=%s", clause, f) + blockClass(clause, h)) {
				need = true // first report of this signature in this shard: produce the example text
			}
		}
	}
	if need {
		ref := e.referenceLines(h, k)
		// restrict the precise analysis to lines of the fresh groups
		keep := func(lines []string) []string {
			var out []string
			for _, l := range lines {
				if freshName[lineGroup(l)] {
					out = append(out, l)
				}
			}
			return out
		}
		rf, gf := keep(ref), keep(got)
		fields = dposkit.DiffFieldNames(rf, gf)
		all := dposkit.DiffLines(rf, gf, 0)
		e.memo.mu.Lock()
		if _, ok := e.memo.fields[gkey]; !ok {
			e.memo.fields[gkey] = fields
		}
		e.memo.mu.Unlock()
		for _, f := range fields {
			sig := fmt.Sprintf("C21|%s|field=%s", clause, f) + blockClass(clause, h)
			if sk.Has(sig) {
				continue
			}
			var diff []string
			base := strings.TrimSuffix(strings.TrimSuffix(strings.TrimSuffix(f, "[membership]"), "[extra]"), "[missing]")
			for _, l := range all {
				if strings.HasPrefix(lineGroup(l[2:]), base) && len(diff) < 6 {
					diff = append(diff, l)
				}
			}
			sk.Violate(sig, fmt.Sprintf("regime %s, history %v, %s rollback keeping %d of the free blocks: %s differs (- state built directly, + this instance): %s",
				e.regime, h, art.Mode, art.Rollback, f, strings.Join(diff, " | ")), art)
		}
	}
	return d
}

// warmSingleSteps checks the single-step rollback of the last -minBack warm-up blocks and
// records which field groups they leave dirty.
func (e *explorer) warmSingleSteps(sk *dposkit.Sink) {
	e.warmDirty = map[int]bool{}
	W := len(e.warm)
	for j := W; j > W+e.minBack && j >= 1; j-- {
		in := e.w.NewInst()
		for _, op := range e.warm[:j] {
			in.Apply(op)
		}
		atomic.AddInt64(&e.runs, 1)
		if err := in.Rollback(uint32(j - 1)); err != nil {
			sk.Violate("C21|rollback-error", fmt.Sprintf("RollbackTo(%d) failed: %v (regime %s warm-up)", j-1, err, e.regime), caseT{e.regime, nil, j - 1 - W, "warm"})
			in.Close()
			continue
		}
		atomic.AddInt64(&e.rollbacks, 1)
		for _, g := range e.compare(sk, in, nil, j-1-W, "rollback-vs-direct", caseT{e.regime, nil, j - 1 - W, "warm"}, nil) {
			e.warmDirty[g] = true
		}
		in.Close()
	}
}

// blockClass qualifies a single-step signature when the undone block holds two transactions: the
// kinds in block order (the order of the changes inside one height is what such a block tests).
func blockClass(clause string, h []string) string {
	if clause != "rollback-vs-direct" || len(h) == 0 || !strings.Contains(h[len(h)-1], "+") {
		return ""
	}
	var ks []string
	for _, part := range strings.Split(h[len(h)-1], "+") {
		k, _, _ := strings.Cut(part, ":")
		ks = append(ks, k)
	}
	return "|block=" + strings.Join(ks, "+")
}

// dirtyOver is the union of the single-step dirty groups of blocks k+1..L of h.
func (e *explorer) dirtyOver(h []string, k int) (map[int]bool, bool) {
	u := map[int]bool{}
	any := false
	for j := k + 1; j <= len(h); j++ {
		if j <= 0 {
			continue // warm-up blocks: their single-step rollbacks are not analysed; see below
		}
		d, ok := e.memo.getDirty(key(h[:j]))
		if !ok {
			evid.Fatalf("C21: single-step result of %v missing", h[:j])
		}
		for _, g := range d {
			u[g] = true
			any = true
		}
	}
	return u, any
}

// check performs the rollback experiments of history h (len>=1); in holds warm-up+h.
//
//  1. single step: RollbackTo(L-1) compared with the direct build of h[:L-1]; every differing
//     field is reported (clause rollback-vs-direct) and remembered as "dirty" for this block.
//  2. further steps L-2, L-3, ... down to minBack on the same instance, and direct jumps on
//     fresh instances: only fields that are not dirty for any of the undone blocks are
//     reported (clause multi-step-rollback); rollbacks into the warm-up are evaluated only
//     for fields that the warm-up blocks' own single-step rollbacks leave clean (warmDirty).
//  3. the undone blocks are fed again and the result compared with h (clause
//     replay-after-rollback) only if no undone block is dirty and every comparison was clean.
func (e *explorer) check(sk *dposkit.Sink, h []string, in *dposkit.Inst, direct []int) {
	base := len(e.warm)
	L := len(h)
	clean := true
	lowest := L
	for k := L - 1; k >= e.minBack; k-- {
		if err := in.Rollback(uint32(base + k)); err != nil {
			sk.Violate("C21|rollback-error", fmt.Sprintf("RollbackTo(%d) within history capacity failed: %v (regime %s, history %v)", base+k, err, e.regime, h), caseT{e.regime, h, k, "stepwise"})
			return
		}
		lowest = k
		atomic.AddInt64(&e.rollbacks, 1)
		if k == L-1 {
			d := e.compare(sk, in, h, k, "rollback-vs-direct", caseT{e.regime, h, k, "stepwise"}, nil)
			e.memo.setDirty(key(h), d)
			if os.Getenv("C21_DEBUG") != "" {
				var names []string
				for _, g := range d {
					names = append(names, groupName(g))
				}
				fmt.Printf("  single-step dirty of %v: %v\n", h, names)
			}
			if len(d) > 0 {
				clean = false
			}
			continue
		}
		ign, any := e.dirtyOver(h, k)
		if k < 0 {
			for g := range e.warmDirty {
				ign[g] = true
			}
			any = any || len(e.warmDirty) > 0
		}
		if any {
			clean = false
		}
		if d := e.compare(sk, in, h, k, "multi-step-rollback", caseT{e.regime, h, k, "stepwise"}, ign); len(d) > 0 {
			clean = false
		}
	}
	if clean {
		for k := lowest + 1; k <= L; k++ {
			in.Reprocess(uint32(base + k))
		}
		e.compare(sk, in, h, L, "replay-after-rollback", caseT{e.regime, h, lowest, "stepwise"}, nil)
		atomic.AddInt64(&e.replays, 1)
	} else {
		atomic.AddInt64(&e.replaySkipped, 1)
	}
	// direct jumps
	for _, k := range direct {
		in2 := e.build(h, false)
		if err := in2.Rollback(uint32(base + k)); err != nil {
			sk.Violate("C21|rollback-error", fmt.Sprintf("RollbackTo(%d) within history capacity failed: %v (regime %s, history %v)", base+k, err, e.regime, h), caseT{e.regime, h, k, "direct"})
			in2.Close()
			continue
		}
		atomic.AddInt64(&e.rollbacks, 1)
		ign, any := e.dirtyOver(h, k)
		if k < 0 {
			for g := range e.warmDirty {
				ign[g] = true
			}
			any = any || len(e.warmDirty) > 0
		}
		d := e.compare(sk, in2, h, k, "multi-step-rollback", caseT{e.regime, h, k, "direct"}, ign)
		if !any && len(d) == 0 {
			for j := k + 1; j <= L; j++ {
				in2.Reprocess(uint32(base + j))
			}
			e.compare(sk, in2, h, L, "replay-after-rollback", caseT{e.regime, h, k, "direct"}, nil)
			atomic.AddInt64(&e.replays, 1)
		} else {
			atomic.AddInt64(&e.replaySkipped, 1)
		}
		in2.Close()
	}
}

type node struct {
	hist []string
	ops  []string // every admissible block kind
	rep  []string // admissible block kinds over the representative producers only
	only bool     // hist consists of representative block kinds only
	dead bool     // state with inconsistent producer maps: not explored further
}

func contains(l []string, s string) bool {
	for _, x := range l {
		if x == s {
			return true
		}
	}
	return false
}

func main() {
	r := evid.Start("C21", "model_checking")
	scr := evid.Scratch("c21")
	finish := func(c evid.Coverage) { os.RemoveAll(scr); r.Finish(c) }
	hx.QuietLogs(scr)
	w := dposkit.NewWorld()
	regimes := w.Regimes()

	if t := os.Getenv("TRACE"); t != "" {
		in := w.NewInst()
		for _, op := range strings.Split(t, ",") {
			fmt.Printf("%-12s ops=%v\n", op, in.Ops())
			in.Apply(op)
			a := in.A
			fmt.Printf("    h=%d algo=%v duty=%d cur=%d cand=%d pend=%d act=%d inact=%d canc=%d illegal=%d LIH=%d DPOSStart=%d workH=%d noProd=%v needNext=%v v2active=%d\n",
				in.Height, a.GetConsensusAlgorithm(), a.DutyIndex, len(a.CurrentArbitrators), len(a.CurrentCandidates),
				len(a.PendingProducers), len(a.ActivityProducers), len(a.InactiveProducers), len(a.CanceledProducers), len(a.IllegalProducers),
				a.LastIrreversibleHeight, a.DPOSStartHeight, a.DPOSWorkHeight, a.NoProducers, a.NeedNextTurnDPOSInfo, a.DPoSV2ActiveHeight)
		}
		if os.Getenv("DUMP") != "" {
			fmt.Println(strings.Join(dposkit.StateLines(in), "\n"))
		}
		os.RemoveAll(scr)
		return
	}

	if r.Replay != "" {
		var c caseT
		sig := r.LoadReplay(&c)
		e := &explorer{w: w, regime: c.Regime, warm: regimes[c.Regime], memo: newMemo(), minBack: -2}
		fmt.Printf("replay %s\n  regime %s history %v rollback keeping %d (%s)\n", sig, c.Regime, c.History, c.Rollback, c.Mode)
		e.build(nil, true).Close()
		var sk dposkit.Sink
		if c.Mode == "warm" {
			e.warmSingleSteps(&sk)
		} else {
			var scratch dposkit.Sink
			e.warmSingleSteps(&scratch)
			for i := 1; i <= len(c.History); i++ {
				in := e.build(c.History[:i], true)
				if i < len(c.History) {
					e.check(&scratch, c.History[:i], in, nil)
				} else if c.Mode == "direct" {
					e.check(&sk, c.History, in, []int{c.Rollback})
				} else {
					e.check(&sk, c.History, in, nil)
				}
				in.Close()
			}
		}
		sk.MergeInto(r)
		for _, v := range r.Violations() {
			fmt.Printf("  %s\n    %s\n", v.Signature, v.What)
		}
		finish(evid.Coverage{})
	}

	if pf := os.Getenv("C21_PROF"); pf != "" {
		f, _ := os.Create(pf)
		pprof.StartCPUProfile(f)
		defer pprof.StopCPUProfile()
		finishOrig := finish
		finish = func(c evid.Coverage) { pprof.StopCPUProfile(); f.Close(); finishOrig(c) }
	}
	// every history of length <= fullDepth over the full alphabet, and every history of length
	// <= repDepth over the alphabet restricted to the two representative producers
	var fullDepth, repDepth int
	reps := w.Representatives()
	var totalStates, totalTransitions, totalRuns, totalRollbacks, totalCompares, totalMismatch, totalExplained, totalReplays, totalReplaySkipped, totalPruned int64
	perDepth := map[string][]int{}
	var samples []interface{}
	exhaustive := true
	names := dposkit.RegimeNames
	if rg := os.Getenv("C21_REGIMES"); rg != "" {
		names = strings.Split(rg, ",")
	}
	for _, name := range names {
		e := &explorer{w: w, regime: name, warm: regimes[name], memo: newMemo(), minBack: -2}
		dd := depths[name]
		repDepth, fullDepth = r.Pick(dd[0], dd[1]), r.Pick(dd[2], dd[3])
		if d := os.Getenv("C21_DEPTH"); d != "" {
			fmt.Sscan(d, &repDepth)
		}
		if d := os.Getenv("C21_FULL"); d != "" {
			fmt.Sscan(d, &fullDepth)
		}
		// root
		root := e.build(nil, true)
		frontier := []node{{hist: nil, ops: root.Ops(), rep: root.OpsFor(reps), only: true}}
		if ok, why := root.Consistent(); !ok {
			evid.Fatalf("C21: warm-up of regime %s ends in an inconsistent state: %s", name, why)
		}
		root.Close()
		var wsk dposkit.Sink
		e.warmSingleSteps(&wsk)
		wsk.MergeInto(r)
		totalStates++
		perDepth[name] = append(perDepth[name], 1)
		for d := 0; d < repDepth && len(frontier) > 0; d++ {
			if r.Expired() {
				exhaustive = false
				break
			}
			// children of the frontier, in deterministic order
			type job struct {
				hist []string
				only bool
			}
			var jobs []job
			for _, n := range frontier {
				if n.dead {
					continue
				}
				ops := n.ops
				if d+1 > fullDepth {
					if !n.only {
						continue
					}
					ops = n.rep
				}
				for _, op := range ops {
					jobs = append(jobs, job{append(append([]string{}, n.hist...), op), n.only && contains(n.rep, op)})
				}
			}
			sinks := make([]dposkit.Sink, len(jobs))
			next := make([]node, len(jobs))
			par.Go(len(jobs), func(i int) {
				h := jobs[i].hist
				in := e.build(h, true)
				if ok, _ := in.Consistent(); !ok {
					atomic.AddInt64(&e.pruned, 1)
					next[i] = node{hist: h, dead: true}
					in.Close()
					return
				}
				next[i] = node{hist: h, ops: in.Ops(), rep: in.OpsFor(reps), only: jobs[i].only}
				var direct []int
				if r.Thorough() {
					for k := len(h) - 2; k >= e.minBack; k-- {
						direct = append(direct, k)
					}
				} else if len(h) >= 2 {
					direct = []int{0}
				}
				e.check(&sinks[i], h, in, direct)
				in.Close()
			})
			for i := range sinks {
				sinks[i].MergeInto(r)
			}
			totalStates += int64(len(jobs))
			totalTransitions += int64(len(jobs))
			perDepth[name] = append(perDepth[name], len(jobs))
			frontier = next
		}
		if len(frontier) > 0 {
			samples = append(samples, map[string]interface{}{"regime": name, "history": frontier[len(frontier)/2].hist})
			samples = append(samples, map[string]interface{}{"regime": name, "history": frontier[len(frontier)-1].hist})
		}
		totalRuns += e.runs
		totalRollbacks += e.rollbacks
		totalCompares += e.compares
		totalMismatch += e.mismatches
		totalExplained += e.explained
		totalReplays += e.replays
		totalReplaySkipped += e.replaySkipped
		totalPruned += e.pruned
	}
	depth := 0
	for _, name := range names {
		if d := r.Pick(depths[name][0], depths[name][1]); d > depth {
			depth = d
		}
	}
	r.Assume = append(r.Assume,
		"one DPoS-relevant transaction (or none) per free block; blocks are fed without confirmations (ProcessBlock(block, nil)), so arbiter-inactivity counting is not exercised",
		"alphabet restricted to block kinds whose admissibility under the node's own validation was established by reading the context checks: empty, register, update (nickname+node key), cancel, deposit top-up, return deposit after lock-up, vote (v0.9 vote output, previous vote output spent), cancel vote, RevertToPOW(NoBlock) while in DPOS, RevertToDPOS while in POW; a NextTurnDPOSInfo transaction is added to every block while the state requires one",
		"CR committee present but empty (never in election period)",
		"compared state = canonical rendering of Arbiters.Snapshot() (every field of CheckPoint/StateKeyFrame/Producer, maps by sorted key) + GetConsensusAlgorithm/GetLastIrreversibleHeight/DPOSStartHeight; excluded: CheckPoint.arbitrators (back pointer), CheckPoint.Height (label), NeedRevertToDPOSTX (set by the environment outside block processing); zero-valued / empty entries of the additive maps DposV2VoteRights, UsedDposV2Votes, UsedDposVotes, DPoSV2RewardInfo, detailedDPoSV2Votes are treated as absent; the vote maps inside the Producer copies embedded in arbiter members are not compared (aliasing with the live producer depends on allocation history)")
	finish(evid.Coverage{
		"states":                        totalStates,
		"transitions":                   totalTransitions,
		"traces_validated_against_impl": totalRuns,
		"rollbacks":                     totalRollbacks,
		"state_comparisons":             totalCompares,
		"mismatching_comparisons":       totalMismatch,
		"comparisons_differing_only_in_fields_already_reported_for_a_single_block": totalExplained,
		"replay_after_rollback_evaluated":                                          totalReplays,
		"replay_after_rollback_skipped_dirty":                                      totalReplaySkipped,
		"histories_pruned_inconsistent_producer_maps":                              totalPruned,
		"max_depth_completed":                                                      depth,
		"histories_per_depth":                                                      perDepth,
		"exhaustive":                                                               exhaustive,
		"rule":                                                                     fmt.Sprintf("regimes %v (fixed warm-up prefixes of %d and %d blocks) x every sequence of admissible block kinds of length <= %d (alphabet listed in assumptions, enabledness computed from the real state through its public getters); per history: stepwise RollbackTo(L-1..-2) with a comparison against the directly built prefix at every step, re-feeding of the blocks and comparison with the uninterrupted run; direct RollbackTo jumps (quick: to the start of the free blocks; thorough: to every earlier height) with the same two comparisons", names, len(regimes["early"]), len(regimes["late"]), depth),
		"samples":                                                                  samples,
	})
}
