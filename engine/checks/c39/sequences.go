// Operation sequences: queries interleaved with additions on ONE filter object. A filter that
// remembers earlier answers must still report everything that was added afterwards.
package main

import (
	"fmt"
	"math"

	ctypes "github.com/elastos/Elastos.ELA/core/types/common"
	"github.com/elastos/Elastos.ELA/core/types/interfaces"
	"github.com/elastos/Elastos.ELA/elanet/bloom"
)

// allSeqs returns every sequence over an alphabet of a symbols of length 1..maxLen.
func allSeqs(a, maxLen int) [][]int {
	var out [][]int
	var rec func(cur []int)
	rec = func(cur []int) {
		if len(cur) > 0 {
			out = append(out, append([]int{}, cur...))
		}
		if len(cur) == maxLen {
			return
		}
		for s := 0; s < a; s++ {
			rec(append(cur, s))
		}
	}
	rec(nil)
	return out
}

func (k *checker) addItem(f *bloom.Filter, it item) {
	switch it.Name {
	case "34-byte-outpoint":
		op, _ := ctypes.OutPointFromBytes(it.Data)
		f.AddOutPoint(op)
	case "32-byte-txid":
		var h [32]byte
		copy(h[:], it.Data)
		u := commonU256(h)
		f.AddHash(&u)
	default:
		f.Add(it.Data)
	}
}

func (k *checker) queryItem(f *bloom.Filter, it item) bool {
	if it.Name == "34-byte-outpoint" {
		op, _ := ctypes.OutPointFromBytes(it.Data)
		return f.MatchesOutPoint(op)
	}
	return f.Matches(it.Data)
}

func seqString(names []string, s []int) string {
	out := ""
	for i, o := range s {
		if i > 0 {
			out += " "
		}
		out += names[o]
	}
	return out
}

// elementSequences: (1) every sequence of {query x, add x} up to length 4 for every menu item;
// (2) every sequence of {query x, add x, query y, add y} up to length 4 for three pairs;
// (3) query everything, add a subset, query everything, for every subset; (4) the same with 300
// other elements queried first (bounded caches roll over).
func (k *checker) elementSequences(c cfg) bool {
	art := artefact{Cfg: c, Step: "element-sequence"}
	fresh := func() *bloom.Filter {
		d, _, _, ok := k.instantiate(c, nil)
		if !ok {
			return nil
		}
		return d
	}
	if fresh() == nil {
		return false
	}
	run := func(items []item, seq []int, names []string) bool {
		f := fresh()
		added := make([]bool, len(items))
		for step, o := range seq {
			it := items[o/2]
			var m bool
			site := guarded(func() {
				if o%2 == 0 {
					m = k.queryItem(f, it)
				} else {
					k.addItem(f, it)
				}
			})
			if site != "" {
				art.Item = it.Name
				k.panicked(site, "sequence "+seqString(names, seq[:step+1]), art)
				return false
			}
			k.evals++
			if o%2 == 1 {
				added[o/2] = true
			} else if added[o/2] && !m {
				art.Item = it.Name
				art.Sequence = seqString(names, seq[:step+1])
				k.violate("C39|false-negative|query-after-add-in-sequence|"+c.class(), "an element added to the filter is reported as not matching when the same filter object was queried before ("+art.Sequence+"; "+c.String()+")", art)
			}
		}
		return true
	}
	one := allSeqs(2, 4)
	for _, it := range k.menu {
		names := []string{"query(" + it.Name + ")", "add(" + it.Name + ")"}
		for _, s := range one {
			if !run([]item{it}, s, names) {
				return true
			}
			k.cases.Add(fmt.Sprintf("seq1/%s/%s/%v", c.String(), it.Name, s))
		}
	}
	two := allSeqs(4, 4)
	for _, pr := range [][2]int{{2, 3}, {4, 6}, {0, 1}} {
		x, y := k.menu[pr[0]], k.menu[pr[1]]
		names := []string{"query(" + x.Name + ")", "add(" + x.Name + ")", "query(" + y.Name + ")", "add(" + y.Name + ")"}
		for _, s := range two {
			if !run([]item{x, y}, s, names) {
				return true
			}
			k.cases.Add(fmt.Sprintf("seq2/%s/%d-%d/%v", c.String(), pr[0], pr[1], s))
		}
	}
	n := len(k.menu)
	for _, filler := range []int{0, 300} {
		for s := 0; s < 1<<uint(n); s++ {
			f := fresh()
			art.Subset = s
			art.Sequence = fmt.Sprintf("query %d other elements, query all items, add subset, query all items", filler)
			dead := false
			if site := guarded(func() {
				for i := 0; i < filler; i++ {
					f.Matches([]byte{'f', byte(i), byte(i >> 8), 9})
				}
				for _, it := range k.menu {
					k.queryItem(f, it)
				}
				for i, it := range k.menu {
					if s>>uint(i)&1 == 1 {
						k.addItem(f, it)
					}
				}
			}); site != "" {
				k.panicked(site, art.Sequence, art)
				dead = true
			}
			if dead {
				return true
			}
			for i, it := range k.menu {
				if s>>uint(i)&1 == 0 {
					continue
				}
				var m bool
				if site := guarded(func() { m = k.queryItem(f, it) }); site != "" {
					k.panicked(site, art.Sequence, art)
					return true
				}
				k.evals++
				if !m {
					art.Item = it.Name
					k.violate("C39|false-negative|query-all-add-query-all|"+c.class(), "an element added after the whole menu had been queried is reported as not matching ("+it.Name+"; "+c.String()+")", art)
				}
			}
			k.cases.Add(fmt.Sprintf("seq3/%s/%d/%d", c.String(), filler, s))
		}
	}
	return true
}

// txSequences: every sequence up to length 4 over {watch the parent's output address, watch the
// outpoint directly, present the parent, present the spender}, on the direct object and on the
// server object. Model: the parent must match once its address is watched; the spender must
// match once the outpoint is in the filter (watched directly, or added by the update when the
// parent matched).
func (k *checker) txSequences(c cfg, parent, spender interfaces.Transaction, ti int) {
	side := c.Tweak == math.MaxUint32
	names := []string{"watch(address)", "watch(outpoint)", "present(parent)", "present(spender)"}
	addr := parent.Outputs()[0].ProgramHash
	op := ctypes.NewOutPoint(parent.Hash(), 0)
	for _, via := range []string{"Filter.MatchTxAndUpdate", "filter.Filter.MatchConfirmed", "filter.Filter.MatchUnconfirmed"} {
		for _, s := range allSeqs(4, 4) {
			direct, server, _, ok := k.instantiate(c, nil)
			if !ok {
				return
			}
			art := artefact{Cfg: c, Step: "tx-sequence via " + via, Tx: ti}
			addrWatched, opIn := false, false
			for step, o := range s {
				var m bool
				site := guarded(func() {
					present := func(tx interfaces.Transaction) bool {
						switch via {
						case "Filter.MatchTxAndUpdate":
							return direct.MatchTxAndUpdate(tx)
						case "filter.Filter.MatchConfirmed":
							return server.MatchConfirmed(tx)
						}
						return server.MatchUnconfirmed(tx)
					}
					add := func(b []byte) {
						if via == "Filter.MatchTxAndUpdate" {
							direct.Add(b)
						} else {
							server.Add(b)
						}
					}
					switch o {
					case 0:
						add(addr[:])
					case 1:
						add(op.Bytes())
					case 2:
						m = present(parent)
					case 3:
						m = present(spender)
					}
				})
				art.Sequence = seqString(names, s[:step+1])
				if site != "" {
					k.panicked(site, art.Sequence, art)
					return
				}
				k.evals++
				switch o {
				case 0:
					addrWatched = true
				case 1:
					opIn = true
				case 2:
					if addrWatched && !(side && c.Size == 0) {
						if !m {
							k.violate("C39|false-negative|tx-sequence|parent|"+c.class(), "a transaction paying to a watched address does not match ("+art.Sequence+"; "+via+"; "+c.String()+")", art)
						} else if !side {
							opIn = true // the update adds the new outpoint
						}
					}
				case 3:
					if opIn && !side && !m {
						k.violate("C39|false-negative|tx-sequence|spender|"+c.class(), "a transaction spending a watched outpoint does not match when the same filter had seen it before the outpoint was added ("+art.Sequence+"; "+via+"; "+c.String()+")", art)
					}
				}
			}
			k.cases.Add(fmt.Sprintf("txseq/%s/%s/%d/%v", c.String(), via, ti, s))
		}
	}
}
