// Package crkit is the shared harness for the CR (Cyber Republic) governance checks (C22, C29):
// fixed keys, signed payload builders, a Committee fixture on the light node tier (a
// blockchain.BlockChain value that carries only the CR committee and an empty DPoS state, so the
// transactions' own HeightVersionCheck / SpecialContextCheck can be asked for verdicts), and a
// canonical, map-order-insensitive rendering of the committee state.
package crkit

import (
	crand "crypto/rand"
	"crypto/sha256"
	"fmt"
	"sync"

	"github.com/elastos/Elastos.ELA/blockchain"
	"github.com/elastos/Elastos.ELA/common"
	"github.com/elastos/Elastos.ELA/common/config"
	"github.com/elastos/Elastos.ELA/core/checkpoint"
	"github.com/elastos/Elastos.ELA/core/contract"
	"github.com/elastos/Elastos.ELA/core/transaction"
	"github.com/elastos/Elastos.ELA/core/types/functions"
	"github.com/elastos/Elastos.ELA/crypto"
	dstate "github.com/elastos/Elastos.ELA/dpos/state"

	crstate "github.com/elastos/Elastos.ELA/cr/state"

	"verif/evid"
	"verif/hx"
)

// constReader makes ecdsa signing reproducible: the repository's crypto.Sign draws its nonce
// entropy from crypto/rand.Reader; with a constant stream the (hedged) nonce is a function of
// key and message only, so signatures, proposal hashes and transaction hashes are the same in
// every run and in every worker.
type constReader struct{}

func (constReader) Read(p []byte) (int, error) {
	for i := range p {
		p[i] = 0x5a
	}
	return len(p), nil
}

var (
	initOnce sync.Once
	logDir   string
	// dposState is the one (empty) DPoS state of the process: every dstate.NewState subscribes to
	// the global event bus for good, so fixtures share this one; the CR transaction checks only
	// read it (producer key conflicts, active producers for vote outputs).
	dposState *dstate.State
)

// Init prepares the process: transaction factory functions, quiet repository logger,
// reproducible signatures and the (constant, read-only) default ledger that
// RegisterCR.SpecialContextCheck consults for CRC arbiter keys. Returns the scratch dir to remove.
func Init() string {
	initOnce.Do(func() {
		crand.Reader = constReader{}
		functions.GetTransactionByTxType = transaction.GetTransaction
		functions.GetTransactionByBytes = transaction.GetTransactionByBytes
		functions.CreateTransaction = transaction.CreateTransaction
		functions.GetTransactionParameters = transaction.GetTransactionparameters
		logDir = evid.Scratch("crkit")
		hx.QuietLogs(logDir)
		p := Params()
		ckp := checkpoint.NewManager(p)
		arbiters, err := dstate.NewArbitrators(p, nil, nil, nil, nil, nil, nil, nil, nil, ckp)
		if err != nil {
			evid.Fatalf("crkit: arbiters: %v", err)
		}
		blockchain.DefaultLedger = &blockchain.Ledger{Arbitrators: arbiters}
		dposState = arbiters.State
	})
	return logDir
}

// Key is a deterministic key with everything derived from it.
type Key struct {
	Label   string
	Priv    []byte
	Pub     []byte // compressed
	Code    []byte // standard redeem script
	CID     common.Uint168
	DID     common.Uint168
	Deposit common.Uint168
	Addr    common.Uint168 // standard program hash
}

var (
	keyMu sync.Mutex
	keys  = map[string]*Key{}
)

// K returns the key derived from label (cached; read-only after creation).
func K(label string) *Key {
	keyMu.Lock()
	defer keyMu.Unlock()
	if k, ok := keys[label]; ok {
		return k
	}
	d := sha256.Sum256([]byte("verif-crkit-key-" + label))
	x, y := crypto.DefaultCurve.ScalarBaseMult(d[:])
	pk := &crypto.PublicKey{X: x, Y: y}
	pub, err := pk.EncodePoint(true)
	must(err)
	code, err := contract.CreateStandardRedeemScript(pk)
	must(err)
	cid, err := crstate.GetCIDByCode(code)
	must(err)
	did, err := crstate.GetDIDByCode(code)
	must(err)
	dep, err := contract.PublicKeyToDepositProgramHash(pub)
	must(err)
	addr, err := contract.PublicKeyToStandardProgramHash(pub)
	must(err)
	k := &Key{Label: label, Priv: d[:], Pub: pub, Code: code, CID: *cid, DID: *did, Deposit: *dep, Addr: *addr}
	keys[label] = k
	return k
}

func (k *Key) Sign(data []byte) []byte {
	s, err := crypto.Sign(k.Priv, data)
	must(err)
	return s
}

func must(err error) {
	if err != nil {
		panic(fmt.Sprintf("crkit: %v", err))
	}
}

const ELA = common.Fixed64(100000000)

// Params returns a fresh parameter set in the regime the repository's own committee rollback
// tests drive (before DPoS v2, vote outputs carried by TransferAsset), with every CR period
// shrunk so that voting/election/proposal boundaries are crossed within a few blocks.
//
//	height 1            CR voting starts (first voting period 1..7)
//	height 8            first committee takes office (CRCommitteeStartHeight)
//	duty 20, voting 8   next voting period = [LastCommitteeHeight+12, LastCommitteeHeight+20)
//	                    (a candidate needs ActivateDuration=6 blocks inside the voting period)
//	proposal CR review 2 blocks, public (voter) review 2 blocks, deposit lock-up 3 blocks
//	2 council members, both must approve; secretary-general = K("sg")
func Params() *config.Configuration {
	p := config.GetDefaultParams()
	far := uint32(10000000)
	c := &p.CRConfiguration
	c.MemberCount = 2
	c.CRAgreementCount = 2
	c.VotingPeriod = 8
	c.DutyPeriod = 20
	c.ProposalCRVotingPeriod = 2
	c.ProposalPublicVotingPeriod = 2
	c.DepositLockupBlocks = 3
	c.CRVotingStartHeight = 1
	c.CRCommitteeStartHeight = 8
	c.RegisterCRByDIDHeight = 0
	c.CheckVoteCRCountHeight = 0
	c.CRCProposalV1Height = 0
	c.CRCProposalWithdrawPayloadV1Height = 0
	c.CRCProposalDraftDataStartHeight = far
	c.CRClaimDPOSNodeStartHeight = far
	c.CRClaimDPOSNodePeriod = far
	c.CRAssetsRectifyTransactionHeight = 0 // also gates CRCProposalRealWithdraw
	c.ChangeCommitteeNewCRHeight = far
	c.MaxProposalTrackingCount = 128
	c.SecretaryGeneral = common.BytesToHexString(K("sg").Pub)
	p.DPoSV2StartHeight = far
	p.CrossChainMonitorStartHeight = far
	p.CustomIDProposalStartHeight = far
	p.NewCrossChainStartHeight = far
	p.DPoSConfiguration.NFTStartHeight = far
	p.CRSchnorrStartHeight = far
	p.PublicDPOSHeight = 0
	p.DPoSConfiguration.CRCArbiters = p.DPoSConfiguration.CRCArbiters[0:2]
	return p
}

// ParamsLongReview is Params with a council review of 9 blocks instead of 2: a proposal
// registered in the last block before the voting period (19) is decided in the very block in
// which the next committee takes office (28).
func ParamsLongReview() *config.Configuration {
	p := Params()
	p.CRConfiguration.ProposalCRVotingPeriod = 9
	return p
}

// ParamsDPoSV2 is Params in the DPoS v2 era (DPoSV2StartHeight = 1): the vote count ends at 8
// (next members elected), the elected members claim their DPoS nodes during a claim period of 3
// blocks and take office at 11 (Committee.resetNextMembers). Vote outputs are still accepted:
// the node refuses them only once the DPoS state has reached DPoSV2ActiveHeight.
func ParamsDPoSV2() *config.Configuration {
	p := Params()
	p.DPoSV2StartHeight = 1
	p.CRConfiguration.CRClaimPeriod = 3
	p.CRConfiguration.CRCommitteeStartHeight = 11
	p.CRConfiguration.CRClaimDPOSNodeStartHeight = 0
	return p
}
