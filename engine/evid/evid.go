// Package evid is the shared runtime of every check: argument parsing, violation triage against
// known_findings.json, replay artefacts, evidence files and exit codes.
//
// Exit codes: 0 held (KNOWN-FINDING lines allowed), 1 violation (VIOLATION line printed),
// 2 engine/infra error (never a verdict).
package evid

import (
	"crypto/sha256"
	"encoding/hex"
	"encoding/json"
	"fmt"
	"os"
	"path/filepath"
	"sort"
	"strconv"
	"strings"
	"sync"
	"time"
)

// Root is /verif (overridable for snapshots run through `vp run`).
func Root() string {
	if r := os.Getenv("VERIF_ROOT"); r != "" {
		return r
	}
	return "/verif"
}

// RepoRoot is the repository under test (VERIF_REPO, default /repo).
func RepoRoot() string {
	if r := os.Getenv("VERIF_REPO"); r != "" {
		return r
	}
	return "/repo"
}

type finding struct {
	Property  string `json:"property"`
	Signature string `json:"signature"`
	What      string `json:"what"`
	Status    string `json:"status"` // known | fixed
	Commit    string `json:"commit,omitempty"`
}

type Violation struct {
	Signature string      `json:"signature"`
	What      string      `json:"what"`
	Artefact  interface{} `json:"artefact"`
	Count     int         `json:"count"`
	Known     bool        `json:"known"`
	Replay    string      `json:"replay,omitempty"`
}

type Run struct {
	ID     string
	Tier   string // quick | thorough
	Level  string
	Seed   int64
	Replay string // non-empty: replay this artefact only
	start  time.Time

	mu     sync.Mutex
	viol   map[string]*Violation
	order  []string
	known  map[string]finding
	Assume []string
	// Deadline: checks may consult Expired() and stop early with exhaustive:false.
	deadline time.Time
}

// Start parses `<tier>` | `--replay <path>` from os.Args and loads known findings.
func Start(id, level string) *Run {
	r := &Run{ID: id, Level: level, Tier: "quick", start: time.Now(), viol: map[string]*Violation{}, known: map[string]finding{}}
	args := os.Args[1:]
	for i := 0; i < len(args); i++ {
		switch args[i] {
		case "quick", "thorough":
			r.Tier = args[i]
		case "--replay":
			if i+1 >= len(args) {
				Fatalf("--replay needs a path")
			}
			r.Replay = args[i+1]
			i++
		}
	}
	if t := os.Getenv("VERIF_TIER"); t == "quick" || t == "thorough" {
		if len(args) == 0 {
			r.Tier = t
		}
	}
	if s := os.Getenv("VERIF_SEED"); s != "" {
		r.Seed, _ = strconv.ParseInt(s, 10, 64)
	}
	budget := 20 * time.Minute
	if r.Tier == "thorough" {
		budget = 30 * time.Minute // checks that consult Expired() end themselves with exhaustive:false
	}
	if b := os.Getenv("VERIF_BUDGET_S"); b != "" {
		if n, err := strconv.Atoi(b); err == nil {
			budget = time.Duration(n) * time.Second
		}
	}
	r.deadline = r.start.Add(budget)
	files := []string{filepath.Join(Root(), "known_findings.json")}
	more, _ := filepath.Glob(filepath.Join(Root(), "known_findings.d", "*.json"))
	sort.Strings(more)
	files = append(files, more...)
	for _, p := range files {
		b, err := os.ReadFile(p)
		if err != nil {
			continue
		}
		var fs []finding
		if err := json.Unmarshal(b, &fs); err != nil {
			Fatalf("%s: %v", p, err)
		}
		for _, f := range fs {
			if f.Property == id && f.Status == "known" {
				r.known[f.Signature] = f
			}
		}
	}
	return r
}

func (r *Run) Quick() bool    { return r.Tier == "quick" }
func (r *Run) Thorough() bool { return r.Tier == "thorough" }

// Expired reports whether the internal budget is used up (never an oracle: only ends the
// exploration early with exhaustive:false).
func (r *Run) Expired() bool { return time.Now().After(r.deadline) }

// Pick returns q in quick tier, t in thorough tier.
func (r *Run) Pick(q, t int) int {
	if r.Thorough() {
		return t
	}
	return q
}

// Fatalf is an engine error: exit 2, never a verdict.
func Fatalf(format string, a ...interface{}) {
	fmt.Fprintf(os.Stderr, "ENGINE-ERROR: "+format+"\n", a...)
	os.Exit(2)
}

// Violate records a violation. signature identifies the violated clause + failing site/input
// class; artefact is what the replayer needs. The first artefact per signature is kept.
func (r *Run) Violate(signature, what string, artefact interface{}) {
	r.mu.Lock()
	defer r.mu.Unlock()
	if v, ok := r.viol[signature]; ok {
		v.Count++
		return
	}
	_, known := r.known[signature]
	r.viol[signature] = &Violation{Signature: signature, What: what, Artefact: artefact, Count: 1, Known: known}
	r.order = append(r.order, signature)
}

// MergeViolation is used by parents collecting worker output.
func (r *Run) MergeViolation(v Violation) {
	r.mu.Lock()
	defer r.mu.Unlock()
	if old, ok := r.viol[v.Signature]; ok {
		old.Count += v.Count
		return
	}
	_, known := r.known[v.Signature]
	vv := v
	vv.Known = known
	r.viol[v.Signature] = &vv
	r.order = append(r.order, v.Signature)
}

func (r *Run) Violations() []Violation {
	r.mu.Lock()
	defer r.mu.Unlock()
	out := make([]Violation, 0, len(r.order))
	for _, s := range r.order {
		out = append(out, *r.viol[s])
	}
	return out
}

func (r *Run) NumViolations() int {
	r.mu.Lock()
	defer r.mu.Unlock()
	return len(r.viol)
}

// Coverage is written verbatim under "coverage".
type Coverage map[string]interface{}

// Finish writes evidence, replay artefacts, prints verdict lines and exits.
func (r *Run) Finish(cov Coverage) {
	wall := time.Since(r.start).Seconds()
	sigs := append([]string{}, r.order...)
	sort.Strings(sigs)
	unknown := 0
	var lines []string
	for _, s := range sigs {
		v := r.viol[s]
		if v.Known {
			lines = append(lines, fmt.Sprintf("KNOWN-FINDING: property=%s %s [%s] (x%d)", r.ID, r.known[s].What, s, v.Count))
			continue
		}
		unknown++
		h := sha256.Sum256([]byte(s))
		dir := filepath.Join(Root(), "replays", r.ID)
		os.MkdirAll(dir, 0o755)
		p := filepath.Join(dir, hex.EncodeToString(h[:6])+".json")
		b, _ := json.MarshalIndent(map[string]interface{}{"property": r.ID, "signature": s, "what": v.What, "artefact": v.Artefact}, "", " ")
		if err := os.WriteFile(p, b, 0o644); err != nil {
			Fatalf("write replay: %v", err)
		}
		v.Replay = p
		lines = append(lines, fmt.Sprintf("VIOLATION property=%s replay=%s", r.ID, p))
		fmt.Printf("  violated: %s — %s\n", s, v.What)
	}
	if r.Replay == "" {
		if _, ok := cov["samples"]; !ok {
			cov["samples"] = []interface{}{}
		}
		var vs []map[string]interface{}
		for _, s := range sigs {
			v := r.viol[s]
			vs = append(vs, map[string]interface{}{"signature": s, "what": v.What, "known": v.Known, "count": v.Count})
		}
		cov["violation_signatures"] = vs
		ev := map[string]interface{}{
			"property_id": r.ID,
			"tier":        r.Tier,
			"seed":        r.Seed,
			"level":       r.Level,
			"coverage":    cov,
			"assumptions": r.Assume,
			"wall_s":      float64(int(wall*100)) / 100,
			"violations":  unknown,
			"known_findings_reported": len(sigs) - unknown,
		}
		if ev["assumptions"] == nil || len(r.Assume) == 0 {
			ev["assumptions"] = []string{}
		}
		b, err := json.MarshalIndent(ev, "", " ")
		if err != nil {
			Fatalf("evidence: %v", err)
		}
		dir := filepath.Join(Root(), "evidence")
		os.MkdirAll(dir, 0o755)
		tmp := filepath.Join(dir, "."+r.ID+".json.tmp")
		if err := os.WriteFile(tmp, b, 0o644); err != nil {
			Fatalf("evidence: %v", err)
		}
		if err := os.Rename(tmp, filepath.Join(dir, r.ID+".json")); err != nil {
			Fatalf("evidence: %v", err)
		}
	}
	for _, l := range lines {
		fmt.Println(l)
	}
	fmt.Printf("%s %s done in %.1fs: %d violation signature(s), %d known\n", r.ID, r.Tier, wall, unknown, len(sigs)-unknown)
	if unknown > 0 {
		os.Exit(1)
	}
	os.Exit(0)
}

// LoadReplay reads the artefact of a replay file into v.
func (r *Run) LoadReplay(v interface{}) string {
	b, err := os.ReadFile(r.Replay)
	if err != nil {
		Fatalf("replay: %v", err)
	}
	var w struct {
		Signature string          `json:"signature"`
		Artefact  json.RawMessage `json:"artefact"`
	}
	if err := json.Unmarshal(b, &w); err != nil {
		Fatalf("replay: %v", err)
	}
	if err := json.Unmarshal(w.Artefact, v); err != nil {
		Fatalf("replay artefact: %v", err)
	}
	return w.Signature
}

// Scratch returns a fresh scratch directory on /dev/shm (fallback /var/tmp); caller removes it.
func Scratch(prefix string) string {
	base := "/dev/shm"
	if st, err := os.Stat(base); err != nil || !st.IsDir() {
		base = "/var/tmp"
	}
	d, err := os.MkdirTemp(base, "verif-"+prefix+"-")
	if err != nil {
		Fatalf("scratch: %v", err)
	}
	return d
}

// Samples keeps the first n distinct-ish samples offered.
type Samples struct {
	mu  sync.Mutex
	N   int
	Out []interface{}
}

func (s *Samples) Add(v interface{}) {
	s.mu.Lock()
	if len(s.Out) < s.N {
		s.Out = append(s.Out, v)
	}
	s.mu.Unlock()
}

// Distinct counts distinct keys (thread-safe).
type Distinct struct {
	mu sync.Mutex
	m  map[string]int
}

func (d *Distinct) Add(k string) {
	d.mu.Lock()
	if d.m == nil {
		d.m = map[string]int{}
	}
	d.m[k]++
	d.mu.Unlock()
}
func (d *Distinct) Len() int { d.mu.Lock(); defer d.mu.Unlock(); return len(d.m) }
func (d *Distinct) Map() map[string]int {
	d.mu.Lock()
	defer d.mu.Unlock()
	o := map[string]int{}
	for k, v := range d.m {
		o[k] = v
	}
	return o
}
func (d *Distinct) Merge(m map[string]int) {
	d.mu.Lock()
	if d.m == nil {
		d.m = map[string]int{}
	}
	for k, v := range m {
		d.m[k] += v
	}
	d.mu.Unlock()
}

// PanicSite extracts "pkg.func" of the first repository frame below runtime.gopanic from a
// debug.Stack() dump — a stable signature component for recovered panics.
func PanicSite(stack []byte) string {
	lines := strings.Split(string(stack), "\n")
	seenPanic := false
	for i := 0; i < len(lines); i++ {
		l := lines[i]
		if strings.HasPrefix(l, "panic(") || strings.Contains(l, "runtime.gopanic") || strings.HasPrefix(l, "runtime.panic") || strings.HasPrefix(l, "runtime.goPanic") {
			seenPanic = true
			continue
		}
		if !seenPanic || strings.HasPrefix(l, "\t") || strings.HasPrefix(l, "runtime.") || l == "" {
			continue
		}
		if strings.Contains(l, "Elastos.ELA/") {
			f := l
			if k := strings.LastIndex(f, "("); k > 0 {
				f = f[:k]
			}
			f = strings.TrimPrefix(f, "github.com/elastos/Elastos.ELA/")
			return f
		}
	}
	return "unknown"
}
