#!/usr/bin/env python3
"""Generates MANIFEST.json from checks.json (claimed checks) + properties.jsonl (everything else → not_applicable)."""
import json, os, subprocess
here = os.path.dirname(os.path.abspath(__file__))
props = [json.loads(l) for l in open(os.path.join(here, 'properties.jsonl'))]
checks = json.load(open(os.path.join(here, 'checks.json')))
import glob
have = {c["id"] for c in checks["checks"]}
for f in sorted(glob.glob(os.path.join(here, 'engine/checks/*/check.json'))):
    c = json.load(open(f))
    if c["id"] not in have:
        checks["checks"].append(c)
checks["checks"].sort(key=lambda c: c["id"])
hooks = subprocess.run(['git', '-C', '/repo', 'log', '--format=%H %s', '--grep=^verif hook'], capture_output=True, text=True).stdout.strip().splitlines()
man = {
    "version": 1,
    "setup_cmd": "./setup.sh",
    "hooks": {
        "guard": "verif",
        "enable": "go build -tags verif (add-only files */export_verif.go, *_verif.go); scheduling/crash/statement points are injected at check time with go build -overlay generated from the working tree",
        "baseline_off_cmd": "cd /repo && go test -mod=mod -vet=off -count=1 -timeout 25m ./...",
        "source_commits": [h.split()[0] for h in hooks][::-1],
        "add_only": True,
    },
    "engines": checks["engines"],
    "checks": [],
    "notes": checks.get("notes", ""),
    "not_applicable": [],
}
claimed = set()
for c in checks["checks"]:
    pid = c["id"]
    claimed.add(pid)
    e = {
        "property_id": pid,
        "quick_cmd": f"./run {pid} quick",
        "evidence_file": f"/verif/evidence/{pid}.json",
        "replay_cmd_template": f"./run {pid} --replay {{path}}",
        "engine": c["engine"],
        "level_claimed": {"category": c["level"], "text": c["text"], "design_ref": f"DESIGN.md §5 {pid}"},
        "level_note": c["note"],
        "technique": c["technique"],
    }
    if c.get("thorough", True):
        e["thorough_cmd"] = f"./run {pid} thorough"
    man["checks"].append(e)
na = checks.get("not_applicable", {})
for p in props:
    if p["id"] not in claimed:
        man["not_applicable"].append({"property_id": p["id"], "reason": na.get(p["id"], "check not built yet in this session (planned in DESIGN.md §5); not claimed until it runs clean and has been shown to detect a breaking change")})
json.dump(man, open(os.path.join(here, 'MANIFEST.json'), 'w'), indent=1)
print("claimed", len(claimed), "not_applicable", len(man["not_applicable"]))
