package main

// part (b): a side-chain transaction hash withdrawn on the active chain can never be withdrawn
// again — fully valid, signed withdrawals of every payload version on a light node: the same
// side-chain hash is offered again in a later block, in the same block and in the pool.

import (
	"fmt"
	"math"
	"math/big"
	"path/filepath"

	"github.com/elastos/Elastos.ELA/common"
	"github.com/elastos/Elastos.ELA/common/config"
	"github.com/elastos/Elastos.ELA/core/contract"
	"github.com/elastos/Elastos.ELA/core/contract/program"
	common2 "github.com/elastos/Elastos.ELA/core/types/common"
	"github.com/elastos/Elastos.ELA/core/types/interfaces"
	"github.com/elastos/Elastos.ELA/crypto"
	"github.com/elastos/Elastos.ELA/mempool"

	"verif/evid"
	"verif/lightnode"
)

type singleRes struct {
	Scenario string `json:"scenario"` // later-block | same-block | pool-after-chain | pool-pool
	First    int    `json:"first_version"`
	Second   int    `json:"second_version"`
	Layout   string `json:"output_layout,omitempty"` // "" = a single withdraw output
	// controls
	FirstAccepted   bool   `json:"first_accepted"`
	FreshAccepted   bool   `json:"fresh_hash_accepted"` // the second transaction with a fresh hash instead
	RepeatAccepted  bool   `json:"repeat_accepted"`     // the second transaction with the repeated hash
	RepeatVerdict   string `json:"repeat_verdict"`
	IndexHasHash    bool   `json:"index_has_hash"`
	ControlsVerdict string `json:"controls_verdict"`
}

type fixtureB struct {
	node  *lightnode.Node
	arb   []lightnode.Key
	owner lightnode.Key
	fund  interfaces.Transaction
	next  int
	xhash common.Uint168
	code  []byte // valid m-of-n cross-chain script of the arbiters
	m     int
}

const nB = 4

func newFixtureB(scr string) *fixtureB {
	f := &fixtureB{}
	var keys [][]byte
	for i := 0; i < nB; i++ {
		k := lightnode.FixedKey("c33-arbiter", i)
		f.arb = append(f.arb, k)
		keys = append(keys, k.Compressed)
	}
	f.owner = lightnode.FixedKey("c33-owner", 0)
	f.m = 3
	node, err := lightnode.New(filepath.Join(scr, "node"), lightnode.Options{
		ArbiterKeys: keys, CRCKeys: keys, MajorityCount: 2,
		Tweak: func(p *config.Configuration) {
			// every era height at 0 so that height 1 (genesis + 1, what the pool validates
			// at) lies in today's mainnet era: council arbiters, restriction active
			p.CRConfiguration.MemberCount = nB
			p.CRConfiguration.CRAgreementCount = 3
			p.CRConfiguration.CRClaimDPOSNodeStartHeight = 0
			p.DPoSConfiguration.DPOSNodeCrossChainHeight = math.MaxUint32
			p.SchnorrStartHeight = math.MaxUint32
			p.NormalSchnorrStartHeight = 0
			p.CrossChainUTXOFreezeHeight = 0
			p.CrossChainUTXORestrictionHeight = 0
		},
	})
	if err != nil {
		evid.Fatalf("light node: %v", err)
	}
	f.node = node
	f.code = lightnode.CrossChainCode(f.m, keys, -1)
	f.xhash = *common.ToProgramHash(0x4B, f.code)
	var outs []*common2.Output
	for i := 0; i < 700; i++ {
		outs = append(outs, lightnode.Output(f.xhash, 1000))
	}
	fund, err := node.Fund("c33-b", outs...)
	if err != nil {
		evid.Fatalf("fund: %v", err)
	}
	f.fund = fund
	return f
}

func (f *fixtureB) utxo() *common2.Input {
	in := lightnode.Input(f.fund, f.next)
	f.next++
	return in
}

// signed builds a fully valid, signed withdrawal of the given version for side-chain hash x.
func (f *fixtureB) signed(version int, x common.Uint256) interfaces.Transaction {
	return f.signedLayout(version, []slot{{Hash: x}})
}

// signedLayout builds a fully valid, signed withdrawal whose outputs follow layout.
func (f *fixtureB) signedLayout(version int, layout []slot) interfaces.Transaction {
	ins := []*common2.Input{f.utxo()}
	signers := []uint8{0, 1, 2}
	tx := mkWithdrawLayout(byte(version), signers, ins, f.owner.StandardHash(), layout, nil)
	// nonce attribute keeps transaction hashes distinct
	attr := common2.NewAttribute(common2.Nonce, []byte(fmt.Sprintf("c33-%d", f.next)))
	tx.SetAttributes([]*common2.Attribute{&attr})
	if version == 2 {
		agg, err := crypto.AggregatePublickeys([][]byte{f.arb[0].Compressed, f.arb[1].Compressed, f.arb[2].Compressed})
		if err != nil {
			evid.Fatalf("aggregate: %v", err)
		}
		pk, err := crypto.DecodePoint(agg)
		if err != nil {
			evid.Fatalf("aggregate key: %v", err)
		}
		code, err := contract.CreateSchnorrRedeemScript(pk)
		if err != nil {
			evid.Fatalf("schnorr script: %v", err)
		}
		tx.SetPrograms([]*program.Program{{Code: code, Parameter: make([]byte, 64)}})
		data := lightnode.Unsigned(tx)
		var ds []*big.Int
		for i := 0; i < 3; i++ {
			ds = append(ds, new(big.Int).SetBytes(f.arb[i].Priv))
		}
		sig, err := crypto.AggregateSignatures(ds, common.Sha256D(data))
		if err != nil {
			evid.Fatalf("aggregate signature: %v", err)
		}
		tx.SetPrograms([]*program.Program{{Code: code, Parameter: sig[:]}})
		return tx
	}
	p, err := lightnode.SignCrossChain(tx, f.code, f.arb[:f.m])
	if err != nil {
		evid.Fatalf("sign: %v", err)
	}
	tx.SetPrograms([]*program.Program{p})
	return tx
}

// offer runs what the node runs for a transaction that arrives in a block at the next height:
// sanity + context checks of the chain.
func (f *fixtureB) offer(tx interfaces.Transaction) (bool, string) {
	h := f.node.Chain.GetHeight() + 1
	var v lightnode.Verdict
	func() {
		defer func() {
			if r := recover(); r != nil {
				v.Panicked = true
				v.PanicMsg = fmt.Sprint(r)
			}
		}()
		if e := f.node.Chain.CheckTransactionSanity(h, tx); e != nil {
			v.Err = e
			return
		}
		if _, e := f.node.Chain.CheckTransactionContext(h, tx, 0, 0); e != nil {
			v.Err = e
		}
	}()
	return v.Accepted(), v.String()
}

// blockSanity assembles a block (coinbase, merkle root, solved proof of work) holding txs and
// runs the node's BlockChain.CheckBlockSanity on it.
func (f *fixtureB) blockSanity(txs ...interfaces.Transaction) (err error) {
	defer func() {
		if r := recover(); r != nil {
			err = fmt.Errorf("panic: %v", r)
		}
	}()
	b, err := f.node.MakeBlock(txs...)
	if err != nil {
		evid.Fatalf("make block: %v", err)
	}
	return f.node.Chain.CheckBlockSanity(b)
}

func (f *fixtureB) poolOffer(p *mempool.TxPool, tx interfaces.Transaction) (ok bool, s string) {
	defer func() {
		if r := recover(); r != nil {
			ok, s = false, "panic: "+fmt.Sprint(r)
		}
	}()
	if e := p.AppendToTxPoolWithoutEvent(tx); e != nil {
		return false, e.Error()
	}
	return true, "accepted"
}

func runSingle(scr string) []singleRes {
	f := newFixtureB(scr)
	defer f.node.Close()
	var out []singleRes
	for first := 0; first <= 2; first++ {
		for second := 0; second <= 2; second++ {
			// ---- later block
			{
				x := freshHash(0xB1)
				r := singleRes{Scenario: "later-block", First: first, Second: second}
				w1 := f.signed(first, x)
				ok1, s1 := f.offer(w1)
				r.FirstAccepted = ok1
				pre, spre := f.offer(f.signed(second, x)) // before the first is on chain: acceptable
				if _, err := f.node.SaveBlock(w1); err != nil {
					evid.Fatalf("save block: %v", err)
				}
				r.IndexHasHash = f.node.Tx3Exists(x)
				fresh, sf := f.offer(f.signed(second, freshHash(0xB2)))
				r.FreshAccepted = fresh && pre
				r.ControlsVerdict = fmt.Sprintf("first: %s; second before connect: %s; second with fresh hash: %s", s1, spre, sf)
				r.RepeatAccepted, r.RepeatVerdict = f.offer(f.signed(second, x))
				out = append(out, r)
			}
			// ---- same block
			{
				x := freshHash(0xB3)
				r := singleRes{Scenario: "same-block", First: first, Second: second}
				w1, w2 := f.signed(first, x), f.signed(second, x)
				ok1, s1 := f.offer(w1)
				ok2, s2 := f.offer(w2)
				r.FirstAccepted = ok1
				// control: a block holding the pair with distinct hashes passes the block sanity
				// check (proof of work, merkle root, coinbase, per-transaction sanity,
				// duplicate checks)
				c1, c2 := f.signed(first, freshHash(0xB4)), f.signed(second, freshHash(0xB5))
				cerr := f.blockSanity(c1, c2)
				r.FreshAccepted = cerr == nil && ok2
				r.ControlsVerdict = fmt.Sprintf("first alone: %s; second alone: %s; distinct-hash pair in a block: %v", s1, s2, cerr)
				derr := f.blockSanity(w1, w2)
				// the node validates every transaction of a block against the state before the
				// block (checkTxsContext), so the per-transaction verdicts are ok1/ok2
				r.RepeatAccepted = derr == nil && ok1 && ok2
				r.RepeatVerdict = fmt.Sprintf("BlockChain.CheckBlockSanity: %v; per-transaction context: %s / %s", derr, s1, s2)
				if r.RepeatAccepted {
					// connect it: both withdrawals become part of the chain
					if _, err := f.node.SaveBlock(w1, w2); err != nil {
						r.RepeatVerdict += "; save failed: " + err.Error()
					} else {
						r.IndexHasHash = f.node.Tx3Exists(x)
					}
				}
				out = append(out, r)
			}
			// ---- pool after chain
			{
				x := freshHash(0xB6)
				r := singleRes{Scenario: "pool-after-chain", First: first, Second: second}
				pool := mempool.NewTxPool(f.node.Params, f.node.Ckp)
				w1 := f.signed(first, x)
				ok1, s1 := f.offer(w1)
				r.FirstAccepted = ok1
				if _, err := f.node.SaveBlock(w1); err != nil {
					evid.Fatalf("save block: %v", err)
				}
				r.IndexHasHash = f.node.Tx3Exists(x)
				fresh, sf := f.poolOffer(pool, f.signed(second, freshHash(0xB7)))
				r.FreshAccepted = fresh
				r.ControlsVerdict = fmt.Sprintf("first: %s; pool, fresh hash: %s", s1, sf)
				r.RepeatAccepted, r.RepeatVerdict = f.poolOffer(pool, f.signed(second, x))
				out = append(out, r)
			}
			// ---- pool then pool
			{
				x := freshHash(0xB8)
				r := singleRes{Scenario: "pool-pool", First: first, Second: second}
				pool := mempool.NewTxPool(f.node.Params, f.node.Ckp)
				ok1, s1 := f.poolOffer(pool, f.signed(first, x))
				r.FirstAccepted = ok1
				fresh, sf := f.poolOffer(pool, f.signed(second, freshHash(0xB9)))
				r.FreshAccepted = fresh
				r.ControlsVerdict = fmt.Sprintf("pool, first: %s; pool, fresh hash: %s", s1, sf)
				r.RepeatAccepted, r.RepeatVerdict = f.poolOffer(pool, f.signed(second, x))
				out = append(out, r)
			}
		}
	}
	// ---- output-order variants: the repeated hash at every position among change outputs and
	// other withdraw outputs, offered after the first withdrawal is on the chain
	for first := 0; first <= 2; first++ {
		for second := 0; second <= 2; second++ {
			for _, lay := range layouts() {
				x := freshHash(0xC1)
				r := singleRes{Scenario: "later-block", First: first, Second: second, Layout: lay.Name}
				// the first withdrawal carries the hash in the same layout (index written for
				// every position)
				w1 := f.signedLayout(first, lay.build(x))
				ok1, s1 := f.offer(w1)
				r.FirstAccepted = ok1
				if _, err := f.node.SaveBlock(w1); err != nil {
					evid.Fatalf("save block: %v", err)
				}
				r.IndexHasHash = f.node.Tx3Exists(x)
				fresh, sf := f.offer(f.signedLayout(second, lay.build(freshHash(0xC2))))
				r.FreshAccepted = fresh && r.IndexHasHash
				r.ControlsVerdict = fmt.Sprintf("first: %s; index has hash: %v; same layout with a fresh hash: %s", s1, r.IndexHasHash, sf)
				r.RepeatAccepted, r.RepeatVerdict = f.offer(f.signedLayout(second, lay.build(x)))
				out = append(out, r)
			}
		}
	}
	return out
}

// sigRes: a fully built V0/V1 withdrawal whose m-of-n cross-chain program carries signatures
// from the given arbiters (a repeated arbiter signs again: ECDSA signing is randomised, so the
// signatures are distinct and each one is valid).
type sigRes struct {
	Version  int    `json:"version"`
	Signers  []int  `json:"signing_arbiters"`
	Distinct int    `json:"distinct_arbiters"`
	M        int    `json:"m"`
	Accepted bool   `json:"accepted"`
	Verdict  string `json:"verdict"`
}

func (f *fixtureB) runSignatureSets() []sigRes {
	sets := [][]int{{0, 1, 2}, {2, 1, 0}, {0, 1, 2, 3}, {0, 0, 0}, {0, 1, 1}, {0, 0, 1}, {3, 3, 2}, {0, 0, 0, 0}, {0, 1, 0, 1}, {0, 1}, {0}, {0, 0}}
	var out []sigRes
	for version := 0; version <= 1; version++ {
		for _, set := range sets {
			tx := mkWithdrawLayout(byte(version), nil, []*common2.Input{f.utxo()}, f.owner.StandardHash(), []slot{{Hash: freshHash(0xD1)}}, nil)
			attr := common2.NewAttribute(common2.Nonce, []byte(fmt.Sprintf("c33-sig-%d", f.next)))
			tx.SetAttributes([]*common2.Attribute{&attr})
			var keys []lightnode.Key
			d := map[int]bool{}
			for _, i := range set {
				keys = append(keys, f.arb[i])
				d[i] = true
			}
			p, err := lightnode.SignCrossChain(tx, f.code, keys)
			if err != nil {
				evid.Fatalf("sign: %v", err)
			}
			tx.SetPrograms([]*program.Program{p})
			ok, v := f.offer(tx)
			out = append(out, sigRes{Version: version, Signers: set, Distinct: len(d), M: f.m, Accepted: ok, Verdict: v})
		}
	}
	return out
}

func judgeSignatureSets(r *evid.Run, xs []sigRes, classes *evid.Distinct) {
	for _, x := range xs {
		classes.Add(fmt.Sprintf("sigs|v%d|signatures=%d|distinct=%d|accepted=%v", x.Version, len(x.Signers), x.Distinct, x.Accepted))
		art := map[string]interface{}{"kind": "signature-set", "case": x}
		if x.Distinct >= x.M && len(x.Signers) == x.Distinct && !x.Accepted {
			evid.Fatalf("C33 signature fixture: %d distinct arbiters signing is not accepted: %+v", x.Distinct, x)
		}
		if x.Accepted && x.Distinct < x.M {
			r.Violate(fmt.Sprintf("C33|quorum|v%d|signatures-not-from-distinct-arbiters", x.Version),
				fmt.Sprintf("a v%d withdrawal whose %d-of-%d program carries %d valid signatures made by only %d distinct arbiter(s) %v passes CheckTransactionSanity + CheckTransactionContext", x.Version, x.M, nB, len(x.Signers), x.Distinct, x.Signers), art)
		}
	}
}

type layoutGen struct {
	Name  string
	build func(x common.Uint256) []slot
}

// layouts: C = change (plain) output, W = withdraw output with a fresh hash, X = withdraw output
// with the hash under test.
func layouts() []layoutGen {
	c := slot{Change: true}
	w := func() slot { return slot{Hash: freshHash(0xC3)} }
	return []layoutGen{
		{"C,X", func(x common.Uint256) []slot { return []slot{c, {Hash: x}} }},
		{"X,C", func(x common.Uint256) []slot { return []slot{{Hash: x}, c} }},
		{"C,X,C", func(x common.Uint256) []slot { return []slot{c, {Hash: x}, c} }},
		{"W,C,X", func(x common.Uint256) []slot { return []slot{w(), c, {Hash: x}} }},
		{"X,W", func(x common.Uint256) []slot { return []slot{{Hash: x}, w()} }},
		{"W,X", func(x common.Uint256) []slot { return []slot{w(), {Hash: x}} }},
		{"W,X,W", func(x common.Uint256) []slot { return []slot{w(), {Hash: x}, w()} }},
		{"C,W,X", func(x common.Uint256) []slot { return []slot{c, w(), {Hash: x}} }},
	}
}

func judgeSingle(r *evid.Run, xs []singleRes, classes *evid.Distinct) (repeatsRejected, repeatsAccepted int) {
	for _, x := range xs {
		art := map[string]interface{}{"kind": "single-use", "case": x}
		classes.Add(fmt.Sprintf("single|%s|layout=%s|first=v%d|second=v%d|repeat-accepted=%v", x.Scenario, x.Layout, x.First, x.Second, x.RepeatAccepted))
		if !x.FirstAccepted || !x.FreshAccepted {
			// the fixture's withdrawals must be valid on their own, otherwise a rejection of the
			// repeat says nothing
			evid.Fatalf("C33 single-use fixture is not valid on its own (%s %s v%d/v%d): %s", x.Scenario, x.Layout, x.First, x.Second, x.ControlsVerdict)
		}
		if !x.RepeatAccepted {
			repeatsRejected++
			continue
		}
		repeatsAccepted++
		switch x.Scenario {
		case "later-block", "pool-after-chain":
			r.Violate(fmt.Sprintf("C33|single-use|on-chain-hash-accepted-again|repeat=v%d", x.Second),
				fmt.Sprintf("a side-chain transaction hash already withdrawn on the active chain is accepted again in a fully valid v%d withdrawal (%s; first withdrawal v%d; output layout %q): %s", x.Second, x.Scenario, x.First, x.Layout, x.RepeatVerdict), art)
		case "same-block":
			class := "output-carried-hash" // at least one of the two is v1/v2: the hash travels in an output payload
			if x.First == 0 && x.Second == 0 {
				class = "payload-carried-hash"
			}
			r.Violate("C33|single-use|same-block|"+class,
				fmt.Sprintf("two fully valid withdrawals (v%d, v%d) of the same side-chain transaction hash pass every check the node applies to one block: %s", x.First, x.Second, x.RepeatVerdict), art)
		case "pool-pool":
			// both transactions are unconfirmed: nothing has been withdrawn on the active chain
			// yet, so the statement is not violated by the pool holding both (pool conflict
			// handling is C34's subject). Recorded in the coverage only.
		}
	}
	return
}
