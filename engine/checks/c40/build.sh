#!/bin/bash
# Instrumented builds for C40:
#  $VERIF_BIN        scheduler build: sync of dpos/state and mempool rewritten to the vsync shim; statement points in
#                    the validation functions that read state without the mutex and in History's commit loop
#  $VERIF_BIN.race   free-running sibling: same harness bodies, real sync, -race
set -eu
export GOFLAGS=-mod=mod GOPROXY=off GOSUMDB=off GOTOOLCHAIN=local
ROOT="${VERIF_ROOT:-/verif}"
REPO="${VERIF_REPO:-/repo}"
SCR="$(mktemp -d /dev/shm/verif-c40-build-XXXXXX)"
trap 'rm -rf "$SCR"' EXIT
cd "$ROOT/engine"
go build -o "$SCR/schedinst" ./cmd/schedinst
"$SCR/schedinst" -repo "$REPO" -out "$SCR" -shims "$ROOT/engine/shim" \
  -pkg dpos/state:sync \
  -pkg mempool:sync \
  -stmt "dpos/state:State.GetAllProducers" \
  -stmt "utils:HeightChanges.commit" \
  -stmt "mempool:TxPool.doRemoveTransaction" \
  -stmt "core/transaction:ReturnVotesTransaction.SpecialContextCheck,VotingTransaction.SpecialContextCheck,VotingTransaction.checkDPoSV2Content" >/dev/null
go build -tags "verif vsched" ${VERIF_MODFLAGS:-} -overlay "$SCR/overlay.json" -o "$VERIF_BIN" ./checks/c40
# the free-running pass uses the shims too (they delegate to the real primitives when no
# controlled execution is active), so both binaries share one harness source
go build -race -tags "verif vsched" ${VERIF_MODFLAGS:-} -overlay "$SCR/overlay.json" -o "$VERIF_BIN.race" ./checks/c40
