// C30 "irreversible blocks are never detached" — node tier (reorganisation guard) + state tier
// (monotonicity across consensus-mode transitions).
//
// Regime (node tier): the cheapest parameter set in which the node records a last irreversible
// height L — VoteStartHeight 2 (so the DPoS state machine sees every block from height 2 on and
// reorganisations roll it back through the checkpoint manager), CRCOnlyDPOSHeight 3 (the guard
// State.IsIrreversible is inactive at or below it), RevertToPOWStartHeight 7 (dpos/state
// tryUpdateLastIrreversibleHeight records L = height-6 from there on: L=1 at height 7, then one
// more per block while the consensus algorithm is DPOS). All other activation heights stay far
// away. Blocks are plain PoW blocks handed to BlockChain.ProcessBlock without DPoS confirmations
// (the block pool that waits for confirmations is not in the loop), so the consensus algorithm
// stays DPOS on the node tier.
//
// Node-tier scenarios: trunk T1..T9 (T1..T6 delivered at start, T7..T9 in order but interleaved
// with everything else; L is first recorded at T7 and is 3 at T9), plus one fork F(r+1)..F10
// rooted at trunk height r for every r in [L-2, tip-1] = [1, 8], which has more work than the
// whole trunk. Operations: d:<label> (ProcessBlock) and x:<label> (the exported
// BlockChain.ReorganizeChain on the highest fork block the node knows as a side block, offered
// when that block is at least as high as the tip). Fork
// blocks are delivered in every order when the fork is short (<= 3 blocks quick, <= 7
// thorough) and in ascending and in descending order otherwise (then with T1..T8 delivered up
// front for roots below 6); search = chainkit.BFS over all scenarios at once (chainkit.Multi).
//
// POW-mode scenarios p<r>: the whole trunk is delivered (L=3), then the state is put into what a
// RevertToPOW transaction leaves behind (consensus POW, L frozen; exported fields set directly,
// because a valid RevertToPOW block needs 12 h without blocks) and a fork rooted at r = L, L-1,
// L-2 is extended block by block to 4 blocks beyond the tip (ascending; descending too for
// r=2 / thorough). Under POW there is no depth rule, only the comparison with L stands in the
// way, however far the refused fork gets ahead. ReorganizeChain is not offered there.
//
// Oracles after every operation:
//
//	monotonic   if the best height did not go down, GetLastIrreversibleHeight did not go down
//	pinned      once L > 0 was observed, GetBlockHash(k) for every k <= max L observed so far
//	            never changes
//	events      no ETBlockDisconnected is published for a height <= L (L read before the op)
//
// State tier: a DPoS state machine assembled without a chain store (state.NewArbitrators +
// committee + checkpoint manager, same parameters) is driven through State.ProcessBlock with
// every sequence of 30 consecutive synthetic blocks from height 5 that contains at most 2
// (quick) / 3 (thorough) consensus-mode transactions, each placed where the repository's own validity rules allow it
// (RevertToPOW only while DPOS; RevertToDPOS only while POW with no pending work height). After
// every block: L did not decrease, and State.IsIrreversible(height, d) answers true for every d
// that would detach a height <= L, whatever the consensus mode (reference: plain comparison).
// (Forward progress only; rollback = C21.)
package main

import (
	"encoding/json"
	"fmt"
	"strconv"
	"strings"
	"time"

	"github.com/elastos/Elastos.ELA/common"
	"github.com/elastos/Elastos.ELA/common/config"
	"github.com/elastos/Elastos.ELA/core/checkpoint"
	"github.com/elastos/Elastos.ELA/core/contract/program"
	"github.com/elastos/Elastos.ELA/core/types"
	common2 "github.com/elastos/Elastos.ELA/core/types/common"
	"github.com/elastos/Elastos.ELA/core/types/functions"
	"github.com/elastos/Elastos.ELA/core/types/interfaces"
	"github.com/elastos/Elastos.ELA/core/types/payload"
	crstate "github.com/elastos/Elastos.ELA/cr/state"
	"github.com/elastos/Elastos.ELA/dpos/state"
	"github.com/elastos/Elastos.ELA/events"

	"verif/chainkit"
	"verif/evid"
	"verif/par"
)

const (
	h0       = 7 // RevertToPOWStartHeight: first height at which L is recorded
	trunkLen = 9 // h0 + 2
	forkTop  = trunkLen + 1
	powTop   = trunkLen + 4 // fork tip height in the POW-mode scenarios
)

func regime(p *config.Configuration) {
	p.VoteStartHeight = 2
	p.CRCOnlyDPOSHeight = 3
	p.DPoSConfiguration.RevertToPOWStartHeight = h0
}

func cfg() chainkit.Config { return chainkit.Config{CoinbaseMaturity: 1, Tweak: regime} }

// ---------------------------------------------------------------------------------------------
// node tier

type nodeSys struct {
	n      *chainkit.Node
	root   int
	mode   string // all | asc | desc
	trunk  []*types.Block
	fork   []*types.Block // heights root+1..forkTop
	tNext  int            // next trunk index to deliver
	fDone  []bool
	byHash map[common.Uint256]string

	lmax   uint32
	pinned map[uint32]common.Uint256
	c      map[string]int

	evFail *chainkit.Fail
	lAtOp  uint32
	pow    bool
}

// scenario name: r<root>-<mode>
func scenarioNames(tier string) []string {
	allMax := 3
	if tier == "thorough" {
		allMax = 7
	}
	var out []string
	// consensus POW with a frozen L=3 (set after the whole trunk): forks rooted at L, L-1, L-2,
	// extended block by block to 4 blocks beyond the tip
	for r := 3; r >= 1; r-- {
		out = append(out, fmt.Sprintf("p%d-asc", r))
		if tier == "thorough" || r == 2 {
			out = append(out, fmt.Sprintf("p%d-desc", r))
		}
	}
	for r := trunkLen - 1; r >= 1; r-- {
		if forkTop-r <= allMax {
			out = append(out, fmt.Sprintf("r%d-all", r))
		} else {
			out = append(out, fmt.Sprintf("r%d-asc", r), fmt.Sprintf("r%d-desc", r))
		}
	}
	return out
}

func newNodeSys(name string) chainkit.System {
	var r int
	var mode string
	pow := name[0] == 'p'
	parts := strings.SplitN(name[1:], "-", 2)
	r, _ = strconv.Atoi(parts[0])
	mode = parts[1]
	n, err := chainkit.NewNode(cfg())
	if err != nil {
		evid.Fatalf("C30: %v", err)
	}
	// trunk blocks delivered before the search starts: T1..T6 (L not yet recorded) where the
	// fork is explored in every order or is short; T1..T8 (L=2 recorded, only T9 interleaved)
	// for the long ascending / descending forks
	preLen := 6
	if mode != "all" && r < 6 {
		preLen = 8
	}
	top := forkTop
	if pow {
		preLen = trunkLen
		top = powTop
	}
	s := &nodeSys{n: n, root: r, mode: mode, byHash: map[common.Uint256]string{}, pinned: map[uint32]common.Uint256{}, c: map[string]int{}}
	parent := n.Genesis()
	for i := 1; i <= trunkLen; i++ {
		b := n.BuildBlock(parent, nil, 0)
		s.trunk = append(s.trunk, b)
		s.byHash[b.Hash()] = fmt.Sprintf("T%d", i)
		parent = b
	}
	parent = s.trunk[r-1]
	for h := r + 1; h <= top; h++ {
		b := n.BuildBlock(parent, nil, 1)
		s.fork = append(s.fork, b)
		s.byHash[b.Hash()] = fmt.Sprintf("F%d", h)
		parent = b
	}
	s.fDone = make([]bool, len(s.fork))
	for i := 0; i < preLen; i++ {
		in, orphan, err := n.ProcessBlock(s.trunk[i])
		if err != nil || !in || orphan {
			evid.Fatalf("C30: prefix block T%d: in=%v orphan=%v err=%v", i+1, in, orphan, err)
		}
	}
	s.tNext = preLen
	if l := s.L(); (preLen == 6 && l != 0) || (preLen == 8 && l != 2) || (preLen == trunkLen && l != 3) {
		evid.Fatalf("C30: L=%d after a prefix of %d blocks", l, preLen)
	}
	s.pow = pow
	if pow {
		// The state a RevertToPOW transaction in the tip block leaves behind
		// (State.processRevertToPOW): consensus POW, no pending work height, L frozen. Set
		// directly (exported fields) because a valid RevertToPOW block needs 12 h without
		// blocks; only forks the guard must refuse are offered here, so the state machine is
		// never rolled back across the injected change on the unchanged tree.
		st := n.Chain.GetState()
		st.ConsensusAlgorithm = state.POW
		st.DPOSWorkHeight = 0
		st.RevertToPOWBlockHeight = uint32(trunkLen)
	}
	s.pin()
	n.OnEvent = func(e *events.Event) {
		if e.Type == events.ETBlockDisconnected {
			if b, ok := e.Data.(*types.Block); ok && s.lAtOp > 0 && b.Height <= s.lAtOp && s.evFail == nil {
				s.evFail = chainkit.Failf("C30|events|block-at-or-below-L-disconnected",
					"ETBlockDisconnected published for %s at height %d while the last irreversible height was %d", s.label(b.Hash()), b.Height, s.lAtOp)
			}
		}
	}
	return s
}

func (s *nodeSys) L() uint32 { return s.n.Chain.GetState().GetLastIrreversibleHeight() }

func (s *nodeSys) label(h common.Uint256) string {
	if l, ok := s.byHash[h]; ok {
		return l
	}
	return chainkit.Short(h)
}

func (s *nodeSys) Close()                   { s.n.Close() }
func (s *nodeSys) Counters() map[string]int { return s.c }
func (s *nodeSys) ResetCounters()           { s.c = map[string]int{} }

func (s *nodeSys) forkLabel(i int) string { return fmt.Sprintf("F%d", s.root+1+i) }

func (s *nodeSys) Ops() []string {
	var ops []string
	if s.tNext < trunkLen {
		ops = append(ops, fmt.Sprintf("d:T%d", s.tNext+1))
	}
	switch s.mode {
	case "all":
		for i := range s.fork {
			if !s.fDone[i] {
				ops = append(ops, "d:"+s.forkLabel(i))
			}
		}
	case "asc":
		for i := range s.fork {
			if !s.fDone[i] {
				ops = append(ops, "d:"+s.forkLabel(i))
				break
			}
		}
	case "desc":
		for i := len(s.fork) - 1; i >= 0; i-- {
			if !s.fDone[i] {
				ops = append(ops, "d:"+s.forkLabel(i))
				break
			}
		}
	}
	// exported ReorganizeChain on the highest fork block the node holds as a side block (not in
	// the POW-mode scenarios: there the entry's guard, computed from the target's height, lets a
	// long enough refused fork through — the unreachable-entry observation of MUTANTS.md)
	for i := len(s.fork) - 1; i >= 0 && !s.pow; i-- {
		h := s.fork[i].Hash()
		if s.fDone[i] && s.n.Chain.BlockExists(&h) && !s.n.Chain.IsKnownOrphan(&h) {
			// only towards a side block at least as high as the tip (the situation of the entry's
			// single call site: a competing block at an existing height replaces the tip); the
			// guard is computed from the target block's height, so a target far below the tip is
			// outside what the entry is written for
			if x, err := s.n.BlockHashAt(s.fork[i].Height); (err != nil || x != h) && s.fork[i].Height >= s.n.Height() {
				ops = append(ops, "x:"+s.forkLabel(i))
			}
			break
		}
	}
	return ops
}

func (s *nodeSys) Apply(op string) *chainkit.Fail {
	kind, label, _ := strings.Cut(op, ":")
	var blk *types.Block
	if label[0] == 'T' {
		i, _ := strconv.Atoi(label[1:])
		if i != s.tNext+1 {
			evid.Fatalf("C30: bad op %s", op)
		}
		blk = s.trunk[i-1]
	} else {
		h, _ := strconv.Atoi(label[1:])
		i := h - s.root - 1
		if i < 0 || i >= len(s.fork) {
			evid.Fatalf("C30: bad op %s", op)
		}
		blk = s.fork[i]
		if kind == "d" {
			s.fDone[i] = true
		}
	}
	hBefore, lBefore := s.n.Height(), s.L()
	tipBefore := s.n.Tip()
	s.lAtOp = lBefore
	s.evFail = nil
	disc0 := s.n.Disconnected
	var err error
	switch kind {
	case "d":
		if label[0] == 'T' {
			s.tNext++
		}
		_, _, err = s.n.ProcessBlock(blk)
	case "x":
		err = s.n.Chain.ReorganizeChain(chainkit.CopyBlock(blk))
		s.c["reorganize_entry_calls"]++
	}
	hAfter, lAfter := s.n.Height(), s.L()
	detached := s.n.Disconnected - disc0
	if detached > 0 {
		s.c["reorganisations"]++
		if lBefore > 0 {
			s.c["reorganisations_with_L_recorded"]++
		}
	}
	if lBefore > 0 && detached == 0 && s.n.Tip() == tipBefore && kind == "x" {
		s.c["reorganize_entry_refused_or_noop"]++
	}
	// a heavier fully delivered branch that the node did not take while L is recorded = guard at work
	if lAfter > 0 && err == nil && kind == "d" && label[0] == 'F' {
		all := true
		for i := range s.fork {
			if !s.fDone[i] {
				all = false
			}
		}
		if all && hAfter < s.fork[len(s.fork)-1].Height {
			s.c["heavier_fork_refused_by_guard"]++
		}
	}
	if err != nil {
		s.c["errors"]++
	}
	if s.evFail != nil {
		return s.evFail
	}
	if hAfter >= hBefore && lAfter < lBefore {
		return chainkit.Failf("C30|monotonic|L-decreased|via="+kind,
			"%s moved the best height %d -> %d and the last irreversible height %d -> %d", op, hBefore, hAfter, lBefore, lAfter)
	}
	// pinned prefix
	for k := uint32(0); k <= s.lmax; k++ {
		want, ok := s.pinned[k]
		if !ok {
			continue
		}
		got, e := s.n.BlockHashAt(k)
		if e != nil || got != want {
			return chainkit.Failf("C30|pinned|block-at-or-below-L-replaced|via="+kind,
				"after %s GetBlockHash(%d) = %s, but %s was there when the last irreversible height reached %d (>= %d)", op, k, s.label(got), s.label(want), s.lmax, k)
		}
	}
	if lAfter > s.lmax && s.lmax == 0 {
		s.c["L_first_recorded"]++
	}
	s.pin()
	return nil
}

// pin remembers the block hashes at every height <= the highest L observed so far.
func (s *nodeSys) pin() {
	if l := s.L(); l > s.lmax {
		s.lmax = l
	}
	if s.lmax == 0 {
		return
	}
	for k := uint32(0); k <= s.lmax && k <= s.n.Height(); k++ {
		if _, ok := s.pinned[k]; !ok {
			if hh, e := s.n.BlockHashAt(k); e == nil {
				s.pinned[k] = hh
			}
		}
	}
}

func (s *nodeSys) Digest() string {
	var sb strings.Builder
	sb.WriteString(s.n.Digest())
	fmt.Fprintf(&sb, "|t%d|", s.tNext)
	for i := range s.fork {
		st := byte('-')
		if s.fDone[i] {
			st = 'd'
			h := s.fork[i].Hash()
			if s.n.Chain.IsKnownOrphan(&h) {
				st = 'o'
			} else if s.n.Chain.BlockExists(&h) {
				st = 'k'
			}
		}
		sb.WriteByte(st)
	}
	st := s.n.Chain.GetState()
	fmt.Fprintf(&sb, "|L%d m%d a%d s%d", s.L(), s.lmax, st.GetConsensusAlgorithm(), st.DPOSStartHeight)
	return sb.String()
}

// ---------------------------------------------------------------------------------------------
// state tier

const (
	stStart = 5  // first synthetic block height
	stLen   = 30 // blocks per sequence
)

type stReq struct {
	Kind string  `json:"kind"`
	Seqs [][]int `json:"seqs"` // each: positions (0-based block index) of mode transactions
}

type stResp struct {
	Sequences       int            `json:"sequences"`
	Blocks          int            `json:"blocks"`
	Placed          int            `json:"mode_txs_placed"`
	Skipped         int            `json:"mode_txs_not_allowed"`
	ToPOW           int            `json:"to_pow"`
	ToDPOS          int            `json:"to_dpos_effective"`
	LMoves          int            `json:"l_increments"`
	GuardEvals      int            `json:"guard_evaluations"`
	GuardMustRefuse int            `json:"guard_evaluations_that_must_refuse"`
	Fails           []stFail       `json:"fails,omitempty"`
	Shapes          map[string]int `json:"shapes,omitempty"`
}

type stFail struct {
	F   *chainkit.Fail `json:"f"`
	Seq []int          `json:"seq"`
}

func modeTx(kind string, height uint32) interfaces.Transaction {
	switch kind {
	case "pow":
		return functions.CreateTransaction(common2.TxVersion09, common2.RevertToPOW, 0,
			&payload.RevertToPOW{Type: payload.NoBlock, WorkingHeight: height},
			[]*common2.Attribute{}, []*common2.Input{}, []*common2.Output{}, 0, []*program.Program{})
	default:
		return functions.CreateTransaction(common2.TxVersion09, common2.RevertToDPOS, 0,
			&payload.RevertToDPOS{WorkHeightInterval: payload.WorkHeightInterval},
			[]*common2.Attribute{}, []*common2.Input{}, []*common2.Output{}, 0, []*program.Program{})
	}
}

// runStateSeq drives one sequence; pos lists the block indices that carry a mode transaction
// (the kind follows from the state: RevertToPOW while DPOS, RevertToDPOS while POW without a
// pending work height; otherwise the position is skipped, as the node's validation would).
func runStateSeq(pos []int, out *stResp) *chainkit.Fail {
	p := chainkit.NewParams(cfg())
	ckp := checkpoint.NewManager(p)
	defer ckp.Close()
	committee := crstate.NewCommittee(p, ckp)
	arb, err := state.NewArbitrators(p, committee, func(common.Uint168) (common.Fixed64, error) { return 0, nil },
		committee.TryUpdateCRMemberInactivity, committee.TryRevertCRMemberInactivity,
		committee.TryUpdateCRMemberIllegal, committee.TryRevertCRMemberIllegal,
		committee.UpdateCRInactivePenalty, committee.RevertUpdateCRInactivePenalty, ckp)
	if err != nil {
		evid.Fatalf("C30: state tier: %v", err)
	}
	var height uint32 = stStart - 1
	arb.RegisterFunction(func() uint32 { return height }, func() *common.Uint256 { return &common.Uint256{} },
		func(uint32) (*types.Block, error) { return nil, fmt.Errorf("no blocks") },
		func(interfaces.Transaction) (map[*common2.Input]common2.Output, error) {
			return map[*common2.Input]common2.Output{}, nil
		})
	st := arb.State
	at := map[int]bool{}
	for _, x := range pos {
		at[x] = true
	}
	shape := ""
	for i := 0; i < stLen; i++ {
		height = uint32(stStart + i)
		blk := &types.Block{Header: common2.Header{Height: height, Timestamp: p.GenesisBlock.Timestamp + 2*height}}
		if at[i] {
			switch {
			case st.GetConsensusAlgorithm() == state.DPOS:
				blk.Transactions = append(blk.Transactions, modeTx("pow", height))
				out.Placed++
				out.ToPOW++
				shape += "P"
			case st.DPOSWorkHeight <= height:
				blk.Transactions = append(blk.Transactions, modeTx("dpos", height))
				out.Placed++
				shape += "D"
			default:
				out.Skipped++
				shape += "-"
			}
		}
		lBefore, aBefore := st.GetLastIrreversibleHeight(), st.GetConsensusAlgorithm()
		st.ProcessBlock(blk, nil, 0)
		out.Blocks++
		lAfter := st.GetLastIrreversibleHeight()
		if aBefore == state.POW && st.GetConsensusAlgorithm() == state.DPOS {
			out.ToDPOS++
		}
		if lAfter > lBefore {
			out.LMoves++
		}
		// guard: with `height` as the best height, detaching d blocks removes the heights
		// height-d+1..height; whatever the consensus mode, that must be refused as soon as one of
		// them is at or below the recorded L (independent reference: plain comparison)
		if lAfter > 0 && height > p.CRCOnlyDPOSHeight {
			for d := 1; d <= int(height); d++ {
				out.GuardEvals++
				if height-uint32(d) < lAfter {
					out.GuardMustRefuse++
					if !st.IsIrreversible(height, d) {
						return chainkit.Failf("C30|guard|detach-at-or-below-L-allowed|state-tier|algo="+st.GetConsensusAlgorithm().String(),
							"after State.ProcessBlock(height %d, mode-tx positions %v): IsIrreversible(%d, %d) = false although that detaches height %d <= last irreversible height %d (consensus %s)",
							height, pos, height, d, height-uint32(d)+1, lAfter, st.GetConsensusAlgorithm())
					}
				}
			}
		}
		if lAfter < lBefore {
			return chainkit.Failf("C30|monotonic|L-decreased|state-tier|algo="+st.GetConsensusAlgorithm().String(),
				"State.ProcessBlock(height %d, mode-tx positions %v): last irreversible height %d -> %d (consensus %s, DPOSStartHeight %d, DPOSWorkHeight %d)",
				height, pos, lBefore, lAfter, st.GetConsensusAlgorithm(), st.DPOSStartHeight, st.DPOSWorkHeight)
		}
	}
	if out.Shapes == nil {
		out.Shapes = map[string]int{}
	}
	out.Shapes[shape]++
	return nil
}

func stateHandler(raw []byte) interface{} {
	var rq stReq
	var out stResp
	json.Unmarshal(raw, &rq)
	chainkit.Setup()
	for _, seq := range rq.Seqs {
		out.Sequences++
		if f := runStateSeq(seq, &out); f != nil {
			// confirm twice
			var o2, o3 stResp
			f2, f3 := runStateSeq(seq, &o2), runStateSeq(seq, &o3)
			if f2 == nil || f3 == nil || f2.Sig != f.Sig || f3.Sig != f.Sig {
				evid.Fatalf("C30: state-tier failure does not reproduce for %v", seq)
			}
			out.Fails = append(out.Fails, stFail{F: f, Seq: seq})
		}
	}
	return out
}

// all position sets of size <= stMaxTx over stLen slots, lexicographic
func allPositionSets(stMaxTx int) [][]int {
	var out [][]int
	var rec func(start int, cur []int)
	rec = func(start int, cur []int) {
		out = append(out, append([]int{}, cur...))
		if len(cur) == stMaxTx {
			return
		}
		for i := start; i < stLen; i++ {
			rec(i+1, append(cur, i))
		}
	}
	rec(0, nil)
	return out
}

// ---------------------------------------------------------------------------------------------

func handler(raw []byte) interface{} {
	if strings.Contains(string(raw[:min(len(raw), 40)]), `"kind":"state"`) {
		return stateHandler(raw)
	}
	return chainkit.BFSHandler(chainkit.Multi(newNodeSys))(raw)
}

func min(a, b int) int {
	if a < b {
		return a
	}
	return b
}

func main() {
	if chainkit.Serve(handler) {
		return
	}
	r := evid.Start("C30", "model_checking")
	if r.Replay != "" {
		var a struct {
			Scenario string   `json:"scenario"`
			History  []string `json:"history"`
			Seq      []int    `json:"seq"`
		}
		r.LoadReplay(&a)
		if a.Scenario == "state-tier" {
			chainkit.Setup()
			var o stResp
			f := runStateSeq(a.Seq, &o)
			if f != nil {
				fmt.Printf("replay: state-tier %v -> FAIL %s: %s\n", a.Seq, f.Sig, f.What)
				r.Violate(f.Sig, f.What, map[string]interface{}{"scenario": "state-tier", "seq": a.Seq})
			} else {
				fmt.Printf("replay: state-tier %v -> ok\n", a.Seq)
			}
			chainkit.Cleanup()
			r.Finish(evid.Coverage{})
		}
		d1, _, _, f1, at := chainkit.RunHistory(newNodeSys, a.Scenario, a.History, false)
		d2, _, _, f2, _ := chainkit.RunHistory(newNodeSys, a.Scenario, a.History, false)
		chainkit.Cleanup()
		if d1 != d2 || (f1 == nil) != (f2 == nil) {
			evid.Fatalf("replay is not deterministic")
		}
		if f1 != nil {
			fmt.Printf("replay: %s %v -> FAIL at op %d %s: %s\n", a.Scenario, a.History, at, f1.Sig, f1.What)
			r.Violate(f1.Sig, f1.What, map[string]interface{}{"scenario": a.Scenario, "history": a.History})
		} else {
			fmt.Printf("replay: %s %v -> ok, digest %s\n", a.Scenario, a.History, d1)
		}
		r.Finish(evid.Coverage{})
	}
	deadline := time.Now().Add(chainkit.Budget(r.Pick(85, 1500)))
	pool, err := chainkit.StartPool(par.Workers())
	if err != nil {
		evid.Fatalf("C30: %v", err)
	}
	// state tier first (cheap)
	stMaxTx := r.Pick(2, 3)
	sets := allPositionSets(stMaxTx)
	var reqs []interface{}
	chunk := (len(sets) + 63) / 64
	for i := 0; i < len(sets); i += chunk {
		j := i + chunk
		if j > len(sets) {
			j = len(sets)
		}
		reqs = append(reqs, stReq{Kind: "state", Seqs: sets[i:j]})
	}
	t0 := time.Now()
	outs, deaths, err := pool.Map(reqs, deadline)
	if err != nil {
		evid.Fatalf("C30: %v", err)
	}
	for _, d := range deaths {
		if f := chainkit.DeathFail(d); f != nil {
			r.Violate("C30|state-tier|"+f.Sig, f.What, map[string]interface{}{"scenario": "state-tier", "request": d.Request})
		}
	}
	var stTot stResp
	stTot.Shapes = map[string]int{}
	stExhaustive := true
	for _, raw := range outs {
		if raw == nil {
			stExhaustive = false
			continue
		}
		var o stResp
		if err := json.Unmarshal(raw, &o); err != nil {
			evid.Fatalf("C30: %v", err)
		}
		stTot.Sequences += o.Sequences
		stTot.Blocks += o.Blocks
		stTot.Placed += o.Placed
		stTot.Skipped += o.Skipped
		stTot.ToPOW += o.ToPOW
		stTot.ToDPOS += o.ToDPOS
		stTot.LMoves += o.LMoves
		stTot.GuardEvals += o.GuardEvals
		stTot.GuardMustRefuse += o.GuardMustRefuse
		for k, v := range o.Shapes {
			stTot.Shapes[k] += v
		}
		for _, f := range o.Fails {
			r.Violate(f.F.Sig, f.F.What, map[string]interface{}{"scenario": "state-tier", "seq": f.Seq})
		}
	}
	fmt.Printf("state tier: %d sequences, %d blocks, %d mode transactions placed (%d to POW, %d effective returns to DPOS), %.0fs\n",
		stTot.Sequences, stTot.Blocks, stTot.Placed, stTot.ToPOW, stTot.ToDPOS, time.Since(t0).Seconds())

	// node-tier scenarios in two searches (first operation s:<scenario>; the mostly linear
	// scenarios share the workers level by level): first the forks rooted at or below L (the ones
	// the guard must refuse; they need the deepest histories), then the rest
	var critical, rest []string
	for _, nm := range scenarioNames(r.Tier) {
		var root int
		fmt.Sscanf(nm[1:], "%d-", &root)
		if root <= 3 {
			critical = append(critical, nm)
		} else {
			rest = append(rest, nm)
		}
	}
	results := map[string]*chainkit.GroupStat{}
	var states, transitions, execs int64
	exhaustive := stExhaustive
	var caps []string
	if !stExhaustive {
		caps = append(caps, "state tier cut by the time budget")
	}
	depth := 1 << 30
	total := map[string]int{}
	samples := []interface{}{}
	for gi, group := range [][]string{critical, rest} {
		res := chainkit.BFS(pool, chainkit.Multi(newNodeSys), chainkit.MultiName(group), 0, deadline, func(f *chainkit.Fail, h []string) {
			name, hist := chainkit.SplitMulti(h)
			r.Violate(f.Sig, f.What, map[string]interface{}{"scenario": name, "history": hist})
		})
		for k, v := range res.PerGroup {
			results[k] = v
		}
		states += res.States
		transitions += res.Transitions
		execs += res.Execs
		if !res.Exhaustive {
			exhaustive = false
			caps = append(caps, fmt.Sprintf("group %d: %s", gi+1, res.Cap))
		}
		if d := res.DepthDone - 1; d < depth {
			depth = d
		}
		for k, v := range res.Counters {
			total[k] += v
		}
		for _, s := range res.Samples {
			samples = append(samples, s)
		}
	}
	if depth < 0 {
		depth = 0
	}
	pool.Close()
	chainkit.Cleanup()
	if len(samples) == 0 {
		samples = append(samples, []string{})
	}
	if exhaustive && r.NumViolations() == 0 {
		if total["reorganisations_with_L_recorded"] == 0 || total["heavier_fork_refused_by_guard"] == 0 || total["L_first_recorded"] == 0 || stTot.ToPOW == 0 || stTot.ToDPOS == 0 {
			evid.Fatalf("C30: vacuous run: node tier %v, state tier %+v", total, stTot)
		}
	}
	shapeCount := len(stTot.Shapes)
	stTot.Shapes = nil
	cov := evid.Coverage{
		"states":                        states + int64(stTot.Blocks),
		"transitions":                   transitions + int64(stTot.Blocks),
		"traces_validated_against_impl": execs + int64(stTot.Sequences),
		"max_depth_completed":           depth,
		"exhaustive":                    exhaustive,
		"cap":                           strings.Join(caps, "; "),
		"node_tier": map[string]interface{}{
			"states": states, "transitions": transitions, "executions": execs,
			"scenarios": results, "non_vacuity": total,
			"regime": "VoteStartHeight 2, CRCOnlyDPOSHeight 3, RevertToPOWStartHeight 7, everything else regnet/pure-PoW; trunk of 9, L=1 first recorded at height 7, L=3 at the trunk tip",
		},
		"state_tier": map[string]interface{}{
			"totals": stTot, "distinct_transaction_shapes": shapeCount,
			"space": fmt.Sprintf("all sequences of %d consecutive blocks from height %d with <= %d consensus-mode transactions (RevertToPOW / RevertToDPOS chosen by the current mode), %d position sets", stLen, stStart, stMaxTx, len(sets)),
		},
		"rule":    "node tier: POW-consensus scenarios (trunk of 9 delivered, consensus set to POW with L=3 frozen, forks rooted at 3, 2, 1 extended block by block to height 13) and, under DPOS, for every fork root r in [L-2, tip-1] = [1,8] a BFS over all interleavings of {next trunk block T7..T9, fork blocks F(r+1)..F10 (every order for short forks, ascending and descending order for long ones), ReorganizeChain(highest known side fork block)} on a fresh chainkit node per transition; oracles: L never decreases unless the best height decreases, GetBlockHash(k) pinned for k <= max L seen, no ETBlockDisconnected at height <= L. state tier: exhaustive placement of <= 2 (quick) / 3 (thorough) consensus-mode transactions in 30 blocks driven through State.ProcessBlock; oracles: L never decreases; IsIrreversible(height, d) is true for every d that detaches a height <= L in either consensus mode",
		"samples": samples,
	}
	r.Assume = append(r.Assume,
		"node tier: blocks carry no DPoS confirmations and enter through BlockChain.ProcessBlock / ReorganizeChain directly (the confirmation-gating block pool is not in the loop); consensus algorithm stays DPOS there",
		"consensus-mode transitions themselves are driven on the state tier only (State.ProcessBlock, no validation, transactions placed where the node's rules allow them); on the node tier the POW mode with a frozen L is injected through the State's exported fields after the trunk, and only forks the guard must refuse are offered there (a permitted reorganisation would roll the state machine back across the injected change)",
		"rollback of the recorded height is C21's subject; here only forward progress is judged")
	r.Finish(cov)
}
